(* Proofs/PathProofs.v — C01: the model's path resolution (context.rs
   parse_json_visitor / navigate, evaluate2) against the declarative scope-stack
   semantics of Spec/Scope.v. *)
From Coq Require Import Lia List NArith Bool.
From HB Require Import Rt.Render Spec.Scope.
Import ListNotations.
Open Scope N_scope.
Open Scope list_scope.

#[local] Arguments N.add : simpl never.
#[local] Arguments N.sub : simpl never.
#[local] Arguments N.mul : simpl never.
#[local] Arguments N.div : simpl never.
#[local] Arguments N.modulo : simpl never.
#[local] Arguments N.eqb : simpl never.
#[local] Arguments N.ltb : simpl never.
#[local] Arguments N.leb : simpl never.

(* ------------------------------------------------------------------ *)
(* strings                                                             *)
(* ------------------------------------------------------------------ *)
Lemma str_eqb_eq a b : str_eqb a b = true <-> a = b.
Proof.
  unfold str_eqb. revert b. induction a as [|x a IH]; destruct b as [|y b]; cbn [list_eqb];
    split; intro H; try congruence; try reflexivity.
  - apply andb_true_iff in H as [H1 H2]. apply N.eqb_eq in H1. apply IH in H2. congruence.
  - inversion H; subst. apply andb_true_iff; split; [apply N.eqb_refl | apply IH; reflexivity].
Qed.

Lemma str_eqb_refl a : str_eqb a a = true.
Proof. apply str_eqb_eq; reflexivity. Qed.

Lemma str_eqb_neq a b : a <> b -> str_eqb a b = false.
Proof. intro H. destruct (str_eqb a b) eqn:E; [apply str_eqb_eq in E; contradiction | reflexivity]. Qed.

Lemma str_eqb_sym a b : str_eqb a b = str_eqb b a.
Proof.
  destruct (str_eqb a b) eqn:E.
  - apply str_eqb_eq in E; subst. symmetry; apply str_eqb_refl.
  - destruct (str_eqb b a) eqn:E'; [|reflexivity]. apply str_eqb_eq in E'; subst.
    rewrite str_eqb_refl in E; discriminate.
Qed.

Lemma str_cmp_eq a b : str_cmp a b = Eq <-> a = b.
Proof.
  revert b. induction a as [|x a IH]; destruct b as [|y b]; cbn [str_cmp]; split; intro H;
    try congruence; try reflexivity.
  - destruct (N.compare_spec x y) as [E|E|E]; try discriminate. subst. apply IH in H. congruence.
  - inversion H; subst. rewrite N.compare_refl. apply IH; reflexivity.
Qed.

(* ------------------------------------------------------------------ *)
(* walk / get_data against the spec's step / descend                   *)
(* ------------------------------------------------------------------ *)
Lemma walk_None ps : walk None ps = NavNone.
Proof. induction ps as [|p r IH]; [reflexivity | exact IH]. Qed.

Lemma walk_app d a b :
  walk d (a ++ b) =
  match walk d a with
  | NavSome v => walk (Some v) b
  | NavNone => NavNone
  | NavBadIndex s => NavBadIndex s
  end.
Proof.
  revert d. induction a as [|p a IH]; intro d.
  - cbn [app walk]. destruct d; [reflexivity | apply walk_None].
  - cbn [app walk]. destruct (get_data d p); [apply IH | | reflexivity].
    rewrite IH, walk_None. reflexivity.
Qed.

Lemma get_data_some v p w : get_data (Some v) p = NavSome w <-> step v p = Some w.
Proof.
  unfold get_data, step. destruct v; try (split; discriminate).
  - destruct (parse_usize p); [|split; discriminate].
    rewrite ?nth_N_spec; destruct (nth_error l (N.to_nat n)); split; congruence.
  - destruct (map_get m p); split; congruence.
Qed.

Lemma get_data_none v p : get_data (Some v) p = NavNone -> step v p = None.
Proof.
  unfold get_data, step. destruct v; try reflexivity.
  - destruct (parse_usize p); [|discriminate]. rewrite ?nth_N_spec; destruct (nth_error l (N.to_nat n)); congruence.
  - destruct (map_get m p); congruence.
Qed.

Lemma get_data_bad v p s :
  get_data (Some v) p = NavBadIndex s <-> s = p /\ parse_usize p = None /\ exists l, v = JArr l.
Proof.
  unfold get_data. destruct v; try (split; [discriminate | intros (_ & _ & l & Hl); discriminate]).
  - destruct (parse_usize p) eqn:E.
    + rewrite ?nth_N_spec; destruct (nth_error l (N.to_nat n)); (split; [discriminate | intros (_ & H & _); discriminate]).
    + split; [intro H; inversion H; eauto | intros (-> & _ & _); reflexivity].
  - destruct (map_get m p); (split; [discriminate | intros (_ & _ & l & Hl); discriminate]).
Qed.

Lemma walk_some v ps w : walk (Some v) ps = NavSome w <-> descend v ps = Some w.
Proof.
  revert v. induction ps as [|p r IH]; intro v; cbn [walk descend].
  - split; congruence.
  - destruct (get_data (Some v) p) eqn:E.
    + apply get_data_some in E. rewrite E. apply IH.
    + apply get_data_none in E. rewrite E, walk_None. split; discriminate.
    + split; [discriminate|]. apply get_data_bad in E as (_ & E & l & ->).
      cbn [step]. rewrite E. discriminate.
Qed.

Lemma walk_none v ps : walk (Some v) ps = NavNone -> descend v ps = None.
Proof.
  intro H. destruct (descend v ps) eqn:E; [|reflexivity].
  apply walk_some in E. congruence.
Qed.

Lemma nonindex_walk v ps s : nonindex_into_array v ps s -> walk (Some v) ps = NavBadIndex s.
Proof.
  intros (pre & post & l & -> & Hd & Hp).
  rewrite walk_app. apply walk_some in Hd. rewrite Hd. cbn [walk get_data]. rewrite Hp. reflexivity.
Qed.

Lemma walk_bad v ps s : walk (Some v) ps = NavBadIndex s <-> nonindex_into_array v ps s.
Proof.
  split; [|apply nonindex_walk].
  revert v. induction ps as [|p r IH]; intro v; cbn [walk]; [discriminate|].
  destruct (get_data (Some v) p) eqn:E.
  - intro H. apply IH in H as (pre & post & l & -> & Hd & Hp).
    exists (p :: pre), post, l. repeat split; try assumption.
    cbn [descend]. apply get_data_some in E. rewrite E. exact Hd.
  - rewrite walk_None. discriminate.
  - intro H. inversion H; subst. apply get_data_bad in E as (-> & Hp & l & ->).
    exists [], r, l. repeat split; assumption.
Qed.

(* trichotomy: the three outcomes of walk in spec terms *)
Lemma walk_spec v ps :
  match walk (Some v) ps with
  | NavSome w => descend v ps = Some w
  | NavNone => descend v ps = None
  | NavBadIndex s => nonindex_into_array v ps s
  end.
Proof.
  destruct (walk (Some v) ps) eqn:E.
  - apply walk_some; exact E.
  - apply walk_none; exact E.
  - apply walk_bad; exact E.
Qed.

Lemma nonindex_descend_none v ps s : nonindex_into_array v ps s -> descend v ps = None.
Proof.
  intro H. apply nonindex_walk in H. destruct (descend v ps) eqn:E; [|reflexivity].
  apply walk_some in E. congruence.
Qed.

(* ------------------------------------------------------------------ *)
(* the refinement relation between block stacks and scope stacks       *)
(* ------------------------------------------------------------------ *)
Lemma R_length D blocks scopes : R D blocks scopes -> length blocks = length scopes.
Proof. intro H; induction H; cbn; congruence. Qed.

Lemma R_nth D blocks scopes k b :
  R D blocks scopes -> nth_error blocks k = Some b ->
  exists sc, nth_error scopes k = Some sc /\ block_rel D b sc.
Proof.
  intro H. revert k. induction H as [|b0 sc0 bs scs H0 H IH]; intros k Hk.
  - destruct k; discriminate.
  - destruct k as [|k]; cbn in *.
    + inversion Hk; subst. eauto.
    + apply IH; exact Hk.
Qed.

Lemma R_params D blocks scopes n :
  R D blocks scopes ->
  match get_in_block_params blocks n with
  | Some (h, base) => exists v, find_param scopes n = Some v /\ holder_denotes D base h v
  | None => find_param scopes n = None
  end.
Proof.
  intro H. induction H as [|b sc bs scs H0 H IH]; cbn [get_in_block_params find_param]; [reflexivity|].
  destruct H0 as (_ & Hp & _). specialize (Hp n).
  destruct (map_get (b_params b) n) as [h|].
  - destruct Hp as (v & -> & Hd). eauto.
  - rewrite Hp. exact IH.
Qed.

(* ---------- R holds initially and is preserved ---------- *)
Lemma params_rel_nil D base : params_rel D base [] [].
Proof. intro n. reflexivity. Qed.

Lemma R_init D : R D [block_new] [root_scope D].
Proof.
  constructor; [|constructor]. split; [right; split; reflexivity|].
  split; [apply params_rel_nil | reflexivity].
Qed.

Lemma params_rel_single D base a h v :
  holder_denotes D base h v -> params_rel D base [(a, h)] [(a, v)].
Proof.
  intros Hd n. cbn [map_get]. destruct (str_eqb n a); [eauto | reflexivity].
Qed.

Lemma with_block_rel D bp param :
  pj_ok D param -> block_rel D (with_block bp param) (with_scope bp (pj_value param)).
Proof.
  unfold pj_ok, with_block, create_block, pj_value. intro Hok.
  destruct (pj_val param) as [j|j|j cp|] eqn:Ev; cbn [sc_context_path sc_json];
    destruct bp as [[a|a b]|]; cbn; (split; [|split]);
    try (left; reflexivity); try (right; split; [reflexivity | exact Hok]);
    try reflexivity; try apply params_rel_nil; try (apply params_rel_single; cbn; try reflexivity).
  rewrite app_nil_r. exact Hok.
Qed.

Lemma R_with D blocks scopes bp param :
  R D blocks scopes -> pj_ok D param ->
  R D (with_block bp param :: blocks) (with_scope bp (pj_value param) :: scopes).
Proof. intros HR Hok. constructor; [apply with_block_rel; exact Hok | exact HR]. Qed.

(* the With arm of call_helper pushes exactly with_block *)
Lemma with_unfold reg data ft f h s param rest :
  hv_params h = param :: rest ->
  is_truthy false (pj_value param) = true ->
  call_helper reg data ft (S f) HWith h s =
  rbind (opt_render reg data ft f (hv_tpl h) (push_block (with_block (hv_bp h) param) s))
        (fun _ s1 => ROk tt (pop_block s1)).
Proof.
  intros Hp Ht. cbn [call_helper has_call_inner]. unfold param_or. rewrite Hp. cbn [nth_error].
  rewrite Ht. unfold with_block. destruct (hv_bp h) as [[a|a b]|]; reflexivity.
Qed.

(* values produced by navigation satisfy pj_ok *)
Lemma navigate_pj_ok D segs blocks r rel :
  navigate D segs blocks = NavOk r -> pj_ok D {| pj_rel := rel; pj_val := r |}.
Proof.
  unfold navigate, pj_ok. cbn [pj_val].
  destruct (parse_json_visitor segs blocks) as [paths|paths v|]; [| |discriminate].
  - destruct (walk (Some D) paths) eqn:E; intro H; inversion H; subst; [exact E | exact I].
  - destruct (walk (Some v) paths); intro H; inversion H; subst; exact I.
Qed.

(* what expand_partial installs *)
Lemma R_partial D merged : R D [b_set_base_value block_new merged] [partial_scope merged].
Proof.
  constructor; [|constructor]. split; [left; reflexivity|].
  split; [apply params_rel_nil | reflexivity].
Qed.

(* pushing any related pair (used for each: see EachProofs.each_scope_R) *)
Lemma R_push D blocks scopes b sc :
  R D blocks scopes -> block_rel D b sc -> R D (b :: blocks) (sc :: scopes).
Proof. intros; constructor; assumption. Qed.

(* ------------------------------------------------------------------ *)
(* the visitor on grammar-shaped segment lists                         *)
(* ------------------------------------------------------------------ *)
Definition ups (k : nat) : list pathseg := repeat (SegRuled R_path_up) k.
Definition named (ns : list str) : list pathseg := map SegNamed ns.

Lemma merge_seg_names segs : merge_json_path segs = seg_names segs.
Proof. induction segs as [|[s|r] segs IH]; cbn; congruence. Qed.

Lemma seg_names_named ns : seg_names (named ns) = ns.
Proof. unfold named. induction ns; cbn; congruence. Qed.

Lemma seg_names_ups k rest : seg_names (ups k ++ rest) = seg_names rest.
Proof. unfold ups. induction k; cbn; [reflexivity | exact IHk]. Qed.

Lemma up_not_root : rule_eqb R_path_up R_path_root = false.
Proof. reflexivity. Qed.
Lemma up_is_up : rule_eqb R_path_up R_path_up = true.
Proof. reflexivity. Qed.

Lemma scan_ups blocks k rest d :
  visitor_scan blocks (ups k ++ rest) d = visitor_scan blocks rest (d + k)%nat.
Proof.
  revert d. induction k as [|k IH]; intro d; cbn [ups repeat app].
  - f_equal. lia.
  - cbn [visitor_scan]. rewrite up_not_root, up_is_up. fold (ups k). rewrite IH. f_equal. lia.
Qed.

Lemma strip_ups_named k ns : strip_ups (ups k ++ named ns) = (k, named ns).
Proof.
  induction k as [|k IH]; cbn [ups repeat app].
  - destruct ns; reflexivity.
  - cbn [strip_ups is_ruled]. rewrite up_is_up. fold (ups k). rewrite IH. reflexivity.
Qed.

Lemma skipn_ups_named k n more : skipn (S k) (ups k ++ named (n :: more)) = named more.
Proof. induction k as [|k IH]; [reflexivity | exact IH]. Qed.

Lemma length_ups_named k ns : length (ups k ++ named ns) = (k + length ns)%nat.
Proof. unfold ups, named. rewrite app_length, repeat_length, map_length. reflexivity. Qed.

(* ---------- outcome of navigation in spec terms ---------- *)
Definition outcome_ok (v : json) (names : list str) (o : nav_out) : Prop :=
  match o with
  | NavOk r => descend v names = (if sc_missing r then None else Some (sc_json r))
                /\ forall s, ~ nonindex_into_array v names s
  | NavErr e => exists s, e = RInvalidJsonIndex s /\ nonindex_into_array v names s
  | NavPanic => False
  end.

Lemma outcome_value v names :
  outcome_ok v names
    (match walk (Some v) names with
     | NavSome v' => NavOk (SDerived v')
     | NavNone => NavOk SMissing
     | NavBadIndex s => NavErr (RInvalidJsonIndex s)
     end).
Proof.
  pose proof (walk_spec v names) as H. destruct (walk (Some v) names) eqn:E; cbn; eauto;
    (split; [exact H | intros s Hn; apply nonindex_walk in Hn; congruence]).
Qed.

Lemma outcome_abs D pre v names :
  walk (Some D) pre = NavSome v ->
  outcome_ok v names
    (match walk (Some D) (pre ++ names) with
     | NavSome v' => NavOk (SContext v' (pre ++ names))
     | NavNone => NavOk SMissing
     | NavBadIndex s => NavErr (RInvalidJsonIndex s)
     end).
Proof.
  intro Hpre. rewrite walk_app, Hpre.
  pose proof (walk_spec v names) as H. destruct (walk (Some v) names) eqn:E; cbn; eauto;
    (split; [exact H | intros s Hn; apply nonindex_walk in Hn; congruence]).
Qed.

(* navigation through the block at level k *)
Lemma via_block D b sc names :
  block_rel D b sc ->
  outcome_ok (sc_value sc) names
    (match (match b_base_value b with
            | Some v => ResValue names v
            | None => ResAbsolute (b_base_path b ++ names)
            end) with
     | ResAbsolute paths =>
         match walk (Some D) paths with
         | NavSome v => NavOk (SContext v paths)
         | NavNone => NavOk SMissing
         | NavBadIndex s => NavErr (RInvalidJsonIndex s)
         end
     | ResValue paths v =>
         match walk (Some v) paths with
         | NavSome v' => NavOk (SDerived v')
         | NavNone => NavOk SMissing
         | NavBadIndex s => NavErr (RInvalidJsonIndex s)
         end
     | ResPanic => NavPanic
     end).
Proof.
  intros ([Hv | [Hv Hw]] & _ & _); rewrite Hv.
  - apply outcome_value.
  - apply outcome_abs; exact Hw.
Qed.

(* the core: k leading ../ then named segments *)
Theorem navigate_rel D blocks scopes k ns raw :
  R D blocks scopes ->
  (k < length scopes)%nat ->
  ((0 < k)%nat \/ explicit_this raw = true -> head_is_param scopes ns = false) ->
  exists v names,
    start_of scopes D (ups k ++ named ns) raw = Some (v, names)
    /\ outcome_ok v names (navigate D (ups k ++ named ns) blocks).
Proof.
  intros HR Hk Hside.
  assert (Hstart : start_of scopes D (ups k ++ named ns) raw = start_rel scopes (ups k ++ named ns) raw).
  { unfold start_of. destruct k; cbn [ups repeat app]; [destruct ns; reflexivity|].
    cbn [is_ruled]. change (rule_eqb R_path_root R_path_up) with false. reflexivity. }
  rewrite Hstart. unfold start_rel. rewrite strip_ups_named, seg_names_named.
  pose proof (R_length _ _ _ HR) as Hlen.
  destruct (nth_error blocks k) as [bk|] eqn:Ebk;
    [|apply nth_error_None in Ebk; lia].
  destruct (R_nth _ _ _ _ _ HR Ebk) as (sck & Esck & Hrel).
  (* the block the visitor uses when no block parameter is hit *)
  assert (Hvia : (if Nat.ltb 0 k
                  then match nth_error blocks k with Some b => Some b | None => hd_error blocks end
                  else hd_error blocks) = Some bk).
  { destruct k; cbn [Nat.ltb Nat.leb]; [destruct blocks; cbn in *; congruence | rewrite Ebk; reflexivity]. }
  unfold navigate, parse_json_visitor.
  rewrite scan_ups. cbn [Nat.add].
  destruct ns as [|n more].
  - (* no named segment: the value of scope k *)
    cbn [named map visitor_scan]. rewrite Esck. cbn [option_map].
    exists (sc_value sck), []. split; [reflexivity|].
    change merge_json_path with seg_names. rewrite seg_names_ups. cbn [seg_names].
    destruct (Nat.ltb 0 k); rewrite Hvia; apply (via_block D bk sck [] Hrel).
  - cbn [named map visitor_scan]. fold (named more).
    pose proof (R_params D blocks scopes n HR) as Hp.
    change (SegNamed n :: named more) with (named (n :: more)).
    change merge_json_path with seg_names. rewrite seg_names_ups, seg_names_named.
    assert (Hleb : Nat.leb (S k) (length (ups k ++ named (n :: more))) = true).
    { apply Nat.leb_le. rewrite length_ups_named. cbn [length]. lia. }
    rewrite Hleb, skipn_ups_named, seg_names_named.
    destruct (get_in_block_params blocks n) as [[h base]|] eqn:Eg.
    + (* the head names a block parameter *)
      destruct Hp as (v & Hfind & Hden).
      destruct (Nat.eqb k 0 && negb (explicit_this raw)) eqn:Eplain.
      * rewrite Hfind. exists v, more. split; [reflexivity|].
        destruct h as [ps|w]; cbn [holder_denotes] in Hden.
        -- rewrite app_assoc. apply outcome_abs; exact Hden.
        -- subst w. apply outcome_value.
      * exfalso. assert (Hc : (0 < k)%nat \/ explicit_this raw = true).
        { apply andb_false_iff in Eplain as [E|E].
          - left. apply Nat.eqb_neq in E. lia.
          - right. apply negb_false_iff in E. exact E. }
        apply Hside in Hc. cbn [head_is_param] in Hc. rewrite Hfind in Hc. discriminate.
    + (* no block parameter of that name anywhere *)
      rewrite Hp, Esck. cbn [option_map].
      exists (sc_value sck), (n :: more). split; [destruct (_ && _); reflexivity|].
      destruct (Nat.ltb 0 k); rewrite Hvia; apply (via_block D bk sck (n :: more) Hrel).
Qed.

(* @root.s... : no hypothesis on the stack at all *)
Theorem navigate_root D blocks scopes rest raw :
  start_of scopes D (SegRuled R_path_root :: rest) raw = Some (D, seg_names rest)
  /\ outcome_ok D (seg_names rest) (navigate D (SegRuled R_path_root :: rest) blocks).
Proof.
  split; [reflexivity|].
  unfold navigate, parse_json_visitor. cbn [visitor_scan].
  change (rule_eqb R_path_root R_path_root) with true. cbn [Nat.ltb Nat.leb].
  change merge_json_path with seg_names. cbn [seg_names].
  apply (outcome_abs D [] D (seg_names rest)). reflexivity.
Qed.

(* ------------------------------------------------------------------ *)
(* C01_paths in the form stated in Props/C01.v                         *)
(* ------------------------------------------------------------------ *)
Theorem paths D blocks scopes k ns raw :
  R D blocks scopes ->
  (k < length scopes)%nat ->
  ((0 < k)%nat \/ explicit_this raw = true -> head_is_param scopes ns = false) ->
  let segs := repeat (SegRuled R_path_up) k ++ map SegNamed ns in
  match navigate D segs blocks with
  | NavOk r =>
      designate scopes D (PathRelative segs raw) = (if sc_missing r then None else Some (sc_json r))
  | NavErr e =>
      exists v names s, start_of scopes D segs raw = Some (v, names)
                        /\ nonindex_into_array v names s /\ e = RInvalidJsonIndex s
  | NavPanic => False
  end.
Proof.
  intros HR Hk Hs segs.
  destruct (navigate_rel D blocks scopes k ns raw HR Hk Hs) as (v & names & Hst & Ho).
  fold (ups k) (named ns) in segs. subst segs. unfold designate. rewrite Hst.
  destruct (navigate D (ups k ++ named ns) blocks) as [r|e|]; cbn [outcome_ok] in Ho.
  - apply Ho.
  - destruct Ho as (s & -> & Hn). eauto 6.
  - exact Ho.
Qed.

Lemma nonindex_unique v names s s' :
  nonindex_into_array v names s -> nonindex_into_array v names s' -> s = s'.
Proof. intros H H'. apply nonindex_walk in H, H'. congruence. Qed.

(* exactly when the error arises (finding F9) *)
Theorem array_key_error D blocks scopes k ns raw s :
  R D blocks scopes ->
  (k < length scopes)%nat ->
  ((0 < k)%nat \/ explicit_this raw = true -> head_is_param scopes ns = false) ->
  let segs := repeat (SegRuled R_path_up) k ++ map SegNamed ns in
  navigate D segs blocks = NavErr (RInvalidJsonIndex s)
  <-> exists v names, start_of scopes D segs raw = Some (v, names) /\ nonindex_into_array v names s.
Proof.
  intros HR Hk Hs segs.
  destruct (navigate_rel D blocks scopes k ns raw HR Hk Hs) as (v & names & Hst & Ho).
  fold (ups k) (named ns) in segs. subst segs. split.
  - intro E. rewrite E in Ho. destruct Ho as (s' & E' & Hn). inversion E'; subst. eauto.
  - intros (v' & names' & Hst' & Hn). rewrite Hst in Hst'. inversion Hst'; subst v' names'.
    destruct (navigate D (ups k ++ named ns) blocks) as [r|e|]; cbn [outcome_ok] in Ho.
    + destruct Ho as (_ & Hno). exfalso. exact (Hno s Hn).
    + destruct Ho as (s' & -> & Hn'). f_equal. f_equal. exact (nonindex_unique _ _ _ _ Hn' Hn).
    + contradiction.
Qed.

Theorem paths_root D blocks scopes rest raw :
  let segs := SegRuled R_path_root :: rest in
  match navigate D segs blocks with
  | NavOk r =>
      designate scopes D (PathRelative segs raw) = (if sc_missing r then None else Some (sc_json r))
      /\ descend D (seg_names rest) = (if sc_missing r then None else Some (sc_json r))
  | NavErr e => exists s, nonindex_into_array D (seg_names rest) s /\ e = RInvalidJsonIndex s
  | NavPanic => False
  end.
Proof.
  intro segs. destruct (navigate_root D blocks scopes rest raw) as (Hst & Ho). subst segs.
  unfold designate. rewrite Hst.
  destruct (navigate D (SegRuled R_path_root :: rest) blocks) as [r|e|]; cbn [outcome_ok] in Ho.
  - split; apply Ho.
  - destruct Ho as (s & -> & Hn). eauto.
  - exact Ho.
Qed.

Theorem root_key_error D blocks rest s :
  navigate D (SegRuled R_path_root :: rest) blocks = NavErr (RInvalidJsonIndex s)
  <-> nonindex_into_array D (seg_names rest) s.
Proof.
  destruct (navigate_root D blocks [] rest []) as (_ & Ho). split.
  - intro E. rewrite E in Ho. destruct Ho as (s' & E' & Hn). inversion E'; subst. exact Hn.
  - intro Hn. destruct (navigate D (SegRuled R_path_root :: rest) blocks) as [r|e|]; cbn [outcome_ok] in Ho.
    + destruct Ho as (_ & Hno). exfalso. exact (Hno s Hn).
    + destruct Ho as (s' & -> & Hn'). f_equal. f_equal. exact (nonindex_unique _ _ _ _ Hn' Hn).
    + contradiction.
Qed.

(* @x and @../x *)
Theorem locals D scopes level name raw s :
  R D (s_blocks s) scopes ->
  evaluate2 D (PathLocal level name raw) s =
  ROk (match designate scopes D (PathLocal level name raw) with
       | Some v => SDerived v
       | None => SMissing
       end) s.
Proof.
  intro HR. unfold evaluate2, get_local_var, designate.
  destruct (nth_error (s_blocks s) (N.to_nat level)) as [b|] eqn:Eb.
  - destruct (R_nth _ _ _ _ _ HR Eb) as (sc & -> & (_ & _ & Hl)). rewrite Hl. reflexivity.
  - apply nth_error_None in Eb. rewrite (R_length _ _ _ HR) in Eb. apply nth_error_None in Eb.
    rewrite Eb. reflexivity.
Qed.

(* the same at the level of RenderContext::evaluate2: the state is unchanged,
   the only error is InvalidJsonIndex, there is no panic *)
Theorem paths_evaluate2 D scopes k ns raw st :
  R D (s_blocks st) scopes ->
  (k < length scopes)%nat ->
  ((0 < k)%nat \/ explicit_this raw = true -> head_is_param scopes ns = false) ->
  let p := PathRelative (repeat (SegRuled R_path_up) k ++ map SegNamed ns) raw in
  match evaluate2 D p st with
  | ROk r st' => st' = st /\ designate scopes D p = (if sc_missing r then None else Some (sc_json r))
  | RErr e st' => st' = st /\ exists s, e = mk_err (RInvalidJsonIndex s)
  | RPanic _ => False
  | RFuel => False
  end.
Proof.
  intros HR Hk Hs p. pose proof (paths D (s_blocks st) scopes k ns raw HR Hk Hs) as H.
  cbv zeta in H. subst p. unfold evaluate2.
  destruct (navigate D _ (s_blocks st)) as [r|e|].
  - split; [reflexivity | exact H].
  - destruct H as (v & names & s & _ & _ & ->). unfold rfail. split; [reflexivity | eauto].
  - exact H.
Qed.

(* ------------------------------------------------------------------ *)
(* outside the property's quantifier, but pinned                       *)
(* ------------------------------------------------------------------ *)
(* the visitor never takes the slice panic, whatever the segment list *)
Lemma scan_depth blocks segs d d' x fr :
  visitor_scan blocks segs d = (d', Some x, fr) -> (d' < d + length segs)%nat.
Proof.
  revert d. induction segs as [|[n|r] segs IH]; intro d; cbn [visitor_scan length].
  - discriminate.
  - intro H. inversion H; subst. lia.
  - destruct (rule_eqb r R_path_root); [discriminate|].
    destruct (rule_eqb r R_path_up); [|discriminate].
    intro H. apply IH in H. lia.
Qed.

Theorem navigate_never_panics D segs blocks : navigate D segs blocks <> NavPanic.
Proof.
  unfold navigate, parse_json_visitor.
  destruct (visitor_scan blocks segs 0) as [[depth bp] fr] eqn:E.
  destruct bp as [[[ps|v] base]|].
  - apply scan_depth in E. cbn [Nat.add] in E.
    replace (Nat.leb (S depth) (length segs)) with true by (symmetry; apply Nat.leb_le; lia).
    destruct (walk _ _); discriminate.
  - apply scan_depth in E. cbn [Nat.add] in E.
    replace (Nat.leb (S depth) (length segs)) with true by (symmetry; apply Nat.leb_le; lia).
    destruct (walk _ _); discriminate.
  - destruct (Nat.ltb 0 depth); [|destruct fr].
    + destruct (match nth_error blocks depth with Some b => Some b | None => hd_error blocks end) as [b|];
        [destruct (b_base_value b)|]; destruct (walk _ _); discriminate.
    + destruct (walk _ _); discriminate.
    + destruct (hd_error blocks) as [b|]; [destruct (b_base_value b)|]; destruct (walk _ _); discriminate.
Qed.

(* closed form of the visitor on k ../ followed by named segments *)
Definition via_res (blocks : list block) (k : nat) (names : list str) : resolved :=
  match (if Nat.ltb 0 k
         then match nth_error blocks k with Some b => Some b | None => hd_error blocks end
         else hd_error blocks) with
  | Some b =>
      match b_base_value b with
      | Some v => ResValue names v
      | None => ResAbsolute (b_base_path b ++ names)
      end
  | None => ResAbsolute names
  end.

Lemma visitor_ups_named blocks k ns :
  parse_json_visitor (ups k ++ named ns) blocks =
  match ns with
  | n :: more =>
      match get_in_block_params blocks n with
      | Some (BPValue v, _) => ResValue more v
      | Some (BPPath ps, base) => ResAbsolute (base ++ ps ++ more)
      | None => via_res blocks k (n :: more)
      end
  | [] => via_res blocks k []
  end.
Proof.
  unfold parse_json_visitor, via_res. rewrite scan_ups. cbn [Nat.add].
  change merge_json_path with seg_names.
  destruct ns as [|n more].
  - cbn [named map visitor_scan]. rewrite seg_names_ups. cbn [seg_names].
    destruct (Nat.ltb 0 k); reflexivity.
  - change (visitor_scan blocks (named (n :: more)) k) with (k, get_in_block_params blocks n, false).
    cbv iota beta.
    rewrite skipn_ups_named, seg_names_ups, !seg_names_named, length_ups_named. cbn [length].
    replace (Nat.leb (S k) (k + S (length more))) with true by (symmetry; apply Nat.leb_le; lia).
    destruct (get_in_block_params blocks n) as [[[ps|v] base]|]; try reflexivity.
    destruct (Nat.ltb 0 k); reflexivity.
Qed.

(* ../ beyond the outermost scope: the extra ../ are ignored altogether and
   the path resolves in the innermost block (`.or_else(front)`) *)
Theorem navigate_up_beyond D blocks k ns :
  (length blocks <= k)%nat ->
  navigate D (ups k ++ named ns) blocks = navigate D (named ns) blocks.
Proof.
  intro Hk. unfold navigate.
  change (parse_json_visitor (named ns) blocks) with (parse_json_visitor (ups 0 ++ named ns) blocks).
  rewrite !visitor_ups_named.
  assert (Hn : nth_error blocks k = None) by (apply nth_error_None; exact Hk).
  assert (Hv : forall names, via_res blocks k names = via_res blocks 0 names).
  { intro names. unfold via_res. rewrite Hn. destruct k; reflexivity. }
  destruct ns as [|n more]; rewrite Hv; reflexivity.
Qed.

(* F16, positive form: when the head names a block parameter of any enclosing
   block, leading ../ are ignored *)
Theorem navigate_up_param_ignored D blocks k n more x :
  get_in_block_params blocks n = Some x ->
  navigate D (ups k ++ named (n :: more)) blocks = navigate D (named (n :: more)) blocks.
Proof.
  intro Hg. unfold navigate.
  change (parse_json_visitor (named (n :: more)) blocks)
    with (parse_json_visitor (ups 0 ++ named (n :: more)) blocks).
  rewrite !visitor_ups_named, Hg. reflexivity.
Qed.

(* ------------------------------------------------------------------ *)
(* the three classes where the model departs from the property text    *)
(* ------------------------------------------------------------------ *)
(* {"o": {"x": "G"}, "x": "F"} inside {{#with o as |x|}} *)
Definition wO : json := JObj [(`"x", JStr (`"G"))].
Definition wD : json := JObj [(`"o", wO); (`"x", JStr (`"F"))].
Definition wParam : pj := {| pj_rel := Some (`"o"); pj_val := SContext wO [`"o"] |}.
Definition wBlocks : list block := [with_block (Some (BP1 (`"x"))) wParam; block_new].
Definition wScopes : list scope := [with_scope (Some (BP1 (`"x"))) wO; root_scope wD].
Definition wState : rstate := set_blocks (st_init None None None) wBlocks.

Lemma wR : R wD wBlocks wScopes.
Proof. apply (R_with wD [block_new] [root_scope wD] (Some (BP1 (`"x"))) wParam); [apply R_init | reflexivity]. Qed.

(* F9: {{a.x}} on {"a": [1]} is an InvalidJsonIndex error, not "nothing" *)
Theorem refuted_array_key :
  exists D blocks scopes ns raw s,
    R D blocks scopes
    /\ designate scopes D (PathRelative (map SegNamed ns) raw) = None
    /\ navigate D (map SegNamed ns) blocks = NavErr (RInvalidJsonIndex s).
Proof.
  exists (JObj [(`"a", JArr [JNum (PosInt 1)])]), [block_new],
         [root_scope (JObj [(`"a", JArr [JNum (PosInt 1)])])], [`"a"; `"x"], (`"a.x"), (`"x").
  split; [apply R_init|]. split; vm_compute; reflexivity.
Qed.

(* F16: {{../x}} inside {{#with o as |x|}} yields the block parameter (the
   object o), the scope rules designate the field x of the outer scope ("F") *)
Theorem refuted_up_param :
  exists D blocks scopes k ns raw r,
    R D blocks scopes /\ (k < length scopes)%nat
    /\ navigate D (repeat (SegRuled R_path_up) k ++ map SegNamed ns) blocks = NavOk r
    /\ designate scopes D (PathRelative (repeat (SegRuled R_path_up) k ++ map SegNamed ns) raw)
       <> (if sc_missing r then None else Some (sc_json r)).
Proof.
  exists wD, wBlocks, wScopes, 1%nat, [`"x"], (`"../x"), (SContext wO [`"o"]).
  split; [exact wR|]. split; [cbn; lia|]. split; [vm_compute; reflexivity|].
  vm_compute. discriminate.
Qed.

(* F17: {{this.x}} inside {{#with o as |x|}}: Path::parse drops the prefix, the
   segment list is that of {{x}}, and evaluation yields the block parameter
   (the object o) where the scope rules designate the field x of o ("G") *)
Theorem refuted_this_param :
  exists D scopes raw p st r,
    R D (s_blocks st) scopes
    /\ explicit_this raw = true
    /\ path_parse raw = Some p
    /\ evaluate D raw st = ROk r st
    /\ designate scopes D p <> (if sc_missing r then None else Some (sc_json r)).
Proof.
  exists wD, wScopes, (`"this.x"), (PathRelative [SegNamed (`"x")] (`"this.x")), wState,
         (SContext wO [`"o"]).
  split; [exact wR|]. split; [reflexivity|]. split; [vm_compute; reflexivity|].
  split; [vm_compute; reflexivity|]. vm_compute. discriminate.
Qed.

(* the prefix really is invisible in the AST: same segments as the bare name *)
Example this_prefix_erased :
  path_parse (`"this.x") = Some (PathRelative [SegNamed (`"x")] (`"this.x"))
  /\ path_parse (`"./x") = Some (PathRelative [SegNamed (`"x")] (`"./x"))
  /\ path_parse (`"x") = Some (PathRelative [SegNamed (`"x")] (`"x")).
Proof. repeat split; vm_compute; reflexivity. Qed.

(* hypotheses of `paths` are satisfiable by a non-trivial instance:
   {{../x}} inside {{#with o as |y|}} *)
Example paths_hyps_sat :
  let scopes := [with_scope (Some (BP1 (`"y"))) wO; root_scope wD] in
  let blocks := [with_block (Some (BP1 (`"y"))) wParam; block_new] in
  R wD blocks scopes /\ (1 < length scopes)%nat
  /\ ((0 < 1)%nat \/ explicit_this (`"../x") = true -> head_is_param scopes [`"x"] = false)
  /\ navigate wD (repeat (SegRuled R_path_up) 1 ++ map SegNamed [`"x"]) blocks
     = NavOk (SContext (JStr (`"F")) [`"x"]).
Proof.
  cbv zeta. split; [|split; [cbn; lia | split; [intros _; reflexivity | vm_compute; reflexivity]]].
  apply (R_with wD [block_new] [root_scope wD] (Some (BP1 (`"y"))) wParam); [apply R_init | reflexivity].
Qed.

(* ------------------------------------------------------------------ *)
(* C01_render_forms                                                    *)
(* ------------------------------------------------------------------ *)
Lemma render_array ft l :
  json_render ft (JArr l) = `"[" ++ join (`", ") (map (json_render ft) l) ++ `"]".
Proof.
  cbn [json_render]. f_equal. f_equal.
  induction l as [|x r IH]; [reflexivity|].
  destruct r as [|y r]; [reflexivity|].
  rewrite IH. reflexivity.
Qed.

Theorem render_forms ft :
  (forall s, json_render ft (JStr s) = s)
  /\ (forall n, json_render ft (JNum n) = num_render ft n)
  /\ json_render ft (JBool true) = `"true"
  /\ json_render ft (JBool false) = `"false"
  /\ json_render ft JNull = []
  /\ (forall l, json_render ft (JArr l) = `"[" ++ join (`", ") (map (json_render ft) l) ++ `"]")
  /\ (forall m, json_render ft (JObj m) = `"[object]").
Proof. repeat split; try reflexivity. apply render_array. Qed.

(* ------------------------------------------------------------------ *)
(* decimal printing then usize parsing is the identity below 2^64      *)
(* ------------------------------------------------------------------ *)
Lemma digit_char_digit d : d < 10 -> is_digit (digit_char d) = true /\ digit_char d - 48 = d.
Proof.
  intro H. unfold is_digit, digit_char. split; [|lia].
  apply andb_true_iff; split; apply N.leb_le; lia.
Qed.

(* acc, read as the low-order digits of a number, is worth m; w = 10^|acc| *)
Definition suffix_val (acc : str) (m w : N) : Prop :=
  forall a, digits_val acc a = Some (a * w + m).

Lemma suffix_val_cons d acc m w :
  d < 10 -> suffix_val acc m w -> suffix_val (digit_char d :: acc) (d * w + m) (10 * w).
Proof.
  intros Hd H a. cbn [digits_val]. destruct (digit_char_digit d Hd) as [-> ->].
  rewrite H. f_equal. lia.
Qed.

Lemma n_to_dec_go_val f : forall n acc m w,
  n < 2 ^ N.of_nat f -> suffix_val acc m w ->
  exists w', suffix_val (n_to_dec_go f n acc) (n * w + m) w'.
Proof.
  induction f as [|f IH]; intros n acc m w Hn Hacc.
  - cbn in Hn. assert (n = 0) by lia. subst. exists w. intro a. cbn [n_to_dec_go].
    rewrite Hacc. f_equal.
  - cbn [n_to_dec_go]. rewrite Nat2N.inj_succ, N.pow_succ_r' in Hn.
    assert (Hmod : n mod 10 < 10) by (apply N.mod_lt; lia).
    destruct (N.ltb_spec n 10) as [Hlt|Hge].
    + exists (10 * w). rewrite N.mod_small by exact Hlt. apply suffix_val_cons; assumption.
    + assert (Hdiv : n / 10 < 2 ^ N.of_nat f) by (apply N.div_lt_upper_bound; lia).
      destruct (IH (n / 10) (digit_char (n mod 10) :: acc) (n mod 10 * w + m) (10 * w) Hdiv
                   (suffix_val_cons _ _ _ _ Hmod Hacc)) as (w' & Hw').
      exists w'. replace (n * w + m) with (n / 10 * (10 * w) + (n mod 10 * w + m)); [exact Hw'|].
      rewrite (N.div_mod' n 10) at 3. lia.
Qed.

Lemma n_to_dec_go_head f : forall n acc,
  (f <> O \/ exists d rest, d < 10 /\ acc = digit_char d :: rest) ->
  exists d rest, d < 10 /\ n_to_dec_go f n acc = digit_char d :: rest.
Proof.
  induction f as [|f IH]; intros n acc H.
  - destruct H as [H|H]; [congruence | exact H].
  - cbn [n_to_dec_go]. assert (Hmod : n mod 10 < 10) by (apply N.mod_lt; lia).
    destruct (N.ltb n 10); [eauto|]. apply IH. right. eauto.
Qed.

Lemma parse_usize_cons c rest :
  c <> 43 ->
  parse_usize (c :: rest) =
  match digits_val (c :: rest) 0 with
  | Some n => if N.leb n u64_max then Some n else None
  | None => None
  end.
Proof.
  intro Hc. unfold parse_usize.
  destruct c as [|p]; [reflexivity|].
  do 6 (try (destruct p as [p|p|]; try reflexivity)). congruence.
Qed.

Theorem parse_usize_n_to_dec i : i <= u64_max -> parse_usize (n_to_dec i) = Some i.
Proof.
  intro Hi. unfold n_to_dec.
  set (f := S (N.to_nat (N.log2 i))).
  assert (Hlt : i < 2 ^ N.of_nat f).
  { unfold f. rewrite Nat2N.inj_succ, N2Nat.id.
    destruct (N.eq_dec i 0) as [->|Hne]; [cbn; lia|].
    apply N.log2_spec. lia. }
  destruct (n_to_dec_go_val f i [] 0 1 Hlt) as (w' & Hw').
  { intro a. cbn [digits_val]. f_equal. lia. }
  destruct (n_to_dec_go_head f i []) as (d & rest & Hd & E); [left; unfold f; congruence|].
  specialize (Hw' 0). rewrite E in *. rewrite parse_usize_cons by (unfold digit_char; lia).
  rewrite Hw'. replace (0 * w' + (i * 1 + 0)) with i by lia.
  apply N.leb_le in Hi. rewrite Hi. reflexivity.
Qed.

(* ------------------------------------------------------------------ *)
(* C01_lookup                                                          *)
(* ------------------------------------------------------------------ *)
Definition lookup_absent (reg : registry) (s : rstate) : rres scoped :=
  if r_strict reg then strict_error None s else ROk (SDerived JNull) s.

Theorem lookup_object reg h s coll idx rest m k :
  hv_params h = coll :: idx :: rest -> pj_value coll = JObj m -> pj_value idx = JStr k ->
  call_inner reg HLookup h s =
  match get_data (Some (JObj m)) k with
  | NavSome v => ROk (SDerived v) s
  | _ => if r_strict reg then strict_error None s else ROk (SDerived JNull) s
  end.
Proof.
  intros Hp Hc Hi. unfold call_inner, param_or. rewrite Hp. cbn [nth_error]. rewrite Hc, Hi.
  cbn [get_data]. destruct (map_get m k); reflexivity.
Qed.

Theorem lookup_array reg h s coll idx rest l i :
  hv_params h = coll :: idx :: rest -> pj_value coll = JArr l -> pj_value idx = JNum (PosInt i) ->
  call_inner reg HLookup h s =
  match nth_error l (N.to_nat i) with
  | Some v => ROk (SDerived v) s
  | None => if r_strict reg then strict_error None s else ROk (SDerived JNull) s
  end.
Proof.
  intros Hp Hc Hi. unfold call_inner, param_or. rewrite Hp. cbn [nth_error]. rewrite Hc, Hi.
  cbn [as_u64]. rewrite ?nth_N_spec; destruct (nth_error l (N.to_nat i)); reflexivity.
Qed.

(* ... which is one walk step along the segment spelled as the decimal index *)
Theorem lookup_array_walk reg h s coll idx rest l i :
  hv_params h = coll :: idx :: rest -> pj_value coll = JArr l -> pj_value idx = JNum (PosInt i) ->
  i <= u64_max ->
  call_inner reg HLookup h s =
  match get_data (Some (JArr l)) (n_to_dec i) with
  | NavSome v => ROk (SDerived v) s
  | _ => if r_strict reg then strict_error None s else ROk (SDerived JNull) s
  end.
Proof.
  intros Hp Hc Hi Hle. rewrite (lookup_array reg h s coll idx rest l i Hp Hc Hi).
  cbn [get_data]. rewrite parse_usize_n_to_dec by exact Hle.
  rewrite ?nth_N_spec; destruct (nth_error l (N.to_nat i)); reflexivity.
Qed.

(* every other combination of collection and index finds nothing *)
Theorem lookup_other reg h s coll idx rest :
  hv_params h = coll :: idx :: rest ->
  match pj_value coll, pj_value idx with
  | JObj _, JStr _ => False
  | JArr _, JNum (PosInt _) => False
  | _, _ => True
  end ->
  call_inner reg HLookup h s =
  if r_strict reg then strict_error None s else ROk (SDerived JNull) s.
Proof.
  intros Hp Hk. unfold call_inner, param_or. rewrite Hp. cbn [nth_error].
  destruct (pj_value coll); try reflexivity; destruct (pj_value idx); try reflexivity;
    try contradiction.
  destruct n; try contradiction; reflexivity.
Qed.

Example lookup_hyps_sat :
  let h := {| hv_name := `"lookup";
              hv_params := [ {| pj_rel := None; pj_val := SConstant (JArr [JNull; JBool true]) |};
                             {| pj_rel := None; pj_val := SConstant (JNum (PosInt 1)) |} ];
              hv_hash := []; hv_tpl := None; hv_inv := None; hv_bp := None; hv_block := false |} in
  exists coll idx rest l i,
    hv_params h = coll :: idx :: rest /\ pj_value coll = JArr l /\ pj_value idx = JNum (PosInt i)
    /\ i <= u64_max /\ nth_error l (N.to_nat i) = Some (JBool true).
Proof. cbv zeta. do 5 eexists. repeat split; try reflexivity. vm_compute. discriminate. Qed.

(* ------------------------------------------------------------------ *)
(* C01_evaluate                                                        *)
(* ------------------------------------------------------------------ *)
Lemma path_new_raw raw segs : path_raw (path_new raw segs) = raw.
Proof. unfold path_new. destruct (get_local_path_and_level segs) as [[lv n]|]; reflexivity. Qed.

Lemma path_parse_raw raw p : path_parse raw = Some p -> path_raw p = raw.
Proof.
  unfold path_parse. generalize (hb_parse (peg_fuel raw) R_path raw). intros r.
  destruct r as [ts| |]; try discriminate.
  generalize (parse_json_path raw ts (len raw) []). intros c.
  destruct c as [[segs rest]| | |]; try discriminate.
  intro E. injection E as <-. apply path_new_raw.
Qed.

Theorem evaluate_parsed data raw s :
  match path_parse raw with
  | Some p => path_raw p = raw /\ evaluate data raw s = evaluate2 data p s
  | None => evaluate data raw s = rfail (RInvalidJsonPath raw) s
  end.
Proof.
  unfold evaluate. pose proof (path_parse_raw raw) as H.
  generalize dependent (path_parse raw). intros o H.
  destruct o as [p|]; [|reflexivity]. split; [apply H|]; reflexivity.
Qed.

(* ------------------------------------------------------------------ *)
(* {{path}}: what render_expression writes                             *)
(* ------------------------------------------------------------------ *)
Lemma evaluate2_state data p s r s' : evaluate2 data p s = ROk r s' -> s' = s.
Proof.
  unfold evaluate2. destruct p as [segs raw|level name raw].
  - destruct (navigate data segs (s_blocks s)); unfold rfail; intro H; inversion H; reflexivity.
  - intro H; inversion H; reflexivity.
Qed.

Lemma res_id (x : rres unit) :
  match x with ROk u s' => ROk u s' | RErr e s' => RErr e s' | _ => x end = x.
Proof. destruct x; reflexivity. Qed.

Lemma expand_as_name_path reg data ft f pa s :
  expand_as_name reg data ft (S f) (PPath pa) s = ROk (path_raw pa) s.
Proof. reflexivity. Qed.

Lemma expand_param_path reg data ft f pa s :
  expand_param reg data ft (S f) (PPath pa) s =
  match s_modified s with
  | Some c =>
      rbind (evaluate2 c pa s) (fun r s1 =>
        ROk {| pj_rel := Some (path_raw pa); pj_val := SDerived (sc_json r) |} s1)
  | None =>
      rbind (evaluate2 data pa s) (fun r s1 =>
        ROk {| pj_rel := Some (path_raw pa); pj_val := r |} s1)
  end.
Proof. reflexivity. Qed.

(* one unfolding of render_expression for {{...}} (html = false), with the
   sibling functions kept folded *)
Lemma render_expression_unfold reg data ft f1 ht s :
  render_expression reg data ft (S f1) ht false s =
  let result :=
    (if is_name_only ht then
       rbind (expand_as_name reg data ft f1 (h_name ht) s) (fun helper_name s1 =>
         if helper_exists reg s1 helper_name then render_helper reg data ft f1 ht s1
         else
           rbind (expand_param reg data ft f1 (h_name ht) s1) (fun cj s2 =>
             if sc_missing (pj_val cj) then
               if r_strict reg then strict_error (pj_rel cj) s2
               else
                 match find_reg_helper reg HELPER_MISSING with
                 | Some hook =>
                     rbind (helper_from_template reg data ft f1 ht s2)
                           (fun h s3 => call_helper reg data ft f1 hook h s3)
                 | None => ROk tt s2
                 end
             else
               let '(output, s3) := do_escape reg (render_json ft (pj_value cj)) s2 in
               indent_aware_write output s3))
     else render_helper reg data ft f1 ht s) in
  match result with
  | ROk u s' => ROk u s'
  | RErr e s' => RErr e s'
  | x => x
  end.
Proof. reflexivity. Qed.

(* a bare {{path}} that is not a helper name: the value the path evaluates to
   is rendered by json_render, escaped, and written; a missing value renders
   nothing in non-strict mode when no helperMissing hook is registered *)
Theorem render_path_expr reg data ft f p s r bp tpl inv chain ibw :
  helper_exists reg s (path_raw p) = false ->
  s_modified s = None ->
  evaluate2 data p s = ROk r s ->
  render_expression reg data ft (S (S f)) (MkH (PPath p) [] [] bp tpl inv false chain ibw) false s =
  if sc_missing r then
    if r_strict reg then RErr (mk_err (RMissingVariable (Some (path_raw p)))) s
    else match find_reg_helper reg HELPER_MISSING with
         | Some hook =>
             rbind (helper_from_template reg data ft (S f)
                      (MkH (PPath p) [] [] bp tpl inv false chain ibw) s)
                   (fun h s3 => call_helper reg data ft (S f) hook h s3)
         | None => ROk tt s
         end
  else
    let '(output, s1) := do_escape reg (json_render ft (sc_json r)) s in
    indent_aware_write output s1.
Proof.
  intros Hh Hm He.
  rewrite render_expression_unfold. cbv zeta. rewrite res_id.
  cbn [is_name_only h_block h_params h_hash h_name negb andb].
  rewrite expand_as_name_path. cbn [rbind]. rewrite Hh.
  rewrite expand_param_path, Hm, He. cbn [rbind pj_val pj_rel pj_value].
  destruct (sc_missing r).
  - destruct (r_strict reg); [reflexivity|].
    destruct (find_reg_helper reg HELPER_MISSING) as [hook|]; reflexivity.
  - reflexivity.
Qed.

(* ---------- satisfiability of the hypotheses of the theorems above ---------- *)
Definition wReg : registry :=
  {| r_templates := []; r_sources := []; r_helpers := []; r_decorators := [];
     r_escape := escape_html; r_esc_mark := false; r_strict := false; r_dev := false;
     r_prevent_indent := false |}.

Example render_path_expr_sat :
  let p := PathRelative [SegNamed (`"o"); SegNamed (`"x")] (`"o.x") in
  let s := st_init None None None in
  helper_exists wReg s (path_raw p) = false /\ s_modified s = None
  /\ evaluate2 wD p s = ROk (SContext (JStr (`"G")) [`"o"; `"x"]) s
  /\ match render_expression wReg wD [] 5 (MkH (PPath p) [] [] None None None false false false) false s with
     | ROk _ s' => out_text (s_out s') = `"G"
     | _ => False
     end.
Proof. cbv zeta. repeat split; vm_compute; reflexivity. Qed.

Example up_param_ignored_sat :
  get_in_block_params wBlocks (`"x") = Some (BPPath [], [`"o"]).
Proof. reflexivity. Qed.

Example array_key_error_sat :
  let D := JObj [(`"a", JArr [JNum (PosInt 1)])] in
  R D [block_new] [root_scope D] /\ (0 < length [root_scope D])%nat
  /\ start_of [root_scope D] D (map SegNamed [`"a"; `"x"]) (`"a.x") = Some (D, [`"a"; `"x"])
  /\ nonindex_into_array D [`"a"; `"x"] (`"x").
Proof.
  cbv zeta. split; [apply R_init|]. split; [cbn; lia|]. split; [reflexivity|].
  exists [`"a"], [], [JNum (PosInt 1)]. repeat split; reflexivity.
Qed.

Example with_block_rel_sat : pj_ok wD wParam /\ is_truthy false (pj_value wParam) = true.
Proof. split; reflexivity. Qed.
