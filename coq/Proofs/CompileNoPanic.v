(* Proofs/CompileNoPanic.v — C04: the no-panic ladder for compile2, first rungs:
   line/column bounds and the slices that cannot panic when spans are in range. *)
From Coq Require Import List NArith Lia Bool Sorting.Sorted.
From HB Require Import Peg.Peg Peg.Grammar Tpl.Compile Proofs.PegFacts.
Import ListNotations.
Open Scope N_scope.

Arguments N.add : simpl never.
Arguments N.sub : simpl never.
Arguments N.mul : simpl never.
Arguments N.leb : simpl never.
Arguments N.ltb : simpl never.
Arguments N.eqb : simpl never.

(* ---------- the former F1 witness now compiles (the chained else accepts `~`) ---------- *)
Example chain_tilde_compiles :
  compile2 (`"{{#if a}}A{{~else if b}}B{{/if}}") default_opts =
  COk (MkT None
        [ElBlock
           (MkH (PName (`"if")) [PPath (PathRelative [SegNamed (`"a")] (`"a"))] [] None
              (Some (MkT None [ElRaw (`"A")] [(1, 10)]))
              (Some (MkT None
                       [ElBlock
                          (MkH (PName (`"if")) [PPath (PathRelative [SegNamed (`"b")] (`"b"))] [] None
                             (Some (MkT None [ElRaw (`"B")] [(1, 25)])) None true true false)] []))
              true true false)]
        [(1, 1)]).
Proof. vm_compute. reflexivity. Qed.

(* ---------- (i) line/column lie inside the source ---------- *)
Fixpoint count_lf (s : str) : N :=
  match s with
  | [] => 0
  | c :: r => (if N.eqb c 10 then 1 else 0) + count_lf r
  end.

Lemma line_col_go_bounds : forall n s l c, (length s <= n)%nat ->
  l <= fst (line_col_go s l c) /\ fst (line_col_go s l c) <= l + count_lf s /\
  (1 <= c -> 1 <= snd (line_col_go s l c)) /\ snd (line_col_go s l c) <= c + len s.
Proof.
  induction n as [|n IH]; intros s l c Hn.
  - destruct s; [|cbn [length] in Hn; lia]. cbn [line_col_go fst snd count_lf]. rewrite len_nil. lia.
  - destruct s as [|x r]; [cbn [line_col_go fst snd count_lf]; rewrite len_nil; lia|].
    cbn [length] in Hn. rewrite len_cons.
    assert (Hgen : forall l' c', l <= l' -> l' <= l + (if N.eqb x 10 then 1 else 0) ->
              1 <= c' -> c' <= c + 1 ->
              l <= fst (line_col_go r l' c') /\
              fst (line_col_go r l' c') <= l + ((if N.eqb x 10 then 1 else 0) + count_lf r) /\
              (1 <= c -> 1 <= snd (line_col_go r l' c')) /\
              snd (line_col_go r l' c') <= c + (1 + len r)).
    { intros l' c' H1 H2 H3 H4. destruct (IH r l' c') as (A & B & C & D); [lia|].
      repeat split; try lia; intros _; apply C; exact H3. }
    cbn [count_lf].
    destruct (N.eq_dec x 13) as [->|N13].
    + (* CR *)
      change (13 =? 10) with false.
      destruct r as [|y r'].
      * cbn [line_col_go fst snd count_lf]. rewrite len_nil. lia.
      * destruct (N.eq_dec y 10) as [->|N10].
        -- (* CRLF *)
           cbn [line_col_go count_lf]. change (10 =? 10) with true. rewrite len_cons.
           destruct (IH r' (l + 1) 1) as (A & B & C & D); [cbn [length] in Hn; lia|].
           repeat split; try lia.
        -- assert (E : line_col_go (13 :: y :: r') l c = line_col_go (y :: r') l (c + 1)).
           { cbn [line_col_go]. destruct y as [|p]; [reflexivity|].
             do 4 (destruct p as [p|p|]; try reflexivity). }
           rewrite E.
           destruct (IH (y :: r') l (c + 1)) as (A & B & C & D); [lia|].
           rewrite len_cons in D. cbn [count_lf] in B |- *. rewrite len_cons.
           repeat split; try lia.
    + destruct (N.eq_dec x 10) as [->|N10].
      * change (10 =? 10) with true. cbn [line_col_go].
        destruct (IH r (l + 1) 1) as (A & B & C & D); [lia|].
        repeat split; try lia.
      * assert (E : line_col_go (x :: r) l c = line_col_go r l (c + 1)).
        { cbn [line_col_go]. destruct x as [|p]; [reflexivity|].
          do 4 (destruct p as [p|p|]; try reflexivity); congruence. }
        rewrite E. replace (x =? 10) with false by (symmetry; apply N.eqb_neq; assumption).
        destruct (IH r l (c + 1)) as (A & B & C & D); [lia|].
        repeat split; try lia.
Qed.

Lemma count_lf_firstn k : forall s, count_lf (firstn k s) <= count_lf s.
Proof.
  induction k as [|k IH]; intros s; [cbn; lia|].
  destruct s as [|c r]; [cbn; lia|]. cbn [firstn count_lf]. specialize (IH r). lia.
Qed.

Theorem line_col_inside : forall (s : str) (pos l c : N),
  line_col s pos = (l, c) ->
  1 <= l /\ l <= 1 + count_lf s /\ 1 <= c /\ c <= 1 + pos /\ c <= 1 + len s.
Proof.
  intros s pos l c H. unfold line_col in H.
  destruct (line_col_go_bounds (length (firstn (N.to_nat pos) s)) (firstn (N.to_nat pos) s) 1 1 (le_n _))
    as (A & B & C & D).
  rewrite H in A, B, C, D. cbn [fst snd] in A, B, C, D.
  pose proof (count_lf_firstn (N.to_nat pos) s) as Hc.
  assert (Hl : len (firstn (N.to_nat pos) s) <= pos /\ len (firstn (N.to_nat pos) s) <= len s).
  { unfold len. rewrite firstn_length. lia. }
  repeat split; try lia.
Qed.

Example line_col_example : line_col (`"ab" ++ [13; 10] ++ `"c" ++ [10] ++ `"de") 6 = (3, 1).
Proof. reflexivity. Qed.

(* ---------- (ii) slices do not panic when the spans are in range ---------- *)
Lemma slice_some (s : str) a b : a <= b -> b <= len s ->
  exists r, slice s a b = Some r /\ len r = b - a.
Proof.
  intros Hab Hb. unfold slice.
  replace (a <=? b) with true by (symmetry; apply N.leb_le; assumption).
  replace (b <=? len s) with true by (symmetry; apply N.leb_le; assumption).
  cbn [andb]. eexists. split; [reflexivity|].
  unfold len in *. rewrite firstn_length, skipn_length. lia.
Qed.

Lemma slice_none_iff (s : str) a b : slice s a b = None <-> ~ (a <= b /\ b <= len s).
Proof.
  unfold slice. destruct (N.leb_spec a b); destruct (N.leb_spec b (len s)); cbn [andb];
    split; intros HH; try discriminate; try reflexivity; try lia; exfalso; apply HH; lia.
Qed.

Definition span_ok (src : str) (t : tok) : Prop := tk_start t <= tk_end t /\ tk_end t <= len src.

Lemma span_str_ok src t site : span_ok src t -> exists s, span_str src t site = COk s.
Proof.
  intros [A B]. unfold span_str. destruct (slice_some src _ _ A B) as (r & E & _).
  rewrite E. eexists. reflexivity.
Qed.

Lemma remove_at_some : forall (s : str) i, (i < length s)%nat ->
  exists s', remove_at s i = Some s' /\ length s = S (length s').
Proof.
  induction s as [|c r IH]; intros i Hi; cbn [length] in Hi; [lia|].
  destruct i as [|i]; cbn [remove_at].
  - eexists. split; reflexivity.
  - destruct (IH i) as (s' & E & L); [lia|]. rewrite E. eexists. split; [reflexivity|].
    cbn [length]. lia.
Qed.

(* remove_escapes: the escape list is given last-first (rev escs); it is enough
   that the starts are strictly decreasing along that list and all relative
   indices are inside the text *)
Lemma remove_escapes_ok : forall (escs_rev : list tok) (s : str) offset cs,
  (forall e, In e escs_rev -> cs <= offset + tk_start e) ->
  StronglySorted (fun a b => tk_start b < tk_start a) escs_rev ->
  (forall e, In e escs_rev -> offset + tk_start e - cs < len s) ->
  exists s', remove_escapes s offset cs escs_rev = COk s'.
Proof.
  induction escs_rev as [|e r IH]; intros s offset cs Hlo Hsort Hin; cbn [remove_escapes].
  - eexists. reflexivity.
  - assert (He : (N.to_nat (offset + tk_start e - cs) < length s)%nat).
    { specialize (Hin e (or_introl eq_refl)). unfold len in Hin. lia. }
    destruct (remove_at_some s _ He) as (s' & E & L). rewrite E.
    inversion Hsort as [|x l Hs Hall]; subst.
    apply IH; [intros; apply Hlo; right; assumption | assumption |].
    intros e' He'. rewrite Forall_forall in Hall. specialize (Hall e' He').
    pose proof (Hlo e' (or_intror He')). pose proof (Hlo e (or_introl eq_refl)).
    specialize (Hin e (or_introl eq_refl)). unfold len in *. lia.
Qed.

(* raw_string: with no escapes it cannot panic; with escapes it cannot panic if
   the raw_text span is not longer than the text and the escape tokens lie
   inside the span, strictly ordered by start *)
Lemma raw_string_plain_ok text a b : exists el, raw_string text None a b = COk el.
Proof. unfold raw_string. cbn [cbind]. destruct a; [|destruct b]; eexists; reflexivity. Qed.

Definition escapes_inside (p : tok) (escs : list tok) : Prop :=
  StronglySorted (fun a b => tk_start a < tk_start b) escs /\
  (forall e, In e escs -> tk_start p <= tk_start e /\ tk_start e < tk_end p).


Lemma StronglySorted_app_single {A} (R : A -> A -> Prop) l x :
  StronglySorted R l -> Forall (fun y => R y x) l -> StronglySorted R (l ++ [x]).
Proof.
  induction 1 as [|y l Hs IH Hall]; intros Hf; cbn [app].
  - constructor; constructor.
  - inversion Hf; subst. constructor; [apply IH; assumption|].
    apply Forall_app. split; [assumption | constructor; [assumption|constructor]].
Qed.

Lemma StronglySorted_rev {A} (R : A -> A -> Prop) l :
  StronglySorted R l -> StronglySorted (fun a b => R b a) (rev l).
Proof.
  induction 1 as [|x l Hs IH Hall]; cbn [rev]; [constructor|].
  apply StronglySorted_app_single; [assumption|].
  apply Forall_forall. intros y Hy. apply in_rev in Hy. rewrite Forall_forall in Hall. auto.
Qed.

Lemma raw_string_ok text p escs a b :
  tk_start p <= tk_end p -> tk_end p - tk_start p <= len text -> escapes_inside p escs ->
  exists el, raw_string text (Some (p, escs)) a b = COk el.
Proof.
  intros Hp Hlen [Hsort Hin]. unfold raw_string.
  replace (len text <? tk_end p - tk_start p) with false by (symmetry; apply N.ltb_ge; assumption).
  destruct (remove_escapes_ok (rev escs) text (len text - (tk_end p - tk_start p)) (tk_start p))
    as (s' & E).
  - intros e He. apply in_rev in He. destruct (Hin e He). lia.
  - apply (StronglySorted_rev _ _ Hsort).
  - intros e He. apply in_rev in He. destruct (Hin e He). lia.
  - rewrite E. cbn [cbind]. destruct a; [|destruct b]; eexists; reflexivity.
Qed.

Lemma process_standalone_ok src ts t pi ip :
  tk_start t <= len src -> tk_end t <= len src -> ts <> [] ->
  exists b ts', process_standalone_statement src ts t pi ip = COk (b, ts') /\ length ts' = length ts.
Proof.
  intros Hs He Hts. unfold process_standalone_statement, suffix_from, prefix_to.
  destruct (slice_some src (tk_end t) (len src)) as (k & E1 & _); [assumption|lia|]. rewrite E1.
  match goal with |- context [if ?c then _ else _] => destruct c end.
  - destruct (slice_some src 0 (tk_start t)) as (k2 & E2 & _); [lia|assumption|]. rewrite E2.
    destruct (pi && ends_with_empty_line k2).
    + destruct ts as [|t0 r]; [congruence|]. cbn [cbind]. eexists _, _. split; reflexivity.
    + cbn [cbind]. eexists _, _. split; reflexivity.
  - eexists _, _. split; reflexivity.
Qed.
