(* Proofs/CompileNoPanic.v — C04: the no-panic ladder for compile2.
   The full statement is false on the model (finding F1, refuted below); the
   positive pieces are labelled individually. *)
From Coq Require Import List NArith Lia Bool.
From HB Require Import Peg.Peg Peg.Grammar Tpl.Compile Proofs.PegFacts.
Import ListNotations.
Open Scope N_scope.

Arguments N.add : simpl never.
Arguments N.sub : simpl never.
Arguments N.mul : simpl never.
Arguments N.leb : simpl never.
Arguments N.ltb : simpl never.
Arguments N.eqb : simpl never.

(* ---------- F1: compile2 can panic ---------- *)
Theorem compile_panics :
  exists src site, compile2 src default_opts = CPanic site.
Proof.
  exists (`"{{#if a}}A{{~else if b}}B{{/if}}"), (`"parse_name unreachable").
  vm_compute. reflexivity.
Qed.

(* ---------- (i) line/column lie inside the source ---------- *)
Fixpoint count_lf (s : str) : N :=
  match s with
  | [] => 0
  | c :: r => (if N.eqb c 10 then 1 else 0) + count_lf r
  end.

Lemma line_col_go_bounds : forall n s l c, (length s <= n)%nat ->
  l <= fst (line_col_go s l c) /\ fst (line_col_go s l c) <= l + count_lf s /\
  (1 <= c -> 1 <= snd (line_col_go s l c)) /\ snd (line_col_go s l c) <= c + len s.
Proof.
  induction n as [|n IH]; intros s l c Hn.
  - destruct s; [|cbn [length] in Hn; lia]. cbn [line_col_go fst snd count_lf]. rewrite len_nil. lia.
  - destruct s as [|x r]; [cbn [line_col_go fst snd count_lf]; rewrite len_nil; lia|].
    cbn [length] in Hn. rewrite len_cons.
    assert (Hgen : forall l' c', l <= l' -> l' <= l + (if N.eqb x 10 then 1 else 0) ->
              1 <= c' -> c' <= c + 1 ->
              l <= fst (line_col_go r l' c') /\
              fst (line_col_go r l' c') <= l + ((if N.eqb x 10 then 1 else 0) + count_lf r) /\
              (1 <= c -> 1 <= snd (line_col_go r l' c')) /\
              snd (line_col_go r l' c') <= c + (1 + len r)).
    { intros l' c' H1 H2 H3 H4. destruct (IH r l' c') as (A & B & C & D); [lia|].
      repeat split; try lia; intros _; apply C; exact H3. }
    cbn [count_lf].
    destruct (N.eq_dec x 13) as [->|N13].
    + (* CR *)
      change (13 =? 10) with false.
      destruct r as [|y r'].
      * cbn [line_col_go fst snd count_lf]. rewrite len_nil. lia.
      * destruct (N.eq_dec y 10) as [->|N10].
        -- (* CRLF *)
           cbn [line_col_go count_lf]. change (10 =? 10) with true. rewrite len_cons.
           destruct (IH r' (l + 1) 1) as (A & B & C & D); [cbn [length] in Hn; lia|].
           repeat split; try lia.
        -- assert (E : line_col_go (13 :: y :: r') l c = line_col_go (y :: r') l (c + 1)).
           { cbn [line_col_go]. destruct y as [|p]; [reflexivity|].
             do 4 (destruct p as [p|p|]; try reflexivity). }
           rewrite E.
           destruct (IH (y :: r') l (c + 1)) as (A & B & C & D); [lia|].
           rewrite len_cons in D. cbn [count_lf] in B |- *. rewrite len_cons.
           repeat split; try lia.
    + destruct (N.eq_dec x 10) as [->|N10].
      * change (10 =? 10) with true. cbn [line_col_go].
        destruct (IH r (l + 1) 1) as (A & B & C & D); [lia|].
        repeat split; try lia.
      * assert (E : line_col_go (x :: r) l c = line_col_go r l (c + 1)).
        { cbn [line_col_go]. destruct x as [|p]; [reflexivity|].
          do 4 (destruct p as [p|p|]; try reflexivity); congruence. }
        rewrite E. replace (x =? 10) with false by (symmetry; apply N.eqb_neq; assumption).
        destruct (IH r l (c + 1)) as (A & B & C & D); [lia|].
        repeat split; try lia.
Qed.

Lemma count_lf_firstn k : forall s, count_lf (firstn k s) <= count_lf s.
Proof.
  induction k as [|k IH]; intros s; [cbn; lia|].
  destruct s as [|c r]; [cbn; lia|]. cbn [firstn count_lf]. specialize (IH r). lia.
Qed.

Theorem line_col_inside : forall (s : str) (pos l c : N),
  line_col s pos = (l, c) ->
  1 <= l /\ l <= 1 + count_lf s /\ 1 <= c /\ c <= 1 + pos /\ c <= 1 + len s.
Proof.
  intros s pos l c H. unfold line_col in H.
  destruct (line_col_go_bounds (length (firstn (N.to_nat pos) s)) (firstn (N.to_nat pos) s) 1 1 (le_n _))
    as (A & B & C & D).
  rewrite H in A, B, C, D. cbn [fst snd] in A, B, C, D.
  pose proof (count_lf_firstn (N.to_nat pos) s) as Hc.
  assert (Hl : len (firstn (N.to_nat pos) s) <= pos /\ len (firstn (N.to_nat pos) s) <= len s).
  { unfold len. rewrite firstn_length. lia. }
  repeat split; try lia.
Qed.

Example line_col_example : line_col (`"ab" ++ [13; 10] ++ `"c" ++ [10] ++ `"de") 6 = (3, 1).
Proof. reflexivity. Qed.
