(* Proofs/ConservationBlocksWs.v — C03 with blocks, up to whitespace, WITHOUT the
   no-trim hypothesis: `~` and the standalone rule remove whitespace only.
   The fold of Proofs/ConservationBlocks.v is carried out again with every text
   observed through `nonws`; the state carries no flag condition any more; the
   text pest skipped between two main-level tokens is whitespace (tiling and
   gaps_blank of Proofs/Conservation.v), so it may be pushed or dropped. *)
From Coq Require Import List NArith Lia Bool Sorting.Sorted.
From HB Require Import Base.Str Peg.Peg Peg.Grammar Tpl.Ast Tpl.Compile Spec.WfTokens
  Spec.AlignedSpec Spec.WsSpec Spec.StripTags Spec.StripTagsBlocks Spec.ChainSpec Spec.NonWs
  Proofs.PegFacts Proofs.PegTermination Proofs.PegForest Proofs.CompileBase Proofs.CompileNoPanic
  Proofs.CompileStages Proofs.CompilePositions Proofs.CompileTermination Proofs.GrammarSchema
  Proofs.RawBlockAdjacent Proofs.GrammarTemplates Proofs.WsProofs Proofs.ChainProofs Proofs.LeafStr
  Proofs.Conservation Proofs.ConservationBlocks.
Import ListNotations.
Open Scope N_scope.

Arguments N.add : simpl never.
Arguments N.sub : simpl never.
Arguments N.mul : simpl never.
Arguments N.leb : simpl never.
Arguments N.ltb : simpl never.
Arguments N.eqb : simpl never.

(* ================= W1: nonws and the trims ================= *)
Notation nw := nonws.

Lemma nw_app a b : nw (a ++ b) = nw a ++ nw b.
Proof. apply filter_app. Qed.

Lemma nw_all_ws w : forallb is_ws w = true -> nw w = [].
Proof.
  induction w as [|c w IH]; [reflexivity|]. cbn [forallb nonws filter]. intro H.
  apply andb_prop in H. destruct H as [Hc Hw]. rewrite Hc. cbn [negb]. apply IH. exact Hw.
Qed.

Lemma forallb_impl (f g : N -> bool) w : (forall c, f c = true -> g c = true) ->
  forallb f w = true -> forallb g w = true.
Proof.
  intros Hi. induction w as [|c w IH]; [reflexivity|]. cbn [forallb]. intro H.
  apply andb_prop in H. destruct H as [Hc Hw]. rewrite (Hi _ Hc), (IH Hw). reflexivity.
Qed.

Lemma nw_drop_while f s : (forall c, f c = true -> is_ws c = true) -> nw (drop_while f s) = nw s.
Proof.
  intros Hi. rewrite (dw_split f s) at 2. rewrite nw_app.
  rewrite (nw_all_ws (take_while f s)); [reflexivity|].
  eapply forallb_impl; [exact Hi | apply tw_all].
Qed.

Lemma nw_drop_while_end f s : (forall c, f c = true -> is_ws c = true) -> nw (drop_while_end f s) = nw s.
Proof.
  intros Hi. destruct (dwe_split f s) as (w & E & Hw). rewrite E at 2. rewrite nw_app.
  rewrite (nw_all_ws w); [rewrite app_nil_r; reflexivity|].
  eapply forallb_impl; [exact Hi | exact Hw].
Qed.

Lemma blank_ws c : is_blank c = true -> is_ws c = true.
Proof.
  unfold is_blank. intro H. apply orb_prop in H. destruct H as [H|H]; apply N.eqb_eq in H; subst; reflexivity.
Qed.

Lemma ws_char_ws c : ws_char c = true -> is_ws c = true.
Proof.
  unfold ws_char. intro H. repeat (apply orb_prop in H; destruct H as [H|H]);
    apply N.eqb_eq in H; subst; reflexivity.
Qed.

Lemma nw_trim_start s : nw (trim_start s) = nw s.
Proof. apply nw_drop_while. auto. Qed.
Lemma nw_trim_end s : nw (trim_end s) = nw s.
Proof. apply nw_drop_while_end. auto. Qed.
Lemma nw_trim_start_blank s : nw (trim_start_blank s) = nw s.
Proof. apply nw_drop_while. exact blank_ws. Qed.
Lemma nw_trim_end_blank s : nw (trim_end_blank s) = nw s.
Proof. apply nw_drop_while_end. exact blank_ws. Qed.

Lemma nw_strip_first_newline s : nw (strip_first_newline s) = nw s.
Proof.
  destruct (strip_first_newline_cases s) as [(r & -> & ->) | [(r & -> & ->) | (_ & _ & ->)]]; reflexivity.
Qed.

Lemma nw_ws_text o t s : nw (ws_text o t s) = nw s.
Proof.
  unfold ws_text. destruct o; [apply nw_trim_start|]. destruct t; [|reflexivity].
  rewrite nw_strip_first_newline. apply nw_trim_start_blank.
Qed.

Notation ntxt T := (nw (all_raw_text (t_els T))).

Lemma map_last_raw_nw f T : (forall s, nw (f s) = nw s) -> ntxt (map_last_raw f T) = ntxt T.
Proof.
  intros Hf. destruct T as [n es m]. unfold map_last_raw.
  destruct (rev es) as [|e r] eqn:E; [reflexivity|]. destruct e; try reflexivity.
  cbn [t_els]. rewrite <- (rev_involutive es), E. cbn [rev].
  rewrite !all_raw_text_app, !all_raw_text_one, !nw_app. cbn [art_e]. rewrite Hf. reflexivity.
Qed.

Lemma tag_ws_stack_nw src opts cls pr pre T r :
  exists T', tag_ws_stack src opts cls pr pre (T :: r) = T' :: r /\ ntxt T' = ntxt T.
Proof.
  unfold tag_ws_stack, lead_trim, sa_trim.
  assert (H1 : exists T1, (if pre then front_map trim_end (T :: r) else T :: r) = T1 :: r /\ ntxt T1 = ntxt T).
  { destruct pre; cbn [front_map]; eexists; (split; [reflexivity|]);
      [apply map_last_raw_nw; exact nw_trim_end | reflexivity]. }
  destruct H1 as (T1 & -> & E1).
  destruct (standalone_capable opts cls) as [pi|]; [|exists T1; split; [reflexivity | exact E1]].
  destruct (line_end_after src pr (o_is_partial opts) && (pi && line_start_before src pr)).
  - cbn [front_map]. eexists. split; [reflexivity|].
    rewrite (map_last_raw_nw _ _ nw_trim_end_blank). exact E1.
  - exists T1. split; [reflexivity | exact E1].
Qed.

(* ================= W2: what pest skips between main-level tokens is whitespace ================= *)
Definition wsgap (src : str) (a b : N) : Prop := nw (gap src a b) = [].

Fixpoint gaps_ok (src : str) (it : list tok) (pe : N) : Prop :=
  match it with
  | [] => wsgap src pe (len src)
  | t :: r =>
      match tag_classify (tk_rule t) with
      | KTemplate | KOtherRule => gaps_ok src r pe
      | KRawText | KRawBlockText => gaps_ok src r (tk_end t)
      | _ => wsgap src pe (tk_start t) /\ gaps_ok src r (tk_end t)
      end
  end.

Lemma gaps_ok_kids src l rest pe : Forall kid_tok l -> gaps_ok src (l ++ rest) pe = gaps_ok src rest pe.
Proof.
  induction 1 as [|t l Ht _ IH]; [reflexivity|].
  cbn [app gaps_ok]. unfold kid_tok in Ht. rewrite Ht. exact IH.
Qed.

Lemma covered_after sp : forall lo hi x, tiles lo hi sp -> x < lo -> covered sp x = false.
Proof.
  induction sp as [|[s e] r IH]; intros lo hi x Ht Hx; [reflexivity|].
  cbn [tiles] in Ht. destruct Ht as (A & B & C). unfold covered. cbn [existsb fst snd].
  replace (s <=? x) with false by (symmetry; apply N.leb_gt; lia). cbn [andb orb].
  apply (IH e hi x C). lia.
Qed.

Lemma forallb_firstn_skipn (f : N -> bool) : forall (l : str) m n,
  (forall i c, (m <= i < m + n)%nat -> nth_error l i = Some c -> f c = true) ->
  forallb f (firstn n (skipn m l)) = true.
Proof.
  induction l as [|x l IH]; intros m n H.
  - destruct m, n; reflexivity.
  - destruct m as [|m].
    + cbn [skipn]. destruct n as [|n]; [reflexivity|]. cbn [firstn forallb].
      rewrite (H 0%nat x) by (try lia; reflexivity). cbn [andb].
      apply (IH 0%nat n). intros i c Hi Hn. apply (H (S i) c); [lia | exact Hn].
    + cbn [skipn]. apply IH. intros i c Hi Hn. apply (H (S i) c); [lia | exact Hn].
Qed.

Lemma slice_chars_ws (src : str) a b :
  (forall x c, a <= x -> x < b -> nth_error src (N.to_nat x) = Some c -> is_ws c = true) ->
  nw (gap src a b) = [].
Proof.
  intros H. unfold gap, slice.
  destruct ((a <=? b) && (b <=? len src)) eqn:E; [|reflexivity].
  apply andb_prop in E. destruct E as [E1 E2]. apply N.leb_le in E1. apply N.leb_le in E2.
  apply nw_all_ws. apply forallb_firstn_skipn. intros i c Hi Hn.
  apply (H (N.of_nat i) c); [lia | lia |]. rewrite Nat2N.id. exact Hn.
Qed.

Lemma covered_cons_after s e sp x : e <= x -> covered ((s, e) :: sp) x = covered sp x.
Proof.
  intro H. unfold covered. cbn [existsb fst snd].
  replace (x <? e) with false by (symmetry; apply N.ltb_ge; exact H). rewrite andb_false_r. reflexivity.
Qed.

Lemma gaps_ok_tiles src : forall it pe hi,
  tiles pe hi (main_spans it) ->
  (forall x c, pe <= x -> nth_error src (N.to_nat x) = Some c ->
               covered (main_spans it) x = false -> is_ws c = true) ->
  gaps_ok src it pe.
Proof.
  induction it as [|t r IH]; intros pe hi Ht Hc.
  { cbn [gaps_ok]. apply slice_chars_ws. intros x c Hx1 Hx2 Hn. apply (Hc x c Hx1 Hn). reflexivity. }
  cbn [gaps_ok main_spans] in *.
  assert (Hmain : forall s e, main_spans (t :: r) = (s, e) :: main_spans r -> s = tk_start t -> e = tk_end t ->
            tiles pe hi ((s, e) :: main_spans r) ->
            (forall x c, pe <= x -> nth_error src (N.to_nat x) = Some c ->
               covered ((s, e) :: main_spans r) x = false -> is_ws c = true) ->
            wsgap src pe (tk_start t) /\ gaps_ok src r (tk_end t)).
  { intros s e _ -> -> Ht' Hc'. cbn [tiles] in Ht'. destruct Ht' as (A & B & C). split.
    - apply slice_chars_ws. intros x c Hx1 Hx2 Hn. apply (Hc' x c Hx1 Hn).
      unfold covered. cbn [existsb fst snd].
      replace (tk_start t <=? x) with false by (symmetry; apply N.leb_gt; lia). cbn [andb orb].
      apply (covered_after _ (tk_end t) hi x C). lia.
    - apply (IH (tk_end t) hi C). intros x c Hx Hn Hcov. apply (Hc' x c); [lia | exact Hn |].
      rewrite covered_cons_after by exact Hx. exact Hcov. }
  destruct (tag_classify (tk_rule t)) eqn:Ec;
    try (apply (Hmain (tk_start t) (tk_end t)); [cbn [main_spans]; rewrite Ec; reflexivity | reflexivity | reflexivity | exact Ht | exact Hc]);
    try (eapply IH; eassumption);
    try (destruct (Hmain (tk_start t) (tk_end t)) as [_ Hg];
         [cbn [main_spans]; rewrite Ec; reflexivity | reflexivity | reflexivity | exact Ht | exact Hc | exact Hg]).
Qed.

Theorem parse_gaps_ok fuel src ts :
  hb_parse fuel R_handlebars src = Parsed ts -> gaps_ok src (filter not_escape ts) 0.
Proof.
  intros Hp. apply (gaps_ok_tiles src _ 0 (len src)).
  - eapply tokens_tile_source. exact Hp.
  - intros x c _ Hn Hcov. apply ws_char_ws. eapply gaps_blank; eassumption.
Qed.

(* ================= W3: single steps, observed through nonws ================= *)
Section WsFold.
  Variable src : str.
  Variable all : list tok.
  Variable opts : copts.
  Hypothesis Hesc : escapes_sorted all.

  Notation strip := (strip_tags src all).
  Notation nstrip it pe := (nw (strip_tags src all it pe)).
  Notation SP := (Forall (span_ok src)).
  Notation txt T := (all_raw_text (t_els T)).
  Notation GO := (gaps_ok src).

  Lemma St_pe n k d lo c : St n k d lo c -> prev_end c = lo.
  Proof. intros [_ E]. exact E. Qed.

  Lemma tr_ws c pr lc c1 T r lo :
    trailing_string src c pr lc = COk c1 ->
    prev_end c = lo -> c_ts c = T :: r ->
    (rule_eqb (tk_rule pr) R_raw_block_end = false \/ tk_start pr = lo) ->
    wsgap src lo (tk_start pr) ->
    exists T1, c_ts c1 = T1 :: r /\ ntxt T1 = ntxt T /\ c_hs c1 = c_hs c /\ c_ds c1 = c_ds c.
  Proof.
    intros H Epe ET R4 Hws.
    destruct (trailing_string_spec src c pr lc c1 H) as (Ao & Ah & Ad & _ & Hf).
    destruct (trailing_fires c pr) eqn:Ef.
    - destruct Hf as (_ & Et1 & tx & Es & Hp). unfold trailing_push in Hp.
      destruct R4 as [R4 | R4].
      + rewrite R4 in Hp. destruct Hp as (t0 & r0 & E0 & E1). rewrite ET in E0. injection E0 as <- <-.
        rewrite Epe in Es.
        eexists. split; [exact E1|]. rewrite t_els_push, all_raw_text_app, all_raw_text_one, nw_app.
        cbn [art_e]. rewrite nw_ws_text. rewrite <- (gap_slice _ _ _ _ Es). unfold wsgap in Hws.
        rewrite Hws, app_nil_r. repeat split; assumption.
      + exfalso. unfold trailing_fires in Ef. fold (prev_end c) in Ef. rewrite Epe, R4, N.eqb_refl in Ef.
        cbn [negb] in Ef. rewrite andb_false_r in Ef. cbn in Ef. discriminate.
    - subst c1. exists T. repeat split; assumption.
  Qed.

  Lemma tag_core_ws f c pr it c' it' T r lo :
    step src all opts f c pr it = COk (c', it') ->
    expr_class (tag_classify (tk_rule pr)) = true ->
    prev_end c = lo -> c_ts c = T :: r ->
    (rule_eqb (tk_rule pr) R_raw_block_end = false \/ tk_start pr = lo) ->
    wsgap src lo (tk_start pr) ->
    exists c1 T1 e,
      trailing_string src c pr (line_col src (tk_start pr)) = COk c1 /\
      c_hs c1 = c_hs c /\ c_ds c1 = c_ds c /\
      tag_expr src f pr it = COk (e, it') /\
      tag_ws_stack src opts (tag_classify (tk_rule pr)) pr (es_pre e) (c_ts c1) = T1 :: r /\
      ntxt T1 = ntxt T.
  Proof.
    intros Es Hcls Epe ET R4 Hws.
    destruct (step_ws src all opts _ _ _ _ _ _ Es) as (c1 & Htr & Hw). cbv zeta in Hw.
    destruct (tr_ws c pr _ c1 T r lo Htr Epe ET R4 Hws) as (T0 & ET0 & EA0 & Eh & Ed).
    assert (Hall : exists e, tag_expr src f pr it = COk (e, it')).
    { destruct (tag_classify (tk_rule pr)); try discriminate Hcls;
        destruct Hw as (e & H1 & _); exists e; exact H1. }
    destruct Hall as (e & Hex).
    destruct (tag_ws_stack_nw src opts (tag_classify (tk_rule pr)) pr (es_pre e) T0 r) as (T1 & E1 & EA1).
    exists c1, T1, e. rewrite ET0. repeat split; try assumption. congruence.
  Qed.

  Lemma tag_class_main pr : expr_class (tag_classify (tk_rule pr)) = true ->
    match tag_classify (tk_rule pr) with
    | KTemplate | KOtherRule | KRawText | KRawBlockText => False | _ => True end.
  Proof. destruct (tag_classify (tk_rule pr)); cbn; try discriminate; intros; exact I. Qed.

  Lemma nstrip_tag pr l rest lo : KID l ->
    match tag_classify (tk_rule pr) with
    | KTemplate | KOtherRule | KRawText | KRawBlockText => False | _ => True end ->
    wsgap src lo (tk_start pr) ->
    nstrip (pr :: l ++ rest) lo = nstrip rest (tk_end pr).
  Proof.
    intros Hk Hc Hws. rewrite (strip_tag_cons src all pr l rest lo Hk Hc), nw_app. unfold wsgap in Hws.
    rewrite Hws. reflexivity.
  Qed.

  Lemma GO_tag pr l rest lo : KID l ->
    match tag_classify (tk_rule pr) with
    | KTemplate | KOtherRule | KRawText | KRawBlockText => False | _ => True end ->
    GO (pr :: l ++ rest) lo -> wsgap src lo (tk_start pr) /\ GO rest (tk_end pr).
  Proof.
    intros Hk Hc H. cbn [gaps_ok] in H. destruct (tag_classify (tk_rule pr)); try contradiction;
      rewrite gaps_ok_kids in H by exact Hk; exact H.
  Qed.

  Lemma ntxt_push T e lc : ntxt (t_push T e lc) = ntxt T ++ nw (art_e e).
  Proof. rewrite t_els_push, all_raw_text_app, all_raw_text_one, nw_app. reflexivity. Qed.
  Lemma ntxt_push_el T e : ntxt (t_push_el T e) = ntxt T ++ nw (art_e e).
  Proof. destruct T as [n es m]. cbn [t_push_el t_els]. rewrite all_raw_text_app, all_raw_text_one, nw_app. reflexivity. Qed.
  Lemma ntxt_push_map T lc : ntxt (t_push_map T lc) = ntxt T.
  Proof. destruct T; reflexivity. Qed.

  (* raw text *)
  Lemma W_raw f c s e rest c' it' n k d lo T r0 :
    step src all opts f c (R_raw_text, s, e) rest = COk (c', it') ->
    St n k d lo c -> (1 <= n)%nat -> c_ts c = T :: r0 -> lo <= s -> span_ok src (R_raw_text, s, e) ->
    GO ((R_raw_text, s, e) :: rest) lo ->
    it' = rest /\ St n k d e c' /\ c_hs c' = c_hs c /\ c_ds c' = c_ds c /\ GO rest e /\
    exists T', c_ts c' = T' :: r0 /\
               ntxt T' ++ nstrip rest e = ntxt T ++ nstrip ((R_raw_text, s, e) :: rest) lo.
  Proof.
    intros Es HSt Hn ET Hlo Hsp Hgo. pose proof (St_pe _ _ _ _ _ HSt) as Epe.
    pose proof (okres_ok _ _ _ (step_raw_text src all opts Hesc f c s e rest n k d lo HSt Hn Hlo Hsp) Es) as [E1 E2].
    cbn [fst snd] in E1, E2.
    destruct (text_element src all opts _ _ _ _ _ _ Es eq_refl)
      as (tx & s0 & t0 & r1 & Esl & Eun & Ets & Ets' & Eo' & Et' & _).
    destruct (step_blk src all opts _ _ _ _ _ _ Es) as (c1 & Htr & Hb). cbv zeta in Hb.
    cbn [tk_rule fst snd tag_classify] in Hb. destruct Hb as [Hh Hd].
    pose proof (trailing_string_text src c _ _ c1 Htr) as Hc1. cbn [tk_rule fst snd tag_classify] in Hc1. subst c1.
    rewrite ET in Ets. injection Ets as <- <-.
    rewrite Epe in Esl. cbn [tk_end snd] in Esl.
    split; [exact E1|]. split; [exact E2|]. split; [exact Hh|]. split; [exact Hd|].
    split; [exact Hgo|].
    eexists. split; [exact Ets'|]. rewrite ntxt_push. cbn [art_e]. rewrite nw_ws_text.
    cbn [strip_tags tk_rule tk_end fst snd tag_classify]. rewrite (gap_slice _ _ _ _ Esl).
    unfold unesc. rewrite Eun. rewrite nw_app, app_assoc. reflexivity.
  Qed.

  (* {{x}} {{{x}}} {{> p}} {{* d}} *)
  Lemma W_tag f c r s e l rest c' it' n k d lo T r0 :
    step src all opts f c (r, s, e) (l ++ rest) = COk (c', it') ->
    simple_tag r -> St n k d lo c -> (1 <= n)%nat -> c_ts c = T :: r0 -> lo <= s ->
    span_ok src (r, s, e) -> tag_toks e l -> SP l -> KID l -> next_ge e rest ->
    GO ((r, s, e) :: l ++ rest) lo ->
    it' = rest /\ St n k d e c' /\ c_hs c' = c_hs c /\ c_ds c' = c_ds c /\ GO rest e /\
    exists T', c_ts c' = T' :: r0 /\
               ntxt T' ++ nstrip rest e = ntxt T ++ nstrip ((r, s, e) :: l ++ rest) lo.
  Proof.
    intros Es Hr HSt Hn ET Hlo Hsp Ht Hsl Hk Hnx Hgo.
    pose proof (St_pe _ _ _ _ _ HSt) as Epe.
    destruct (simple_tag_rules r Hr) as (_ & _ & _ & R4).
    assert (Hcls : expr_class (tag_classify r) = true)
      by (destruct Hr as [E | [E | [E | E]]]; subst r; reflexivity).
    pose proof (tag_class_main (r, s, e) Hcls) as Hmain.
    destruct (GO_tag _ _ _ _ Hk Hmain Hgo) as [Hws Hgo']. cbn [tk_start tk_end fst snd] in Hws, Hgo'.
    destruct (tag_core_ws f c (r, s, e) _ c' it' T r0 lo Es Hcls Epe ET (or_introl R4) Hws) as
      (c1 & T1 & ex & Htr & Eh1 & Ed1 & Hex & Hws1 & EA1).
    cbn [tk_start tk_rule fst snd] in *.
    destruct (step_blk src all opts _ _ _ _ _ _ Es) as (c1' & Htr' & Hb). cbv zeta in Hb.
    cbn [tk_start tk_rule fst snd] in Htr', Hb.
    rewrite Htr in Htr'. apply cok_inj in Htr'. subst c1'.
    pose proof (nstrip_tag (r, s, e) l rest lo Hk Hmain Hws) as Hns. cbn [tk_end snd] in Hns.
    destruct (simple_tag_class r Hr) as (b & [Hc | Hc]).
    - pose proof (okres_ok _ _ _ (step_value src all opts f c r s e l rest n k d lo b Hc
                    HSt Hn Hlo Hsp Ht Hsl Hnx) Es) as [E1 E2].
      cbn [fst snd] in E1, E2.
      rewrite Hc in Hb, Hws1. destruct Hb as (e2 & t0 & r1 & Hex2 & Hst & Ets' & Hh & Hd).
      rewrite Hex in Hex2. apply cok_inj in Hex2. injection Hex2 as <-.
      rewrite Hws1 in Hst. injection Hst as <- <-.
      split; [exact E1|]. split; [exact E2|]. split; [congruence|]. split; [congruence|].
      split; [exact Hgo'|].
      eexists. split; [exact Ets'|]. rewrite ntxt_push, EA1.
      replace (nw (art_e (if b then ElHtml (mk_helper ex false false false) else ElExpr (mk_helper ex false false false)))) with (@nil N)
        by (destruct b; reflexivity).
      rewrite app_nil_r. apply (f_equal (app (ntxt T))). symmetry. exact Hns.
    - pose proof (okres_ok _ _ _ (step_deco_expr src all opts f c r s e l rest n k d lo b Hc
                    HSt Hn Hlo Hsp Ht Hsl Hnx) Es) as [E1 E2].
      cbn [fst snd] in E1, E2.
      rewrite Hc in Hb, Hws1. destruct Hb as (e2 & t0 & r1 & w & ind & Hex2 & Hst & Ets' & Hh & Hd).
      rewrite Hex in Hex2. apply cok_inj in Hex2. injection Hex2 as <-.
      rewrite Hws1 in Hst. injection Hst as <- <-.
      split; [exact E1|]. split; [exact E2|]. split; [congruence|]. split; [congruence|].
      split; [exact Hgo'|].
      eexists. split; [exact Ets'|]. rewrite ntxt_push, EA1.
      replace (nw (art_e (if b then ElPartExpr (d_set_indent (mk_deco ex w) ind) else ElDecoExpr (d_set_indent (mk_deco ex w) ind)))) with (@nil N)
        by (destruct b; reflexivity).
      rewrite app_nil_r. apply (f_equal (app (ntxt T))). symmetry. exact Hns.
  Qed.

  (* comments *)
  Lemma W_comment f c r s e rest c' it' n k d lo T r0 :
    step src all opts f c (r, s, e) rest = COk (c', it') ->
    comment_rule r -> St n k d lo c -> (1 <= n)%nat -> c_ts c = T :: r0 -> lo <= s ->
    span_ok src (r, s, e) -> GO ((r, s, e) :: rest) lo ->
    it' = rest /\ St n k d e c' /\ c_hs c' = c_hs c /\ c_ds c' = c_ds c /\ GO rest e /\
    exists T', c_ts c' = T' :: r0 /\
               ntxt T' ++ nstrip rest e = ntxt T ++ nstrip ((r, s, e) :: rest) lo.
  Proof.
    intros Es Hr HSt Hn ET Hlo Hsp Hgo.
    pose proof (St_pe _ _ _ _ _ HSt) as Epe.
    assert (exists compact, tag_classify r = KComment compact) as (compact & Hc)
      by (destruct Hr as [-> | ->]; eexists; reflexivity).
    assert (Hmain : match tag_classify (tk_rule (r, s, e)) with
                    | KTemplate | KOtherRule | KRawText | KRawBlockText => False | _ => True end)
      by (cbn [tk_rule fst]; rewrite Hc; exact I).
    destruct (GO_tag (r, s, e) [] rest lo (Forall_nil _) Hmain Hgo) as [Hws Hgo'].
    cbn [tk_start tk_end fst snd] in Hws, Hgo'.
    destruct (step_ws src all opts _ _ _ _ _ _ Es) as (c1 & Htr & Hw). cbv zeta in Hw.
    cbn [tk_rule tk_start fst snd] in Hw, Htr.
    assert (R4 : rule_eqb r R_raw_block_end = false) by (destruct Hr as [-> | ->]; reflexivity).
    destruct (tr_ws c (r, s, e) _ c1 T r0 lo Htr Epe ET (or_introl R4) Hws) as (T0 & ET0 & EA0 & Eh1 & Ed1).
    pose proof (okres_ok _ _ _ (step_comment src all opts f c r s e rest n k d lo compact Hc
                  HSt Hn Hlo Hsp) Es) as [E1 E2].
    cbn [fst snd] in E1, E2.
    rewrite Hc in Hw. destruct Hw as (_ & _ & Hown & _).
    destruct (tag_ws_stack_nw src opts (KComment compact) (r, s, e) false T0 r0) as (T1 & E1' & EA1).
    rewrite ET0, E1' in Hown. destruct Hown as (t0 & r1 & s0 & E0 & E'). injection E0 as <- <-.
    destruct (step_blk src all opts _ _ _ _ _ _ Es) as (c1' & Htr' & Hb). cbv zeta in Hb.
    cbn [tk_start tk_rule fst snd] in Htr', Hb.
    rewrite Htr in Htr'. apply cok_inj in Htr'. subst c1'. rewrite Hc in Hb. destruct Hb as [Hh Hd].
    split; [exact E1|]. split; [exact E2|]. split; [congruence|]. split; [congruence|].
    split; [exact Hgo'|].
    eexists. split; [exact E'|]. rewrite ntxt_push, EA1, EA0. cbn [art_e nonws filter]. rewrite app_nil_r.
    apply (f_equal (app (ntxt T))). symmetry.
    apply (nstrip_tag (r, s, e) [] rest lo (Forall_nil _) Hmain Hws).
  Qed.

  (* the `template` token in front of a body *)
  Lemma W_template f c s e rest c' it' n k d lo :
    step src all opts f c (R_template, s, e) rest = COk (c', it') ->
    St n k d lo c ->
    it' = rest /\ St (S n) k d lo c' /\ c_hs c' = c_hs c /\ c_ds c' = c_ds c /\
    c_ts c' = t_empty :: c_ts c.
  Proof.
    intros Es HSt.
    pose proof (okres_ok _ _ _ (step_template src all opts f c s e rest n k d lo HSt) Es) as [E1 E2].
    cbn [fst snd] in E1, E2.
    destruct (step_ws src all opts _ _ _ _ _ _ Es) as (c1 & Htr & Hw). cbv zeta in Hw.
    cbn [tk_rule fst snd tag_classify] in Hw. destruct Hw as (_ & _ & Ets' & _).
    destruct (step_blk src all opts _ _ _ _ _ _ Es) as (c1' & Htr' & Hb). cbv zeta in Hb.
    cbn [tk_rule fst snd tag_classify] in Hb. rewrite Htr in Htr'. apply cok_inj in Htr'. subst c1'.
    pose proof (trailing_string_text src c _ _ c1 Htr) as Hc1. cbn [tk_rule fst snd tag_classify] in Hc1. subst c1.
    destruct Hb as [Hh Hd]. split; [exact E1|]. split; [exact E2|]. split; [exact Hh|]. split; [exact Hd|exact Ets'].
  Qed.

  (* block start tags *)
  Lemma W_bstart f c r s e l rest c' it' n k d lo T r0 deco :
    step src all opts f c (r, s, e) (l ++ rest) = COk (c', it') ->
    tag_classify r = KBlockStart deco -> St n k d lo c -> (1 <= n)%nat -> c_ts c = T :: r0 -> lo <= s ->
    span_ok src (r, s, e) -> tag_toks e l -> SP l -> KID l -> next_ge e rest ->
    GO ((r, s, e) :: l ++ rest) lo ->
    it' = rest /\ St n (if deco then k else S k) (if deco then S d else d) e c' /\ GO rest e /\
    exists T1 ex w,
      c_ts c' = T1 :: r0 /\ ntxt T1 = ntxt T /\
      c_hs c' = (if deco then c_hs c else hstate ex w CS0 :: c_hs c) /\
      c_ds c' = (if deco then mk_deco ex w :: c_ds c else c_ds c) /\
      nstrip ((r, s, e) :: l ++ rest) lo = nstrip rest e.
  Proof.
    intros Es Hc HSt Hn ET Hlo Hsp Ht Hsl Hk Hnx Hgo.
    pose proof (St_pe _ _ _ _ _ HSt) as Epe.
    assert (R4 : rule_eqb r R_raw_block_end = false) by (destruct r; cbn in Hc; try discriminate Hc; reflexivity).
    assert (Hcls : expr_class (tag_classify r) = true) by (rewrite Hc; reflexivity).
    pose proof (tag_class_main (r, s, e) Hcls) as Hmain.
    destruct (GO_tag _ _ _ _ Hk Hmain Hgo) as [Hws Hgo']. cbn [tk_start tk_end fst snd] in Hws, Hgo'.
    destruct (tag_core_ws f c (r, s, e) _ c' it' T r0 lo Es Hcls Epe ET (or_introl R4) Hws) as
      (c1 & T1 & ex & Htr & Eh1 & Ed1 & Hex & Hws1 & EA1).
    cbn [tk_start tk_rule fst snd] in *.
    destruct (step_blk src all opts _ _ _ _ _ _ Es) as (c1' & Htr' & Hb). cbv zeta in Hb.
    cbn [tk_start tk_rule fst snd] in Htr', Hb.
    rewrite Htr in Htr'. apply cok_inj in Htr'. subst c1'.
    pose proof (okres_ok _ _ _ (step_block_start src all opts f c r s e l rest n k d lo deco Hc
                  HSt Hn Hlo Hsp Ht Hsl Hnx) Es) as [E1 E2].
    cbn [fst snd] in E1, E2.
    rewrite Hc in Hb, Hws1. destruct Hb as (e2 & t0 & r1 & w & Hex2 & Hst & Ets' & Hh & Hd).
    rewrite Hex in Hex2. apply cok_inj in Hex2. injection Hex2 as <-.
    rewrite Hws1 in Hst. injection Hst as <- <-.
    split; [exact E1|]. split; [exact E2|]. split; [exact Hgo'|].
    exists (t_push_map T1 (line_col src s)), ex, w.
    split; [exact Ets'|]. split; [rewrite ntxt_push_map; exact EA1|].
    split; [rewrite Hh, Eh1; destruct deco; reflexivity|].
    split; [rewrite Hd, Ed1; reflexivity|].
    apply (nstrip_tag (r, s, e)); assumption.
  Qed.

  (* the body of a raw block *)
  Lemma W_rawbody f c s e rest c' it' n k d lo :
    step src all opts f c (R_raw_block_text, s, e) rest = COk (c', it') ->
    St n k d lo c -> (1 <= n)%nat -> lo <= s -> span_ok src (R_raw_block_text, s, e) ->
    GO ((R_raw_block_text, s, e) :: rest) lo ->
    it' = rest /\ St (S n) k d e c' /\ c_hs c' = c_hs c /\ c_ds c' = c_ds c /\ GO rest e /\
    exists Tb, c_ts c' = Tb :: c_ts c /\
               ntxt Tb ++ nstrip rest e = nstrip ((R_raw_block_text, s, e) :: rest) lo.
  Proof.
    intros Es HSt Hn Hlo Hsp Hgo. pose proof (St_pe _ _ _ _ _ HSt) as Epe.
    pose proof (okres_ok _ _ _ (step_raw_block_text src all opts Hesc f c s e rest n k d lo HSt Hn Hlo Hsp) Es)
      as [E1 E2].
    cbn [fst snd] in E1, E2.
    destruct (raw_block_text_element src all opts _ _ _ _ _ _ Es eq_refl)
      as (tx & s0 & Esl & Eun & Ets' & _).
    destruct (step_blk src all opts _ _ _ _ _ _ Es) as (c1 & Htr & Hb). cbv zeta in Hb.
    cbn [tk_rule fst snd tag_classify] in Hb. destruct Hb as [Hh Hd].
    pose proof (trailing_string_text src c _ _ c1 Htr) as Hc1. cbn [tk_rule fst snd tag_classify] in Hc1. subst c1.
    rewrite Epe in Esl. cbn [tk_end snd] in Esl.
    split; [exact E1|]. split; [exact E2|]. split; [exact Hh|]. split; [exact Hd|]. split; [exact Hgo|].
    eexists. split; [exact Ets'|]. rewrite ntxt_push. cbn [art_e t_empty t_els all_raw_text map concat app nonws filter].
    rewrite nw_ws_text.
    cbn [strip_tags tk_rule tk_end fst snd tag_classify]. rewrite (gap_slice _ _ _ _ Esl).
    unfold unesc. rewrite Eun. rewrite nw_app. reflexivity.
  Qed.


  Notation nclosed cs := (nw (closed_text cs)).

  (* {{else if ..}} and {{~else if ..}} *)
  Lemma W_chain f c s e tl si ei l rest c' it' n k d lo Tb r0 e0 w0 cs hs :
    step src all opts f c (R_invert_chain_tag, s, e) (tl ++ (R_invert_tag_item, si, ei) :: l ++ rest)
      = COk (c', it') ->
    St (S n) (S k) d lo c -> c_ts c = Tb :: r0 -> c_hs c = hstate e0 w0 cs :: hs -> chainable cs ->
    lo <= s -> span_ok src (R_invert_chain_tag, s, e) -> opt_tilde tl ->
    span_ok src (R_invert_tag_item, si, ei) -> tag_toks e l -> SP l ->
    KID (tl ++ (R_invert_tag_item, si, ei) :: l) -> next_ge e rest ->
    GO ((R_invert_chain_tag, s, e) :: (tl ++ (R_invert_tag_item, si, ei) :: l) ++ rest) lo ->
    it' = rest /\ St n (S k) d e c' /\ c_ts c' = r0 /\ c_ds c' = c_ds c /\ GO rest e /\
    exists cs', c_hs c' = hstate e0 w0 cs' :: hs /\ chainable cs' /\
      nclosed cs' ++ nstrip rest e
      = nclosed cs ++ ntxt Tb
        ++ nstrip ((R_invert_chain_tag, s, e) :: (tl ++ (R_invert_tag_item, si, ei) :: l) ++ rest) lo.
  Proof.
    intros Es HSt ET EH Hch Hlo Hsp Htl Hspi Ht Hsl Hk Hnx Hgo.
    pose proof (St_pe _ _ _ _ _ HSt) as Epe.
    destruct (GO_tag (R_invert_chain_tag, s, e) _ rest lo Hk I Hgo) as [Hws Hgo'].
    cbn [tk_start tk_end fst snd] in Hws, Hgo'.
    assert (Es' : step src all opts f c (R_invert_chain_tag, s, e)
                    ((tl ++ (R_invert_tag_item, si, ei) :: l) ++ rest) = COk (c', it'))
      by (rewrite <- app_assoc, <- app_comm_cons; exact Es).
    destruct (tag_core_ws f c (R_invert_chain_tag, s, e) _ c' it' Tb r0 lo Es' eq_refl Epe ET
                (or_introl eq_refl) Hws) as (c1 & T1 & ex & Htr & Eh1 & Ed1 & Hex & Hws1 & EA1).
    cbn [tk_start tk_rule fst snd tag_classify] in *.
    destruct (step_blk src all opts _ _ _ _ _ _ Es') as (c1' & Htr' & Hb). cbv zeta in Hb.
    cbn [tk_start tk_rule fst snd tag_classify] in Htr', Hb.
    rewrite Htr in Htr'. apply cok_inj in Htr'. subst c1'.
    pose proof (okres_ok _ _ _ (step_invert_chain src all opts f c s e tl si ei l rest n k d lo
                  HSt Hlo Hsp Htl Hspi Ht Hsl Hnx) Es) as [E1 E2].
    cbn [fst snd] in E1, E2.
    destruct Hb as (e2 & t0 & h & hs' & h3 & Hex2 & Hst & Eh & Eh' & Ed' & (w & Hlink)).
    rewrite Hex in Hex2. apply cok_inj in Hex2. injection Hex2 as <-.
    rewrite Hws1 in Hst. injection Hst as <- Er0.
    rewrite Eh1, EH in Eh. injection Eh as <- <-.
    rewrite (link_op_hstate e0 w0 cs T1 ex w Hch) in Hlink. apply cok_inj in Hlink. subst h3.
    destruct (cs_link_text cs T1 ex w Hch) as [Etx Hch'].
    split; [exact E1|]. split; [exact E2|].
    split; [symmetry; exact Er0|]. split; [congruence|]. split; [exact Hgo'|].
    exists (cs_link cs T1 ex w). split; [exact Eh'|]. split; [exact Hch'|].
    rewrite Etx, nw_app, art_t_t_els, EA1.
    rewrite <- (app_assoc (nclosed cs)). apply (f_equal (app (nclosed cs))).
    apply (f_equal (app (ntxt Tb))). symmetry.
    apply (nstrip_tag (R_invert_chain_tag, s, e)); [exact Hk | exact I | exact Hws].
  Qed.

  (* {{else}} *)
  Lemma W_else f c s e l rest c' it' n k d lo Tb r0 e0 w0 cs hs :
    step src all opts f c (R_invert_tag, s, e) (l ++ rest) = COk (c', it') ->
    St (S n) (S k) d lo c -> c_ts c = Tb :: r0 -> c_hs c = hstate e0 w0 cs :: hs -> chainable cs ->
    lo <= s -> span_ok src (R_invert_tag, s, e) -> tag_toks e l -> SP l -> KID l -> next_ge e rest ->
    GO ((R_invert_tag, s, e) :: l ++ rest) lo ->
    it' = rest /\ St n (S k) d e c' /\ c_ts c' = r0 /\ c_ds c' = c_ds c /\ GO rest e /\
    exists cs', c_hs c' = hstate e0 w0 cs' :: hs /\ cs_ok cs' /\
      nclosed cs' ++ nstrip rest e
      = nclosed cs ++ ntxt Tb ++ nstrip ((R_invert_tag, s, e) :: l ++ rest) lo.
  Proof.
    intros Es HSt ET EH Hch Hlo Hsp Ht Hsl Hk Hnx Hgo.
    pose proof (St_pe _ _ _ _ _ HSt) as Epe.
    destruct (GO_tag (R_invert_tag, s, e) _ rest lo Hk I Hgo) as [Hws Hgo'].
    cbn [tk_start tk_end fst snd] in Hws, Hgo'.
    destruct (tag_core_ws f c (R_invert_tag, s, e) _ c' it' Tb r0 lo Es eq_refl Epe ET
                (or_introl eq_refl) Hws) as (c1 & T1 & ex & Htr & Eh1 & Ed1 & Hex & Hws1 & EA1).
    cbn [tk_start tk_rule fst snd tag_classify] in *.
    destruct (step_blk src all opts _ _ _ _ _ _ Es) as (c1' & Htr' & Hb). cbv zeta in Hb.
    cbn [tk_start tk_rule fst snd tag_classify] in Htr', Hb.
    rewrite Htr in Htr'. apply cok_inj in Htr'. subst c1'.
    pose proof (okres_ok _ _ _ (step_invert_plain src all opts f c s e l rest n k d lo
                  HSt Hlo Hsp Ht Hsl Hnx) Es) as [E1 E2].
    cbn [fst snd] in E1, E2.
    destruct Hb as (e2 & t0 & h & hs' & h3 & Hex2 & Hst & Eh & Eh' & Ed' & Hset).
    rewrite Hex in Hex2. apply cok_inj in Hex2. injection Hex2 as <-.
    rewrite Hws1 in Hst. injection Hst as <- Er0.
    rewrite Eh1, EH in Eh. injection Eh as <- <-.
    rewrite (set_chain_template_hstate e0 w0 cs T1 Hch) in Hset. apply cok_inj in Hset. subst h3.
    split; [exact E1|]. split; [exact E2|].
    split; [symmetry; exact Er0|]. split; [congruence|]. split; [exact Hgo'|].
    exists (cs_else cs T1). split; [exact Eh'|]. split; [apply cs_else_ok|].
    rewrite (cs_else_text cs T1 Hch), nw_app, art_t_t_els, EA1.
    rewrite <- (app_assoc (nclosed cs)). apply (f_equal (app (nclosed cs))).
    apply (f_equal (app (ntxt Tb))). symmetry.
    apply (nstrip_tag (R_invert_tag, s, e)); [exact Hk | exact I | exact Hws].
  Qed.

  (* {{/name}} of a helper block, {{{{/name}}}} of a raw block *)
  Lemma W_hend f c r s e l rest c' it' n k d lo Tb P r0 e0 w0 cs hs :
    step src all opts f c (r, s, e) (l ++ rest) = COk (c', it') ->
    tag_classify r = KHelperEnd ->
    St (S (S n)) (S k) d lo c -> c_ts c = Tb :: P :: r0 -> c_hs c = hstate e0 w0 cs :: hs -> cs_ok cs ->
    lo <= s -> (rule_eqb r R_raw_block_end = false \/ s = lo) ->
    span_ok src (r, s, e) -> tag_toks e l -> SP l -> KID l -> next_ge e rest ->
    GO ((r, s, e) :: l ++ rest) lo ->
    it' = rest /\ St (S n) k d e c' /\ c_hs c' = hs /\ c_ds c' = c_ds c /\ GO rest e /\
    exists P', c_ts c' = P' :: r0 /\
      ntxt P' ++ nstrip rest e
      = ntxt P ++ nclosed cs ++ ntxt Tb ++ nstrip ((r, s, e) :: l ++ rest) lo.
  Proof.
    intros Es Hc HSt ET EH Hok Hlo R4 Hsp Ht Hsl Hk Hnx Hgo.
    pose proof (St_pe _ _ _ _ _ HSt) as Epe.
    assert (Hcls : expr_class (tag_classify r) = true) by (rewrite Hc; reflexivity).
    pose proof (tag_class_main (r, s, e) Hcls) as Hmain.
    destruct (GO_tag _ _ _ _ Hk Hmain Hgo) as [Hws Hgo']. cbn [tk_start tk_end fst snd] in Hws, Hgo'.
    destruct (tag_core_ws f c (r, s, e) _ c' it' Tb (P :: r0) lo Es Hcls Epe ET R4 Hws) as
      (c1 & T1 & ex & Htr & Eh1 & Ed1 & Hex & Hws1 & EA1).
    cbn [tk_start tk_rule fst snd] in *.
    destruct (step_blk src all opts _ _ _ _ _ _ Es) as (c1' & Htr' & Hb). cbv zeta in Hb.
    cbn [tk_start tk_rule fst snd] in Htr', Hb.
    rewrite Htr in Htr'. apply cok_inj in Htr'. subst c1'.
    pose proof (okres_ok _ _ _ (step_helper_end src all opts f c r s e l rest n k d lo Hc
                  HSt Hlo Hsp Ht Hsl Hnx) Es) as [E1 E2].
    cbn [fst snd] in E1, E2.
    rewrite Hc in Hb, Hws1. destruct Hb as (e2 & prev & t0 & r1 & h & hs' & h' & Hex2 & Hst & Eh & Hrev & Ets' & Eh' & Ed').
    rewrite Hex in Hex2. apply cok_inj in Hex2. injection Hex2 as <-.
    rewrite Hws1 in Hst. injection Hst as <- <- <-.
    rewrite Eh1, EH in Eh. injection Eh as <- <-.
    pose proof (revert_hstate _ _ _ _ _ _ Hok Hrev) as Htxt.
    split; [exact E1|]. split; [exact E2|]. split; [exact Eh'|]. split; [congruence|]. split; [exact Hgo'|].
    eexists. split; [exact Ets'|]. rewrite ntxt_push_el. cbn [art_e]. rewrite Htxt, nw_app, art_t_t_els, EA1.
    rewrite <- (app_assoc (ntxt P)). apply (f_equal (app (ntxt P))).
    rewrite <- (app_assoc (nclosed cs)). apply (f_equal (app (nclosed cs))).
    apply (f_equal (app (ntxt Tb))). symmetry.
    apply (nstrip_tag (r, s, e)); assumption.
  Qed.

  (* {{/inline}} / {{/partial}} *)
  Lemma W_dend f c r s e l rest c' it' n k d lo Tb P r0 d0 ds part :
    step src all opts f c (r, s, e) (l ++ rest) = COk (c', it') ->
    tag_classify r = KDecoEnd part ->
    St (S (S n)) k (S d) lo c -> c_ts c = Tb :: P :: r0 -> c_ds c = d0 :: ds ->
    lo <= s -> span_ok src (r, s, e) -> tag_toks e l -> SP l -> KID l -> next_ge e rest ->
    GO ((r, s, e) :: l ++ rest) lo ->
    it' = rest /\ St (S n) k d e c' /\ c_hs c' = c_hs c /\ c_ds c' = ds /\ GO rest e /\
    exists P', c_ts c' = P' :: r0 /\
      ntxt P' ++ nstrip rest e = ntxt P ++ ntxt Tb ++ nstrip ((r, s, e) :: l ++ rest) lo.
  Proof.
    intros Es Hc HSt ET ED Hlo Hsp Ht Hsl Hk Hnx Hgo.
    pose proof (St_pe _ _ _ _ _ HSt) as Epe.
    assert (Hcls : expr_class (tag_classify r) = true) by (rewrite Hc; reflexivity).
    assert (R4 : rule_eqb r R_raw_block_end = false) by (destruct r; cbn in Hc; try discriminate Hc; reflexivity).
    pose proof (tag_class_main (r, s, e) Hcls) as Hmain.
    destruct (GO_tag _ _ _ _ Hk Hmain Hgo) as [Hws Hgo']. cbn [tk_start tk_end fst snd] in Hws, Hgo'.
    destruct (tag_core_ws f c (r, s, e) _ c' it' Tb (P :: r0) lo Es Hcls Epe ET (or_introl R4) Hws) as
      (c1 & T1 & ex & Htr & Eh1 & Ed1 & Hex & Hws1 & EA1).
    cbn [tk_start tk_rule fst snd] in *.
    destruct (step_blk src all opts _ _ _ _ _ _ Es) as (c1' & Htr' & Hb). cbv zeta in Hb.
    cbn [tk_start tk_rule fst snd] in Htr', Hb.
    rewrite Htr in Htr'. apply cok_inj in Htr'. subst c1'.
    pose proof (okres_ok _ _ _ (step_deco_end src all opts f c r s e l rest n k d lo part Hc
                  HSt Hlo Hsp Ht Hsl Hnx) Es) as [E1 E2].
    cbn [fst snd] in E1, E2.
    rewrite Hc in Hb, Hws1. destruct Hb as (e2 & prev & t0 & r1 & dd & ds' & Hex2 & Hst & Edd & Ets' & Eh' & Ed').
    rewrite Hex in Hex2. apply cok_inj in Hex2. injection Hex2 as <-.
    rewrite Hws1 in Hst. injection Hst as <- <- <-.
    rewrite Ed1, ED in Edd. injection Edd as <- <-.
    split; [exact E1|]. split; [exact E2|]. split; [congruence|]. split; [exact Ed'|]. split; [exact Hgo'|].
    eexists. split; [exact Ets'|]. rewrite ntxt_push_el.
    assert (Hd : forall dx, art_d (d_set_tpl dx (Some T1)) = txt T1)
      by (intros [? ? ? ? ? ?]; cbn [d_set_tpl art_d]; apply art_t_t_els).
    replace (art_e (if part then ElPartBlock (d_set_tpl d0 (Some T1)) else ElDecoBlock (d_set_tpl d0 (Some T1))))
      with (txt T1) by (destruct part; cbn [art_e]; symmetry; apply Hd).
    rewrite EA1.
    rewrite <- (app_assoc (ntxt P)). apply (f_equal (app (ntxt P))).
    apply (f_equal (app (ntxt Tb))). symmetry.
    apply (nstrip_tag (r, s, e)); assumption.
  Qed.


  (* ---------- the fold ---------- *)
  Definition K0w (rest : list tok) (n k d : nat) (hi : N) (r0 : list template)
             (hs : list helper_t) (ds : list deco_t) (target : str) (Q : template -> Prop) : Prop :=
    forall fuel c' t T', main_loop src all opts fuel c' rest = COk t ->
      St n k d hi c' -> c_ts c' = T' :: r0 -> c_hs c' = hs -> c_ds c' = ds -> GO rest hi ->
      ntxt T' ++ nstrip rest hi = target -> Q t.

  Definition Ktmw (rest : list tok) (n k d : nat) (hi : N) (ts0 : list template)
             (hs : list helper_t) (ds : list deco_t) (target : str) (Q : template -> Prop) : Prop :=
    forall fuel c' t Tb, main_loop src all opts fuel c' rest = COk t ->
      St (S n) k d hi c' -> c_ts c' = Tb :: ts0 -> c_hs c' = hs -> c_ds c' = ds -> GO rest hi ->
      ntxt Tb ++ nstrip rest hi = target -> Q t.

  Definition Kchw (okp : chain_st -> Prop) (rest : list tok) (n k d : nat) (hi : N) (r0 : list template)
             (e0 : espec) (w0 : bool) (hs : list helper_t) (ds : list deco_t) (target : str)
             (Q : template -> Prop) : Prop :=
    forall fuel c' t Tb' cs', main_loop src all opts fuel c' rest = COk t ->
      St (S n) (S k) d hi c' -> c_ts c' = Tb' :: r0 -> c_hs c' = hstate e0 w0 cs' :: hs -> okp cs' ->
      c_ds c' = ds -> GO rest hi -> nclosed cs' ++ ntxt Tb' ++ nstrip rest hi = target -> Q t.

  Definition A0w (lo hi : N) (l : list tok) : Prop :=
    forall rest n k d Q, (1 <= n)%nat -> SP l -> first_ge hi rest ->
    forall c0 T0 r0, St n k d lo c0 -> c_ts c0 = T0 :: r0 -> GO (l ++ rest) lo ->
      K0w rest n k d hi r0 (c_hs c0) (c_ds c0) (ntxt T0 ++ nstrip (l ++ rest) lo) Q ->
    forall fuel t, main_loop src all opts fuel c0 (l ++ rest) = COk t -> Q t.

  Definition Atmw (lo hi : N) (l : list tok) : Prop :=
    forall rest n k d Q, (1 <= n)%nat -> SP l -> first_ge hi rest ->
    forall c0, St n k d lo c0 -> GO (l ++ rest) lo ->
      Ktmw rest n k d hi (c_ts c0) (c_hs c0) (c_ds c0) (nstrip (l ++ rest) lo) Q ->
    forall fuel t, main_loop src all opts fuel c0 (l ++ rest) = COk t -> Q t.

  Definition Achw (okp : chain_st -> Prop) (lo hi : N) (l : list tok) : Prop :=
    forall rest n k d Q, (1 <= n)%nat -> SP l -> first_ge hi rest ->
    forall c0 Tb r0 e0 w0 cs hs, St (S n) (S k) d lo c0 -> c_ts c0 = Tb :: r0 ->
      c_hs c0 = hstate e0 w0 cs :: hs -> chainable cs -> GO (l ++ rest) lo ->
      Kchw okp rest n k d hi r0 e0 w0 hs (c_ds c0)
           (nclosed cs ++ ntxt Tb ++ nstrip (l ++ rest) lo) Q ->
    forall fuel t, main_loop src all opts fuel c0 (l ++ rest) = COk t -> Q t.

  Lemma SP_consw t l : SP (t :: l) <-> span_ok src t /\ SP l.
  Proof. split; [intros H; inversion H; auto | intros [A B]; constructor; auto]. Qed.

  Ltac split_sp :=
    repeat match goal with
    | H : SP (_ ++ _) |- _ => apply Forall_app in H; destruct H
    | H : SP (_ :: _) |- _ => apply SP_consw in H; destruct H
    end.

  Ltac first_stepw H f c' it' Es Hl :=
    destruct (loop_inv src all opts _ _ _ _ _ H) as (f & c' & it' & -> & Es & Hl).

  Theorem wloop :
    (forall lo hi l, kitems lo hi l -> A0w lo hi l) /\
    (forall lo hi l, kitem lo hi l -> A0w lo hi l) /\
    (forall lo hi l, ktmpl lo hi l -> Atmw lo hi l) /\
    (forall lo hi l, kchain lo hi l -> Achw chainable lo hi l) /\
    (forall lo hi l, kinv lo hi l -> Achw cs_ok lo hi l).
  Proof.
    destruct kwf_first as (F1 & F2 & F3 & F4 & F5).
    apply kwf_mutind; unfold A0w, Atmw, Achw.
    - (* kis_nil *)
      intros lo rest n k d Q Hn Hs Hf c0 T0 r0 HG ET Hgo HK fuel t H. cbn [app] in *.
      eapply HK; try eassumption; reflexivity.
    - (* kis_cons *)
      intros lo mid hi a rest' Ha IHa Hr IHr rest n k d Q Hn Hs Hf c0 T0 r0 HG ET Hgo HK fuel t H.
      split_sp. rewrite <- app_assoc in H, Hgo. rewrite <- app_assoc in HK.
      destruct (F1 _ _ _ Hr) as [_ Fr].
      eapply (IHa (rest' ++ rest) n k d Q); try eassumption.
      + apply Fr; assumption.
      + intros fuel' c' t' T' Hl HG' ET' Eh' Ed' Hgo' Eq.
        eapply (IHr rest n k d Q); try eassumption.
        rewrite Eh', Ed', Eq. exact HK.
    - (* ki_raw *)
      intros lo s e Hlo Hse rest n k d Q Hn Hs Hf c0 T0 r0 HG ET Hgo HK fuel t H.
      cbn [app] in *. split_sp. first_stepw H f c' it' Es Hl.
      destruct (W_raw _ _ _ _ _ _ _ _ _ _ _ _ _ Es HG Hn ET Hlo) as (-> & HG' & Eh & Ed & Hgo' & T' & ET' & Eq);
        [assumption | assumption |].
      eapply HK; eassumption.
    - (* ki_tag *)
      intros lo r s e l Hr Hlo Hse Ht Hk rest n k d Q Hn Hs Hf c0 T0 r0 HG ET Hgo HK fuel t H.
      split_sp. rewrite <- app_comm_cons in *. first_stepw H f c' it' Es Hl.
      destruct (W_tag _ _ _ _ _ _ _ _ _ _ _ _ _ _ _ Es Hr HG Hn ET Hlo)
        as (-> & HG' & Eh & Ed & Hgo' & T' & ET' & Eq); try assumption; [apply first_ge_next; assumption|].
      eapply HK; eassumption.
    - (* ki_comment *)
      intros lo r s e Hr Hlo Hse rest n k d Q Hn Hs Hf c0 T0 r0 HG ET Hgo HK fuel t H.
      cbn [app] in *. split_sp. first_stepw H f c' it' Es Hl.
      destruct (W_comment _ _ _ _ _ _ _ _ _ _ _ _ _ _ Es Hr HG Hn ET Hlo)
        as (-> & HG' & Eh & Ed & Hgo' & T' & ET' & Eq); try assumption.
      eapply HK; eassumption.
    - (* ki_hblock *)
      intros lo s0 e0 l0 body m1 chains m2 inv m3 s9 e9 l9 Hlo Hse0 Ht0 Hk0 Hb IHb Hc IHc Hi IHi Hm3 Hse9 Ht9 Hk9
             rest n k d Q Hn Hs Hf c0 T0 r0 HG ET Hgo HK fuel t H.
      split_sp.
      destruct (F3 _ _ _ Hb) as [Lb Fb]. destruct (F4 _ _ _ Hc) as [Lc Fc]. destruct (F5 _ _ _ Hi) as [Li Fi].
      assert (Fend : first_ge m3 (((R_helper_block_end, s9, e9) :: l9) ++ rest))
        by (cbn [app first_ge tk_start tk_end fst snd]; lia).
      rewrite <- ?app_assoc, <- ?app_comm_cons in H, HK, Hgo.
      destruct n as [|n']; [lia|].
      first_stepw H f c1 it' Es Hl.
      destruct (W_bstart _ _ _ _ _ _ _ _ _ _ _ _ _ _ _ false Es eq_refl HG Hn ET Hlo)
        as (-> & HG1 & Hgo1 & T1 & ex & w & ET1 & EA1 & EH1 & ED1 & Eq1); try assumption;
        [apply first_ge_next; apply Fb; apply Fc; apply Fi; exact Fend |].
      cbn iota in HG1, EH1, ED1.
      refine (IHb _ (S n') (S k) d Q _ _ _ c1 HG1 Hgo1 _ _ _ Hl); [lia | assumption
        | apply Fc; apply Fi; exact Fend |].
      intros fuel2 c2 t2 Tb Hl2 HG2 ET2 EH2 ED2 Hgo2 Eq2.
      refine (IHc _ (S n') k d Q _ _ _ c2 Tb (T1 :: r0) ex w CS0 (c_hs c0) HG2 _ _ I Hgo2 _ _ _ Hl2);
        [lia | assumption | apply Fi; exact Fend | rewrite ET2, ET1; reflexivity
        | rewrite EH2, EH1; reflexivity |].
      intros fuel3 c3 t3 Tb3 cs3 Hl3 HG3 ET3 EH3 Hch3 ED3 Hgo3 Eq3.
      refine (IHi _ (S n') k d Q _ _ Fend c3 Tb3 (T1 :: r0) ex w cs3 (c_hs c0) HG3 ET3 EH3 Hch3 Hgo3 _ _ _ Hl3);
        [lia | assumption |].
      intros fuel4 c4 t4 Tb4 cs4 Hl4 HG4 ET4 EH4 Hok4 ED4 Hgo4 Eq4.
      rewrite <- app_comm_cons in Hl4, Hgo4. first_stepw Hl4 f5 c5 it5 Es5 Hl5.
      destruct (W_hend _ _ _ _ _ _ _ _ _ _ _ _ _ _ _ _ _ _ _ _ Es5 eq_refl HG4 ET4 EH4 Hok4 Hm3)
        as (-> & HG5 & EH5 & ED5 & Hgo5 & P' & ET5 & Eq5); try assumption;
        [left; reflexivity | apply first_ge_next; assumption |].
      eapply HK; try eassumption; [congruence|].
      etransitivity; [exact Eq5|].
      etransitivity; [apply (f_equal (app (ntxt T1))); exact Eq4|].
      etransitivity; [apply (f_equal (app (ntxt T1))); exact Eq3|].
      cbn [closed_text nonws filter app].
      etransitivity; [apply (f_equal (app (ntxt T1))); exact Eq2|].
      rewrite EA1. apply (f_equal (app (ntxt T0))). symmetry. exact Eq1.
    - (* ki_rawblock *)
      intros lo s0 e0 l0 s1 e1 e2 l2 Hlo Hse0 Ht0 Hk0 He0 Hse1 He12 Ht2 Hk2
             rest n k d Q Hn Hs Hf c0 T0 r0 HG ET Hgo HK fuel t H.
      split_sp.
      rewrite <- ?app_assoc, <- ?app_comm_cons in H, HK, Hgo.
      destruct n as [|n']; [lia|].
      first_stepw H f c1 it' Es Hl.
      destruct (W_bstart _ _ _ _ _ _ _ _ _ _ _ _ _ _ _ false Es eq_refl HG Hn ET Hlo)
        as (-> & HG1 & Hgo1 & T1 & ex & w & ET1 & EA1 & EH1 & ED1 & Eq1); try assumption;
        [cbn [next_ge tk_end snd]; lia |].
      cbn iota in HG1, EH1, ED1.
      first_stepw Hl f2 c2 it2 Es2 Hl2.
      destruct (W_rawbody _ _ _ _ _ _ _ _ _ _ _ Es2 HG1) as (-> & HG2 & EH2 & ED2 & Hgo2 & Tb & ET2 & Eq2);
        [lia | assumption | assumption | assumption |].
      first_stepw Hl2 f3 c3 it3 Es3 Hl3.
      destruct (W_hend _ _ _ _ _ _ _ _ _ _ _ _ _ Tb T1 r0 ex w CS0 (c_hs c0) Es3 eq_refl HG2)
        as (-> & HG3 & EH3 & ED3 & Hgo3 & P' & ET3 & Eq3); try assumption;
        [rewrite ET2, ET1; reflexivity | rewrite EH2, EH1; reflexivity | exact I | lia
        | right; reflexivity | apply first_ge_next; assumption |].
      eapply HK; try eassumption; [congruence|].
      etransitivity; [exact Eq3|]. cbn [closed_text nonws filter app].
      etransitivity; [apply (f_equal (app (ntxt T1))); exact Eq2|].
      rewrite EA1. apply (f_equal (app (ntxt T0))). symmetry. exact Eq1.
    - (* ki_dblock *)
      intros lo rs re s0 e0 l0 body m1 s9 e9 l9 Hp Hlo Hse0 Ht0 Hk0 Hb IHb Hm1 Hse9 Ht9 Hk9
             rest n k d Q Hn Hs Hf c0 T0 r0 HG ET Hgo HK fuel t H.
      split_sp.
      destruct (F3 _ _ _ Hb) as [Lb Fb].
      assert (Fend : first_ge m1 (((re, s9, e9) :: l9) ++ rest))
        by (cbn [app first_ge tk_start tk_end fst snd]; lia).
      assert (Hcs : tag_classify rs = KBlockStart true /\ exists b, tag_classify re = KDecoEnd b).
      { destruct Hp as [[-> ->]|[-> ->]]; (split; [reflexivity | eexists; reflexivity]). }
      destruct Hcs as [Hcs (b & Hce)].
      rewrite <- ?app_assoc, <- ?app_comm_cons in H, HK, Hgo.
      destruct n as [|n']; [lia|].
      first_stepw H f c1 it' Es Hl.
      destruct (W_bstart _ _ _ _ _ _ _ _ _ _ _ _ _ _ _ true Es Hcs HG Hn ET Hlo)
        as (-> & HG1 & Hgo1 & T1 & ex & w & ET1 & EA1 & EH1 & ED1 & Eq1); try assumption;
        [apply first_ge_next; apply Fb; exact Fend |].
      cbn iota in HG1, EH1, ED1.
      refine (IHb _ (S n') k (S d) Q _ _ Fend c1 HG1 Hgo1 _ _ _ Hl); [lia | assumption |].
      intros fuel2 c2 t2 Tb Hl2 HG2 ET2 EH2 ED2 Hgo2 Eq2.
      rewrite <- app_comm_cons in Hl2, Hgo2. first_stepw Hl2 f3 c3 it3 Es3 Hl3.
      destruct (W_dend _ _ _ _ _ _ _ _ _ _ _ _ _ Tb T1 r0 (mk_deco ex w) (c_ds c0) b Es3 Hce HG2)
        as (-> & HG3 & EH3 & ED3 & Hgo3 & P' & ET3 & Eq3); try assumption;
        [rewrite ET2, ET1; reflexivity | rewrite ED2, ED1; reflexivity
        | apply first_ge_next; assumption |].
      eapply HK; try eassumption; [congruence|].
      etransitivity; [exact Eq3|].
      etransitivity; [apply (f_equal (app (ntxt T1))); exact Eq2|].
      rewrite EA1. apply (f_equal (app (ntxt T0))). symmetry. exact Eq1.
    - (* kt_mk *)
      intros lo hi s e body Hlo Hse Hb IHb rest n k d Q Hn Hs Hf c0 HG Hgo HK fuel t H.
      split_sp. rewrite <- app_comm_cons in H, HK, Hgo. first_stepw H f c1 it' Es Hl.
      destruct (W_template _ _ _ _ _ _ _ _ _ _ _ Es HG) as (-> & HG1 & EH1 & ED1 & ET1).
      refine (IHb rest (S n) k d Q _ _ Hf c1 t_empty (c_ts c0) HG1 ET1 Hgo _ _ _ Hl);
        [lia | assumption |].
      intros fuel2 c2 t2 T' Hl2 HG2 ET2 EH2 ED2 Hgo2 Eq2.
      eapply HK; try eassumption; try congruence.
    - (* kcp_nil *)
      intros lo rest n k d Q Hn Hs Hf c0 Tb r0 e0 w0 cs hs HG ET EH Hch Hgo HK fuel t H.
      cbn [app] in *. eapply HK; try eassumption; reflexivity.
    - (* kcp_cons *)
      intros lo s e tl si ei l body mid hi rest' Hlo Hse Htl Hsub Hkid Hb IHb Hc IHc
             rest n k d Q Hn Hs Hf c0 Tb r0 e0 w0 cs hs HG ET EH Hch Hgo HK fuel t H.
      split_sp.
      destruct (F3 _ _ _ Hb) as [Lb Fb]. destruct (F4 _ _ _ Hc) as [Lc Fc].
      assert (Hgo' : GO ((R_invert_chain_tag, s, e) :: (tl ++ (R_invert_tag_item, si, ei) :: l)
                          ++ body ++ rest' ++ rest) lo).
      { rewrite <- ?app_assoc, <- ?app_comm_cons in Hgo. rewrite <- ?app_assoc, <- ?app_comm_cons.
        rewrite <- ?app_assoc, <- ?app_comm_cons in Hgo. exact Hgo. }
      rewrite <- ?app_assoc, <- ?app_comm_cons in H, HK. rewrite <- ?app_assoc, <- ?app_comm_cons in H, HK.
      first_stepw H f c1 it' Es Hl.
      destruct (W_chain _ _ _ _ _ _ _ _ _ _ _ _ _ _ _ _ _ _ _ _ _ Es HG ET EH Hch Hlo)
        as (-> & HG1 & ET1 & ED1 & Hgo1 & cs1 & EH1 & Hch1 & Eq1); try assumption;
        [apply tg_plain; assumption | apply first_ge_next; apply Fb; apply Fc; assumption |].
      refine (IHb _ n (S k) d Q Hn _ _ c1 HG1 Hgo1 _ _ _ Hl); [assumption | apply Fc; assumption |].
      intros fuel2 c2 t2 Tb2 Hl2 HG2 ET2 EH2 ED2 Hgo2 Eq2.
      refine (IHc rest n k d Q Hn _ Hf c2 Tb2 r0 e0 w0 cs1 hs HG2 _ _ Hch1 Hgo2 _ _ _ Hl2);
        [assumption | rewrite ET2, ET1; reflexivity | rewrite EH2, EH1; reflexivity |].
      intros fuel3 c3 t3 Tb3 cs3 Hl3 HG3 ET3 EH3 Hch3 ED3 Hgo3 Eq3.
      eapply HK; try eassumption; [congruence|].
      etransitivity; [exact Eq3|].
      etransitivity; [apply (f_equal (app (nclosed cs1))); exact Eq2|].
      rewrite <- app_assoc, <- app_comm_cons in Eq1. exact Eq1.
    - (* kip_none *)
      intros lo rest n k d Q Hn Hs Hf c0 Tb r0 e0 w0 cs hs HG ET EH Hch Hgo HK fuel t H.
      cbn [app] in *. eapply HK; try eassumption; try reflexivity. apply chainable_ok; exact Hch.
    - (* kip_some *)
      intros lo s e l body hi Hlo Hse Htg Hkid Hb IHb
             rest n k d Q Hn Hs Hf c0 Tb r0 e0 w0 cs hs HG ET EH Hch Hgo HK fuel t H.
      split_sp.
      destruct (F3 _ _ _ Hb) as [Lb Fb].
      rewrite <- ?app_assoc, <- ?app_comm_cons in H, HK, Hgo.
      first_stepw H f c1 it' Es Hl.
      destruct (W_else _ _ _ _ _ _ _ _ _ _ _ _ _ _ _ _ _ _ Es HG ET EH Hch Hlo)
        as (-> & HG1 & ET1 & ED1 & Hgo1 & cs1 & EH1 & Hok1 & Eq1); try assumption;
        [apply first_ge_next; apply Fb; assumption |].
      refine (IHb rest n (S k) d Q Hn _ Hf c1 HG1 Hgo1 _ _ _ Hl); [assumption |].
      intros fuel2 c2 t2 Tb2 Hl2 HG2 ET2 EH2 ED2 Hgo2 Eq2.
      eapply (HK fuel2 c2 t2 Tb2 cs1); try eassumption;
        [rewrite ET2, ET1; reflexivity | rewrite EH2, EH1; reflexivity | congruence |].
      etransitivity; [apply (f_equal (app (nclosed cs1))); exact Eq2|]. exact Eq1.
  Qed.


  Lemma wsgap_split a b c : a <= b -> b <= c -> c <= len src ->
    wsgap src a c -> wsgap src a b /\ wsgap src b c.
  Proof.
    unfold wsgap. intros H1 H2 H3 H. rewrite <- (gap_split src a b c H1 H2 H3), nw_app in H.
    apply app_eq_nil in H. exact H.
  Qed.

  (* the end of the token list: EOI, then the tail of the source; all of it is whitespace *)
  Lemma eoi_ws fuel c t T hi p :
    main_loop src all opts fuel c [(R_EOI, p, p)] = COk t ->
    St 1 0 0 hi c -> c_ts c = [T] -> hi <= p -> p <= len src -> GO [(R_EOI, p, p)] hi ->
    nw (all_raw_text (t_els t)) = ntxt T ++ nstrip [(R_EOI, p, p)] hi.
  Proof.
    intros H HSt ET Hhi Hp Hgo. pose proof (St_pe _ _ _ _ _ HSt) as Epe.
    cbn [gaps_ok tk_rule fst snd tag_classify] in Hgo.
    destruct (wsgap_split hi p (len src) Hhi Hp (N.le_refl _) Hgo) as [Hw1 Hw2].
    destruct (loop_inv src all opts _ _ _ _ _ H) as (f & c' & it' & -> & Es & Hl).
    destruct (step_ws src all opts _ _ _ _ _ _ Es) as (c1 & Htr & Hw). cbv zeta in Hw.
    cbn [tk_rule tk_start fst snd tag_classify] in Hw, Htr.
    destruct Hw as (_ & _ & Ets' & ->).
    destruct (tr_ws c (R_EOI, p, p) _ c1 T [] hi Htr Epe ET (or_introl eq_refl) Hw1) as
      (T1 & ET1 & EA1 & Eh1 & Ed1).
    assert (Hce : c_end c' = Some p).
    { assert (Hne : tag_classify (tk_rule (R_EOI, p, p)) <> KTemplate) by (cbn; discriminate).
      exact (step_c_end src all opts _ _ _ _ _ _ Hne Es). }
    destruct f as [|f]; [discriminate|]. cbn [main_loop] in Hl. rewrite Hce in Hl.
    cbn [strip_tags tk_rule fst snd tag_classify]. unfold wsgap in Hgo. rewrite Hgo, app_nil_r.
    rewrite Ets', ET1 in Hl.
    destruct (p <? len src) eqn:Elt.
    - destruct (slice_some src p (len src)) as (tx & Esl & _); [lia|lia|].
      rewrite Esl in Hl. cbn [push_front_el cbind] in Hl. injection Hl as <-.
      rewrite t_els_set_name, ntxt_push. cbn [art_e].
      rewrite <- (gap_slice _ _ _ _ Esl). unfold wsgap in Hw2. rewrite Hw2, app_nil_r. exact EA1.
    - cbn [cbind] in Hl. injection Hl as <-. rewrite t_els_set_name. exact EA1.
  Qed.

  Theorem main_loop_blocks_ws s e body hi p t fuel :
    kitems 0 hi body -> hi <= p -> p <= len src ->
    SP ((R_template, s, e) :: body ++ [(R_EOI, p, p)]) ->
    GO ((R_template, s, e) :: body ++ [(R_EOI, p, p)]) 0 ->
    main_loop src all opts fuel init_cstate ((R_template, s, e) :: body ++ [(R_EOI, p, p)]) = COk t ->
    nw (all_raw_text (t_els t)) = nstrip ((R_template, s, e) :: body ++ [(R_EOI, p, p)]) 0.
  Proof.
    intros Hit Hhi Hp Hs Hgo H.
    destruct (loop_inv src all opts _ _ _ _ _ H) as (f & c1 & it' & -> & Es & Hl).
    assert (HG0 : St 0 0 0 0 init_cstate) by (split; [repeat split; constructor | reflexivity]).
    destruct (W_template _ _ _ _ _ _ _ _ _ _ _ Es HG0) as (-> & HG1 & EH1 & ED1 & ET1).
    cbn [init_cstate c_ts] in ET1.
    apply SP_consw in Hs. destruct Hs as [_ Hs]. apply Forall_app in Hs. destruct Hs as [Hsb Hse].
    cbn [strip_tags gaps_ok tk_rule fst snd tag_classify] in Hgo |- *.
    refine (proj1 wloop 0 hi body Hit [(R_EOI, p, p)] 1%nat 0%nat 0%nat
              (fun t => nw (all_raw_text (t_els t)) = nstrip (body ++ [(R_EOI, p, p)]) 0)
              (le_n _) Hsb _ c1 t_empty [] HG1 ET1 Hgo _ f t Hl).
    - cbn [first_ge tk_start tk_end fst snd]. lia.
    - intros fuel' c' t' T' Hl' HG' ET' _ _ Hgo' Eq.
      rewrite (eoi_ws _ _ _ _ _ _ Hl' HG' ET' Hhi Hp Hgo'). exact Eq.
  Qed.

End WsFold.

(* ================= W5: compile2 ================= *)
Theorem compile_tokens_conservation_ws_kwf : forall src opts ts t,
  kwf_tokens (filter not_escape ts) -> escapes_sorted ts -> Forall (span_ok src) ts ->
  gaps_ok src (filter not_escape ts) 0 ->
  compile_tokens src opts ts = COk t ->
  nonws (all_raw_text (t_els t)) = nonws (strip_tags src ts (filter not_escape ts) 0).
Proof.
  intros src opts ts t (s & e & body & hi & p & Efl & Hit & Hhi) Hesc Hsp Hgo Hc.
  unfold compile_tokens in Hc. change (fun t0 : tok => negb (is_rule R_escape t0)) with not_escape in Hc.
  rewrite Efl in *.
  assert (Hsp' : Forall (span_ok src) ((R_template, s, e) :: body ++ [(R_EOI, p, p)])).
  { rewrite <- Efl. apply Forall_filter. exact Hsp. }
  assert (Hpos : p <= len src).
  { inversion Hsp' as [|x y _ Hy]; subst. apply Forall_app in Hy. destruct Hy as [_ Hy].
    inversion Hy as [|x' y' [_ Hx'] _]; subst. exact Hx'. }
  eapply main_loop_blocks_ws; eassumption.
Qed.

(* C03 with blocks, up to whitespace, for EVERY compilable source: the `~`
   markers and the standalone rule remove whitespace only *)
Theorem conservation_blocks_ws : forall src opts ts t,
  hb_parse (peg_fuel src) R_handlebars src = Parsed ts ->
  compile2 src opts = COk t ->
  nonws (all_raw_text (t_els t)) = nonws (strip_tags src ts (filter not_escape ts) 0).
Proof.
  intros src opts ts t Hp Hc.
  rewrite compile2_unfold in Hc.
  pose proof (hb_parse_spans _ _ _ _ Hp) as Hsp.
  destruct (hb_parse_kwf _ _ _ Hp) as [Hk Hesc].
  pose proof (parse_gaps_ok _ _ _ Hp) as Hgo.
  rewrite Hp in Hc. eapply compile_tokens_conservation_ws_kwf; eassumption.
Qed.

(* a source in which every trim fires: `~` on both sides of tags, standalone
   block / else / end / comment lines, a chained else with a leading tilde *)
Definition cbw_src : str :=
  `"a  {{~#if x~}}  b" ++ [10] ++ `"  {{#each y}}" ++ [10] ++ `"c" ++ [10] ++ `"  {{else}}  " ++ [13; 10]
  ++ `"d {{~/each}}" ++ [10] ++ `" e  {{~else if z}}f{{else}}" ++ [10] ++ `"{{!-- k --}}" ++ [10] ++ `"g{{/if~}}  h  ".

Example conservation_blocks_ws_example :
  exists ts t,
    hb_parse (peg_fuel cbw_src) R_handlebars cbw_src = Parsed ts /\
    blocks_plain cbw_src default_opts ts = false /\
    compile2 cbw_src default_opts = COk t /\
    all_raw_text (t_els t) <> strip_tags cbw_src ts (filter not_escape ts) 0 /\
    nonws (all_raw_text (t_els t)) = nonws (strip_tags cbw_src ts (filter not_escape ts) 0) /\
    nonws (all_raw_text (t_els t)) = `"abcdefgh".
Proof.
  destruct (hb_parse (peg_fuel cbw_src) R_handlebars cbw_src) as [ts| |] eqn:Ep;
    [|vm_compute in Ep; discriminate Ep..].
  destruct (compile2 cbw_src default_opts) as [t| | |] eqn:Ec; [|vm_compute in Ec; discriminate Ec..].
  exists ts, t. split; [reflexivity|].
  pose proof (conservation_blocks_ws _ _ _ _ Ep Ec) as Hcons.
  vm_compute in Ep. injection Ep as <-. vm_compute in Ec. injection Ec as <-.
  split; [vm_compute; reflexivity|]. split; [reflexivity|].
  split; [vm_compute; discriminate|]. split; [exact Hcons|]. vm_compute. reflexivity.
Qed.
