(* Proofs/LeafEscape.v — C02 leaf level: escape_html is a homomorphism, its
   output alphabet, the entity structure of every '&', and injectivity via an
   executable inverse. *)
From HB Require Import Rt.Eval Spec.EscapeSpec.
Open Scope N_scope.

Lemma html_entities_eq : html_entities =
  [ ([38;108;116;59], 60); ([38;103;116;59], 62); ([38;113;117;111;116;59], 34);
    ([38;97;109;112;59], 38); ([38;35;120;50;55;59], 39); ([38;35;120;54;48;59], 96);
    ([38;35;120;51;68;59], 61) ].
Proof. reflexivity. Qed.

(* ---------- homomorphism ---------- *)
Theorem escape_html_nil : escape_html [] = [].
Proof. reflexivity. Qed.

Theorem escape_html_cons : forall c s, escape_html (c :: s) = escape_char c ++ escape_html s.
Proof. reflexivity. Qed.

Theorem escape_html_app : forall a b, escape_html (a ++ b) = escape_html a ++ escape_html b.
Proof. intros a b. unfold escape_html. apply flat_map_app. Qed.

Theorem escape_html_concat_map : forall s, escape_html s = concat (map escape_char s).
Proof. intros s. unfold escape_html. apply flat_map_concat_map. Qed.

(* ---------- one character ---------- *)
Ltac in_tac := vm_compute; repeat (first [left; reflexivity | right]).
Theorem escape_char_cases : forall c,
  (In c (38 :: html_special) /\ In (escape_char c, c) html_entities) \/
  (~ In c (38 :: html_special) /\ escape_char c = [c]).
Proof.
  intros c. rewrite html_entities_eq. unfold escape_char, html_special.
  destruct (N.eqb_spec c 60) as [->|H60]. { left. split; in_tac. }
  destruct (N.eqb_spec c 62) as [->|H62]. { left. split; in_tac. }
  destruct (N.eqb_spec c 34) as [->|H34]. { left. split; in_tac. }
  destruct (N.eqb_spec c 38) as [->|H38]. { left. split; in_tac. }
  destruct (N.eqb_spec c 39) as [->|H39]. { left. split; in_tac. }
  destruct (N.eqb_spec c 96) as [->|H96]. { left. split; in_tac. }
  destruct (N.eqb_spec c 61) as [->|H61]. { left. split; in_tac. }
  right. split; [|reflexivity]. cbn [In]. intuition congruence.
Qed.

Lemma escape_char_token : forall c, esc_token (escape_char c).
Proof.
  intros c. destruct (escape_char_cases c) as [[_ H]|[Hn ->]].
  - exact (tok_entity _ _ H).
  - apply tok_char; intros H; apply Hn; [right; exact H | left; symmetry; exact H].
Qed.

(* every entity is '&' followed by a body free of '&' and of the six specials *)
Lemma entity_shape : forall e c, In (e, c) html_entities ->
  exists body, e = 38 :: body /\ ~ In 38 body /\
    (forall x, In x e -> ~ In x html_special).
Proof.
  intros e c H. rewrite html_entities_eq in H. unfold html_special.
  cbn [In] in H.
  repeat (destruct H as [H|H]; [injection H as <- <-; eexists; split; [reflexivity|]; split;
      [cbn [In]; intros K; repeat (destruct K as [K|K]; [discriminate|]); exact K
      |intros x Hx; cbn [In] in Hx |- *;
       repeat (destruct Hx as [<-|Hx]; [intros K; repeat (destruct K as [K|K]; [discriminate|]); exact K|]);
       contradiction]|]).
  contradiction.
Qed.

Lemma token_shape : forall t, esc_token t ->
  exists first body, t = first :: body /\ ~ In 38 body /\
    (forall x, In x t -> ~ In x html_special) /\
    (first = 38 -> In t (map fst html_entities)).
Proof.
  intros t [c Hc H38|e c He].
  - exists c, []. split; [reflexivity|]. split; [intros []|]. split.
    + intros x [<-|[]]. exact Hc.
    + intros E. contradiction.
  - destruct (entity_shape _ _ He) as (body & -> & Hb & Hs).
    exists 38, body. split; [reflexivity|]. split; [exact Hb|]. split; [exact Hs|].
    intros _. apply (in_map fst) in He. exact He.
Qed.

Theorem esc_char_alphabet : forall c,
  (forall x, In x (escape_char c) -> ~ In x [60; 62; 34; 39; 96; 61]) /\
  (forall pre post, escape_char c = pre ++ 38 :: post ->
     pre = [] /\ In (escape_char c) (map fst html_entities)).
Proof.
  intros c. destruct (token_shape _ (escape_char_token c)) as (f & body & E & Hb & Hs & He).
  split; [exact Hs|].
  intros pre post H. rewrite E in H. destruct pre as [|x pre].
  - injection H as -> _. split; [reflexivity|]. apply He. reflexivity.
  - exfalso. injection H as _ H. apply Hb. rewrite H. apply in_or_app. right. left. reflexivity.
Qed.

(* ---------- strings ---------- *)
Theorem escape_html_tokens : forall s,
  escape_html s = concat (map escape_char s) /\ Forall esc_token (map escape_char s).
Proof.
  intros s. split; [apply escape_html_concat_map|].
  apply Forall_forall. intros t Ht. apply in_map_iff in Ht as (c & <- & _). apply escape_char_token.
Qed.

Theorem escape_html_alphabet : forall s x,
  In x (escape_html s) -> ~ In x [60; 62; 34; 39; 96; 61].
Proof.
  intros s x H. unfold escape_html in H. apply in_flat_map in H as (c & _ & Hx).
  exact (proj1 (esc_char_alphabet c) x Hx).
Qed.

Lemma app_eq_split_notin {A} (y : A) body : forall rest pre post,
  body ++ rest = pre ++ y :: post -> ~ In y body ->
  exists pre', pre = body ++ pre' /\ rest = pre' ++ y :: post.
Proof.
  induction body as [|b body IH]; intros rest pre post H Hn.
  - exists pre. split; [reflexivity | exact H].
  - destruct pre as [|x pre].
    + injection H as Hb _. exfalso. apply Hn. left. exact Hb.
    + injection H as -> H. destruct (IH _ _ _ H) as (pre' & -> & Hr).
      * intros K. apply Hn. right. exact K.
      * exists pre'. split; [reflexivity | exact Hr].
Qed.

(* every '&' of the escaped text is the first character of one of the seven entities *)
Theorem escape_html_amp : forall s pre post,
  escape_html s = pre ++ 38 :: post ->
  exists e post', In e (map fst html_entities) /\ 38 :: post = e ++ post'.
Proof.
  induction s as [|c s IH]; intros pre post H.
  - destruct pre; discriminate.
  - rewrite escape_html_cons in H.
    destruct (token_shape _ (escape_char_token c)) as (f & body & E & Hb & _ & He).
    rewrite E in H. destruct pre as [|x pre].
    + cbn [app] in H. injection H as -> H. exists (escape_char c), (escape_html s).
      split; [apply He; reflexivity|]. rewrite E, <- H. reflexivity.
    + cbn [app] in H. injection H as _ H.
      destruct (app_eq_split_notin _ _ _ _ _ H Hb) as (pre' & _ & Hr).
      exact (IH _ _ Hr).
Qed.

(* ---------- injectivity ---------- *)
Lemma match_entity_hit : forall e c rest, In (e, c) html_entities ->
  match_entity html_entities (e ++ rest) = Some (c, rest).
Proof.
  intros e c rest H. rewrite html_entities_eq in H. cbn [In] in H.
  repeat (destruct H as [H|H]; [injection H as <- <-; vm_compute; reflexivity|]).
  contradiction.
Qed.

Lemma match_entity_miss : forall c rest, c <> 38 ->
  match_entity html_entities (c :: rest) = None.
Proof.
  intros c rest H. rewrite html_entities_eq. cbn [match_entity strip_pre].
  replace (N.eqb 38 c) with false by (symmetry; apply N.eqb_neq; congruence).
  reflexivity.
Qed.

Lemma unescape_go_escape : forall s f,
  (length (escape_html s) <= f)%nat -> unescape_go f (escape_html s) = s.
Proof.
  induction s as [|c s IH]; intros f Hf.
  - destruct f; reflexivity.
  - rewrite escape_html_cons in *. rewrite app_length in Hf.
    destruct (escape_char_cases c) as [[_ He]|[Hn E]].
    + destruct (entity_shape _ _ He) as (body & Eb & _ & _).
      destruct f as [|f]; [rewrite Eb in Hf; cbn [length] in Hf; lia|].
      cbn [unescape_go].
      rewrite (match_entity_hit _ _ (escape_html s) He).
      rewrite Eb at 1. cbn [app].
      rewrite IH; [reflexivity|]. rewrite Eb in Hf. cbn [length] in Hf. lia.
    + rewrite E in *. cbn [length] in Hf.
      destruct f as [|f]; [lia|]. cbn [app unescape_go].
      rewrite match_entity_miss by (intros ->; apply Hn; left; reflexivity).
      rewrite IH; [reflexivity | lia].
Qed.

Theorem unescape_escape : forall s, unescape_html (escape_html s) = s.
Proof. intros s. apply unescape_go_escape. apply Nat.le_refl. Qed.

Theorem escape_injective : forall s1 s2, escape_html s1 = escape_html s2 -> s1 = s2.
Proof.
  intros s1 s2 H. rewrite <- (unescape_escape s1), <- (unescape_escape s2), H. reflexivity.
Qed.

(* ---------- satisfiability / sanity ---------- *)
Example escape_html_amp_ex :
  escape_html (`"a&<b") = (`"a") ++ 38 :: (`"amp;&lt;b") /\
  unescape_html (`"a&amp;&lt;b") = `"a&<b" /\
  unescape_html (escape_html (`"&amp;lt;")) = `"&amp;lt;".
Proof. vm_compute. repeat split. Qed.
