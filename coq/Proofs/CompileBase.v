(* Proofs/CompileBase.v — shared infrastructure for the proofs about
   Tpl/Compile.v: inversion of the `cres` monad, and one-step unfolding
   equations of the mutual fixpoint parse_expression / expr_loop / parse_name /
   parse_param (each proved by reflexivity, i.e. they ARE the model's bodies). *)
From HB Require Import Tpl.Compile.
Open Scope N_scope.

Lemma cbind_ok {A B} (x : cres A) (f : A -> cres B) (b : B) :
  cbind x f = COk b -> exists a, x = COk a /\ f a = COk b.
Proof. destruct x as [a| | |]; cbn; intro H; try discriminate. exists a; split; [reflexivity|exact H]. Qed.

(* invert the outermost bind of hypothesis H : cbind x f = COk _ *)
Ltac cinv H :=
  match type of H with
  | cbind ?x ?f = COk _ =>
      let a := fresh "a" in
      let E := fresh "E" in
      destruct x as [a| | |] eqn:E; cbn [cbind] in H; [|discriminate H..]
  end.

Section Unfold.
  Variable src : str.

  Lemma parse_expression_0 it limit : parse_expression src 0 it limit = CFuel.
  Proof. reflexivity. Qed.
  Lemma expr_loop_0 it limit name params hash bp pre pro :
    expr_loop src 0 it limit name params hash bp pre pro = CFuel.
  Proof. reflexivity. Qed.
  Lemma parse_name_0 it : parse_name src 0 it = CFuel.
  Proof. reflexivity. Qed.
  Lemma parse_param_0 it : parse_param src 0 it = CFuel.
  Proof. reflexivity. Qed.

  Lemma parse_expression_S f it limit :
    parse_expression src (S f) it limit =
    match it with
    | [] => CPanic (`"parse_expression peek")
    | t0 :: it0 =>
        let '(pre, it1) := if is_rule R_leading_tilde_to_omit_whitespace t0
                           then (true, it0) else (false, it) in
        do '(name, it2) <- parse_name src f it1;
        expr_loop src f it2 limit name [] [] None pre false
    end.
  Proof. reflexivity. Qed.

  Lemma expr_loop_S f it limit name params hash bp pre pro :
    expr_loop src (S f) it limit name params hash bp pre pro =
    let finish := COk ({| es_name := name; es_params := rev params; es_hash := hash;
                          es_bp := bp; es_pre := pre; es_pro := pro |}, it) in
    match it with
    | [] => finish
    | p :: it' =>
        if N.ltb (tk_end p) limit then
          let e := tk_end p in
          match arg_classify (tk_rule p) with
          | XHelperParam =>
              do '(v, it2) <- parse_param src f it';
              expr_loop src f it2 limit name (v :: params) hash bp pre pro
          | XHash =>
              match it' with
              | [] => CPanic (`"parse_hash next")
              | k :: it1 =>
                  do key <- span_str src k (`"hash key span");
                  do '(v, it2) <- parse_param src f it1;
                  expr_loop src f it2 limit name params (map_insert hash key v) bp pre pro
              end
          | XBlockParam =>
              do '(b, it2) <- parse_block_param src it' e;
              expr_loop src f it2 limit name params hash (Some b) pre pro
          | XTrailingTilde =>
              expr_loop src f it' limit name params hash bp pre true
          | XOther => expr_loop src f it' limit name params hash bp pre pro
          end
        else finish
    end.
  Proof. reflexivity. Qed.

  Lemma parse_name_S f it :
    parse_name src (S f) it =
    match it with
    | [] => CPanic (`"parse_name next")
    | n :: it' =>
        match name_classify (tk_rule n) with
        | NmPlain =>
            do s <- span_str src n (`"name span");
            COk (PName s, it')
        | NmReference =>
            do s <- span_str src n (`"name span");
            do '(segs, it2) <- parse_json_path src it' (tk_end n) [];
            COk (PPath (path_new s segs), it2)
        | NmSubexpression =>
            do '(e, it2) <- parse_expression src f it' (tk_end n);
            COk (new_subexpression e, it2)
        | _ => CPanic (`"parse_name unreachable")
        end
    end.
  Proof. reflexivity. Qed.

  Lemma parse_param_S f it :
    parse_param src (S f) it =
    match it with
    | [] => CPanic (`"parse_param next")
    | p0 :: it0 =>
        let first :=
          if is_rule R_helper_parameter p0 then
            match it0 with
            | [] => CPanic (`"parse_param next2")
            | p1 :: it1 => COk (p1, it1)
            end
          else COk (p0, it0) in
        do '(p, it1) <- first;
        do ptxt <- span_str src p (`"param span");
        do '(result, it2) <-
          match name_classify (tk_rule p) with
          | NmReference =>
              do '(segs, it2) <- parse_json_path src it1 (tk_end p) [];
              COk (PPath (path_new ptxt segs), it2)
          | NmLiteral =>
              match it1 with
              | [] => CPanic (`"parse_param literal next")
              | lit :: it2 =>
                  do '(jr, it3) <-
                    (if is_rule R_string_literal lit then
                       match it2 with
                       | [] => CPanic (`"parse_param peek")
                       | q :: it3 =>
                           if is_rule R_string_inner_single_quote q then
                             do inner <- span_str src q (`"inner span");
                             COk (json_from_str (single_quote_rewrite inner), it3)
                           else COk (json_from_str ptxt, it2)
                       end
                     else COk (json_from_str ptxt, it2));
                  match jr with
                  | Some j => COk (PLit j, it3)
                  | None => CErr (TEInvalidParam ptxt)
                  end
              end
          | NmSubexpression =>
              do '(e, it2) <- parse_expression src f it1 (tk_end p);
              COk (new_subexpression e, it2)
          | _ => CPanic (`"parse_param unreachable")
          end;
        COk (result, skip_upto it2 (tk_end p))
    end.
  Proof. reflexivity. Qed.
End Unfold.
