(* Proofs/WriterPrefix.v — C19: the writer buffer only grows; subexpression
   output is private; writer faults. *)
From Coq Require Import List Lia NArith ZArith.
From HB Require Import Rt.Render Spec.RenderAll Spec.Writer Proofs.RenderInd.
Import ListNotations.
Open Scope N_scope.

(* ---------- out_extends is a preorder ---------- *)
Lemma out_extends_refl o : out_extends o o.
Proof.
  exists []. cbn. repeat split; auto. lia.
Qed.

Lemma out_extends_trans a b c : out_extends a b -> out_extends b c -> out_extends a c.
Proof.
  intros (l1 & Hc1 & Hw1 & Hn1 & Hf1 & Hk1) (l2 & Hc2 & Hw2 & Hn2 & Hf2 & Hk2).
  exists (l2 ++ l1). repeat split.
  - rewrite Hc2, Hc1, app_assoc. reflexivity.
  - rewrite Hw2, Hw1, app_length. lia.
  - apply Forall_app; split; assumption.
  - congruence.
  - intros k Hk Hle. apply Hk2; [congruence|]. apply Hk1; assumption.
Qed.

Lemma out_extends_write o chunk :
  chunk <> [] ->
  match o_fail_at o with Some k => N.leb k (o_writes o) | None => false end = false ->
  out_extends o {| o_chunks := chunk :: o_chunks o; o_writes := o_writes o + 1;
                   o_fail_at := o_fail_at o |}.
Proof.
  intros Hne Hf. exists [chunk]. cbn. repeat split; auto.
  intros k Hk Hle. rewrite Hk in Hf. apply N.leb_gt in Hf. lia.
Qed.

(* the text handed over so far is a prefix of the text handed over later *)
Lemma out_extends_text o o' : out_extends o o' -> exists t, out_text o' = out_text o ++ t.
Proof.
  intros (l & Hc & _). unfold out_text. rewrite Hc, rev_app_distr, concat_app.
  eexists; reflexivity.
Qed.

(* ---------- the relation on the critical fields ---------- *)
Definition out_rel (c c' : crit_t) : Prop := out_extends (fst (fst c)) (fst (fst c')).

#[export] Instance out_rel_ok : crel_ok out_rel out_rel.
Proof.
  constructor; unfold out_rel; cbn [fst]; intros.
  - apply out_extends_refl.
  - eapply out_extends_trans; eassumption.
  - assumption.
  - eapply out_extends_trans; eassumption.
  - apply out_extends_write; assumption.
  - apply out_extends_refl.
  - assumption.
  - assumption.
  - apply out_extends_refl.
  - apply out_extends_refl.
  - apply out_extends_refl.
  - apply out_extends_refl.
Qed.

(* C19 no_retract *)
Theorem no_retract : forall reg data ft f,
  every_render_fn reg data ft f
    (fun A s r => forall s', ends_in r s' -> out_extends (s_out s) (s_out s')).
Proof.
  intros reg data ft f. apply holds_uniform.
  eapply holds_uniform_mono; [|apply (@crit_rel out_rel out_rel _ reg data ft f)].
  intros A s r H. apply (ends_in_sat r (fun s' => out_extends (s_out s) (s_out s'))). exact H.
Qed.

(* call_inner does not touch the writer *)
Lemma call_inner_out reg hid h s s' :
  ends_in (call_inner reg hid h s) s' -> s_out s' = s_out s.
Proof.
  intros H. pose proof (call_inner_crit reg hid h s) as X.
  destruct (call_inner reg hid h s); cbn in *; try contradiction; subst;
    unfold crit in X; congruence.
Qed.

(* C19 subexpr_private: evaluating a subexpression leaves the writer buffer of
   the enclosing render exactly as it was, in Ok and in Err outcomes: whatever
   the helper wrote went to a private buffer *)
Theorem subexpr_private : forall reg data ft f hid h s s',
  ends_in (call_helper_for_value reg data ft f hid h s) s' -> s_out s' = s_out s.
Proof.
  intros reg data ft [|f] hid h s s'; [intros []|].
  rewrite call_helper_for_value_S.
  pose proof (call_inner_out reg hid h s) as X.
  destruct (call_inner reg hid h s) as [r s1|e s1|p|]; cbn [ends_in] in *; try contradiction.
  - apply X.
  - destruct (is_unimplemented e); [|apply X]. cbv zeta.
    destruct (call_helper reg data ft f hid h _) as [u s3|e' s3|p|]; cbn [ends_in];
      try contradiction; intros <-; cbn [s_out set_out set_disable_escape]; apply X; reflexivity.
Qed.

(* and its value, when the helper wrote text instead of returning a value, is
   exactly the text of that private buffer *)
Theorem subexpr_value_is_private_text : forall reg data ft f hid h s e s1 u s3,
  call_inner reg hid h s = RErr e s1 -> is_unimplemented e = true ->
  call_helper reg data ft f hid h (set_disable_escape (set_out s1 (out_new None)) true) = ROk u s3 ->
  call_helper_for_value reg data ft (S f) hid h s =
    ROk {| pj_rel := None; pj_val := SDerived (JStr (out_text (s_out s3))) |}
        (set_disable_escape (set_out s3 (s_out s1)) (s_disable_escape s1)).
Proof.
  intros reg data ft f hid h s e s1 u s3 Hci Hun Hch.
  rewrite call_helper_for_value_S, Hci, Hun. cbv zeta. rewrite Hch. reflexivity.
Qed.

(* in terms of text: what the writer has received at the start of any call is a
   prefix of what it has received at the end *)
Theorem text_only_grows : forall reg data ft f,
  every_render_fn reg data ft f
    (fun A s r => forall s', ends_in r s' -> exists t, out_text (s_out s') = out_text (s_out s) ++ t).
Proof.
  intros reg data ft f. pose proof (no_retract reg data ft f) as H. unfold every_render_fn in *.
  repeat match goal with H : _ /\ _ |- _ => destruct H end.
  repeat match goal with |- _ /\ _ => split end; intros; apply out_extends_text; eauto.
Qed.
