(* Proofs/RenderScaffold.v -- generic lemmas about the outcome monad (rbind,
   rmap_err) and the two list iterators of Rt/Render.v (fold_idx, mapM), used
   by the render-wide inductions (StrictMono, Frame, PartialSpec). *)
From HB Require Export Proofs.RenderEq.
Open Scope N_scope.

(* ---------- inversion of the outcome combinators ---------- *)
Lemma rbind_ok {A B} (x : rres A) (k : A -> rstate -> rres B) b s' :
  rbind x k = ROk b s' -> exists a s1, x = ROk a s1 /\ k a s1 = ROk b s'.
Proof. destruct x; cbn; intros H; try discriminate H. eauto. Qed.

Lemma rmap_err_ok {A} (x : rres A) g a s' : rmap_err x g = ROk a s' -> x = ROk a s'.
Proof. destruct x; cbn; intros H; try discriminate H. exact H. Qed.

Lemma rmap_err_ok_iff {A} (x : rres A) g a s' : rmap_err x g = ROk a s' <-> x = ROk a s'.
Proof. split; [apply rmap_err_ok|intros ->; reflexivity]. Qed.

Lemma rbind_assoc {A B C} (x : rres A) (k : A -> rstate -> rres B) (k' : B -> rstate -> rres C) :
  rbind (rbind x k) k' = rbind x (fun a s => rbind (k a s) k').
Proof. destruct x; reflexivity. Qed.

(* ---------- fold_idx ---------- *)
Lemma fold_idx_app {A} (step : A -> nat -> rstate -> rres unit) (l1 l2 : list A) i s :
  fold_idx step (l1 ++ l2) i s =
  rbind (fold_idx step l1 i s) (fun _ s' => fold_idx step l2 (i + List.length l1)%nat s').
Proof.
  revert i s. induction l1 as [|x l1 IH]; intros i s; cbn [fold_idx app List.length rbind].
  - rewrite Nat.add_0_r. reflexivity.
  - rewrite rbind_assoc. destruct (step x i s); cbn [rbind]; try reflexivity.
    rewrite IH. replace (S i + List.length l1)%nat with (i + S (List.length l1))%nat by lia.
    reflexivity.
Qed.

(* a reflexive-transitive relation between the state before and after each
   step holds between the state before and after the whole fold *)
Lemma fold_idx_inv {A} (P : rstate -> rstate -> Prop) (step : A -> nat -> rstate -> rres unit) :
  (forall s, P s s) -> (forall s1 s2 s3, P s1 s2 -> P s2 s3 -> P s1 s3) ->
  forall l, (forall x i s s', In x l -> step x i s = ROk tt s' -> P s s') ->
  forall i s s', fold_idx step l i s = ROk tt s' -> P s s'.
Proof.
  intros Hr Ht l. induction l as [|x l IH]; intros Hs i s s' H; cbn [fold_idx] in H.
  - injection H as <-. apply Hr.
  - apply rbind_ok in H. destruct H as ([] & s1 & H1 & H2).
    eapply Ht; [eapply Hs; [left; reflexivity|exact H1]|].
    eapply IH; [|exact H2]. intros; eapply Hs; [right|]; eassumption.
Qed.

(* an invariant of states preserved by each step is preserved by the fold *)
Lemma fold_idx_pres {A} (Q : rstate -> Prop) (step : A -> nat -> rstate -> rres unit) :
  forall l, (forall x i s s', In x l -> Q s -> step x i s = ROk tt s' -> Q s') ->
  forall i s s', Q s -> fold_idx step l i s = ROk tt s' -> Q s'.
Proof.
  intros l. induction l as [|x l IH]; intros Hs i s s' Hq H; cbn [fold_idx] in H.
  - injection H as <-. exact Hq.
  - apply rbind_ok in H. destruct H as ([] & s1 & H1 & H2).
    eapply IH; [|eapply Hs; [left; reflexivity|exact Hq|exact H1]|exact H2].
    intros; eapply Hs; [right|..]; eassumption.
Qed.

(* ---------- mapM ---------- *)
Lemma mapM_inv {A B} (P : rstate -> rstate -> Prop) (f : A -> rstate -> rres B) :
  (forall s, P s s) -> (forall s1 s2 s3, P s1 s2 -> P s2 s3 -> P s1 s3) ->
  forall l, (forall x s y s', In x l -> f x s = ROk y s' -> P s s') ->
  forall s ys s', mapM f l s = ROk ys s' -> P s s'.
Proof.
  intros Hr Ht l. induction l as [|x l IH]; intros Hs s ys s' H; cbn [mapM] in H.
  - injection H as <- <-. apply Hr.
  - apply rbind_ok in H. destruct H as (y & s1 & H1 & H2).
    apply rbind_ok in H2. destruct H2 as (ys' & s2 & H2 & H3). injection H3 as <- <-.
    eapply Ht; [eapply Hs; [left; reflexivity|exact H1]|].
    eapply IH; [|exact H2]. intros; eapply Hs; [right|]; eassumption.
Qed.

Lemma mapM_length {A B} (f : A -> rstate -> rres B) l :
  forall s ys s', mapM f l s = ROk ys s' -> List.length ys = List.length l.
Proof.
  induction l as [|x l IH]; intros s ys s' H; cbn [mapM] in H.
  - injection H as <- <-. reflexivity.
  - apply rbind_ok in H. destruct H as (y & s1 & H1 & H2).
    apply rbind_ok in H2. destruct H2 as (ys' & s2 & H2 & H3). injection H3 as <- <-.
    cbn [List.length]. f_equal. eapply IH; exact H2.
Qed.
