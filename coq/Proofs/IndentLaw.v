(* Proofs/IndentLaw.v — C12, writer level: the exact output of a sequence of
   indent_aware_write calls with an indent string in force, and when splitting
   a text into values makes no difference. *)
From HB Require Import Rt.Render Spec.WriterSpec Spec.IndentSpec Proofs.LeafStr Proofs.LeafWriter.
Open Scope N_scope.

(* ---------- indent_chunks over concatenation of sequences ---------- *)
Lemma indent_chunks_app W cs1 : forall cs2 b,
  indent_chunks W (cs1 ++ cs2) b =
  (fst (indent_chunks W cs1 b) ++ fst (indent_chunks W cs2 (snd (indent_chunks W cs1 b))),
   snd (indent_chunks W cs2 (snd (indent_chunks W cs1 b)))).
Proof.
  induction cs1 as [|v r IH]; intros cs2 b.
  - cbn [app indent_chunks fst snd]. destruct (indent_chunks W cs2 b); reflexivity.
  - cbn [app indent_chunks]. destruct v as [|c v'].
    + apply IH.
    + rewrite IH. destruct (indent_chunks W r (last_is is_newline (c :: v'))) as [o1 b1].
      cbn [fst snd]. rewrite app_assoc. reflexivity.
Qed.

Lemma indent_chunks_single W v b : v <> [] ->
  indent_chunks W [v] b = (indent_chunk W v b, last_is is_newline v).
Proof.
  intros Hv. destruct v as [|c v']; [congruence|].
  cbn [indent_chunks]. rewrite app_nil_r. reflexivity.
Qed.

Lemma indent_chunks_nil W b : indent_chunks W [] b = ([], b).
Proof. reflexivity. Qed.

(* the final flag depends on the concatenation only *)
Lemma indent_chunks_flag W cs : forall b,
  snd (indent_chunks W cs b) =
  match concat cs with [] => b | _ :: _ => last_is is_newline (concat cs) end.
Proof.
  induction cs as [|v r IH]; intros b; [reflexivity|].
  cbn [indent_chunks concat]. destruct v as [|c v'].
  - cbn [app]. apply IH.
  - specialize (IH (last_is is_newline (c :: v'))).
    destruct (indent_chunks W r (last_is is_newline (c :: v'))) as [o1 b1]. cbn [snd] in *.
    rewrite IH. destruct (concat r) as [|d r'] eqn:E.
    + rewrite app_nil_r. reflexivity.
    + cbn [app]. destruct (exists_last (l := d :: r')) as (p & z & Hz); [discriminate|].
      rewrite Hz. rewrite last_is_app.
      change (c :: v' ++ p ++ [z]) with ((c :: v') ++ p ++ [z]). rewrite app_assoc, last_is_app.
      reflexivity.
Qed.

(* ---------- one text, split in two ---------- *)
Lemma first_is_app f (u v : str) : u <> [] -> first_is f (u ++ v) = first_is f u.
Proof. destruct u; [congruence | reflexivity]. Qed.

Lemma with_indent_spec_app W : forall u v, u <> [] -> v <> [] ->
  with_indent_spec (u ++ v) W =
  with_indent_spec u W ++ (if last_is (fun x => N.eqb x 10) u then W else []) ++ with_indent_spec v W.
Proof.
  induction u as [|c u IH]; intros v Hu Hv; [congruence|].
  destruct u as [|d u'].
  - cbn [app with_indent_spec]. unfold last_is. cbn [last_opt].
    destruct (N.eqb c 10).
    + destruct v; [congruence|]. reflexivity.
    + reflexivity.
  - specialize (IH v ltac:(discriminate) Hv).
    change ((c :: d :: u') ++ v) with (c :: (d :: u') ++ v).
    rewrite last_is_cons2.
    cbn [with_indent_spec]. destruct (N.eqb c 10).
    + change ((d :: u') ++ v) with (d :: u' ++ v) at 1.
      cbn iota. rewrite IH. cbn [app]. rewrite <- !app_assoc. reflexivity.
    + rewrite IH. reflexivity.
Qed.

Lemma last_opt_app2 {A} (u v : list A) : v <> [] -> last_opt (u ++ v) = last_opt v.
Proof.
  intros Hv. destruct (exists_last Hv) as (p & z & ->).
  rewrite app_assoc, !last_opt_app. reflexivity.
Qed.

Lemma last_is_app2 f (u v : str) : v <> [] -> last_is f (u ++ v) = last_is f v.
Proof. intros Hv. unfold last_is. rewrite last_opt_app2 by exact Hv. reflexivity. Qed.

Lemma indent_chunk_app W u v b c v' :
  u <> [] -> v = c :: v' -> boundary_ok (last_opt u) c ->
  indent_chunk W (u ++ v) b = indent_chunk W u b ++ indent_chunk W v (last_is is_newline u).
Proof.
  intros Hu Ev Hb. assert (Hv : v <> []) by (subst v; discriminate).
  unfold indent_chunk. rewrite first_is_app by exact Hu.
  rewrite with_indent_spec_app by assumption. rewrite <- !app_assoc. f_equal. f_equal. f_equal.
  unfold last_is. destruct (last_opt u) as [p|] eqn:El.
  - cbn [boundary_ok] in Hb. destruct Hb as [H10 H13].
    subst v. cbn [first_is].
    destruct (N.eqb_spec p 10) as [->|Hp10].
    + rewrite (H10 eq_refl). reflexivity.
    + destruct (N.eqb_spec p 13) as [->|Hp13].
      * rewrite (H13 eq_refl). reflexivity.
      * unfold is_newline at 2.
        destruct (N.eqb_spec p 10); [contradiction|]. destruct (N.eqb_spec p 13); [contradiction|].
        cbn [orb]. rewrite andb_false_r. reflexivity.
  - rewrite andb_false_r. reflexivity.
Qed.

(* ---------- splitting does not matter at clean boundaries ---------- *)
Lemma indent_chunk_concat W : forall cs u b,
  u <> [] -> clean_from (last_opt u) cs ->
  indent_chunk W (u ++ concat cs) b =
  indent_chunk W u b ++ fst (indent_chunks W cs (last_is is_newline u)).
Proof.
  induction cs as [|v r IH]; intros u b Hu Hc.
  - cbn [concat indent_chunks fst]. rewrite !app_nil_r. reflexivity.
  - cbn [concat indent_chunks]. destruct v as [|c v'].
    + cbn [app]. apply IH; assumption.
    + cbn [clean_from] in Hc. destruct Hc as [Hb Hc].
      rewrite app_assoc.
      rewrite IH; [|destruct u; discriminate|rewrite last_opt_app2 by discriminate; exact Hc].
      rewrite (indent_chunk_app W u (c :: v') b c v' Hu eq_refl Hb).
      rewrite last_is_app2 by discriminate.
      destruct (indent_chunks W r (last_is is_newline (c :: v'))) as [o1 b1]. cbn [fst].
      rewrite <- app_assoc. reflexivity.
Qed.

Theorem chunking_irrelevant : forall W cs b,
  clean_chunks cs ->
  indent_chunks W cs b =
  (indent_lines W (concat cs) b,
   match concat cs with [] => b | _ :: _ => last_is is_newline (concat cs) end).
Proof.
  intros W cs b Hc. rewrite (surjective_pairing (indent_chunks W cs b)).
  rewrite indent_chunks_flag. f_equal.
  unfold clean_chunks in Hc. induction cs as [|v r IH]; [reflexivity|].
  cbn [concat indent_chunks]. destruct v as [|c v'].
  - cbn [app clean_from] in *. apply IH. exact Hc.
  - cbn [clean_from] in Hc. destruct Hc as [_ Hc].
    pose proof (indent_chunk_concat W r (c :: v') b ltac:(discriminate) Hc) as E.
    destruct (indent_chunks W r (last_is is_newline (c :: v'))) as [o1 b1]. cbn [fst] in *.
    rewrite <- E. reflexivity.
Qed.

(* a text without CR and without two consecutive LF is cleanly split by every
   splitting *)
Lemma no_blank_line_app u v : no_blank_line (u ++ v) -> no_blank_line u /\ no_blank_line v.
Proof.
  induction u as [|c u IH]; intros H; [split; [exact I | exact H]|].
  cbn [app no_blank_line] in H. destruct H as (Hc & Hn & Hr).
  destruct (IH Hr) as [Hu Hv]. split; [|exact Hv].
  cbn [no_blank_line]. split; [exact Hc|]. split; [|exact Hu].
  destruct u as [|d u']; [exact I | exact Hn].
Qed.

Lemma no_blank_line_boundary u c v :
  no_blank_line (u ++ c :: v) -> boundary_ok (last_opt u) c.
Proof.
  induction u as [|x u IH]; intros H; [exact I|].
  destruct u as [|y u'].
  - cbn [app no_blank_line last_opt boundary_ok] in *. destruct H as (Hx & Hn & Hc & _).
    split.
    + intros ->. unfold is_newline.
      destruct (N.eqb_spec c 10) as [->|]; [exfalso; apply Hn; auto|].
      destruct (N.eqb_spec c 13) as [->|]; [congruence | reflexivity].
    + intros ->. congruence.
  - change (last_opt (x :: y :: u')) with (last_opt (y :: u')). apply IH.
    cbn [app no_blank_line] in H. apply H.
Qed.

Lemma no_blank_line_clean : forall cs u,
  no_blank_line (u ++ concat cs) -> clean_from (last_opt u) cs.
Proof.
  induction cs as [|v r IH]; intros u H; [exact I|].
  cbn [concat clean_from] in *. destruct v as [|c v'].
  - apply IH. exact H.
  - split.
    + exact (no_blank_line_boundary u c (v' ++ concat r) H).
    + rewrite app_assoc in H. specialize (IH _ H).
      rewrite last_opt_app2 in IH by discriminate. exact IH.
Qed.

Theorem chunking_irrelevant_text : forall W cs b,
  no_blank_line (concat cs) ->
  fst (indent_chunks W cs b) = indent_lines W (concat cs) b.
Proof.
  intros W cs b H. rewrite chunking_irrelevant; [reflexivity|].
  apply (no_blank_line_clean cs []). exact H.
Qed.

(* ---------- and it does matter elsewhere (exactly the two boundary kinds) ---------- *)
(* a blank line: "a\n" + "\nb" against "a\n\nb" *)
Theorem chunking_matters_blank_line :
  concat [[97; 10]; [10; 98]] = concat [[97; 10; 10; 98]] /\
  fst (indent_chunks [32] [[97; 10]; [10; 98]] true) = [32; 97; 10; 10; 32; 98] /\
  fst (indent_chunks [32] [[97; 10; 10; 98]] true) = [32; 97; 10; 32; 10; 32; 98].
Proof. vm_compute. repeat split. Qed.

(* a lone CR: "a\r" + "b" against "a\rb" *)
Theorem chunking_matters_cr :
  concat [[97; 13]; [98]] = concat [[97; 13; 98]] /\
  fst (indent_chunks [32] [[97; 13]; [98]] true) = [32; 97; 13; 32; 98] /\
  fst (indent_chunks [32] [[97; 13; 98]] true) = [32; 97; 13; 98].
Proof. vm_compute. repeat split. Qed.

(* ---------- the writer against the specification ---------- *)

Lemma all_empty_chunks W cs : forall b, all_empty cs = true -> indent_chunks W cs b = ([], b).
Proof.
  induction cs as [|v r IH]; intros b H; [reflexivity|].
  cbn [all_empty forallb] in H. destruct v; [|discriminate]. cbn [indent_chunks]. apply IH. exact H.
Qed.

(* plain writer: the concatenation *)
Theorem write_all_plain : forall cs s,
  o_fail_at (s_out s) = None -> s_indent s = None ->
  exists s', write_all cs s = ROk tt s' /\
    o_fail_at (s_out s') = None /\ s_indent s' = None /\
    out_text (s_out s') = out_text (s_out s) ++ concat cs.
Proof.
  induction cs as [|v r IH]; intros s Hf Hi.
  - exists s. cbn [write_all concat]. rewrite app_nil_r. auto.
  - cbn [write_all concat]. destruct v as [|c v'].
    + cbn [indent_aware_write rbind app]. apply IH; assumption.
    + destruct (indent_aware_write_spec (c :: v') s Hf ltac:(discriminate)) as (o' & E & Hf' & T).
      rewrite E. cbn [rbind]. rewrite Hi in T.
      match goal with |- context [write_all r ?st] => destruct (IH st) as (s' & E' & F' & I' & T') end;
        [exact Hf' | exact Hi |].
      exists s'. split; [exact E'|]. split; [exact F'|]. split; [exact I'|].
      rewrite T'. cbn [s_out set_indent_before_write set_trailing_newline set_content_produced set_out].
      rewrite T, <- app_assoc. reflexivity.
Qed.

(* indenting writer: exactly indent_chunks, started with the indent_before_write
   flag of the state; no assumption on any other flag *)
Theorem write_all_indent : forall W cs s,
  o_fail_at (s_out s) = None -> s_indent s = Some W ->
  exists o',
    o_fail_at o' = None /\
    out_text o' = out_text (s_out s) ++ fst (indent_chunks W cs (s_indent_before_write s)) /\
    write_all cs s =
      ROk tt (if all_empty cs then set_out s o'
              else let b' := snd (indent_chunks W cs (s_indent_before_write s)) in
                   set_indent_before_write
                     (set_trailing_newline (set_content_produced (set_out s o') true) b') b').
Proof.
  intros W. induction cs as [|v r IH]; intros s Hf Hi.
  - exists (s_out s). cbn [write_all all_empty forallb indent_chunks fst]. rewrite app_nil_r, set_out_id. auto.
  - cbn [write_all]. destruct v as [|c v'].
    + cbn [indent_aware_write rbind all_empty forallb indent_chunks andb]. apply IH; assumption.
    + destruct (indent_aware_write_spec (c :: v') s Hf ltac:(discriminate)) as (o1 & E & Hf1 & T).
      rewrite E. cbn [rbind]. rewrite Hi in T.
      set (b1 := last_is is_newline (c :: v')) in *.
      set (s1 := set_indent_before_write (set_trailing_newline (set_content_produced (set_out s o1) true) b1) b1).
      destruct (IH s1 Hf1 Hi) as (o2 & Hf2 & T2 & E2).
      exists o2. split; [exact Hf2|]. split.
      * rewrite T2. change (s_out s1) with o1. rewrite T.
        change (s_indent_before_write s1) with b1.
        cbn [indent_chunks]. fold b1. destruct (indent_chunks W r b1) as [o b']. cbn [fst].
        unfold indent_chunk. rewrite <- !app_assoc. reflexivity.
      * rewrite E2. cbn [all_empty forallb andb]. fold (all_empty r).
        change (s_indent_before_write s1) with b1.
        cbn [indent_chunks]. fold b1.
        destruct (all_empty r) eqn:Ea.
        -- rewrite (all_empty_chunks W r b1 Ea). cbn [snd]. reflexivity.
        -- destruct (indent_chunks W r b1) as [o b']. cbn [snd]. reflexivity.
Qed.

(* ---------- satisfiability ---------- *)
Example chunking_irrelevant_ex :
  clean_chunks [[97; 10]; []; [98; 10; 99]; [100]] /\ no_blank_line [97; 10; 98; 10; 99; 100] /\
  fst (indent_chunks [9] [[97; 10]; []; [98; 10; 99]; [100]] true) = [9; 97; 10; 9; 98; 10; 9; 99; 100] /\
  indent_lines [9] [97; 10; 98; 10; 99; 100] true = [9; 97; 10; 9; 98; 10; 9; 99; 100].
Proof.
  vm_compute.
  repeat split; try reflexivity;
    try (let X := fresh in intro X; first [discriminate X | reflexivity | destruct X; discriminate]).
Qed.
