(* Proofs/PegTermination.v — C04 "never hangs", PEG part.
   A sound executable well-formedness analysis of a pest grammar as interpreted
   by Peg/Peg.v: every repetition body is non-nullable and there is no left
   recursion (every rule has a rank that strictly decreases along calls made at
   the same input position).  Generic theorems:
     nullable_sound      a non-nullable expression consumes >= 1 character on success
     rep_progress        every successful iteration of a checked repetition consumes >= 1
     eval_fuel_sufficient  fuel linear in |input| suffices: eval never returns OutOfFuel
   and the instance for the GENERATED grammar hb_defs (tables computed and
   checked by vm_compute at build time, so they follow grammar.pest). *)
From Coq Require Import List NArith Lia Bool Arith.
From HB Require Import Peg.Peg Peg.Grammar Proofs.PegFacts.
Import ListNotations.
Open Scope N_scope.

Section Wf.
  Variable rule : Type.
  Variable defs : rule -> rkind * expr rule.
  Variable ws : expr rule.
  Variable nl : rule -> bool.     (* table: rule may succeed without consuming *)
  Variable rh : rule -> nat.      (* table: rank of a rule *)
  Variable wsh : nat.             (* bound for the height of ws *)
  Variable K : nat.               (* bound for the height of every expression of the grammar *)

  Notation ev := (eval rule defs ws).
  Notation expr := (expr rule).

  (* conservative: false = certainly consumes at least one character on success.
     (written with if-then-else so that vm_compute explores one branch only) *)
  Fixpoint nullable_e (e : expr) : bool :=
    match e with
    | EStr s => match s with [] => true | _ => false end
    | ERange _ _ | EAny => false
    | EEoi => true
    | ERef r => nl r
    | ESeq a b => if nullable_e a then nullable_e b else false
    | EAlt a b => if nullable_e a then true else nullable_e b
    | EOpt _ | ERepTail _ | ERepPlain _ | ESkip | ENot _ | EAnd _ => true
    end.

  (* every repetition body occurring in e is non-nullable *)
  Fixpoint reps_ok (e : expr) : bool :=
    match e with
    | ESeq a b | EAlt a b => reps_ok a && reps_ok b
    | EOpt a | ENot a | EAnd a => reps_ok a
    | ERepTail a | ERepPlain a => negb (nullable_e a) && reps_ok a
    | _ => true
    end.

  Fixpoint rep_bodies (e : expr) : list expr :=
    match e with
    | ESeq a b | EAlt a b => rep_bodies a ++ rep_bodies b
    | EOpt a | ENot a | EAnd a => rep_bodies a
    | ERepTail a | ERepPlain a => a :: rep_bodies a
    | _ => []
    end.

  (* same-position height: depth of nested eval calls before a character is consumed *)
  Fixpoint sp (e : expr) : nat :=
    match e with
    | EStr _ | ERange _ _ | EAny | EEoi => 1
    | ERef r => S (rh r)
    | ESeq a b => S (Nat.max (sp a) (if nullable_e a then sp b else 0))
    | EAlt a b => S (Nat.max (sp a) (sp b))
    | EOpt a | ENot a | EAnd a => S (sp a)
    | ERepTail a => S (S (Nat.max (S (S wsh)) (sp a)))
    | ERepPlain a => S (sp a)
    | ESkip => S (S wsh)
    end%nat.

  (* total height: as sp, but counting every sub-expression *)
  Fixpoint th (e : expr) : nat :=
    match e with
    | EStr _ | ERange _ _ | EAny | EEoi => 1
    | ERef r => S (rh r)
    | ESeq a b | EAlt a b => S (Nat.max (th a) (th b))
    | EOpt a | ENot a | EAnd a => S (th a)
    | ERepTail a => S (S (Nat.max (S (S wsh)) (th a)))
    | ERepPlain a => S (th a)
    | ESkip => S (S wsh)
    end%nat.

  Definition rule_ok (r : rule) : bool :=
    let b := snd (defs r) in
    (if nullable_e b then nl r else true)
    && Nat.leb (sp b) (rh r) && reps_ok b && Nat.leb (th b) K && Nat.leb (S (rh r)) K.

  Definition ws_ok : bool :=
    negb (nullable_e ws) && reps_ok ws && Nat.leb (th ws) wsh && Nat.leb (S (S wsh)) K.

  Hypothesis Hrules : forall r, rule_ok r = true.
  Hypothesis Hws : ws_ok = true.

  Lemma rule_ok_inv r :
    (nullable_e (snd (defs r)) = true -> nl r = true) /\
    (sp (snd (defs r)) <= rh r)%nat /\ reps_ok (snd (defs r)) = true /\
    (th (snd (defs r)) <= K)%nat /\ (S (rh r) <= K)%nat.
  Proof.
    pose proof (Hrules r) as H. unfold rule_ok in H.
    repeat (apply andb_true_iff in H; destruct H as [H ?]).
    repeat split; try (apply Nat.leb_le; assumption); try assumption.
    intros Hn. rewrite Hn in H. exact H.
  Qed.

  Lemma ws_ok_inv :
    nullable_e ws = false /\ reps_ok ws = true /\ (th ws <= wsh)%nat /\ (S (S wsh) <= K)%nat.
  Proof.
    pose proof Hws as H. unfold ws_ok in H.
    repeat (apply andb_true_iff in H; destruct H as [H ?]).
    repeat split; try (apply Nat.leb_le; assumption); try assumption.
    apply negb_true_iff. exact H.
  Qed.

  (* ---------- progress ---------- *)
  Theorem nullable_sound : forall f e at_ q inp pos pos' rest ts,
    nullable_e e = false -> ev f e at_ q inp pos = Ok pos' rest ts -> pos < pos'.
  Proof.
    induction f as [|f IH]; intros e at_ q inp pos pos' rest ts Hn H; [discriminate|].
    destruct e; cbn [nullable_e] in Hn; try discriminate; cbn [eval] in H.
    - (* EStr *)
      destruct s as [|c s]; [discriminate|].
      destruct (starts_with (c :: s) inp); [|discriminate]. inversion H; subst.
      rewrite len_cons. lia.
    - destruct inp as [|c r]; [discriminate|].
      destruct (N.leb lo c && N.leb c hi); [|discriminate]. inversion H; subst. lia.
    - destruct inp as [|c r]; [discriminate|]. inversion H; subst. lia.
    - (* ERef *)
      destruct (rule_ok_inv r) as (Hnl & _).
      assert (Hb : nullable_e (snd (defs r)) = false).
      { destruct (nullable_e (snd (defs r))); [|reflexivity]. rewrite Hnl in Hn by reflexivity. discriminate. }
      destruct (defs r) as [k body]. cbn [snd] in Hb.
      destruct k.
      + destruct (ev f body at_ q inp pos) eqn:E; try discriminate. inversion H; subst. eapply IH; eassumption.
      + eapply IH; eassumption.
      + destruct (ev f body AAtomic q inp pos) eqn:E; try discriminate. inversion H; subst. eapply IH; eassumption.
      + destruct (ev f body ACompound q inp pos) eqn:E; try discriminate. inversion H; subst. eapply IH; eassumption.
      + destruct (ev f body ANon q inp pos) eqn:E; try discriminate. inversion H; subst. eapply IH; eassumption.
    - (* ESeq *)
      destruct (ev f e1 at_ q inp pos) eqn:E1; try discriminate.
      destruct (ev f e2 at_ q rest0 pos0) eqn:E2; try discriminate.
      inversion H; subst.
      pose proof (good_le _ _ _ _ _ _ (eval_good _ _ _ _ _ _ _ _ _ _ _ _ E1)) as L1.
      pose proof (good_le _ _ _ _ _ _ (eval_good _ _ _ _ _ _ _ _ _ _ _ _ E2)) as L2.
      destruct (nullable_e e1) eqn:N1.
      + pose proof (IH _ _ _ _ _ _ _ _ Hn E2). lia.
      + pose proof (IH _ _ _ _ _ _ _ _ N1 E1). lia.
    - (* EAlt *)
      destruct (nullable_e e1) eqn:N1; [discriminate|].
      destruct (ev f e1 at_ q inp pos) eqn:E1; try discriminate.
      + inversion H; subst. exact (IH _ _ _ _ _ _ _ _ N1 E1).
      + exact (IH _ _ _ _ _ _ _ _ Hn H).
  Qed.

  Lemma reps_ok_bodies : forall e a, reps_ok e = true -> In a (rep_bodies e) -> nullable_e a = false.
  Proof.
    induction e; intros a0 Hr Hin; cbn [reps_ok rep_bodies] in *; try contradiction;
      try (apply andb_true_iff in Hr; destruct Hr as [Hr1 Hr2]).
    - apply in_app_or in Hin. destruct Hin; [apply IHe1|apply IHe2]; assumption.
    - apply in_app_or in Hin. destruct Hin; [apply IHe1|apply IHe2]; assumption.
    - apply IHe; assumption.
    - destruct Hin as [<-|Hin]; [apply negb_true_iff; assumption | apply IHe; assumption].
    - destruct Hin as [<-|Hin]; [apply negb_true_iff; assumption | apply IHe; assumption].
    - apply IHe; assumption.
    - apply IHe; assumption.
  Qed.

  (* every repetition body in a rule of the grammar, and the whitespace
     expression, consumes at least one character whenever it succeeds; so does a
     whole iteration `skip ~ body` *)
  Theorem rep_progress : forall r a, In a (rep_bodies (snd (defs r))) ->
    forall f at_ q inp pos pos' rest ts,
    (ev f a at_ q inp pos = Ok pos' rest ts -> pos < pos') /\
    (ev f (ESeq ESkip a) at_ q inp pos = Ok pos' rest ts -> pos < pos').
  Proof.
    intros r a Hin f at_ q inp pos pos' rest ts.
    destruct (rule_ok_inv r) as (_ & _ & Hr & _).
    pose proof (reps_ok_bodies _ _ Hr Hin) as Hn.
    split; intros H.
    - eapply nullable_sound; eassumption.
    - eapply (nullable_sound f (ESeq ESkip a)); [|eassumption]. cbn [nullable_e]. exact Hn.
  Qed.

  Theorem ws_progress : forall f at_ q inp pos pos' rest ts,
    ev f ws at_ q inp pos = Ok pos' rest ts -> pos < pos'.
  Proof.
    intros. destruct ws_ok_inv as (Hn & _). eapply nullable_sound; eassumption.
  Qed.

  (* ---------- fuel sufficiency ---------- *)
  Definition wf_e (e : expr) : Prop := reps_ok e = true /\ (th e <= K)%nat.

  Lemma sp_le_th : forall e, (sp e <= th e)%nat.
  Proof.
    induction e; cbn [sp th]; try lia.
    destruct (nullable_e e1); lia.
  Qed.

  Lemma sp_pos : forall e, (1 <= sp e)%nat.
  Proof. destruct e; cbn [sp]; lia. Qed.

  Lemma wf_e_body r : wf_e (snd (defs r)).
  Proof. destruct (rule_ok_inv r) as (_ & _ & A & B & _). split; assumption. Qed.

  Lemma wf_e_ref r : wf_e (ERef r).
  Proof. destruct (rule_ok_inv r) as (_ & _ & _ & _ & B). split; [reflexivity | exact B]. Qed.

  Lemma wf_e_repws : wf_e (ERepPlain ws).
  Proof.
    destruct ws_ok_inv as (A & B & C & D). split.
    - cbn [reps_ok]. rewrite A, B. reflexivity.
    - cbn [th]. lia.
  Qed.

  Lemma fuel_inner : forall inp,
    (forall inp', (length inp' < length inp)%nat -> forall e, wf_e e -> forall f at_ q pos,
        (sp e + S K * length inp' <= f)%nat -> ev f e at_ q inp' pos <> OutOfFuel) ->
    forall m e, (sp e <= m)%nat -> wf_e e -> forall f at_ q pos,
        (m + S K * length inp <= f)%nat -> ev f e at_ q inp pos <> OutOfFuel.
  Proof.
    intros inp Hout. induction m as [|m IHm]; intros e Hsp Hwf f at_ q pos Hf.
    { pose proof (sp_pos e). lia. }
    destruct f as [|f]; [lia|].
    assert (Hsame : forall e', (sp e' <= m)%nat -> wf_e e' -> forall at_ q pos,
              ev f e' at_ q inp pos <> OutOfFuel).
    { intros e' Hs Hw a' q' p'. apply IHm; [assumption|assumption|lia]. }
    (* a later call on the rest of the input *)
    assert (Hlater : forall e' r1, wf_e e' -> (length r1 < length inp)%nat -> forall at_ q pos,
              ev f e' at_ q r1 pos <> OutOfFuel).
    { intros e' r1 Hw Hl a' q' p'. apply Hout; [assumption|assumption|].
      destruct Hw as [_ Hth]. pose proof (sp_le_th e'). nia. }
    destruct Hwf as [Hr Hth].
    destruct e; cbn [eval]; cbn [sp] in Hsp; cbn [reps_ok] in Hr; cbn [th] in Hth.
    - destruct (starts_with s inp); discriminate.
    - destruct inp as [|c r]; [discriminate|]. destruct (N.leb lo c && N.leb c hi); discriminate.
    - destruct inp; discriminate.
    - destruct inp; discriminate.
    - (* ERef *)
      destruct (rule_ok_inv r) as (_ & Hrank & _). pose proof (wf_e_body r) as Hwb.
      destruct (defs r) as [k body]. cbn [snd] in *.
      assert (Hb : forall a' q' p', ev f body a' q' inp p' <> OutOfFuel).
      { intros. apply Hsame; [lia|assumption]. }
      destruct k.
      + destruct (ev f body at_ q inp pos) eqn:E; try discriminate. exfalso; revert E; apply Hb.
      + apply Hb.
      + destruct (ev f body AAtomic q inp pos) eqn:E; try discriminate. exfalso; revert E; apply Hb.
      + destruct (ev f body ACompound q inp pos) eqn:E; try discriminate. exfalso; revert E; apply Hb.
      + destruct (ev f body ANon q inp pos) eqn:E; try discriminate. exfalso; revert E; apply Hb.
    - (* ESeq *)
      apply andb_true_iff in Hr. destruct Hr as [Hr1 Hr2].
      assert (W1 : wf_e e1) by (split; [assumption|lia]).
      assert (W2 : wf_e e2) by (split; [assumption|lia]).
      destruct (ev f e1 at_ q inp pos) eqn:E1; try discriminate.
      2:{ exfalso; revert E1; apply Hsame; [lia|assumption]. }
      destruct (eval_good _ _ _ _ _ _ _ _ _ _ _ _ E1) as (c & Ei & Ep & _).
      assert (Hb : ev f e2 at_ q rest pos0 <> OutOfFuel).
      { destruct c as [|x c].
        - cbn [app] in Ei. subst rest. rewrite len_nil in Ep.
          destruct (nullable_e e1) eqn:N1.
          + apply Hsame; [lia|assumption].
          + pose proof (nullable_sound _ _ _ _ _ _ _ _ _ N1 E1). lia.
        - apply Hlater; [assumption|]. subst inp. rewrite app_length. cbn [length]. lia. }
      destruct (ev f e2 at_ q rest pos0) eqn:E2; try discriminate. exfalso; apply Hb; reflexivity.
    - (* EAlt *)
      apply andb_true_iff in Hr. destruct Hr as [Hr1 Hr2].
      destruct (ev f e1 at_ q inp pos) eqn:E1; try discriminate.
      + apply Hsame; [lia|split; [assumption|lia]].
      + exfalso; revert E1; apply Hsame; [lia|split; [assumption|lia]].
    - (* EOpt *)
      destruct (ev f e at_ q inp pos) eqn:E1; try discriminate.
      exfalso; revert E1; apply Hsame; [lia|split; [assumption|lia]].
    - (* ERepTail *)
      apply andb_true_iff in Hr. destruct Hr as [Hn Hr1]. apply negb_true_iff in Hn.
      assert (Wb : wf_e (ESeq ESkip e)).
      { split; [cbn [reps_ok]; exact Hr1 | cbn [th]; lia]. }
      assert (Sb : (sp (ESeq ESkip e) <= m)%nat) by (cbn [sp nullable_e]; lia).
      destruct (ev f (ESeq ESkip e) at_ q inp pos) eqn:E1; try discriminate.
      2:{ exfalso; revert E1; apply Hsame; assumption. }
      assert (Hlt : pos < pos0).
      { eapply (nullable_sound f (ESeq ESkip e)); [|eassumption]. cbn [nullable_e]. exact Hn. }
      destruct (eval_good _ _ _ _ _ _ _ _ _ _ _ _ E1) as (c & Ei & Ep & _).
      assert (Hl : (length rest < length inp)%nat).
      { subst inp. rewrite app_length. destruct c; [rewrite len_nil in Ep; lia | cbn [length]; lia]. }
      destruct (ev f (ERepTail e) at_ q rest pos0) eqn:E2; try discriminate.
      exfalso; revert E2; apply Hlater; [|assumption].
      split; [cbn [reps_ok]; rewrite Hn, Hr1; reflexivity | cbn [th]; lia].
    - (* ERepPlain *)
      apply andb_true_iff in Hr. destruct Hr as [Hn Hr1]. apply negb_true_iff in Hn.
      destruct (ev f e at_ q inp pos) eqn:E1; try discriminate.
      2:{ exfalso; revert E1; apply Hsame; [lia|split; [assumption|lia]]. }
      pose proof (nullable_sound _ _ _ _ _ _ _ _ _ Hn E1) as Hlt.
      destruct (eval_good _ _ _ _ _ _ _ _ _ _ _ _ E1) as (c & Ei & Ep & _).
      assert (Hl : (length rest < length inp)%nat).
      { subst inp. rewrite app_length. destruct c; [rewrite len_nil in Ep; lia | cbn [length]; lia]. }
      destruct (ev f (ERepPlain e) at_ q rest pos0) eqn:E2; try discriminate.
      exfalso; revert E2; apply Hlater; [|assumption].
      split; [cbn [reps_ok]; rewrite Hn, Hr1; reflexivity | cbn [th]; lia].
    - (* ESkip *)
      destruct at_; try discriminate.
      apply Hsame; [|apply wf_e_repws].
      destruct ws_ok_inv as (_ & _ & C & _). pose proof (sp_le_th ws). cbn [sp]. lia.
    - (* ENot *)
      destruct (ev f e at_ true inp pos) eqn:E1; try discriminate.
      exfalso; revert E1; apply Hsame; [lia|split; [assumption|lia]].
    - (* EAnd *)
      destruct (ev f e at_ true inp pos) eqn:E1; try discriminate.
      exfalso; revert E1; apply Hsame; [lia|split; [assumption|lia]].
  Qed.

  Theorem eval_fuel_sufficient : forall inp e, wf_e e -> forall f at_ q pos,
    (sp e + S K * length inp <= f)%nat -> ev f e at_ q inp pos <> OutOfFuel.
  Proof.
    intros inp. remember (length inp) as n eqn:En. revert inp En.
    induction n as [n IHn] using lt_wf_ind. intros inp En e Hwf f at_ q pos Hf.
    apply (fuel_inner inp) with (m := sp e); [|lia|assumption|lia].
    intros inp' Hl e' Hw' f' a' q' p' Hf'.
    apply (IHn (length inp')); [lia|reflexivity|assumption|assumption].
  Qed.

  (* the parser never runs out of fuel above an explicit bound linear in |input| *)
  Theorem parse_fuel_sufficient : forall start inp f,
    (S (rh start) + S K * length inp <= f)%nat ->
    parse rule defs ws f start inp <> ParseOutOfFuel.
  Proof.
    intros start inp f Hf. unfold parse.
    pose proof (eval_fuel_sufficient inp (ERef start) (wf_e_ref start) f ANon false 0 Hf) as H.
    destruct (ev f (ERef start) ANon false inp 0); try discriminate. congruence.
  Qed.

End Wf.

(* ---------- the instance for the generated handlebars grammar ---------- *)
(* tables obtained by iterating the analysis itself; they are CHECKED below *)
Fixpoint nl_iter (n : nat) (r : rule) : bool :=
  match n with
  | O => true
  | S n' => nullable_e rule (nl_iter n') (snd (hb_defs r))
  end.

Definition tab_index (r : rule) : nat := N.to_nat (rule_index r).

Definition hb_nl_tab : list bool := Eval vm_compute in map (nl_iter 80) all_rules.
Definition hb_nl (r : rule) : bool := nth (tab_index r) hb_nl_tab true.

(* the whitespace rule has no implicit skips inside, so its height does not depend on wsh *)
Fixpoint rh_iter (wsh : nat) (n : nat) (r : rule) : nat :=
  match n with
  | O => O
  | S n' => sp rule hb_nl (rh_iter wsh n') wsh (snd (hb_defs r))
  end.

Definition hb_wsh : nat := Eval vm_compute in th rule (rh_iter 0 80) 0 hb_ws.
Definition hb_rh_tab : list nat := Eval vm_compute in map (rh_iter hb_wsh 80) all_rules.
Definition hb_rh (r : rule) : nat := nth (tab_index r) hb_rh_tab O.

Definition hb_K : nat := Eval vm_compute in
  fold_right Nat.max (S (S hb_wsh))
    (map (fun r => Nat.max (S (hb_rh r)) (th rule hb_rh hb_wsh (snd (hb_defs r)))) all_rules).


Definition wf_grammar : bool :=
  forallb (rule_ok rule hb_defs hb_nl hb_rh hb_wsh hb_K) all_rules
  && ws_ok rule hb_ws hb_nl hb_rh hb_wsh hb_K.

Theorem wf_grammar_hb : wf_grammar = true.
Proof. vm_compute. reflexivity. Qed.

Lemma all_rules_complete : forall r : rule, In r all_rules.
Proof.
  intros r. apply nth_error_In with (n := tab_index r). destruct r; reflexivity.
Qed.

Lemma hb_rules_ok : forall r, rule_ok rule hb_defs hb_nl hb_rh hb_wsh hb_K r = true.
Proof.
  intros r. pose proof wf_grammar_hb as H. unfold wf_grammar in H.
  apply andb_true_iff in H. destruct H as [H _].
  rewrite forallb_forall in H. apply H, all_rules_complete.
Qed.

Lemma hb_ws_ok : ws_ok rule hb_ws hb_nl hb_rh hb_wsh hb_K = true.
Proof.
  pose proof wf_grammar_hb as H. unfold wf_grammar in H.
  apply andb_true_iff in H. destruct H as [_ H]. exact H.
Qed.

(* progress: in the generated grammar, every repetition body — and every whole
   iteration `skip ~ body` — consumes at least one character when it succeeds *)
Theorem hb_rep_progress : forall r a, In a (rep_bodies rule (snd (hb_defs r))) ->
  forall f at_ q inp pos pos' rest ts,
  (hb_eval f a at_ q inp pos = Ok pos' rest ts -> pos < pos') /\
  (hb_eval f (ESeq ESkip a) at_ q inp pos = Ok pos' rest ts -> pos < pos').
Proof. exact (rep_progress rule hb_defs hb_ws hb_nl hb_rh hb_wsh hb_K hb_rules_ok). Qed.

Theorem hb_ws_progress : forall f at_ q inp pos pos' rest ts,
  hb_eval f hb_ws at_ q inp pos = Ok pos' rest ts -> pos < pos'.
Proof. exact (ws_progress rule hb_defs hb_ws hb_nl hb_rh hb_wsh hb_K hb_rules_ok hb_ws_ok). Qed.

(* the repetitions are really there (the progress theorem is not vacuous) *)
Example hb_rep_progress_nonvacuous :
  In (EAlt (ERef R_escape) (e_seq (ENot (EStr [123; 123])) EAny))
     (rep_bodies rule (snd (hb_defs R_raw_text)))
  /\ (20 <= length (concat (map (fun r => rep_bodies rule (snd (hb_defs r))) all_rules)))%nat.
Proof. split; [left; reflexivity | vm_compute; lia]. Qed.

(* fuel: linear in the input length, for every start rule *)
Definition hb_fuel_bound (src : str) : nat := hb_K + S hb_K * length src.

Theorem hb_parse_fuel_sufficient : forall start src fuel,
  (hb_fuel_bound src <= fuel)%nat -> hb_parse fuel start src <> ParseOutOfFuel.
Proof.
  intros start src fuel Hf.
  apply (parse_fuel_sufficient rule hb_defs hb_ws hb_nl hb_rh hb_wsh hb_K hb_rules_ok hb_ws_ok).
  destruct (rule_ok_inv rule hb_defs hb_nl hb_rh hb_wsh hb_K hb_rules_ok start) as (_ & _ & _ & _ & B).
  unfold hb_fuel_bound in Hf. lia.
Qed.

Theorem hb_parse_terminates : exists a b : nat, forall start src fuel,
  (a + b * length src <= fuel)%nat -> hb_parse fuel start src <> ParseOutOfFuel.
Proof. exists hb_K, (S hb_K). exact hb_parse_fuel_sufficient. Qed.

(* and then the result no longer depends on the fuel *)
Corollary hb_parse_stable : forall start src f1 f2,
  (hb_fuel_bound src <= f1)%nat -> (hb_fuel_bound src <= f2)%nat ->
  hb_parse f1 start src = hb_parse f2 start src.
Proof.
  intros start src f1 f2 H1 H2.
  pose proof (hb_parse_fuel_sufficient start src _ (le_n _)) as Hn.
  revert H1 H2 Hn. generalize (hb_fuel_bound src) as b. intros b H1 H2 Hn.
  unfold hb_parse, parse in *.
  assert (Hne : eval rule hb_defs hb_ws b (ERef start) ANon false src 0 <> OutOfFuel).
  { intros E. rewrite E in Hn. apply Hn. reflexivity. }
  pose proof (eval_fuel_mono_eq rule hb_defs hb_ws b (ERef start) ANon false src 0 Hne f1 H1) as E1.
  pose proof (eval_fuel_mono_eq rule hb_defs hb_ws b (ERef start) ANon false src 0 Hne f2 H2) as E2.
  rewrite E1, E2. reflexivity.
Qed.
