(* Proofs/PegFacts.v — generic facts about the PEG interpreter Peg/Peg.v, for any
   rule type, rule table and whitespace expression:
   fuel monotonicity, span/position consistency of results (eval_good),
   quiet evaluation emits nothing, and the consequences for `parse`. *)
From Coq Require Import List NArith Lia Bool.
From HB Require Import Peg.Peg.
Import ListNotations.
Open Scope N_scope.

Arguments N.add : simpl never.
Arguments N.sub : simpl never.
Arguments N.mul : simpl never.
Arguments N.leb : simpl never.
Arguments N.ltb : simpl never.
Arguments N.eqb : simpl never.

(* ---------- small string lemmas ---------- *)
Lemma len_nil : len [] = 0.
Proof. reflexivity. Qed.

Lemma len_cons c (s : str) : len (c :: s) = 1 + len s.
Proof. unfold len. cbn [length]. lia. Qed.

Lemma len_app (a b : str) : len (a ++ b) = len a + len b.
Proof. unfold len. rewrite app_length. lia. Qed.

Lemma starts_with_split p : forall s, starts_with p s = true -> s = p ++ skipn (length p) s.
Proof.
  induction p as [|x p IH]; intros s H; cbn [starts_with] in H.
  - reflexivity.
  - destruct s as [|y s]; [discriminate|].
    apply andb_true_iff in H. destruct H as [Hxy Hp].
    apply N.eqb_eq in Hxy. subst y. cbn [length skipn app]. f_equal. apply IH, Hp.
Qed.

Lemma starts_with_app p r : starts_with p (p ++ r) = true.
Proof.
  induction p as [|x p IH]; cbn [starts_with app]; [reflexivity|].
  rewrite N.eqb_refl, IH. reflexivity.
Qed.

Section PegFacts.
  Variable rule : Type.
  Variable defs : rule -> rkind * expr rule.
  Variable ws : expr rule.

  Notation ev := (eval rule defs ws).
  Notation tokn := (token rule).

  (* ---------- fuel monotonicity ---------- *)
  Lemma eval_fuel_mono_eq : forall f e at_ q inp pos,
    ev f e at_ q inp pos <> OutOfFuel ->
    forall f', (f <= f')%nat -> ev f' e at_ q inp pos = ev f e at_ q inp pos.
  Proof.
    induction f as [|f IH]; intros e at_ q inp pos Hne f' Hle.
    - exfalso. apply Hne. reflexivity.
    - destruct f' as [|f']; [lia|].
      assert (IH' : forall e at_ q inp pos, ev f e at_ q inp pos <> OutOfFuel ->
                     ev f' e at_ q inp pos = ev f e at_ q inp pos).
      { intros. apply IH; [assumption|lia]. }
      clear IH Hle.
      Local Ltac mono_step IH' :=
        match goal with
        | H : context [eval _ _ _ ?f ?e ?a ?q ?i ?p] |- context [eval _ _ _ ?f' ?e ?a ?q ?i ?p] =>
            lazymatch f' with
            | f => fail
            | _ =>
              let E := fresh "E" in
              let E' := fresh "E'" in
              destruct (eval _ _ _ f e a q i p) eqn:E;
              [ assert (E' : eval _ _ _ f' e a q i p = eval _ _ _ f e a q i p)
                  by (apply IH'; rewrite E; discriminate);
                rewrite E' , E; clear E'
              | assert (E' : eval _ _ _ f' e a q i p = eval _ _ _ f e a q i p)
                  by (apply IH'; rewrite E; discriminate);
                rewrite E', E; clear E'
              | exfalso; apply H; reflexivity ]
            end
        end.
      destruct e; cbn [eval] in Hne |- *;
        try reflexivity.
      + (* ERef *)
        destruct (defs r) as [k body]. destruct k; repeat mono_step IH'; try reflexivity.
      + repeat mono_step IH'; reflexivity.
      + repeat mono_step IH'; try reflexivity; try (apply IH'; assumption).
      + repeat mono_step IH'; reflexivity.
      + repeat mono_step IH'; reflexivity.
      + repeat mono_step IH'; reflexivity.
      + destruct at_; try reflexivity; repeat mono_step IH'; try reflexivity.
      + repeat mono_step IH'; reflexivity.
      + repeat mono_step IH'; reflexivity.
  Qed.

  Theorem eval_fuel_mono : forall f e at_ q inp pos r,
    ev f e at_ q inp pos = r -> r <> OutOfFuel ->
    forall f', (f <= f')%nat -> ev f' e at_ q inp pos = r.
  Proof.
    intros f e at_ q inp pos r H Hne f' Hle. subst r.
    apply eval_fuel_mono_eq; assumption.
  Qed.

  (* ---------- results are consistent with the input ---------- *)
  Definition span_in (lo hi : N) (t : tokn) : Prop :=
    lo <= tk_start t /\ tk_start t <= tk_end t /\ tk_end t <= hi.

  (* consumed a prefix, advanced the position by its length, tokens in range *)
  Definition good (inp : str) (pos pos' : N) (rest : str) (ts : list tokn) : Prop :=
    exists consumed, inp = consumed ++ rest /\ pos' = pos + len consumed /\
                     Forall (span_in pos pos') ts.

  Lemma good_refl inp pos : good inp pos pos inp [].
  Proof. exists []. repeat split; [rewrite len_nil; lia | constructor]. Qed.

  Lemma span_in_weaken lo hi lo' hi' t :
    lo' <= lo -> hi <= hi' -> span_in lo hi t -> span_in lo' hi' t.
  Proof. unfold span_in. intros; lia. Qed.

  Lemma good_trans inp p0 p1 r1 ts1 p2 r2 ts2 :
    good inp p0 p1 r1 ts1 -> good r1 p1 p2 r2 ts2 -> good inp p0 p2 r2 (ts1 ++ ts2).
  Proof.
    intros (c1 & E1 & P1 & F1) (c2 & E2 & P2 & F2).
    exists (c1 ++ c2). repeat split.
    - rewrite E1, E2, app_assoc. reflexivity.
    - rewrite len_app. lia.
    - apply Forall_app. split.
      + eapply Forall_impl; [|exact F1]. intros t. apply span_in_weaken; lia.
      + eapply Forall_impl; [|exact F2]. intros t. apply span_in_weaken; lia.
  Qed.

  Lemma good_le inp p0 p1 r ts : good inp p0 p1 r ts -> p0 <= p1.
  Proof. intros (c & _ & P & _). lia. Qed.

  Lemma good_emit inp p0 p1 r ts at_ q rl :
    good inp p0 p1 r ts -> good inp p0 p1 r (emit rule at_ q rl p0 p1 ts).
  Proof.
    intros G. pose proof (good_le _ _ _ _ _ G) as Hle.
    destruct G as (c & E & P & F). exists c. repeat split; try assumption.
    unfold emit. destruct q; [assumption|]. destruct at_; try assumption;
      (constructor; [unfold span_in, tk_start, tk_end; cbn; lia | assumption]).
  Qed.

  Lemma good_drop_tokens inp p0 p1 r ts : good inp p0 p1 r ts -> good inp p0 p1 r [].
  Proof. intros (c & E & P & _). exists c. repeat split; auto. Qed.

  Theorem eval_good : forall f e at_ q inp pos pos' rest ts,
    ev f e at_ q inp pos = Ok pos' rest ts -> good inp pos pos' rest ts.
  Proof.
    induction f as [|f IH]; intros e at_ q inp pos pos' rest ts H; [discriminate|].
    destruct e; cbn [eval] in H.
    - (* EStr *)
      destruct (starts_with s inp) eqn:Es; [|discriminate]. inversion H; subst; clear H.
      exists s. repeat split; [apply starts_with_split; assumption | constructor].
    - (* ERange *)
      destruct inp as [|c r]; [discriminate|].
      destruct (N.leb lo c && N.leb c hi); [|discriminate]. inversion H; subst; clear H.
      exists [c]. repeat split; constructor.
    - destruct inp as [|c r]; [discriminate|]. inversion H; subst; clear H.
      exists [c]. repeat split; constructor.
    - destruct inp; [|discriminate]. inversion H; subst; clear H. apply good_refl.
    - (* ERef *)
      destruct (defs r) as [k body].
      destruct k.
      + destruct (ev f body at_ q inp pos) eqn:E; try discriminate.
        inversion H; subst; clear H. apply good_emit. eapply IH; eassumption.
      + eapply IH; eassumption.
      + destruct (ev f body AAtomic q inp pos) eqn:E; try discriminate.
        inversion H; subst; clear H. apply good_emit. eapply IH; eassumption.
      + destruct (ev f body ACompound q inp pos) eqn:E; try discriminate.
        inversion H; subst; clear H. apply good_emit. eapply IH; eassumption.
      + destruct (ev f body ANon q inp pos) eqn:E; try discriminate.
        inversion H; subst; clear H. apply good_emit. eapply IH; eassumption.
    - (* ESeq *)
      destruct (ev f e1 at_ q inp pos) eqn:E1; try discriminate.
      destruct (ev f e2 at_ q rest0 pos0) eqn:E2; try discriminate.
      inversion H; subst; clear H.
      eapply good_trans; eapply IH; eassumption.
    - (* EAlt *)
      destruct (ev f e1 at_ q inp pos) eqn:E1; try discriminate.
      + inversion H; subst; clear H. eapply IH; eassumption.
      + eapply IH; eassumption.
    - (* EOpt *)
      destruct (ev f e at_ q inp pos) eqn:E1; try discriminate.
      + inversion H; subst; clear H. eapply IH; eassumption.
      + inversion H; subst; clear H. apply good_refl.
    - (* ERepTail *)
      destruct (ev f (ESeq ESkip e) at_ q inp pos) eqn:E1; try discriminate.
      + destruct (ev f (ERepTail e) at_ q rest0 pos0) eqn:E2; try discriminate.
        inversion H; subst; clear H. eapply good_trans; eapply IH; eassumption.
      + inversion H; subst; clear H. apply good_refl.
    - (* ERepPlain *)
      destruct (ev f e at_ q inp pos) eqn:E1; try discriminate.
      + destruct (ev f (ERepPlain e) at_ q rest0 pos0) eqn:E2; try discriminate.
        inversion H; subst; clear H. eapply good_trans; eapply IH; eassumption.
      + inversion H; subst; clear H. apply good_refl.
    - (* ESkip *)
      destruct at_; try (inversion H; subst; clear H; apply good_refl).
      eapply IH; eassumption.
    - (* ENot *)
      destruct (ev f e at_ true inp pos) eqn:E1; try discriminate.
      inversion H; subst; clear H. apply good_refl.
    - (* EAnd *)
      destruct (ev f e at_ true inp pos) eqn:E1; try discriminate.
      inversion H; subst; clear H. apply good_refl.
  Qed.

  (* the reading asked for in the task: monotone position, rest is a suffix of
     the input of the right length, every token span inside [pos, pos'] *)
  Corollary eval_good_spans : forall f e at_ q inp pos pos' rest ts,
    ev f e at_ q inp pos = Ok pos' rest ts ->
    pos <= pos' /\
    (exists consumed, inp = consumed ++ rest /\ len consumed = pos' - pos) /\
    Forall (fun t => pos <= tk_start t /\ tk_start t <= tk_end t /\ tk_end t <= pos') ts.
  Proof.
    intros f e at_ q inp pos pos' rest ts H.
    destruct (eval_good _ _ _ _ _ _ _ _ _ H) as (c & E & P & F).
    split; [lia|]. split; [exists c; split; [assumption|lia] | exact F].
  Qed.

  Corollary eval_len : forall f e at_ q inp pos pos' rest ts,
    ev f e at_ q inp pos = Ok pos' rest ts -> len inp = len rest + (pos' - pos).
  Proof.
    intros f e at_ q inp pos pos' rest ts H.
    destruct (eval_good _ _ _ _ _ _ _ _ _ H) as (c & E & P & F).
    subst inp. rewrite len_app. lia.
  Qed.

  (* ---------- quiet evaluation emits no token ---------- *)
  Theorem quiet_no_tokens : forall f e at_ inp pos pos' rest ts,
    ev f e at_ true inp pos = Ok pos' rest ts -> ts = [].
  Proof.
    induction f as [|f IH]; intros e at_ inp pos pos' rest ts H; [discriminate|].
    destruct e; cbn [eval] in H.
    - destruct (starts_with s inp); inversion H; reflexivity.
    - destruct inp as [|c r]; [discriminate|].
      destruct (N.leb lo c && N.leb c hi); inversion H; reflexivity.
    - destruct inp; inversion H; reflexivity.
    - destruct inp; inversion H; reflexivity.
    - destruct (defs r) as [k body]. destruct k.
      + destruct (ev f body at_ true inp pos) eqn:E; inversion H; subst.
        cbn [emit]. eapply IH; eassumption.
      + eapply IH; eassumption.
      + destruct (ev f body AAtomic true inp pos) eqn:E; inversion H; subst.
        cbn [emit]. eapply IH; eassumption.
      + destruct (ev f body ACompound true inp pos) eqn:E; inversion H; subst.
        cbn [emit]. eapply IH; eassumption.
      + destruct (ev f body ANon true inp pos) eqn:E; inversion H; subst.
        cbn [emit]. eapply IH; eassumption.
    - destruct (ev f e1 at_ true inp pos) eqn:E1; try discriminate.
      destruct (ev f e2 at_ true rest0 pos0) eqn:E2; inversion H; subst.
      rewrite (IH _ _ _ _ _ _ _ E1), (IH _ _ _ _ _ _ _ E2). reflexivity.
    - destruct (ev f e1 at_ true inp pos) eqn:E1; try discriminate.
      + inversion H; subst. eapply IH; eassumption.
      + eapply IH; eassumption.
    - destruct (ev f e at_ true inp pos) eqn:E1; inversion H; subst; [|reflexivity].
      eapply IH; eassumption.
    - destruct (ev f (ESeq ESkip e) at_ true inp pos) eqn:E1; try discriminate.
      + destruct (ev f (ERepTail e) at_ true rest0 pos0) eqn:E2; inversion H; subst.
        rewrite (IH _ _ _ _ _ _ _ E1), (IH _ _ _ _ _ _ _ E2). reflexivity.
      + inversion H; reflexivity.
    - destruct (ev f e at_ true inp pos) eqn:E1; try discriminate.
      + destruct (ev f (ERepPlain e) at_ true rest0 pos0) eqn:E2; inversion H; subst.
        rewrite (IH _ _ _ _ _ _ _ E1), (IH _ _ _ _ _ _ _ E2). reflexivity.
      + inversion H; reflexivity.
    - destruct at_; try (inversion H; reflexivity). eapply IH; eassumption.
    - destruct (ev f e at_ true inp pos); inversion H; reflexivity.
    - destruct (ev f e at_ true inp pos); inversion H; reflexivity.
  Qed.

  (* ---------- whole-input parse: all spans inside [0, len src] ---------- *)
  Theorem parse_spans : forall fuel start src ts,
    parse rule defs ws fuel start src = Parsed ts ->
    Forall (fun t => tk_start t <= tk_end t /\ tk_end t <= len src) ts.
  Proof.
    intros fuel start src ts H. unfold parse in H.
    destruct (ev fuel (ERef start) ANon false src 0) eqn:E; try discriminate.
    inversion H; subst; clear H.
    destruct (eval_good _ _ _ _ _ _ _ _ _ E) as (c & Ei & P & F).
    eapply Forall_impl; [|exact F]. intros t (A & B & C). split; [assumption|].
    subst src. rewrite len_app. lia.
  Qed.

  (* ---------- one-step evaluation rules (derivation style) ---------- *)
  Lemma ev_str_ok f s at_ q inp pos : starts_with s inp = true ->
    ev (S f) (EStr s) at_ q inp pos = Ok (pos + len s) (skipn (length s) inp) [].
  Proof. intros H. cbn [eval]. rewrite H. reflexivity. Qed.
  Lemma ev_str_fail f s at_ q inp pos : starts_with s inp = false ->
    ev (S f) (EStr s) at_ q inp pos = Fail.
  Proof. intros H. cbn [eval]. rewrite H. reflexivity. Qed.
  Lemma ev_any_ok f at_ q c r pos : ev (S f) EAny at_ q (c :: r) pos = Ok (pos + 1) r [].
  Proof. reflexivity. Qed.
  Lemma ev_any_nil f at_ q pos : ev (S f) EAny at_ q [] pos = Fail.
  Proof. reflexivity. Qed.
  Lemma ev_eoi_nil f at_ q pos : ev (S f) EEoi at_ q [] pos = Ok pos [] [].
  Proof. reflexivity. Qed.
  Lemma ev_skip_atomic f at_ q inp pos : at_ <> ANon -> ev (S f) ESkip at_ q inp pos = Ok pos inp [].
  Proof. intros H. destruct at_; [contradiction|reflexivity|reflexivity]. Qed.
  Lemma ev_skip_non f q inp pos :
    ev (S f) ESkip ANon q inp pos = ev f (ERepPlain ws) AAtomic true inp pos.
  Proof. reflexivity. Qed.

  Lemma ev_seq_ok f a b at_ q inp pos p1 r1 t1 p2 r2 t2 :
    ev f a at_ q inp pos = Ok p1 r1 t1 -> ev f b at_ q r1 p1 = Ok p2 r2 t2 ->
    ev (S f) (ESeq a b) at_ q inp pos = Ok p2 r2 (t1 ++ t2).
  Proof. intros H1 H2. cbn [eval]. rewrite H1, H2. reflexivity. Qed.
  Lemma ev_seq_fail1 f a b at_ q inp pos :
    ev f a at_ q inp pos = Fail -> ev (S f) (ESeq a b) at_ q inp pos = Fail.
  Proof. intros H1. cbn [eval]. rewrite H1. reflexivity. Qed.
  Lemma ev_seq_fail2 f a b at_ q inp pos p1 r1 t1 :
    ev f a at_ q inp pos = Ok p1 r1 t1 -> ev f b at_ q r1 p1 = Fail ->
    ev (S f) (ESeq a b) at_ q inp pos = Fail.
  Proof. intros H1 H2. cbn [eval]. rewrite H1, H2. reflexivity. Qed.

  Lemma ev_alt_l f a b at_ q inp pos p1 r1 t1 :
    ev f a at_ q inp pos = Ok p1 r1 t1 -> ev (S f) (EAlt a b) at_ q inp pos = Ok p1 r1 t1.
  Proof. intros H1. cbn [eval]. rewrite H1. reflexivity. Qed.
  Lemma ev_alt_r f a b at_ q inp pos x :
    ev f a at_ q inp pos = Fail -> ev f b at_ q inp pos = x ->
    ev (S f) (EAlt a b) at_ q inp pos = x.
  Proof. intros H1 H2. cbn [eval]. rewrite H1. exact H2. Qed.

  Lemma ev_opt_ok f a at_ q inp pos p1 r1 t1 :
    ev f a at_ q inp pos = Ok p1 r1 t1 -> ev (S f) (EOpt a) at_ q inp pos = Ok p1 r1 t1.
  Proof. intros H1. cbn [eval]. rewrite H1. reflexivity. Qed.
  Lemma ev_opt_none f a at_ q inp pos :
    ev f a at_ q inp pos = Fail -> ev (S f) (EOpt a) at_ q inp pos = Ok pos inp [].
  Proof. intros H1. cbn [eval]. rewrite H1. reflexivity. Qed.

  Lemma ev_reptail_stop f a at_ q inp pos :
    ev f (ESeq ESkip a) at_ q inp pos = Fail -> ev (S f) (ERepTail a) at_ q inp pos = Ok pos inp [].
  Proof. intros H1. cbn [eval]. rewrite H1. reflexivity. Qed.
  Lemma ev_reptail_more f a at_ q inp pos p1 r1 t1 p2 r2 t2 :
    ev f (ESeq ESkip a) at_ q inp pos = Ok p1 r1 t1 ->
    ev f (ERepTail a) at_ q r1 p1 = Ok p2 r2 t2 ->
    ev (S f) (ERepTail a) at_ q inp pos = Ok p2 r2 (t1 ++ t2).
  Proof. intros H1 H2. cbn [eval]. rewrite H1, H2. reflexivity. Qed.
  Lemma ev_repplain_stop f a at_ q inp pos :
    ev f a at_ q inp pos = Fail -> ev (S f) (ERepPlain a) at_ q inp pos = Ok pos inp [].
  Proof. intros H1. cbn [eval]. rewrite H1. reflexivity. Qed.

  Lemma ev_not_ok f a at_ q inp pos :
    ev f a at_ true inp pos = Fail -> ev (S f) (ENot a) at_ q inp pos = Ok pos inp [].
  Proof. intros H1. cbn [eval]. rewrite H1. reflexivity. Qed.
  Lemma ev_and_fail f a at_ q inp pos :
    ev f a at_ true inp pos = Fail -> ev (S f) (EAnd a) at_ q inp pos = Fail.
  Proof. intros H1. cbn [eval]. rewrite H1. reflexivity. Qed.

  Lemma ev_ref f r k body at_ q inp pos : defs r = (k, body) ->
    ev (S f) (ERef r) at_ q inp pos =
    match k with
    | KSilent => ev f body at_ q inp pos
    | KNormal => match ev f body at_ q inp pos with
                 | Ok p' r' ts => Ok p' r' (emit rule at_ q r pos p' ts) | x => x end
    | KAtomic => match ev f body AAtomic q inp pos with
                 | Ok p' r' ts => Ok p' r' (emit rule at_ q r pos p' ts) | x => x end
    | KCompound => match ev f body ACompound q inp pos with
                 | Ok p' r' ts => Ok p' r' (emit rule ACompound q r pos p' ts) | x => x end
    | KNonAtomic => match ev f body ANon q inp pos with
                 | Ok p' r' ts => Ok p' r' (emit rule ANon q r pos p' ts) | x => x end
    end.
  Proof. intros H. cbn [eval]. rewrite H. destruct k; reflexivity. Qed.

End PegFacts.
