(* Proofs/LeafWriter.v — C12 leaf level: write_indented and indent_aware_write
   characterised for a non-failing writer; the append-only frame of the three
   writer functions in every outcome. *)
From HB Require Import Rt.Eval Spec.WriterSpec.
Open Scope N_scope.

(* ---------- record bookkeeping ---------- *)
Lemma set_out_id s : set_out s (s_out s) = s.
Proof. destruct s; reflexivity. Qed.

Lemma out_extends_refl o : out_extends o o.
Proof.
  exists []. cbn [app List.length]. repeat split; try reflexivity.
  - rewrite N.add_0_r. reflexivity.
  - constructor.
Qed.

Lemma out_extends_trans o1 o2 o3 : out_extends o1 o2 -> out_extends o2 o3 -> out_extends o1 o3.
Proof.
  intros (n1 & C1 & F1 & W1 & A1) (n2 & C2 & F2 & W2 & A2).
  exists (n2 ++ n1). repeat split.
  - rewrite C2, C1. apply app_assoc.
  - congruence.
  - rewrite W2, W1, app_length, Nat2N.inj_add. lia.
  - apply Forall_app. split; assumption.
Qed.

(* the frame relation: only the writer changed, and it only appended *)
Definition wframe (s s' : rstate) : Prop :=
  s' = set_out s (s_out s') /\ out_extends (s_out s) (s_out s').

Lemma wframe_refl s : wframe s s.
Proof. split; [symmetry; apply set_out_id | apply out_extends_refl]. Qed.

Lemma wframe_trans s1 s2 s3 : wframe s1 s2 -> wframe s2 s3 -> wframe s1 s3.
Proof.
  intros [E1 X1] [E2 X2]. split; [|exact (out_extends_trans _ _ _ X1 X2)].
  rewrite E2 at 1. rewrite E1. reflexivity.
Qed.

Definition wr_ok (s : rstate) (r : rres unit) : Prop :=
  match r with
  | ROk _ s' => wframe s s'
  | RErr e s' => e = mk_err RIOError /\ wframe s s'
  | RPanic _ => False
  | RFuel => False
  end.

Lemma wr_ok_trans s s1 r : wframe s s1 -> wr_ok s1 r -> wr_ok s r.
Proof.
  intros F. destruct r as [[] s'|e s'| |]; cbn [wr_ok]; try tauto.
  - apply wframe_trans, F.
  - intros [E F']. split; [exact E | exact (wframe_trans _ _ _ F F')].
Qed.

Lemma wr_ok_bind s r f :
  wr_ok s r -> (forall s1, wframe s s1 -> wr_ok s1 (f tt s1)) -> wr_ok s (rbind r f).
Proof.
  destruct r as [[] s1|e s1| |]; cbn [wr_ok rbind]; try tauto.
  intros F H. exact (wr_ok_trans _ _ _ F (H _ F)).
Qed.

(* ---------- out_write ---------- *)
Lemma out_write_wr chunk s : wr_ok s (out_write chunk s).
Proof.
  unfold out_write. destruct chunk as [|c chunk]; [apply wframe_refl|].
  destruct (match o_fail_at (s_out s) with Some k => N.leb k (o_writes (s_out s)) | None => false end).
  - cbn [rfail wr_ok]. split; [reflexivity | apply wframe_refl].
  - cbn [wr_ok]. split; [reflexivity|]. cbn [s_out set_out].
    exists [c :: chunk]. cbn [o_chunks o_fail_at o_writes app List.length].
    repeat split. constructor; [discriminate | constructor].
Qed.

Lemma out_text_push chunk o w :
  out_text {| o_chunks := chunk :: o_chunks o; o_writes := w; o_fail_at := o_fail_at o |}
  = out_text o ++ chunk.
Proof.
  unfold out_text. cbn [o_chunks rev]. rewrite concat_app. cbn [concat]. rewrite app_nil_r. reflexivity.
Qed.

Lemma out_write_ok chunk s :
  o_fail_at (s_out s) = None ->
  exists o', out_write chunk s = ROk tt (set_out s o') /\ o_fail_at o' = None /\
             out_text o' = out_text (s_out s) ++ chunk.
Proof.
  intros Hf. unfold out_write. destruct chunk as [|c chunk].
  - exists (s_out s). rewrite set_out_id, app_nil_r. auto.
  - rewrite Hf. eexists. split; [reflexivity|]. cbn [o_fail_at]. split; [reflexivity|].
    rewrite <- Hf. apply out_text_push.
Qed.

(* ---------- find_lf against the specification ---------- *)
Lemma find_lf_none v ind : find_lf v = None -> with_indent_spec v ind = v.
Proof.
  induction v as [|c v IH]; [reflexivity|].
  cbn [find_lf with_indent_spec]. destruct (N.eqb c 10); [discriminate|].
  destruct (find_lf v); [discriminate|]. intros _. rewrite IH; reflexivity.
Qed.

Lemma find_lf_some ind : forall v k, find_lf v = Some k ->
  with_indent_spec v ind =
    firstn (S k) v ++ match skipn (S k) v with
                      | [] => []
                      | _ :: _ => ind ++ with_indent_spec (skipn (S k) v) ind
                      end /\
  (List.length (skipn (S k) v) < List.length v)%nat.
Proof.
  induction v as [|c v IH]; intros k; [discriminate|].
  cbn [find_lf with_indent_spec]. destruct (N.eqb_spec c 10) as [->|Hc].
  - intros [= <-]. cbn [firstn skipn List.length]. split; [|lia].
    destruct v; reflexivity.
  - destruct (find_lf v) as [k'|]; [|discriminate]. intros [= <-].
    destruct (IH k' eq_refl) as [E L].
    change (firstn (S (S k')) (c :: v)) with (c :: firstn (S k') v).
    change (skipn (S (S k')) (c :: v)) with (skipn (S k') v).
    split; [|cbn [List.length]; lia]. rewrite E at 1. reflexivity.
Qed.

(* sanity of the specification function itself *)
Lemma with_indent_spec_no_lf v ind : ~ In 10 v -> with_indent_spec v ind = v.
Proof.
  induction v as [|c v IH]; [reflexivity|]. intros H.
  cbn [with_indent_spec]. destruct (N.eqb_spec c 10) as [->|Hc].
  - exfalso. apply H. left. reflexivity.
  - rewrite IH; [reflexivity|]. intros K. apply H. right. exact K.
Qed.

Lemma with_indent_spec_empty_indent v : with_indent_spec v [] = v.
Proof.
  induction v as [|c v IH]; [reflexivity|].
  cbn [with_indent_spec]. destruct (N.eqb_spec c 10) as [->|Hc].
  - destruct v; [reflexivity|]. cbn [app]. rewrite IH. reflexivity.
  - rewrite IH. reflexivity.
Qed.

Lemma with_indent_spec_line l c r ind :
  ~ In 10 l ->
  with_indent_spec (l ++ 10 :: c :: r) ind = l ++ 10 :: ind ++ with_indent_spec (c :: r) ind.
Proof.
  induction l as [|x l IH]; intros H.
  - reflexivity.
  - cbn [app with_indent_spec]. destruct (N.eqb_spec x 10) as [->|Hx].
    + exfalso. apply H. left. reflexivity.
    + rewrite IH; [reflexivity|]. intros K. apply H. right. exact K.
Qed.

Lemma with_indent_spec_last_lf l ind : ~ In 10 l -> with_indent_spec (l ++ [10]) ind = l ++ [10].
Proof.
  induction l as [|x l IH]; intros H.
  - reflexivity.
  - cbn [app with_indent_spec]. destruct (N.eqb_spec x 10) as [->|Hx].
    + exfalso. apply H. left. reflexivity.
    + rewrite IH; [reflexivity|]. intros K. apply H. right. exact K.
Qed.

(* ---------- write_indented ---------- *)
Theorem write_indented_frame : forall fuel v ind s,
  (List.length v < fuel)%nat -> wr_ok s (write_indented fuel v ind s).
Proof.
  induction fuel as [|fuel IH]; intros v ind s Hl; [lia|].
  cbn [write_indented]. destruct (find_lf v) as [k|] eqn:E; [|apply out_write_wr].
  destruct (find_lf_some ind _ _ E) as [_ L].
  apply wr_ok_bind; [apply out_write_wr|]. intros s1 _.
  destruct (skipn (S k) v) as [|x r] eqn:Er; [apply wframe_refl|].
  apply wr_ok_bind; [apply out_write_wr|]. intros s2 _.
  apply IH. lia.
Qed.

Theorem write_indented_spec : forall fuel v ind s,
  o_fail_at (s_out s) = None -> (List.length v < fuel)%nat ->
  exists o', write_indented fuel v ind s = ROk tt (set_out s o') /\ o_fail_at o' = None /\
             out_text o' = out_text (s_out s) ++ with_indent_spec v ind.
Proof.
  induction fuel as [|fuel IH]; intros v ind s Hf Hl; [lia|].
  cbn [write_indented]. destruct (find_lf v) as [k|] eqn:E.
  - destruct (find_lf_some ind _ _ E) as [Ev L]. rewrite Ev.
    destruct (out_write_ok (firstn (S k) v) s Hf) as (o1 & W1 & F1 & T1).
    rewrite W1. cbn [rbind].
    destruct (skipn (S k) v) as [|x r] eqn:Er.
    + exists o1. rewrite app_nil_r. auto.
    + destruct (out_write_ok ind (set_out s o1) F1) as (o2 & W2 & F2 & T2).
      rewrite W2. cbn [rbind].
      destruct (IH (x :: r) ind (set_out (set_out s o1) o2) F2) as (o3 & W3 & F3 & T3); [lia|].
      rewrite W3. exists o3. split; [reflexivity|]. split; [exact F3|].
      rewrite T3. cbn [s_out set_out]. rewrite T2. cbn [s_out set_out]. rewrite T1.
      rewrite <- !app_assoc. reflexivity.
  - rewrite (find_lf_none _ _ E). apply out_write_ok, Hf.
Qed.

(* the fuel indent_aware_write passes is always enough *)
Corollary write_indented_enough_fuel : forall fuel v ind s,
  (List.length v < fuel)%nat -> write_indented fuel v ind s <> RFuel.
Proof.
  intros fuel v ind s Hl E. pose proof (write_indented_frame fuel v ind s Hl) as H.
  rewrite E in H. exact H.
Qed.

(* ---------- indent_aware_write ---------- *)
Theorem indent_aware_write_nil : forall s, indent_aware_write [] s = ROk tt s.
Proof. reflexivity. Qed.

Theorem indent_aware_write_spec : forall v s,
  o_fail_at (s_out s) = None -> v <> [] ->
  exists o',
    indent_aware_write v s =
      ROk tt (set_indent_before_write
                (set_trailing_newline (set_content_produced (set_out s o') true)
                   (last_is is_newline v))
                (last_is is_newline v)) /\
    o_fail_at o' = None /\
    out_text o' = out_text (s_out s) ++
      match s_indent s with
      | None => v
      | Some ind =>
          (if negb (first_is is_newline v) && s_indent_before_write s then ind else [])
          ++ with_indent_spec v ind
      end.
Proof.
  intros v s Hf Hv. destruct v as [|c v']; [congruence|]. clear Hv.
  set (v := c :: v'). unfold indent_aware_write. fold v.
  set (s1 := set_content_produced s true).
  assert (Hf1 : o_fail_at (s_out s1) = None) by exact Hf.
  change (s_indent s1) with (s_indent s).
  change (s_indent_before_write s1) with (s_indent_before_write s).
  destruct (s_indent s) as [ind|] eqn:Ei.
  - (* an indent is set *)
    assert (A : exists o2,
      (if negb (first_is is_newline v) && s_indent_before_write s then out_write ind s1 else ROk tt s1)
        = ROk tt (set_out s1 o2) /\ o_fail_at o2 = None /\
      out_text o2 = out_text (s_out s) ++
        (if negb (first_is is_newline v) && s_indent_before_write s then ind else [])).
    { destruct (negb (first_is is_newline v) && s_indent_before_write s).
      - apply (out_write_ok ind s1 Hf1).
      - exists (s_out s1). rewrite set_out_id, app_nil_r. auto. }
    destruct A as (o2 & W2 & F2 & T2). rewrite W2. cbn [rbind].
    change (s_indent (set_out s1 o2)) with (s_indent s). rewrite Ei.
    destruct (write_indented_spec (S (List.length v)) v ind (set_out s1 o2) F2) as (o3 & W3 & F3 & T3); [lia|].
    rewrite W3. cbn [rbind]. exists o3. split; [reflexivity|]. split; [exact F3|].
    rewrite T3. cbn [s_out set_out]. rewrite T2, <- app_assoc. reflexivity.
  - (* no indent *)
    assert (A : (if negb (first_is is_newline v) && s_indent_before_write s then ROk tt s1 else ROk tt s1)
                = ROk tt s1) by (destruct (negb (first_is is_newline v) && s_indent_before_write s); reflexivity).
    rewrite A. cbn [rbind]. change (s_indent s1) with (s_indent s). rewrite Ei.
    destruct (out_write_ok v s1 Hf1) as (o3 & W3 & F3 & T3).
    rewrite W3. cbn [rbind]. exists o3. split; [reflexivity|]. split; [exact F3 | exact T3].
Qed.

(* the three flags and the untouched fields, read off the result state *)
Corollary indent_aware_write_flags : forall v s,
  o_fail_at (s_out s) = None -> v <> [] ->
  exists s', indent_aware_write v s = ROk tt s' /\
    s_content_produced s' = true /\
    s_trailing_newline s' = last_is is_newline v /\
    s_indent_before_write s' = last_is is_newline v /\
    s_indent s' = s_indent s /\ s_blocks s' = s_blocks s /\
    s_disable_escape s' = s_disable_escape s /\ s_log s' = s_log s /\
    s_esc_trace s' = s_esc_trace s.
Proof.
  intros v s Hf Hv. destruct (indent_aware_write_spec v s Hf Hv) as (o' & W & _ & _).
  eexists. split; [exact W|]. repeat split.
Qed.

(* ---------- the frame of indent_aware_write in every outcome ---------- *)
Theorem indent_aware_write_frame : forall v s,
  match indent_aware_write v s with
  | ROk _ s' =>
      out_extends (s_out s) (s_out s') /\
      ((v = [] /\ s' = s) \/
       (v <> [] /\
        s' = set_indent_before_write
               (set_trailing_newline (set_content_produced (set_out s (s_out s')) true)
                  (last_is is_newline v))
               (last_is is_newline v)))
  | RErr e s' =>
      e = mk_err RIOError /\ v <> [] /\ out_extends (s_out s) (s_out s') /\
      s' = set_content_produced (set_out s (s_out s')) true
  | RPanic _ => False
  | RFuel => False
  end.
Proof.
  intros v s. destruct v as [|c v'].
  { cbn [indent_aware_write]. split; [apply out_extends_refl | left; auto]. }
  set (v := c :: v'). unfold indent_aware_write. fold v.
  set (s1 := set_content_produced s true).
  assert (Hv : v <> []) by discriminate.
  set (step1 := if negb (first_is is_newline v) && s_indent_before_write s1
                then match s_indent s1 with Some ind => out_write ind s1 | None => ROk tt s1 end
                else ROk tt s1).
  assert (H1 : wr_ok s1 step1).
  { unfold step1. destruct (negb (first_is is_newline v) && s_indent_before_write s1);
      [destruct (s_indent s1); [apply out_write_wr | apply wframe_refl] | apply wframe_refl]. }
  destruct step1 as [[] s2|e s2| |]; cbn [rbind wr_ok] in *; try contradiction.
  2:{ destruct H1 as [-> [E X]]. split; [reflexivity|]. split; [exact Hv|]. split; [exact X|].
      rewrite E at 1. reflexivity. }
  set (step2 := match s_indent s2 with
                | Some ind => write_indented (S (List.length v)) v ind s2
                | None => out_write v s2
                end).
  assert (H2 : wr_ok s1 step2).
  { apply (wr_ok_trans _ _ _ H1). unfold step2.
    destruct (s_indent s2); [apply write_indented_frame; lia | apply out_write_wr]. }
  destruct step2 as [[] s3|e s3| |]; cbn [rbind wr_ok] in *; try contradiction.
  - destruct H2 as [E X]. split; [exact X|]. right. split; [exact Hv|].
    cbn [s_out set_indent_before_write set_trailing_newline]. rewrite E at 1. reflexivity.
  - destruct H2 as [-> [E X]]. split; [reflexivity|]. split; [exact Hv|]. split; [exact X|].
    rewrite E at 1. reflexivity.
Qed.

(* ---------- append-only, as one statement over the three functions ---------- *)
Theorem writer_append_only :
  (forall chunk s,
     match out_write chunk s with
     | ROk _ s' | RErr _ s' => out_extends (s_out s) (s_out s')
     | _ => True end) /\
  (forall fuel v ind s,
     match write_indented fuel v ind s with
     | ROk _ s' | RErr _ s' => out_extends (s_out s) (s_out s')
     | _ => True end) /\
  (forall v s,
     match indent_aware_write v s with
     | ROk _ s' | RErr _ s' => out_extends (s_out s) (s_out s')
     | _ => True end).
Proof.
  split; [|split].
  - intros chunk s. pose proof (out_write_wr chunk s) as H.
    destruct (out_write chunk s); cbn [wr_ok] in H; try exact I; [apply H | apply H].
  - (* also with too little fuel *)
    induction fuel as [|fuel IH]; intros v ind s; [exact I|].
    cbn [write_indented]. destruct (find_lf v) as [k|].
    + pose proof (out_write_wr (firstn (S k) v) s) as H1.
      destruct (out_write (firstn (S k) v) s) as [[] s1|e s1| |]; cbn [rbind wr_ok] in *; try exact I.
      2:{ apply H1. }
      destruct (skipn (S k) v) as [|x r]; [apply H1|].
      pose proof (out_write_wr ind s1) as H2.
      destruct (out_write ind s1) as [[] s2|e s2| |]; cbn [rbind wr_ok] in *; try exact I.
      2:{ exact (out_extends_trans _ _ _ (proj2 H1) (proj2 (proj2 H2))). }
      specialize (IH (x :: r) ind s2).
      destruct (write_indented fuel (x :: r) ind s2); try exact I;
        exact (out_extends_trans _ _ _ (out_extends_trans _ _ _ (proj2 H1) (proj2 H2)) IH).
    + pose proof (out_write_wr v s) as H.
      destruct (out_write v s); cbn [wr_ok] in H; try exact I; [apply H | apply H].
  - intros v s. pose proof (indent_aware_write_frame v s) as H.
    destruct (indent_aware_write v s); try exact I; [apply H | apply H].
Qed.

(* ---------- satisfiability of the hypotheses ---------- *)
Definition st0 : rstate := st_init None None None.

Example write_indented_ex :
  o_fail_at (s_out st0) = None /\
  with_indent_spec [97; 10; 10; 98; 10] [32; 32] = [97; 10; 32; 32; 10; 32; 32; 98; 10] /\
  match write_indented 6 [97; 10; 10; 98; 10] [32; 32] st0 with
  | ROk _ s' => out_text (s_out s') = [97; 10; 32; 32; 10; 32; 32; 98; 10]
  | _ => False
  end.
Proof. vm_compute. repeat split. Qed.

Example indent_aware_write_ex :
  match indent_aware_write [97; 10; 98] (set_indent_before_write (set_indent st0 (Some [9])) true) with
  | ROk _ s' => out_text (s_out s') = [9; 97; 10; 9; 98] /\ s_trailing_newline s' = false
  | _ => False
  end.
Proof. vm_compute. repeat split. Qed.

(* a failing writer: the error outcome keeps the accepted chunks *)
Example write_indented_fail_ex :
  match write_indented 6 [97; 10; 98] [32] (st_init None None (Some 1)) with
  | RErr e s' => e = mk_err RIOError /\ o_chunks (s_out s') = [[97; 10]]
  | _ => False
  end.
Proof. vm_compute. repeat split. Qed.
