(* Proofs/WriterFault.v — C19 writer_prefix: a render whose writer fails at its
   k-th write call proceeds in lock-step with the fault-free render until that
   call; it then returns Err(IOError) with exactly the chunks accepted so far,
   which are a prefix of the fault-free chunks. *)
From Coq Require Import List Lia NArith ZArith.
From HB Require Import Rt.Render Spec.RenderAll Spec.Writer Proofs.RenderInd Proofs.WriterPrefix.
Import ListNotations.
Open Scope N_scope.

(* ---------- pushing a writer substitution outwards ---------- *)
Lemma po_set_blocks s o x : set_blocks (set_out s o) x = set_out (set_blocks s x) o. Proof. reflexivity. Qed.
Lemma po_set_modified s o x : set_modified (set_out s o) x = set_out (set_modified s x) o. Proof. reflexivity. Qed.
Lemma po_set_partials s o x : set_partials (set_out s o) x = set_out (set_partials s x) o. Proof. reflexivity. Qed.
Lemma po_set_pb_stack s o x : set_pb_stack (set_out s o) x = set_out (set_pb_stack s x) o. Proof. reflexivity. Qed.
Lemma po_set_pb_depth s o x : set_pb_depth (set_out s o) x = set_out (set_pb_depth s x) o. Proof. reflexivity. Qed.
Lemma po_set_local_helpers s o x : set_local_helpers (set_out s o) x = set_out (set_local_helpers s x) o. Proof. reflexivity. Qed.
Lemma po_set_current s o x : set_current (set_out s o) x = set_out (set_current s x) o. Proof. reflexivity. Qed.
Lemma po_set_disable_escape s o x : set_disable_escape (set_out s o) x = set_out (set_disable_escape s x) o. Proof. reflexivity. Qed.
Lemma po_set_trailing_newline s o x : set_trailing_newline (set_out s o) x = set_out (set_trailing_newline s x) o. Proof. reflexivity. Qed.
Lemma po_set_content_produced s o x : set_content_produced (set_out s o) x = set_out (set_content_produced s x) o. Proof. reflexivity. Qed.
Lemma po_set_indent_before_write s o x : set_indent_before_write (set_out s o) x = set_out (set_indent_before_write s x) o. Proof. reflexivity. Qed.
Lemma po_set_indent s o x : set_indent (set_out s o) x = set_out (set_indent s x) o. Proof. reflexivity. Qed.
Lemma po_set_log s o x : set_log (set_out s o) x = set_out (set_log s x) o. Proof. reflexivity. Qed.
Lemma po_set_esc_trace s o x : set_esc_trace (set_out s o) x = set_out (set_esc_trace s x) o. Proof. reflexivity. Qed.
Lemma po_log_entry s o x : log_entry (set_out s o) x = set_out (log_entry s x) o. Proof. reflexivity. Qed.
Lemma po_pop_block s o : pop_block (set_out s o) = set_out (pop_block s) o. Proof. reflexivity. Qed.
Lemma po_push_block b s o : push_block b (set_out s o) = set_out (push_block b s) o. Proof. reflexivity. Qed.
Lemma po_map_front_block g s o : map_front_block g (set_out s o) = set_out (map_front_block g s) o.
Proof. unfold map_front_block. cbn [s_blocks set_out]. destruct (s_blocks s); reflexivity. Qed.
Lemma po_each_iter_setup h p n i k v s o :
  each_iter_setup h p n i k v (set_out s o) = set_out (each_iter_setup h p n i k v s) o.
Proof. apply po_map_front_block. Qed.
Lemma po_set_out s o o' : set_out (set_out s o) o' = set_out s o'. Proof. reflexivity. Qed.

Lemma ob_blocks s o : s_blocks (set_out s o) = s_blocks s. Proof. reflexivity. Qed.
Lemma ob_modified s o : s_modified (set_out s o) = s_modified s. Proof. reflexivity. Qed.
Lemma ob_partials s o : s_partials (set_out s o) = s_partials s. Proof. reflexivity. Qed.
Lemma ob_pb_stack s o : s_pb_stack (set_out s o) = s_pb_stack s. Proof. reflexivity. Qed.
Lemma ob_pb_depth s o : s_pb_depth (set_out s o) = s_pb_depth s. Proof. reflexivity. Qed.
Lemma ob_local_helpers s o : s_local_helpers (set_out s o) = s_local_helpers s. Proof. reflexivity. Qed.
Lemma ob_current s o : s_current (set_out s o) = s_current s. Proof. reflexivity. Qed.
Lemma ob_root s o : s_root (set_out s o) = s_root s. Proof. reflexivity. Qed.
Lemma ob_disable_escape s o : s_disable_escape (set_out s o) = s_disable_escape s. Proof. reflexivity. Qed.
Lemma ob_trailing_newline s o : s_trailing_newline (set_out s o) = s_trailing_newline s. Proof. reflexivity. Qed.
Lemma ob_content_produced s o : s_content_produced (set_out s o) = s_content_produced s. Proof. reflexivity. Qed.
Lemma ob_indent_before_write s o : s_indent_before_write (set_out s o) = s_indent_before_write s. Proof. reflexivity. Qed.
Lemma ob_indent s o : s_indent (set_out s o) = s_indent s. Proof. reflexivity. Qed.
Lemma ob_dev s o : s_dev (set_out s o) = s_dev s. Proof. reflexivity. Qed.
Lemma ob_log s o : s_log (set_out s o) = s_log s. Proof. reflexivity. Qed.
Lemma ob_esc_trace s o : s_esc_trace (set_out s o) = s_esc_trace s. Proof. reflexivity. Qed.
Lemma ob_out s o : s_out (set_out s o) = o. Proof. reflexivity. Qed.
Lemma ob_find_local_helper s o n : find_local_helper (set_out s o) n = find_local_helper s n. Proof. reflexivity. Qed.
Lemma ob_helper_exists reg s o n : helper_exists reg (set_out s o) n = helper_exists reg s n. Proof. reflexivity. Qed.
Lemma ob_get_partial s o n : get_partial (set_out s o) n = get_partial s n. Proof. reflexivity. Qed.
Lemma ob_current_pb s o : current_pb (set_out s o) = current_pb s. Proof. reflexivity. Qed.
Lemma ob_state_text s o : state_text (set_out s o) = state_text s. Proof. reflexivity. Qed.

#[export] Hint Rewrite po_set_blocks po_set_modified po_set_partials po_set_pb_stack po_set_pb_depth
  po_set_local_helpers po_set_current po_set_disable_escape po_set_trailing_newline
  po_set_content_produced po_set_indent_before_write po_set_indent po_set_log po_set_esc_trace
  po_log_entry po_pop_block po_push_block po_map_front_block po_each_iter_setup po_set_out
  ob_blocks ob_modified ob_partials ob_pb_stack ob_pb_depth ob_local_helpers ob_current ob_root
  ob_disable_escape ob_trailing_newline ob_content_produced ob_indent_before_write ob_indent ob_dev
  ob_log ob_esc_trace ob_out ob_find_local_helper ob_helper_exists ob_get_partial ob_current_pb ob_state_text
  : pushout.

Lemma so_set_blocks s x : s_out (set_blocks s x) = s_out s. Proof. reflexivity. Qed.
Lemma so_set_modified s x : s_out (set_modified s x) = s_out s. Proof. reflexivity. Qed.
Lemma so_set_partials s x : s_out (set_partials s x) = s_out s. Proof. reflexivity. Qed.
Lemma so_set_pb_stack s x : s_out (set_pb_stack s x) = s_out s. Proof. reflexivity. Qed.
Lemma so_set_pb_depth s x : s_out (set_pb_depth s x) = s_out s. Proof. reflexivity. Qed.
Lemma so_set_local_helpers s x : s_out (set_local_helpers s x) = s_out s. Proof. reflexivity. Qed.
Lemma so_set_current s x : s_out (set_current s x) = s_out s. Proof. reflexivity. Qed.
Lemma so_set_disable_escape s x : s_out (set_disable_escape s x) = s_out s. Proof. reflexivity. Qed.
Lemma so_set_trailing_newline s x : s_out (set_trailing_newline s x) = s_out s. Proof. reflexivity. Qed.
Lemma so_set_content_produced s x : s_out (set_content_produced s x) = s_out s. Proof. reflexivity. Qed.
Lemma so_set_indent_before_write s x : s_out (set_indent_before_write s x) = s_out s. Proof. reflexivity. Qed.
Lemma so_set_indent s x : s_out (set_indent s x) = s_out s. Proof. reflexivity. Qed.
Lemma so_set_log s x : s_out (set_log s x) = s_out s. Proof. reflexivity. Qed.
Lemma so_set_esc_trace s x : s_out (set_esc_trace s x) = s_out s. Proof. reflexivity. Qed.
Lemma so_log_entry s x : s_out (log_entry s x) = s_out s. Proof. reflexivity. Qed.
Lemma so_pop_block s : s_out (pop_block s) = s_out s. Proof. reflexivity. Qed.
Lemma so_push_block b s : s_out (push_block b s) = s_out s. Proof. reflexivity. Qed.
Lemma so_map_front_block g s : s_out (map_front_block g s) = s_out s.
Proof. unfold map_front_block. destruct (s_blocks s); reflexivity. Qed.
Lemma so_each_iter_setup h p n i k v s : s_out (each_iter_setup h p n i k v s) = s_out s.
Proof. apply so_map_front_block. Qed.
#[export] Hint Rewrite so_set_blocks so_set_modified so_set_partials so_set_pb_stack so_set_pb_depth so_set_local_helpers so_set_current so_set_disable_escape so_set_trailing_newline so_set_content_produced so_set_indent_before_write so_set_indent so_set_log so_set_esc_trace so_log_entry so_pop_block so_push_block so_map_front_block so_each_iter_setup ob_out : outp.

(* outcomes with the writer replaced *)
Definition out_map {A} (o : outbuf) (r : rres A) : rres A :=
  match r with
  | ROk a s => ROk a (set_out s o)
  | RErr e s => RErr e (set_out s o)
  | RPanic p => RPanic p
  | RFuel => RFuel
  end.

Lemma set_out_same s : set_out s (s_out s) = s.
Proof. destruct s; reflexivity. Qed.

(* the older buffer's chunks are still in place in the newer one *)
Definition chunk_prefix (o o' : outbuf) : Prop :=
  exists l, l <> [] /\ o_chunks o' = l ++ o_chunks o.

Lemma chunk_prefix_ext a b c : chunk_prefix a b -> out_extends b c -> chunk_prefix a c.
Proof.
  intros (l1 & Hne & H1) (l2 & H2 & _). exists (l2 ++ l1). split.
  - intros E. apply app_eq_nil in E. destruct E as [_ E]. contradiction.
  - rewrite H2, H1, app_assoc. reflexivity.
Qed.

(* append-only, as a property of an outcome relative to a start state *)
Definition ao {A} (s : rstate) (r : rres A) : Prop :=
  forall s', ends_in r s' -> out_extends (s_out s) (s_out s').

Section Fault.
Variable k : N.      (* the write call (0-based) that fails, with all later ones *)

Definition faulty (o : outbuf) : outbuf :=
  {| o_chunks := o_chunks o; o_writes := o_writes o; o_fail_at := Some k |}.

(* the writer of the second run: either the very same buffer (inside a
   subexpression's private buffer, which never fails), or the same accepted
   chunks and count with the fault armed and not yet reached *)
Definition orel (o ok : outbuf) : Prop :=
  ok = o \/ (o_fail_at o = None /\ o_writes o <= k /\ ok = faulty o).

Definition sim (s sk : rstate) : Prop := exists ok, sk = set_out s ok /\ orel (s_out s) ok.

(* lock-step: same kind of outcome, same value / error, related states *)
Definition lock {A} (r rk : rres A) : Prop :=
  match r, rk with
  | ROk a s, ROk a' sk => a' = a /\ sim s sk
  | RErr e s, RErr e' sk => e' = e /\ sim s sk
  | RPanic p, RPanic p' => p' = p
  | RFuel, RFuel => True
  | _, _ => False
  end.

(* the state of a run that hit the fault: k calls accepted, fault index k *)
Definition faulted_at (sk : rstate) : Prop :=
  o_fail_at (s_out sk) = Some k /\ o_writes (s_out sk) = k.

(* diverged: the second run stopped with IOError at the fault; whatever the
   first run went on to write comes after the chunks the second one has *)
Definition div {A} (r rk : rres A) : Prop :=
  exists e sk, rk = RErr e sk /\ e_reason e = RIOError /\ faulted_at sk /\
               forall s', ends_in r s' -> chunk_prefix (s_out sk) (s_out s').

Definition rsim {A} (s : rstate) (r rk : rres A) : Prop := ao s r /\ (lock r rk \/ div r rk).

Lemma orel_same o : orel o o. Proof. left; reflexivity. Qed.
Lemma sim_same s : sim s s.
Proof. exists (s_out s). split; [symmetry; apply set_out_same | apply orel_same]. Qed.

(* ---------- combinators ---------- *)
Lemma rsim_rbind {A B} s (x xk : rres A) (f fk : A -> rstate -> rres B) :
  rsim s x xk ->
  (forall a s1 o1, orel (s_out s1) o1 -> rsim s1 (f a s1) (fk a (set_out s1 o1))) ->
  rsim s (rbind x f) (rbind xk fk).
Proof.
  intros [Hao Hx] Hf. split.
  - intros s' H. destruct x as [a s1|e s1|p|]; cbn [rbind] in H; try contradiction.
    + eapply out_extends_trans; [apply Hao; reflexivity|].
      destruct (Hf a s1 (s_out s1) (orel_same _)) as [Hao1 _]. apply Hao1. exact H.
    + apply Hao. exact H.
  - destruct Hx as [Hl|Hd].
    + destruct x as [a s1|e s1|p|], xk as [a' s1k|e' s1k|p'|]; cbn [lock] in Hl; try contradiction.
      * destruct Hl as [-> (o1 & -> & Ho1)]. cbn [rbind].
        destruct (Hf a s1 o1 Ho1) as [_ H]. exact H.
      * left. exact Hl.
      * left. exact Hl.
      * left. exact I.
    + right. destruct Hd as (e & sk & -> & He & Hfa & Hpre). exists e, sk. cbn [rbind].
      split; [reflexivity|]. split; [exact He|]. split; [exact Hfa|]. intros s' H.
      destruct x as [a s1|e1 s1|p|]; cbn [rbind] in H; try contradiction.
      * eapply chunk_prefix_ext; [apply Hpre; reflexivity|].
        destruct (Hf a s1 (s_out s1) (orel_same _)) as [Hao1 _]. apply Hao1. exact H.
      * apply Hpre. exact H.
Qed.

Lemma rsim_rmap_err {A} s (x xk : rres A) g :
  (forall e, e_reason (g e) = e_reason e) ->
  rsim s x xk -> rsim s (rmap_err x g) (rmap_err xk g).
Proof.
  intros Hg [Hao Hx]. split.
  - intros s' H. apply Hao. destruct x; cbn in *; exact H.
  - destruct Hx as [Hl|Hd].
    + left. destruct x, xk; cbn in *; try contradiction; auto.
      destruct Hl as [-> Hs]. split; [reflexivity|exact Hs].
    + right. destruct Hd as (e & sk & -> & He & Hfa & Hpre). exists (g e), sk. cbn.
      split; [reflexivity|]. split; [rewrite Hg; exact He|]. split; [exact Hfa|].
      intros s' H. apply Hpre. destruct x; cbn in *; exact H.
Qed.

Lemma attach_pos_reason t i e : e_reason (attach_pos t i e) = e_reason e.
Proof. unfold attach_pos. destruct (e_line e); [reflexivity|]. destruct (nth_error (t_map t) i) as [[l c]|]; reflexivity. Qed.
Lemma attach_render_reason t i e : e_reason (attach_render t i e) = e_reason e.
Proof. unfold attach_render. destruct (e_tpl (attach_pos t i e)); cbn; apply attach_pos_reason. Qed.
Lemma attach_eval_reason t i e : e_reason (attach_eval t i e) = e_reason e.
Proof. unfold attach_eval. cbn. apply attach_pos_reason. Qed.

Lemma rsim_ret {A} s (a : A) s' ok :
  s_out s' = s_out s -> orel (s_out s) ok -> rsim s (ROk a s') (ROk a (set_out s' ok)).
Proof.
  intros E Ho. split.
  - intros s'' <-. rewrite E. apply out_extends_refl.
  - left. split; [reflexivity|]. exists ok. split; [reflexivity|]. rewrite E. exact Ho.
Qed.

Lemma rsim_err {A} s e s' ok :
  s_out s' = s_out s -> orel (s_out s) ok -> rsim s (@RErr A e s') (RErr e (set_out s' ok)).
Proof.
  intros E Ho. split.
  - intros s'' <-. rewrite E. apply out_extends_refl.
  - left. split; [reflexivity|]. exists ok. split; [reflexivity|]. rewrite E. exact Ho.
Qed.

Lemma rsim_fold_idx {A} (step stepk : A -> nat -> rstate -> rres unit) l :
  (forall x i s1 o1, orel (s_out s1) o1 -> rsim s1 (step x i s1) (stepk x i (set_out s1 o1))) ->
  forall i s ok, orel (s_out s) ok ->
  rsim s (fold_idx step l i s) (fold_idx stepk l i (set_out s ok)).
Proof.
  intros Hstep. induction l as [|x r IH]; intros i s ok Ho; cbn [fold_idx].
  - apply rsim_ret; [reflexivity|exact Ho].
  - apply rsim_rbind; [apply Hstep; exact Ho|]. intros _ s1 o1 Ho1. apply IH. exact Ho1.
Qed.

Lemma rsim_mapM {A B} (f fk : A -> rstate -> rres B) l :
  (forall x s1 o1, orel (s_out s1) o1 -> rsim s1 (f x s1) (fk x (set_out s1 o1))) ->
  forall s ok, orel (s_out s) ok -> rsim s (mapM f l s) (mapM fk l (set_out s ok)).
Proof.
  intros Hf. induction l as [|x r IH]; intros s ok Ho; cbn [mapM].
  - apply rsim_ret; [reflexivity|exact Ho].
  - apply rsim_rbind; [apply Hf; exact Ho|]. intros y s1 o1 Ho1.
    apply rsim_rbind; [apply IH; exact Ho1|]. intros ys s2 o2 Ho2.
    apply rsim_ret; [reflexivity|exact Ho2].
Qed.

(* a post-processing match whose state functions commute with the writer
   substitution and leave the writer alone *)
Lemma rsim_post_id {A} s (r rk : rres A) (g h : rstate -> rstate) :
  (forall s' o, g (set_out s' o) = set_out (g s') o) -> (forall s', s_out (g s') = s_out s') ->
  (forall s' o, h (set_out s' o) = set_out (h s') o) -> (forall s', s_out (h s') = s_out s') ->
  rsim s r rk ->
  rsim s (match r with ROk a s' => ROk a (g s') | RErr e s' => RErr e (h s') | x => x end)
         (match rk with ROk a s' => ROk a (g s') | RErr e s' => RErr e (h s') | x => x end).
Proof.
  intros Hg1 Hg2 Hh1 Hh2 [Hao Hx]. split.
  - intros s' H. destruct r; cbn in H; try contradiction; subst; rewrite ?Hg2, ?Hh2;
      apply Hao; reflexivity.
  - destruct Hx as [Hl|Hd].
    + left. destruct r, rk; cbn in *; try contradiction; auto.
      * destruct Hl as [-> (o1 & -> & Ho1)]. split; [reflexivity|]. exists o1. rewrite Hg1, Hg2. auto.
      * destruct Hl as [-> (o1 & -> & Ho1)]. split; [reflexivity|]. exists o1. rewrite Hh1, Hh2. auto.
    + right. destruct Hd as (e & sk & -> & He & [Hf1 Hf2] & Hpre). exists e, (h sk).
      unfold faulted_at. rewrite Hh2. split; [reflexivity|]. split; [exact He|].
      split; [split; assumption|].
      intros s' H. destruct r; cbn in H; try contradiction; subst; rewrite ?Hg2, ?Hh2;
        apply Hpre; reflexivity.
Qed.

Lemma rsim_post {A} s (r rk : rres A) (g h : rstate -> rstate) :
  (forall s' o, g (set_out s' o) = set_out (g s') o) -> (forall s', s_out (g s') = s_out s') ->
  (forall s' o, h (set_out s' o) = set_out (h s') o) -> (forall s', s_out (h s') = s_out s') ->
  rsim s r rk ->
  rsim s (match r with ROk a s' => ROk a (g s') | RErr e s' => RErr e (h s')
                  | RPanic p => RPanic p | RFuel => RFuel end)
         (match rk with ROk a s' => ROk a (g s') | RErr e s' => RErr e (h s')
                   | RPanic p => RPanic p | RFuel => RFuel end).
Proof.
  intros Hg1 Hg2 Hh1 Hh2 H.
  pose proof (rsim_post_id s r rk g h Hg1 Hg2 Hh1 Hh2 H) as X.
  destruct r, rk; exact X.
Qed.

(* ---------- the writer ---------- *)
Lemma rsim_out_write chunk s ok :
  orel (s_out s) ok -> rsim s (out_write chunk s) (out_write chunk (set_out s ok)).
Proof.
  intros Ho. split.
  { intros s' H.
    pose proof (thr_out_write (Rok := out_rel) (Rerr := out_rel) (crit s) chunk s (R_refl _)) as X.
    destruct (out_write chunk s); cbn in *; try contradiction; subst; exact X. }
  unfold out_write. destruct chunk as [|c r].
  - left. split; [reflexivity|]. exists ok. auto.
  - cbn [s_out set_out]. destruct Ho as [->|(Hnone & Hle & ->)].
    + rewrite set_out_same. left.
      destruct (match o_fail_at (s_out s) with Some k0 => _ | None => false end); cbn;
        (split; [reflexivity | apply sim_same]).
    + rewrite Hnone. cbn [faulty o_fail_at o_writes o_chunks].
      destruct (N.leb k (o_writes (s_out s))) eqn:Hk.
      * right. apply N.leb_le in Hk. eexists _, _. split; [reflexivity|]. cbn.
        unfold faulted_at. cbn. repeat split; try reflexivity; try lia.
        intros s' <-. cbn. exists [c :: r]. split; [discriminate|reflexivity].
      * left. apply N.leb_gt in Hk. cbn. split; [reflexivity|].
        eexists. split; [reflexivity|]. right. cbn. repeat split; try assumption; try lia.
Qed.

Lemma rsim_write_indented fuel v ind s ok :
  orel (s_out s) ok ->
  rsim s (write_indented fuel v ind s) (write_indented fuel v ind (set_out s ok)).
Proof.
  revert v s ok. induction fuel as [|f IH]; intros v s ok Ho; cbn [write_indented].
  - split; [intros s' []|left; exact I].
  - destruct (find_lf v) as [n|]; [|apply rsim_out_write; exact Ho].
    apply rsim_rbind; [apply rsim_out_write; exact Ho|]. intros _ s1 o1 Ho1.
    destruct (skipn (S n) v); [apply rsim_ret; [reflexivity|exact Ho1]|].
    apply rsim_rbind; [apply rsim_out_write; exact Ho1|]. intros _ s2 o2 Ho2. apply IH. exact Ho2.
Qed.

Lemma rsim_indent_aware_write v s ok :
  orel (s_out s) ok -> rsim s (indent_aware_write v s) (indent_aware_write v (set_out s ok)).
Proof.
  intros Ho. unfold indent_aware_write. destruct v as [|c r]; [apply rsim_ret; [reflexivity|exact Ho]|].
  autorewrite with pushout.
  apply rsim_rbind.
  - destruct (negb (first_is is_newline (c :: r)) && s_indent_before_write (set_content_produced s true)).
    + destruct (s_indent (set_content_produced s true)).
      * apply (rsim_out_write _ (set_content_produced s true)). exact Ho.
      * apply (rsim_ret s tt (set_content_produced s true)); [reflexivity|exact Ho].
    + apply (rsim_ret s tt (set_content_produced s true)); [reflexivity|exact Ho].
  - intros _ s2 o2 Ho2. autorewrite with pushout. apply rsim_rbind.
    + destruct (s_indent s2); [apply rsim_write_indented | apply rsim_out_write]; exact Ho2.
    + intros _ s3 o3 Ho3. autorewrite with pushout. apply rsim_ret; [reflexivity|exact Ho3].
Qed.

Lemma rsim_log_write txt s ok :
  orel (s_out s) ok -> rsim s (log_write txt s) (log_write txt (set_out s ok)).
Proof.
  intros Ho. unfold log_write. autorewrite with pushout.
  apply (rsim_out_write txt (log_entry s txt)). exact Ho.
Qed.

(* computations that never look at the writer *)
Lemma rsim_pure {A} s (r : rres A) ok :
  (forall s', ends_in r s' -> s_out s' = s_out s) ->
  orel (s_out s) ok -> rsim s r (out_map ok r).
Proof.
  intros Hp Ho. split.
  - intros s' H. rewrite (Hp s' H). apply out_extends_refl.
  - left. destruct r as [a s'|e s'|p|]; cbn; auto.
    + split; [reflexivity|]. exists ok. split; [reflexivity|]. rewrite (Hp s' eq_refl). exact Ho.
    + split; [reflexivity|]. exists ok. split; [reflexivity|]. rewrite (Hp s' eq_refl). exact Ho.
Qed.

Lemma evaluate2_out data p s o : evaluate2 data p (set_out s o) = out_map o (evaluate2 data p s).
Proof.
  unfold evaluate2. destruct p; [|reflexivity]. cbn [s_blocks set_out].
  destruct (navigate data segs (s_blocks s)); reflexivity.
Qed.
Lemma evaluate2_keeps_out data p s s' : ends_in (evaluate2 data p s) s' -> s_out s' = s_out s.
Proof.
  unfold evaluate2. destruct p; [destruct (navigate data segs (s_blocks s))|]; cbn; intros H;
    try contradiction; subst; reflexivity.
Qed.
Lemma evaluate_out data raw s o : evaluate data raw (set_out s o) = out_map o (evaluate data raw s).
Proof. unfold evaluate. destruct (path_parse raw); [apply evaluate2_out|reflexivity]. Qed.
Lemma evaluate_keeps_out data raw s s' : ends_in (evaluate data raw s) s' -> s_out s' = s_out s.
Proof.
  unfold evaluate. destruct (path_parse raw); [apply evaluate2_keeps_out|]. cbn. intros <-. reflexivity.
Qed.

Lemma call_inner_out_map reg hid h s o :
  call_inner reg hid h (set_out s o) = out_map o (call_inner reg hid h s).
Proof.
  unfold call_inner, macro_inner, param_or, strict_error, rfail.
  repeat lazymatch goal with
  | |- ?e = _ =>
      lazymatch e with
      | context [match ?y with _ => _ end] => let z := inner_scrut y in destruct z
      end
  end; reflexivity.
Qed.

Lemma rsim_evaluate2 data p s ok :
  orel (s_out s) ok -> rsim s (evaluate2 data p s) (evaluate2 data p (set_out s ok)).
Proof. intros Ho. rewrite evaluate2_out. apply rsim_pure; [apply evaluate2_keeps_out|exact Ho]. Qed.
Lemma rsim_evaluate data raw s ok :
  orel (s_out s) ok -> rsim s (evaluate data raw s) (evaluate data raw (set_out s ok)).
Proof. intros Ho. rewrite evaluate_out. apply rsim_pure; [apply evaluate_keeps_out|exact Ho]. Qed.
Lemma rsim_call_inner reg hid h s ok :
  orel (s_out s) ok -> rsim s (call_inner reg hid h s) (call_inner reg hid h (set_out s ok)).
Proof.
  intros Ho. rewrite call_inner_out_map. apply rsim_pure; [apply call_inner_out|exact Ho].
Qed.

Lemma do_escape_out reg c s o :
  do_escape reg c (set_out s o) = (fst (do_escape reg c s), set_out (snd (do_escape reg c s)) o).
Proof.
  unfold do_escape. cbn [s_disable_escape set_out]. destruct (s_disable_escape s); [reflexivity|].
  destruct (r_esc_mark reg); reflexivity.
Qed.
Lemma do_escape_keeps_out reg c s : s_out (snd (do_escape reg c s)) = s_out s.
Proof.
  unfold do_escape. destruct (s_disable_escape s); [reflexivity|].
  destruct (r_esc_mark reg); reflexivity.
Qed.
End Fault.

(* ---------- spec, tactic ---------- *)
Arguments rsim k {A} s r rk.


Lemma rsim_base k {A} s s' (r rk : rres A) :
  rsim k s' r rk -> s_out s' = s_out s -> rsim k s r rk.
Proof. intros [Hao H] E. split; [|exact H]. unfold ao in *. rewrite <- E. exact Hao. Qed.

Lemma orel_base k s s' ok : s_out s' = s_out s -> orel k (s_out s) ok -> orel k (s_out s') ok.
Proof. intros ->. auto. Qed.

Section SimSpec.
Variables (k : N) (reg : registry) (data : json) (ft : ftable).

Definition sim_spec (f : nat) : rspec :=
  {| sp_rt := fun t s r => forall ok, orel k (s_out s) ok ->
                 rsim k s r (render_template reg data ft f t (set_out s ok));
     sp_et := fun t s r => forall ok, orel k (s_out s) ok ->
                 rsim k s r (eval_template reg data ft f t (set_out s ok));
     sp_or := fun t s r => forall ok, orel k (s_out s) ok ->
                 rsim k s r (opt_render reg data ft f t (set_out s ok));
     sp_re := fun e s r => forall ok, orel k (s_out s) ok ->
                 rsim k s r (render_element reg data ft f e (set_out s ok));
     sp_ee := fun e s r => forall ok, orel k (s_out s) ok ->
                 rsim k s r (eval_element reg data ft f e (set_out s ok));
     sp_rx := fun ht html s r => forall ok, orel k (s_out s) ok ->
                 rsim k s r (render_expression reg data ft f ht html (set_out s ok));
     sp_rh := fun ht s r => forall ok, orel k (s_out s) ok ->
                 rsim k s r (render_helper reg data ft f ht (set_out s ok));
     sp_hft := fun ht s r => forall ok, orel k (s_out s) ok ->
                 rsim k s r (helper_from_template reg data ft f ht (set_out s ok));
     sp_dft := fun dt s r => forall ok, orel k (s_out s) ok ->
                 rsim k s r (deco_from_template reg data ft f dt (set_out s ok));
     sp_ean := fun p s r => forall ok, orel k (s_out s) ok ->
                 rsim k s r (expand_as_name reg data ft f p (set_out s ok));
     sp_ep := fun p s r => forall ok, orel k (s_out s) ok ->
                 rsim k s r (expand_param reg data ft f p (set_out s ok));
     sp_chv := fun hid h s r => forall ok, orel k (s_out s) ok ->
                 rsim k s r (call_helper_for_value reg data ft f hid h (set_out s ok));
     sp_ch := fun hid h s r => forall ok, orel k (s_out s) ok ->
                 rsim k s r (call_helper reg data ft f hid h (set_out s ok));
     sp_ed := fun dt s r => forall ok, orel k (s_out s) ok ->
                 rsim k s r (eval_decorator reg data ft f dt (set_out s ok));
     sp_rp := fun dt s r => forall ok, orel k (s_out s) ok ->
                 rsim k s r (render_partial reg data ft f dt (set_out s ok));
     sp_xp := fun d s r => forall ok, orel k (s_out s) ok ->
                 rsim k s r (expand_partial reg data ft f d (set_out s ok)) |}.
End SimSpec.

Ltac out_eq :=
  autorewrite with outp;
  first [ reflexivity | assumption | congruence
        | repeat match goal with H : s_out _ = s_out _ |- _ => rewrite H end; autorewrite with outp;
          reflexivity ].

Ltac orel_side :=
  first [ eassumption | eapply orel_base; [ | eassumption ]; out_eq ].

Ltac sim_ih IH :=
  first [ apply (h_rt IH) | apply (h_et IH) | apply (h_or IH) | apply (h_re IH) | apply (h_ee IH)
        | apply (h_rx IH) | apply (h_rh IH) | apply (h_hft IH) | apply (h_dft IH) | apply (h_ean IH)
        | apply (h_ep IH) | apply (h_chv IH) | apply (h_ch IH) | apply (h_ed IH) | apply (h_rp IH)
        | apply (h_xp IH) | apply rsim_out_write | apply rsim_indent_aware_write
        | apply rsim_log_write | apply rsim_evaluate2 | apply rsim_evaluate | apply rsim_call_inner ].

Ltac sim_call IH := eapply rsim_base; [ sim_ih IH; orel_side | out_eq ].

Ltac sim_leaf :=
  first [ apply rsim_ret | apply rsim_err ]; [ out_eq | orel_side ].

Ltac sim_step IH :=
  autorewrite with pushout;
  repeat (lazymatch goal with
          | |- context [if ?c then set_out _ _ else _] => destruct c
          | |- context [match ?c with Some _ => _ | None => set_out _ _ end] =>
              destruct c as [[? ?]|]
          end; autorewrite with pushout);
  lazymatch goal with
  | |- rsim ?k ?s ?L ?R =>
      lazymatch L with
      | (let _ := _ in _) => cbv zeta
      | rbind _ _ => apply rsim_rbind; [ | intros ? ? ? ? ]
      | rmap_err _ _ =>
          apply rsim_rmap_err;
          [ intros; first [apply attach_render_reason | apply attach_eval_reason] | ]
      | fold_idx _ _ _ _ =>
          eapply rsim_base; [ apply rsim_fold_idx; [ intros ? ? ? ? ? | orel_side ] | out_eq ]
      | mapM _ _ _ =>
          eapply rsim_base; [ apply rsim_mapM; [ intros ? ? ? ? | orel_side ] | out_eq ]
      | param_or _ _ _ _ _ => unfold param_or
      | strict_error _ _ => unfold strict_error, rfail
      | rfail _ _ => unfold rfail
      | ROk _ _ => sim_leaf
      | RErr _ _ => sim_leaf
      | RPanic _ => split; [intros ? [] | left; reflexivity]
      | RFuel => split; [intros ? [] | left; exact I]
      | match ?y with _ => _ end =>
          let z := inner_scrut y in
          lazymatch z with
          | do_escape ?r ?c ?s2 =>
              let Hk := fresh "Hk" in
              pose proof (do_escape_keeps_out r c s2) as Hk;
              rewrite (do_escape_out r c s2);
              destruct (do_escape r c s2) as [? ?]; cbn [fst snd] in *; cbv beta iota
          | call_inner ?r ?hid ?h ?s2 =>
              let Hk := fresh "Hk" in
              pose proof (call_inner_out r hid h s2) as Hk;
              rewrite (call_inner_out_map r hid h s2);
              destruct (call_inner r hid h s2); cbn [out_map ends_in] in *;
              try (specialize (Hk _ eq_refl))
          | _ =>
              tryif is_ih_call z
              then (first [eapply rsim_post_id | eapply rsim_post];
                    [ intros; repeat (autorewrite with pushout;
                                      try lazymatch goal with
                                          | |- context [match ?y with _ => _ end] => destruct y
                                          end); reflexivity
                    | intros; repeat (autorewrite with outp;
                                      try lazymatch goal with
                                          | |- context [match ?y with _ => _ end] => destruct y
                                          end); reflexivity
                    | intros; repeat (autorewrite with pushout;
                                      try lazymatch goal with
                                          | |- context [match ?y with _ => _ end] => destruct y
                                          end); reflexivity
                    | intros; repeat (autorewrite with outp;
                                      try lazymatch goal with
                                          | |- context [match ?y with _ => _ end] => destruct y
                                          end); reflexivity
                    | ])
              else destruct z eqn:?
          end
      | _ => sim_call IH
      end
  end.

Section SimSteps.
Variables (k : N) (reg : registry) (data : json) (ft : ftable).
Variable f : nat.
Hypothesis IH : holds reg data ft (sim_spec k reg data ft f) f.

Lemma sim_rt t s ok : orel k (s_out s) ok ->
  rsim k s (render_template reg data ft (S f) t s) (render_template reg data ft (S f) t (set_out s ok)).
Proof. intros Ho. rewrite !render_template_S. repeat sim_step IH. Qed.

Lemma sim_et t s ok : orel k (s_out s) ok ->
  rsim k s (eval_template reg data ft (S f) t s) (eval_template reg data ft (S f) t (set_out s ok)).
Proof. intros Ho. rewrite !eval_template_S. repeat sim_step IH. Qed.

Lemma sim_or t s ok : orel k (s_out s) ok ->
  rsim k s (opt_render reg data ft (S f) t s) (opt_render reg data ft (S f) t (set_out s ok)).
Proof. intros Ho. rewrite !opt_render_S. repeat sim_step IH. Qed.

Lemma sim_re e s ok : orel k (s_out s) ok ->
  rsim k s (render_element reg data ft (S f) e s) (render_element reg data ft (S f) e (set_out s ok)).
Proof. intros Ho. rewrite !render_element_S. repeat sim_step IH. Qed.

Lemma sim_ee e s ok : orel k (s_out s) ok ->
  rsim k s (eval_element reg data ft (S f) e s) (eval_element reg data ft (S f) e (set_out s ok)).
Proof. intros Ho. rewrite !eval_element_S. repeat sim_step IH. Qed.

Lemma sim_rh ht s ok : orel k (s_out s) ok ->
  rsim k s (render_helper reg data ft (S f) ht s) (render_helper reg data ft (S f) ht (set_out s ok)).
Proof. intros Ho. rewrite !render_helper_S. cbv zeta. repeat sim_step IH. Qed.

Lemma sim_hft ht s ok : orel k (s_out s) ok ->
  rsim k s (helper_from_template reg data ft (S f) ht s)
           (helper_from_template reg data ft (S f) ht (set_out s ok)).
Proof. intros Ho. rewrite !helper_from_template_S. repeat sim_step IH. Qed.

Lemma sim_dft dt s ok : orel k (s_out s) ok ->
  rsim k s (deco_from_template reg data ft (S f) dt s)
           (deco_from_template reg data ft (S f) dt (set_out s ok)).
Proof. intros Ho. rewrite !deco_from_template_S. repeat sim_step IH. Qed.

Lemma sim_ean p s ok : orel k (s_out s) ok ->
  rsim k s (expand_as_name reg data ft (S f) p s) (expand_as_name reg data ft (S f) p (set_out s ok)).
Proof. intros Ho. rewrite !expand_as_name_S. repeat sim_step IH. Qed.

Lemma sim_ep p s ok : orel k (s_out s) ok ->
  rsim k s (expand_param reg data ft (S f) p s) (expand_param reg data ft (S f) p (set_out s ok)).
Proof. intros Ho. rewrite !expand_param_S. repeat sim_step IH. Qed.

Lemma sim_ch hid h s ok : orel k (s_out s) ok ->
  rsim k s (call_helper reg data ft (S f) hid h s) (call_helper reg data ft (S f) hid h (set_out s ok)).
Proof.
  intros Ho. rewrite !call_helper_S. cbv zeta.
  destruct hid; try solve [repeat sim_step IH].
  (* HLocal: the capture bracket of the "c:" mode — both runs render the body
     into the same fresh buffer *)
  cbn [has_call_inner]. destruct (starts_with _ name); [|repeat sim_step IH].
  cbn [hv_tpl]. destruct (hv_tpl h) as [t|].
  2:{ autorewrite with pushout. apply rsim_ret; [reflexivity|exact Ho]. }
  set (txt := `"local(" ++ name ++ `":" ++ params_text (hv_params h) ++ `")").
  change (set_out (log_entry (set_out s ok) txt) (out_new None))
    with (set_out (log_entry s txt) (out_new None)).
  change (s_out (log_entry (set_out s ok) txt)) with ok.
  change (s_out (log_entry s txt)) with (s_out s).
  destruct (render_template reg data ft f t (set_out (log_entry s txt) (out_new None)))
    as [u s2|e s2|p|].
  - assert (Hbase : forall (r rk : rres unit),
              rsim k (set_out s2 (s_out s)) r rk -> rsim k s r rk).
    { intros r rk [H1 H2]. split; [exact H1|exact H2]. }
    apply Hbase.
    change (set_out s2 ok) with (set_out (set_out s2 (s_out s)) ok).
    apply rsim_rbind; [apply rsim_out_write; exact Ho|].
    intros _ s3 o3 Ho3. apply rsim_rbind; [apply rsim_out_write; exact Ho3|].
    intros _ s4 o4 Ho4. apply rsim_out_write; exact Ho4.
  - change (set_out s2 ok) with (set_out (set_out s2 (s_out s)) ok).
    apply rsim_err; [reflexivity|exact Ho].
  - split; [intros ? [] | left; reflexivity].
  - split; [intros ? [] | left; exact I].
Qed.

Lemma sim_ed dt s ok : orel k (s_out s) ok ->
  rsim k s (eval_decorator reg data ft (S f) dt s) (eval_decorator reg data ft (S f) dt (set_out s ok)).
Proof. intros Ho. rewrite !eval_decorator_S. repeat sim_step IH. Qed.

Lemma sim_rp dt s ok : orel k (s_out s) ok ->
  rsim k s (render_partial reg data ft (S f) dt s) (render_partial reg data ft (S f) dt (set_out s ok)).
Proof. intros Ho. rewrite !render_partial_S. cbv zeta. repeat sim_step IH. Qed.

Lemma sim_xp d s ok : orel k (s_out s) ok ->
  rsim k s (expand_partial reg data ft (S f) d s) (expand_partial reg data ft (S f) d (set_out s ok)).
Proof. intros Ho. rewrite !expand_partial_S. cbv zeta. repeat sim_step IH. Qed.

Lemma sim_rx ht html s ok : orel k (s_out s) ok ->
  rsim k s (render_expression reg data ft (S f) ht html s)
           (render_expression reg data ft (S f) ht html (set_out s ok)).
Proof.
  intros Ho. rewrite !render_expression_S. cbv zeta. destruct html; cbv iota.
  - autorewrite with pushout.
    apply (rsim_post_id k s _ _ (fun s' => set_disable_escape s' false)
             (fun s' => set_disable_escape s' false)); try reflexivity.
    repeat sim_step IH.
  - apply (rsim_post_id k s _ _ (fun s' => s') (fun s' => s')); try reflexivity.
    repeat sim_step IH.
Qed.

Lemma sim_chv hid h s ok : orel k (s_out s) ok ->
  rsim k s (call_helper_for_value reg data ft (S f) hid h s)
           (call_helper_for_value reg data ft (S f) hid h (set_out s ok)).
Proof.
  intros Ho. rewrite !call_helper_for_value_S.
  pose proof (call_inner_out reg hid h s) as Hk. rewrite call_inner_out_map.
  destruct (call_inner reg hid h s) as [r s1|e s1|p|]; cbn [out_map ends_in] in *;
    try (specialize (Hk _ eq_refl)).
  - sim_leaf.
  - destruct (is_unimplemented e); [|sim_leaf]. cbv zeta. autorewrite with pushout.
    destruct (call_helper reg data ft f hid h (set_out (set_disable_escape s1 true) (out_new None)))
      as [u s3|e' s3|p|].
    + apply (rsim_ret k s _ (set_out (set_disable_escape s3 (s_disable_escape s1)) (s_out s1)) ok);
        [cbn [s_out set_out]; exact Hk | exact Ho].
    + apply (rsim_err k s _ (set_out s3 (s_out s1)) ok); [cbn [s_out set_out]; exact Hk | exact Ho].
    + split; [intros ? [] | left; reflexivity].
    + split; [intros ? [] | left; exact I].
  - split; [intros ? [] | left; reflexivity].
  - split; [intros ? [] | left; exact I].
Qed.
End SimSteps.

(* ---------- assembling ---------- *)
Lemma rsim_fuel k {A} s : rsim k s (@RFuel A) RFuel.
Proof. split; [intros ? [] | left; exact I]. Qed.

Theorem sim_holds : forall k reg data ft f, holds reg data ft (sim_spec k reg data ft f) f.
Proof.
  intros k reg data ft. apply render_ind_ix.
  - constructor; intros; intros ok Ho; apply rsim_fuel.
  - intros f IH. constructor; intros; intros ok Ho.
    + apply sim_rt; assumption.
    + apply sim_et; assumption.
    + apply sim_or; assumption.
    + apply sim_re; assumption.
    + apply sim_ee; assumption.
    + apply sim_rx; assumption.
    + apply sim_rh; assumption.
    + apply sim_hft; assumption.
    + apply sim_dft; assumption.
    + apply sim_ean; assumption.
    + apply sim_ep; assumption.
    + apply sim_chv; assumption.
    + apply sim_ch; assumption.
    + apply sim_ed; assumption.
    + apply sim_rp; assumption.
    + apply sim_xp; assumption.
Qed.

(* from the internal relation to the readable one, for a run that starts with
   an unfailing writer *)
Lemma finish k {A} s (r rk : rres A) :
  o_fail_at (s_out s) = None -> o_writes (s_out s) <= k ->
  rsim k s r rk -> ao (with_fault k s) rk -> fault_outcome k r rk.
Proof.
  intros Hnone Hle [Hao H] Haok.
  assert (Hfin : forall s' sk', ends_in r s' -> ends_in rk sk' -> sim k s' sk' ->
                                sk' = with_fault k s' /\ o_writes (s_out s') <= k).
  { intros s' sk' Hr Hrk (ok' & -> & Ho').
    destruct (Hao s' Hr) as (_ & _ & _ & _ & Hf & _).
    destruct (Haok _ Hrk) as (_ & _ & _ & _ & Hfk & _). cbn [s_out set_out with_fault o_fail_at] in Hfk.
    destruct Ho' as [->|(_ & Hle' & ->)].
    - rewrite Hfk, Hnone in Hf. discriminate.
    - split; [reflexivity | exact Hle']. }
  destruct H as [Hl|Hd].
  - left. destruct r, rk; cbn [lock] in Hl; try contradiction; auto.
    + destruct Hl as [-> Hs]. destruct (Hfin s0 s1 eq_refl eq_refl Hs). auto.
    + destruct Hl as [-> Hs]. destruct (Hfin s0 s1 eq_refl eq_refl Hs). auto.
  - right. destruct Hd as (e & sk & -> & He & [Hf1 Hf2] & Hpre). exists e, sk.
    split; [reflexivity|]. repeat (split; [assumption|]). exact Hpre.
Qed.

Lemma orel_armed k s :
  o_fail_at (s_out s) = None -> o_writes (s_out s) <= k ->
  orel k (s_out s) (s_out (with_fault k s)).
Proof. intros Hn Hle. right. auto. Qed.

(* C19 writer_prefix, for every function of the fixpoint *)
Theorem writer_prefix_all : forall k reg data ft f,
  every_render_fn2 reg data ft f (with_fault k)
    (fun A s r rk => o_fail_at (s_out s) = None -> o_writes (s_out s) <= k -> fault_outcome k r rk).
Proof.
  intros k reg data ft f. pose proof (sim_holds k reg data ft f) as HS.
  pose proof (no_retract reg data ft f) as HA. unfold every_render_fn in HA.
  destruct HA as (A1 & A2 & A3 & A4 & A5 & A6 & A7 & A8 & A9 & A10 & A11 & A12 & A13 & A14 & A15 & A16).
  unfold every_render_fn2.
  repeat match goal with |- _ /\ _ => split end; intros; apply (finish k s); try assumption.
  - apply (h_rt HS). apply orel_armed; assumption.
  - intros s' Hs'. apply (A1 _ _ _ Hs').
  - apply (h_et HS). apply orel_armed; assumption.
  - intros s' Hs'. apply (A2 _ _ _ Hs').
  - apply (h_or HS). apply orel_armed; assumption.
  - intros s' Hs'. apply (A3 _ _ _ Hs').
  - apply (h_re HS). apply orel_armed; assumption.
  - intros s' Hs'. apply (A4 _ _ _ Hs').
  - apply (h_ee HS). apply orel_armed; assumption.
  - intros s' Hs'. apply (A5 _ _ _ Hs').
  - apply (h_rx HS). apply orel_armed; assumption.
  - intros s' Hs'. apply (A6 _ _ _ _ Hs').
  - apply (h_rh HS). apply orel_armed; assumption.
  - intros s' Hs'. apply (A7 _ _ _ Hs').
  - apply (h_hft HS). apply orel_armed; assumption.
  - intros s' Hs'. apply (A8 _ _ _ Hs').
  - apply (h_dft HS). apply orel_armed; assumption.
  - intros s' Hs'. apply (A9 _ _ _ Hs').
  - apply (h_ean HS). apply orel_armed; assumption.
  - intros s' Hs'. apply (A10 _ _ _ Hs').
  - apply (h_ep HS). apply orel_armed; assumption.
  - intros s' Hs'. apply (A11 _ _ _ Hs').
  - apply (h_chv HS). apply orel_armed; assumption.
  - intros s' Hs'. apply (A12 _ _ _ _ Hs').
  - apply (h_ch HS). apply orel_armed; assumption.
  - intros s' Hs'. apply (A13 _ _ _ _ Hs').
  - apply (h_ed HS). apply orel_armed; assumption.
  - intros s' Hs'. apply (A14 _ _ _ Hs').
  - apply (h_rp HS). apply orel_armed; assumption.
  - intros s' Hs'. apply (A15 _ _ _ Hs').
  - apply (h_xp HS). apply orel_armed; assumption.
  - intros s' Hs'. apply (A16 _ _ _ Hs').
Qed.

(* ---------- the entry point, and readable consequences ---------- *)
Theorem writer_prefix : forall k reg data ft fuel t s,
  o_fail_at (s_out s) = None -> o_writes (s_out s) <= k ->
  fault_outcome k (render_template reg data ft fuel t s)
                  (render_template reg data ft fuel t (with_fault k s)).
Proof.
  intros k reg data ft fuel t s Hn Hle.
  destruct (writer_prefix_all k reg data ft fuel) as (H & _). apply H; assumption.
Qed.

Lemma st_init_fault root dev k : st_init root dev (Some k) = with_fault k (st_init root dev None).
Proof. reflexivity. Qed.

Lemma render_template_ao reg data ft fuel t s : ao s (render_template reg data ft fuel t s).
Proof. destruct (no_retract reg data ft fuel) as (H & _). intros s' Hs'. exact (H t s s' Hs'). Qed.

(* a render call, from its initial state: when the unfailing writer accepted at
   most k calls the failing one is never hit and the outcome is the same; when
   it accepted more, the render with the failing writer returns Err(IOError)
   and the chunks accepted are exactly the first k chunks of the unfailing run *)
Theorem writer_prefix_top : forall reg data ft fuel t root dev k a s1,
  render_template reg data ft fuel t (st_init root dev None) = ROk a s1 ->
  (o_writes (s_out s1) <= k /\
   render_template reg data ft fuel t (st_init root dev (Some k)) = ROk a (with_fault k s1))
  \/
  (k < o_writes (s_out s1) /\
   exists e sk', render_template reg data ft fuel t (st_init root dev (Some k)) = RErr e sk' /\
                 e_reason e = RIOError /\ o_writes (s_out sk') = k /\
                 rev (o_chunks (s_out sk')) = firstn (N.to_nat k) (rev (o_chunks (s_out s1)))).
Proof.
  intros reg data ft fuel t root dev k a s1 Hr.
  pose proof (writer_prefix k reg data ft fuel t (st_init root dev None) eq_refl (N.le_0_l k)) as H.
  pose proof (render_template_ao reg data ft fuel t (st_init root dev None)) as A1.
  pose proof (render_template_ao reg data ft fuel t (with_fault k (st_init root dev None))) as A2.
  rewrite <- st_init_fault in H, A2. rewrite Hr in H, A1.
  destruct H as [Hl|Hd].
  - left. destruct (render_template reg data ft fuel t (st_init root dev (Some k))) as [a' sk'| | |];
      try contradiction. destruct Hl as (-> & -> & Hle). split; [exact Hle | reflexivity].
  - right. destruct Hd as (e & sk' & Hrk & He & Hf & Hw & Hpre). rewrite Hrk in A2.
    destruct (Hpre s1 eq_refl) as (l & Hne & Hl).
    destruct (A1 s1 eq_refl) as (l1 & Hc1 & Hw1 & _).
    destruct (A2 sk' eq_refl) as (l2 & Hc2 & Hw2 & _).
    cbn [st_init s_out out_new o_chunks o_writes] in *. rewrite app_nil_r in *.
    assert (Hlen : List.length l2 = N.to_nat k) by lia.
    assert (Hl1 : l1 = l ++ l2) by congruence.
    split.
    + rewrite Hw1, Hl1, app_length. destruct l; [contradiction|]. cbn [List.length]. lia.
    + exists e, sk'. repeat (split; [assumption|]).
      rewrite Hc2, Hc1, Hl1, rev_app_distr, <- Hlen, <- rev_length.
      rewrite firstn_app, firstn_all, Nat.sub_diag. cbn [firstn]. rewrite app_nil_r. reflexivity.
Qed.

(* the bytes accepted by a failing writer are a prefix of the complete output *)
Corollary writer_prefix_text : forall reg data ft fuel t root dev k a s1 sk',
  render_template reg data ft fuel t (st_init root dev None) = ROk a s1 ->
  ends_in (render_template reg data ft fuel t (st_init root dev (Some k))) sk' ->
  exists rest, out_text (s_out s1) = out_text (s_out sk') ++ rest.
Proof.
  intros reg data ft fuel t root dev k a s1 sk' Hr Hk.
  destruct (writer_prefix_top reg data ft fuel t root dev k a s1 Hr) as [[_ E]|(_ & e & sk & E & _ & _ & Hc)];
    rewrite E in Hk; cbn in Hk; subst sk'.
  - exists []. rewrite app_nil_r. reflexivity.
  - exists (concat (skipn (N.to_nat k) (rev (o_chunks (s_out s1))))).
    unfold out_text. rewrite Hc, <- concat_app, firstn_skipn. reflexivity.
Qed.

(* a reached fault always surfaces as the render's error *)
Corollary fault_surfaces : forall reg data ft fuel t root dev k a s1,
  render_template reg data ft fuel t (st_init root dev None) = ROk a s1 ->
  k < o_writes (s_out s1) ->
  exists e sk', render_template reg data ft fuel t (st_init root dev (Some k)) = RErr e sk' /\
                e_reason e = RIOError.
Proof.
  intros reg data ft fuel t root dev k a s1 Hr Hlt.
  destruct (writer_prefix_top reg data ft fuel t root dev k a s1 Hr) as [[Hle _]|(_ & e & sk & E & He & _)].
  - lia.
  - eauto.
Qed.

(* ---------- Examples ---------- *)
Definition ex_reg : registry :=
  {| r_templates := []; r_sources := []; r_helpers := []; r_decorators := [];
     r_escape := escape_html; r_esc_mark := false; r_strict := false; r_dev := false;
     r_prevent_indent := false |}.
Definition ex_t : template :=
  MkT None [ElRaw (`"a"); ElExpr (MkH (PPath (PathRelative [SegNamed (`"x")] (`"x"))) [] [] None None
                                      None false false false); ElRaw (`"c")] [].
Definition ex_d : json := JObj [(`"x", JStr (`"<"))].

Example ex_fault_free :
  exists s1, render_template ex_reg ex_d [] 6 ex_t (st_init None None None) = ROk tt s1 /\
             rev (o_chunks (s_out s1)) = [`"a"; `"&lt;"; `"c"] /\ o_writes (s_out s1) = 3.
Proof. eexists. split; [vm_compute; reflexivity|]. split; vm_compute; reflexivity. Qed.

Example ex_fault_at_1 :
  exists e sk, render_template ex_reg ex_d [] 6 ex_t (st_init None None (Some 1)) = RErr e sk /\
               e_reason e = RIOError /\ rev (o_chunks (s_out sk)) = [`"a"] /\ o_writes (s_out sk) = 1.
Proof. eexists _, _. split; [vm_compute; reflexivity|]. repeat (split; [vm_compute; reflexivity|]).
  vm_compute; reflexivity. Qed.

Example ex_fault_at_3_not_reached :
  exists sk, render_template ex_reg ex_d [] 6 ex_t (st_init None None (Some 3)) = ROk tt sk /\
             rev (o_chunks (s_out sk)) = [`"a"; `"&lt;"; `"c"].
Proof. eexists. split; vm_compute; reflexivity. Qed.
