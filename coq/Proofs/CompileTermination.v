(* Proofs/CompileTermination.v — C04 "never hangs": compile2 never runs out of
   fuel.  PEG stage: the fuel compile2 passes (peg_fuel) dominates the bound of
   PegTermination.hb_parse_fuel_sufficient.  Fold stage: the fuel
   16 + 4 * |tokens| of compile_tokens suffices for main_loop, the tag-body
   parsers (need 2*|remaining tokens| + 2) and the else-chain reversal (needs
   the chain length + 1, which grows by at most one per loop iteration). *)
From Coq Require Import List NArith Lia Bool Arith.
From HB Require Import Peg.Peg Peg.Grammar Tpl.Compile Proofs.PegFacts Proofs.PegTermination
  Proofs.CompileNoPanic Proofs.CompileStages Proofs.CompilePositions.
Import ListNotations.
Open Scope N_scope.

(* ---------- PEG stage ---------- *)
Lemma hb_K_le : (hb_K <= 47)%nat.
Proof. apply Nat.leb_le. vm_compute. reflexivity. Qed.

Lemma peg_fuel_dominates src : (hb_fuel_bound src <= peg_fuel src)%nat.
Proof.
  unfold hb_fuel_bound, peg_fuel. pose proof hb_K_le as H.
  apply Nat.add_le_mono; [lia|]. apply Nat.mul_le_mono_r. lia.
Qed.

Theorem peg_stage_terminates : forall src start,
  hb_parse (peg_fuel src) start src <> ParseOutOfFuel.
Proof. intros src start. apply hb_parse_fuel_sufficient, peg_fuel_dominates. Qed.

(* ---------- fold stage ---------- *)
Definition nf {A} (x : cres A) : Prop := x <> CFuel.

Lemma nf_bind {A B} (x : cres A) (f : A -> cres B) :
  nf x -> (forall a, x = COk a -> nf (f a)) -> nf (cbind x f).
Proof. intros Hx Hf. destruct x; cbn [cbind]; try discriminate; [apply Hf; reflexivity | congruence]. Qed.

Lemma Suffix_length {A} (a b : list A) : Suffix a b -> (length a <= length b)%nat.
Proof. intros [p ->]. rewrite app_length. lia. Qed.

Section Fuel.
  Variable src : str.

  Lemma span_str_nf t site : nf (span_str src t site).
  Proof. unfold span_str. destruct (slice _ _ _); discriminate. Qed.

  Lemma pjp_nf : forall it limit acc, nf (parse_json_path src it limit acc).
  Proof.
    induction it as [|n it IH]; intros limit acc; cbn [parse_json_path]; [discriminate|].
    destruct (limit <? tk_end n); [discriminate|].
    destruct (seg_classify (tk_rule n)); try apply IH.
    destruct (slice src _ _); [|discriminate]. destruct (str_eqb _ _); apply IH.
  Qed.

  Definition FE (f : nat) : Prop := forall it limit,
    (2 * length it + 2 <= f)%nat -> nf (parse_expression src f it limit).
  Definition FL (f : nat) : Prop := forall it limit name params hash bp pre pro,
    (2 * length it + 1 <= f)%nat -> nf (expr_loop src f it limit name params hash bp pre pro).
  Definition FN (f : nat) : Prop := forall it, (2 * length it + 1 <= f)%nat -> nf (parse_name src f it).
  Definition FP (f : nat) : Prop := forall it, (2 * length it + 1 <= f)%nat -> nf (parse_param src f it).

  (* length of what a successful parser leaves *)
  Lemma sfx_len {A} it (x : cres (A * list tok)) a it' :
    sfx it x -> x = COk (a, it') -> (length it' <= length it)%nat.
  Proof. intros H ->. cbn in H. apply Suffix_length. exact H. Qed.

  Lemma FN_step f : FE f -> FN (S f).
  Proof.
    intros HFE it Hf. destruct it as [|n it']; cbn [parse_name]; [discriminate|]. cbn [length] in Hf.
    destruct (name_classify (tk_rule n)); try discriminate.
    - apply nf_bind; [apply span_str_nf | intros; discriminate].
    - apply nf_bind; [apply span_str_nf|]. intros s _. apply nf_bind; [apply pjp_nf|]. intros [a b] _. discriminate.
    - apply nf_bind; [apply HFE; lia|]. intros [a b] _. discriminate.
  Qed.

  Lemma FE_step f : FN f -> FL f -> FE (S f).
  Proof.
    intros HFN HFL it limit Hf. destruct it as [|t0 it0]; cbn [parse_expression]; [discriminate|].
    cbn [length] in Hf.
    destruct (is_rule R_leading_tilde_to_omit_whitespace t0).
    - apply nf_bind; [apply HFN; lia|]. intros [nm it2] E.
      pose proof (sfx_len _ _ _ _ (proj1 (proj2 (proj2 (parsers_sfx src f))) it0) E). apply HFL. lia.
    - apply nf_bind; [apply HFN; cbn [length]; lia|]. intros [nm it2] E.
      pose proof (sfx_len _ _ _ _ (proj1 (proj2 (proj2 (parsers_sfx src f))) (t0 :: it0)) E) as L.
      cbn [length] in L. apply HFL. lia.
  Qed.

  Lemma FP_step f : FE f -> FP (S f).
  Proof.
    intros HFE it Hf. rewrite parse_param_S. destruct it as [|p0 it0]; [discriminate|]. cbn zeta.
    cbn [length] in Hf.
    apply nf_bind.
    { destruct (is_rule R_helper_parameter p0); [destruct it0|]; discriminate. }
    intros [p it1] E.
    assert (L : (length it1 <= length it0)%nat).
    { destruct (is_rule R_helper_parameter p0).
      - destruct it0 as [|p1 it1']; [discriminate|]. inversion E; subst. cbn [length]. lia.
      - inversion E; subst. lia. }
    apply nf_bind; [apply span_str_nf|]. intros ptxt _.
    apply nf_bind; [|intros [r it2] _; discriminate].
    destruct (name_classify (tk_rule p)); try discriminate.
    - apply nf_bind; [apply pjp_nf|]. intros [a b] _. discriminate.
    - apply nf_bind; [apply HFE; lia|]. intros [a b] _. discriminate.
    - destruct it1 as [|lit it2]; [discriminate|].
      apply nf_bind.
      + destruct (is_rule R_string_literal lit); [|discriminate].
        destruct it2 as [|q it3]; [discriminate|].
        destruct (is_rule R_string_inner_single_quote q); [|discriminate].
        apply nf_bind; [apply span_str_nf | intros; discriminate].
      + intros [jr it3] _. destruct jr; discriminate.
  Qed.

  Lemma FL_step f : FP f -> FL f -> FL (S f).
  Proof.
    intros HFP HFL it limit name params hash bp pre pro Hf. rewrite expr_loop_S. cbn zeta.
    destruct it as [|p it']; [discriminate|]. cbn [length] in Hf.
    destruct (tk_end p <? limit); [|discriminate].
    destruct (arg_classify (tk_rule p)).
    - apply nf_bind; [apply HFP; lia|]. intros [v it2] E.
      pose proof (sfx_len _ _ _ _ (proj2 (proj2 (proj2 (parsers_sfx src f))) it') E). apply HFL. lia.
    - destruct it' as [|k it1]; [discriminate|]. cbn [length] in Hf.
      apply nf_bind; [apply span_str_nf|]. intros key _.
      apply nf_bind; [apply HFP; lia|]. intros [v it2] E.
      pose proof (sfx_len _ _ _ _ (proj2 (proj2 (proj2 (parsers_sfx src f))) it1) E). apply HFL. lia.
    - unfold parse_block_param. destruct it' as [|p1 it1]; [discriminate|]. cbn [length] in Hf.
      destruct (span_str_cases src p1 (`"bp span")) as [(n1 & ->)| ->]; [|discriminate]. cbn [cbind].
      destruct it1 as [|p2 it2]; [cbn [cbind]; apply HFL; cbn [length]; lia|]. cbn [length] in Hf.
      destruct (tk_end p2 <=? tk_end p); [|cbn [cbind]; apply HFL; cbn [length]; lia].
      destruct (span_str_cases src p2 (`"bp span")) as [(n2 & ->)| ->]; [|discriminate]. cbn [cbind].
      apply HFL. lia.
    - apply HFL. lia.
    - apply HFL. lia.
  Qed.

  Theorem parsers_fuel : forall f, FE f /\ FL f /\ FN f /\ FP f.
  Proof.
    induction f as [|f (A & B & C & D)].
    - repeat split; red; intros; lia.
    - repeat split; [apply FE_step | apply FL_step | apply FN_step | apply FP_step]; assumption.
  Qed.
End Fuel.

(* ---------- the else-chain reversal ---------- *)
Fixpoint tdepth (t : template) : nat :=
  match t with
  | MkT _ [ElBlock h] _ => S (hdepth h)
  | _ => 1%nat
  end
with hdepth (h : helper_t) : nat :=
  match h with
  | MkH _ _ _ _ _ (Some t) _ _ _ => tdepth t
  | _ => O
  end.
Definition cdepth (o : option template) : nat := match o with Some t => tdepth t | None => O end.

Lemma hdepth_inv h : hdepth h = cdepth (h_inv h).
Proof. destruct h as [n p x b t i bl c w]. destruct i; reflexivity. Qed.

Lemma revert_loop_nf : forall fuel cur prev, (cdepth cur + 1 <= fuel)%nat -> nf (revert_loop fuel cur prev).
Proof.
  induction fuel as [|f IH]; intros cur prev Hf; [lia|]. cbn [revert_loop].
  destruct cur as [[n els m]|]; [|discriminate].
  destruct els as [|e1 tl]; [discriminate|]. destruct e1; destruct tl; try discriminate.
  apply IH. cbn [cdepth tdepth] in Hf. rewrite hdepth_inv in Hf. lia.
Qed.

Definition hb_le (B : nat) (h : helper_t) : Prop := (cdepth (h_inv h) <= B)%nat.

Lemma ref_chain_head_depth h head : ref_chain_head h = Some (Some head) ->
  exists n m, h_inv h = Some (MkT n [ElBlock head] m).
Proof.
  unfold ref_chain_head. destruct (h_chain h); [|discriminate].
  destruct (h_inv h) as [[n els m]|]; [|discriminate].
  destruct els as [|e1 tl]; [discriminate|]. destruct e1; destruct tl; try discriminate.
  intros E. inversion E; subst. eexists _, _. reflexivity.
Qed.

Lemma h_inv_set_tpl' h t : h_inv (h_set_tpl h t) = h_inv h.
Proof. destruct h; reflexivity. Qed.
Lemma h_inv_set_inv' h t : h_inv (h_set_inv h t) = t.
Proof. destruct h; reflexivity. Qed.
Lemma h_inv_set_chain' h b : h_inv (h_set_chain h b) = h_inv h.
Proof. destruct h; reflexivity. Qed.

Lemma set_chain_head_depth h head t n m : h_inv h = Some (MkT n [ElBlock head] m) ->
  cdepth (h_inv (set_chain_head h (h_set_tpl head t))) = cdepth (h_inv h).
Proof.
  intros E. unfold set_chain_head. rewrite E, h_inv_set_inv'.
  cbn [cdepth tdepth]. rewrite !hdepth_inv, h_inv_set_tpl'. reflexivity.
Qed.

Lemma set_chain_template_depth B h t h2 : hb_le B h -> set_chain_template h t = COk h2 -> hb_le B h2.
Proof.
  unfold hb_le, set_chain_template. intros Hb E.
  destruct (ref_chain_head h) as [[head|]|] eqn:Er; try discriminate; inversion E; subst.
  - destruct (ref_chain_head_depth _ _ Er) as (n & m & Ei).
    rewrite (set_chain_head_depth _ _ _ _ _ Ei). exact Hb.
  - rewrite h_inv_set_tpl'. exact Hb.
Qed.

Lemma insert_inverse_node_depth B h node : hb_le B h -> hb_le (S B) (insert_inverse_node h node).
Proof.
  unfold hb_le, insert_inverse_node. intros Hb. rewrite h_inv_set_inv'.
  cbn [cdepth tdepth]. rewrite hdepth_inv, h_inv_set_inv'. lia.
Qed.

Lemma revert_chain_nf fuel h inverse : (cdepth (h_inv h) + 1 <= fuel)%nat ->
  nf (revert_chain_and_set fuel h inverse).
Proof.
  intros Hf. unfold revert_chain_and_set. destruct (h_chain h) eqn:Ec; [|destruct (h_tpl h); discriminate].
  destruct (ref_chain_head h) as [[head|]|] eqn:Er; try discriminate.
  - destruct (ref_chain_head_depth _ _ Er) as (n & m & Ei).
    destruct (h_tpl head).
    + apply nf_bind; [apply revert_loop_nf; exact Hf | intros; discriminate].
    + apply nf_bind; [|intros; discriminate]. apply revert_loop_nf.
      rewrite (set_chain_head_depth _ _ _ _ _ Ei). exact Hf.
  - apply nf_bind; [apply revert_loop_nf; exact Hf | intros; discriminate].
Qed.

Lemma hb_le_mono B B' h : hb_le B h -> (B <= B')%nat -> hb_le B' h.
Proof. unfold hb_le. lia. Qed.

Section StepFuel.
  Variable src : str.
  Variable all : list tok.
  Variable opts : copts.

  Lemma push_front_nf ts el lc site : nf (push_front_el ts el lc site).
  Proof. destruct ts; discriminate. Qed.

  Lemma remove_escapes_nf : forall l s o cs, nf (remove_escapes s o cs l).
  Proof.
    induction l as [|e l IH]; intros s o cs; cbn [remove_escapes]; [discriminate|].
    destruct (remove_at s _); [apply IH | discriminate].
  Qed.

  Lemma raw_string_nf txt pr a b : nf (raw_string txt pr a b).
  Proof.
    unfold raw_string. apply nf_bind.
    - destruct pr as [[p escs]|]; [|discriminate].
      destruct (len txt <? tk_end p - tk_start p); [discriminate|]. apply remove_escapes_nf.
    - intros s0 _. destruct a; [discriminate|]. destruct b; discriminate.
  Qed.

  Lemma trailing_string_nf c pr lc : nf (trailing_string src c pr lc).
  Proof.
    unfold trailing_string. match goal with |- context [if ?b then _ else _] => destruct b end; [|discriminate].
    destruct (slice src _ _); [|discriminate].
    apply nf_bind; [apply raw_string_nf|]. intros el _.
    destruct (rule_eqb _ _); [discriminate|]. apply nf_bind; [apply push_front_nf | intros; discriminate].
  Qed.

  Lemma trailing_string_hs c pr lc c1 : trailing_string src c pr lc = COk c1 -> c_hs c1 = c_hs c.
  Proof.
    unfold trailing_string. match goal with |- context [if ?b then _ else _] => destruct b end;
      [|intros E; inversion E; reflexivity].
    destruct (slice src _ _); [|discriminate].
    destruct (raw_string _ _ _ _); cbn [cbind]; try discriminate.
    destruct (rule_eqb _ _); [intros E; inversion E; reflexivity|].
    destruct (push_front_el _ _ _ _); cbn [cbind]; try discriminate. intros E; inversion E; reflexivity.
  Qed.

  Lemma standalone_nf ts t pi ip : nf (process_standalone_statement src ts t pi ip).
  Proof.
    unfold process_standalone_statement. destruct (suffix_from src _); [|discriminate].
    match goal with |- context [if ?b then _ else _] => destruct b end; [|discriminate].
    destruct (prefix_to src _); [|discriminate].
    apply nf_bind; [|intros; discriminate].
    destruct (pi && _); [destruct ts; discriminate | discriminate].
  Qed.

  Lemma set_chain_template_nf h t : nf (set_chain_template h t).
  Proof. unfold set_chain_template. destruct (ref_chain_head h) as [[|]|]; discriminate. Qed.

  Lemma tag_prologue_nf f c1 pr it : (2 * length it + 2 <= f)%nat -> nf (tag_prologue src f c1 pr it).
  Proof.
    intros Hf. unfold tag_prologue. apply nf_bind; [apply (proj1 (parsers_fuel src f)); exact Hf|].
    intros [e it1] _. apply nf_bind; [|intros; discriminate].
    destruct (es_pre e); [|discriminate]. unfold remove_previous_whitespace. destruct (c_ts c1); discriminate.
  Qed.

  (* one step: no fuel exhaustion; the leftover is a suffix; chain depths grow by at most one *)
  Definition stq (B : nat) (it : list tok) (x : cres (cstate * list tok)) : Prop :=
    match x with
    | COk r => Suffix (snd r) it /\ Forall (hb_le (S B)) (c_hs (fst r))
    | CFuel => False
    | _ => True
    end.

  Lemma stq_bind {A} B it (x : cres A) (k : A -> cres (cstate * list tok)) :
    nf x -> (forall a, x = COk a -> stq B it (k a)) -> stq B it (cbind x k).
  Proof. intros Hx Hk. destruct x; cbn [cbind stq]; auto. Qed.

  Lemma Forall_hb_mono B l : Forall (hb_le B) l -> Forall (hb_le (S B)) l.
  Proof. intros H. eapply Forall_impl; [|exact H]. intros h Hh. eapply hb_le_mono; [exact Hh|lia]. Qed.

  Theorem step_fuel f c pr it B :
    Forall (hb_le B) (c_hs c) -> (2 * length it + 2 <= f)%nat -> (B + 1 <= f)%nat ->
    stq B it (step src all opts f c pr it).
  Proof.
    intros HB Hf HfB. unfold step.
    apply stq_bind; [apply trailing_string_nf|]. intros c1 E1.
    pose proof (trailing_string_hs _ _ _ _ E1) as Hhs. rewrite <- Hhs in HB. clear E1 Hhs.
    assert (Body : forall body : cres (cstate * list tok), stq B it body ->
      stq B it (cbind body (fun r => let '(c', it') := r in
         match tag_classify (tk_rule pr) with
         | KTemplate => COk (c', it')
         | _ => COk ({| c_ts := c_ts c'; c_hs := c_hs c'; c_ds := c_ds c'; c_omit := c_omit c';
                        c_trim := c_trim c'; c_end := Some (tk_end pr) |}, it')
         end))).
    { intros body Hb. destruct body as [[c' it']| | |]; cbn [cbind stq fst snd] in *; auto.
      destruct (tag_classify (tk_rule pr)); cbn [stq fst snd c_hs]; exact Hb. }
    apply Body. clear Body.
    assert (Pro : forall (k : espec * list template * list tok -> cres (cstate * list tok)),
              (forall es ts1 it1, Suffix it1 it -> stq B it (k (es, ts1, it1))) ->
              forall it0, Suffix it0 it -> stq B it (cbind (tag_prologue src f c1 pr it0) k)).
    { intros k Hk it0 S0. pose proof (Suffix_length _ _ S0) as L0.
      apply stq_bind; [apply tag_prologue_nf; lia|]. intros [[es ts1] it1] E.
      pose proof (tag_prologue_sfx src f c1 pr it0) as H. rewrite E in H. cbn [snd] in H.
      apply Hk. eapply Suffix_trans; eassumption. }
    pose proof (Forall_hb_mono _ _ HB) as HB1.
    destruct (tag_classify (tk_rule pr)) eqn:Hc.
    - cbn [stq fst snd]. split; [apply Suffix_refl | exact HB1].
    - destruct (slice src _ _); [|exact I].
      apply stq_bind; [apply raw_string_nf|]. intros el _.
      apply stq_bind; [apply push_front_nf|]. intros ts' _. cbn [stq fst snd]. split; [apply Suffix_refl | exact HB1].
    - destruct (slice src _ _); [|exact I].
      apply stq_bind; [apply raw_string_nf|]. intros el _. cbn [stq fst snd]. split; [apply Suffix_refl | exact HB1].
    - (* block start *)
      apply Pro; [|apply Suffix_refl]. intros es ts1 it1 S1.
      apply stq_bind; [apply standalone_nf|]. intros [trim ts2] _.
      destruct deco; cbn [c_ts]; (destruct ts2; [exact I|]); cbn [stq fst snd]; (split; [exact S1|]);
        unfold with_ts; cbn [c_hs]; [exact HB1|].
      constructor; [|exact HB1]. unfold hb_le, mk_helper. cbn. lia.
    - (* invert *)
      match goal with |- stq _ _ (let '(chain_pre, ita) := ?X in _) =>
        destruct X as [chain_pre ita] eqn:Epa end.
      assert (Sa : Suffix ita it).
      { destruct chain; [|inversion Epa; apply Suffix_refl].
        destruct it as [|t0 it0']; [inversion Epa; apply Suffix_refl|].
        destruct (is_rule R_leading_tilde_to_omit_whitespace t0); inversion Epa; subst;
          [apply Suffix_cons, Suffix_refl | apply Suffix_refl]. }
      clear Epa. pose proof (Suffix_length _ _ Sa) as La.
      apply stq_bind.
      + destruct chain; [|discriminate]. apply nf_bind; [|intros [a b] _; discriminate].
        apply (proj1 (proj2 (proj2 (parsers_fuel src f)))). lia.
      + intros it0 E0.
        assert (S0 : Suffix it0 it).
        { eapply Suffix_trans; [|exact Sa].
          destruct chain; [|inversion E0; apply Suffix_refl].
          pose proof (proj1 (proj2 (proj2 (parsers_sfx src f))) ita) as H.
          destruct (parse_name src f ita) as [[nm it']| | |]; cbn [cbind sfx snd] in *; try discriminate.
          inversion E0; subst. exact H. }
        pose proof (Suffix_length _ _ S0) as L0.
        apply stq_bind; [apply (proj1 (parsers_fuel src f)); lia|]. intros [e0 it1] Ee.
        pose proof (proj1 (parsers_sfx src f) it0 (tk_end pr)) as He. rewrite Ee in He. cbn [sfx snd] in He.
        assert (S1 : Suffix it1 it) by (eapply Suffix_trans; eassumption).
        apply stq_bind.
        { destruct (es_pre _); [|discriminate]. unfold remove_previous_whitespace. destruct (c_ts c1); discriminate. }
        intros ts1 _.
        apply stq_bind; [apply standalone_nf|]. intros [trim ts2] _.
        destruct ts2 as [|t ts3]; [exact I|]. destruct (c_hs c1) as [|h hs] eqn:Eh; [exact I|].
        inversion HB as [|h' hs' Hh Hhs]; subst.
        apply stq_bind; [apply set_chain_template_nf|]. intros h2 E2. cbn [stq fst snd c_hs].
        split; [exact S1|]. constructor; [|apply Forall_hb_mono; exact Hhs].
        assert (Hh2 : hb_le B h2).
        { eapply set_chain_template_depth; [|exact E2].
          destruct chain; [unfold hb_le; rewrite h_inv_set_chain'|]; exact Hh. }
        destruct chain; [apply insert_inverse_node_depth; exact Hh2 | eapply hb_le_mono; [exact Hh2|lia]].
    - apply Pro; [|apply Suffix_refl]. intros es ts1 it1 S1.
      apply stq_bind; [apply push_front_nf|]. intros ts2 _. cbn [stq fst snd]. split; [exact S1 | exact HB1].
    - apply Pro; [|apply Suffix_refl]. intros es ts1 it1 S1.
      apply stq_bind; [apply standalone_nf|]. intros [trim ts2] _.
      apply stq_bind.
      { destruct (partial && _ && _); [|discriminate]. destruct (prefix_to src _); discriminate. }
      intros indent _.
      apply stq_bind; [apply push_front_nf|]. intros ts3 _. cbn [stq fst snd]. split; [exact S1 | exact HB1].
    - (* helper end *)
      apply Pro; [|apply Suffix_refl]. intros es ts1 it1 S1.
      apply stq_bind; [apply standalone_nf|]. intros [trim ts2] _.
      destruct (c_hs c1) as [|h hs] eqn:Eh; [exact I|].
      inversion HB as [|h' hs' Hh Hhs]; subst.
      destruct (opt_str_eqb _ _); [|exact I].
      destruct ts2 as [|prev_t ts3]; [exact I|].
      apply stq_bind; [apply revert_chain_nf; unfold hb_le in Hh; lia|]. intros h' _.
      destruct ts3; [exact I|]. cbn [stq fst snd c_hs]. split; [exact S1 | apply Forall_hb_mono; exact Hhs].
    - (* decorator end *)
      apply Pro; [|apply Suffix_refl]. intros es ts1 it1 S1.
      apply stq_bind; [apply standalone_nf|]. intros [trim ts2] _.
      destruct (c_ds c1) as [|d ds]; [exact I|].
      destruct (opt_str_eqb _ _); [|exact I].
      destruct ts2 as [|prev_t ts3]; [exact I|]. destruct ts3; [exact I|].
      cbn [stq fst snd c_hs]. split; [exact S1 | exact HB1].
    - (* comment *)
      apply stq_bind; [apply standalone_nf|]. intros [trim ts1] _.
      apply stq_bind; [apply span_str_nf|]. intros txt _.
      apply stq_bind; [apply push_front_nf|]. intros ts2 _. cbn [stq fst snd]. split; [apply Suffix_refl | exact HB1].
    - cbn [stq fst snd]. split; [apply Suffix_refl | exact HB1].
  Qed.

  (* the loop: fuel 2*|it| + B + 4 suffices, B a bound on the chain depths on the helper stack *)
  Theorem main_loop_fuel : forall fuel c it B,
    Forall (hb_le B) (c_hs c) -> (2 * length it + B + 4 <= fuel)%nat ->
    nf (main_loop src all opts fuel c it).
  Proof.
    induction fuel as [|f IH]; intros c it B HB Hf; [lia|].
    destruct it as [|pr it'].
    - cbn [main_loop]. apply nf_bind.
      + destruct (_ <? _); [|discriminate]. destruct (slice src _ _); [|discriminate].
        destruct (c_end c); [apply push_front_nf | discriminate].
      + intros ts _. destruct ts; discriminate.
    - rewrite main_loop_S. cbn [length] in Hf.
      pose proof (step_fuel f c pr it' B HB ltac:(lia) ltac:(lia)) as Hs.
      destruct (step src all opts f c pr it') as [[c' it'']| | |]; cbn [cbind stq fst snd] in *;
        try discriminate; try contradiction.
      destruct Hs as [S1 HB']. pose proof (Suffix_length _ _ S1).
      apply (IH c' it'' (S B)); [exact HB' | lia].
  Qed.
End StepFuel.

(* ---------- compile2 never returns CFuel ---------- *)
Theorem compile_tokens_nf : forall src opts ts, compile_tokens src opts ts <> CFuel.
Proof.
  intros src opts ts. unfold compile_tokens.
  apply (main_loop_fuel src ts opts _ init_cstate _ 0); [constructor|].
  assert (L : (length (filter (fun t => negb (is_rule R_escape t)) ts) <= length ts)%nat).
  { induction ts as [|t l IH]; cbn [filter length]; [lia|]. destruct (negb _); cbn [length]; lia. }
  lia.
Qed.

Theorem compile2_terminates : forall src opts, compile2 src opts <> CFuel.
Proof.
  intros src opts. rewrite compile2_unfold.
  pose proof (peg_stage_terminates src R_handlebars) as Hp.
  destruct (hb_parse (peg_fuel src) R_handlebars src) as [ts| |].
  - apply compile_tokens_nf.
  - discriminate.
  - congruence.
Qed.
