(* Proofs/GrammarSchema.v — the grammar-schema theorem: every token list that the
   PEG interpreter produces for the GENERATED handlebars grammar from the start
   rule `handlebars` is, after removing the escape tokens, in wf_tokens
   (Spec/WfTokens.v).  The proofs invert the derivation
   relation `gen` of PegForest.v along the rule bodies, which are computed from
   hb_defs (so they follow grammar.pest; if a rule changes shape they fail). *)
From Coq Require Import List NArith Lia Bool Sorting.Sorted.
From HB Require Import Peg.Peg Peg.Grammar Tpl.Compile Spec.WfTokens
  Proofs.PegFacts Proofs.PegTermination Proofs.PegForest.
Import ListNotations.
Open Scope N_scope.

Arguments N.add : simpl never.
Arguments N.sub : simpl never.
Arguments N.mul : simpl never.
Arguments N.leb : simpl never.
Arguments N.ltb : simpl never.
Arguments N.eqb : simpl never.

(* the rule postcondition carried by the derivations: inside a raw block the
   closing tag starts exactly where the raw text ends (proved on the
   interpreter in Proofs/RawBlockAdjacent.v) *)
Definition rb_adj (l : list tok) : Prop :=
  forall a s1 e1 s2 e2 b,
    l = a ++ (R_raw_block_text, s1, e1) :: (R_raw_block_end, s2, e2) :: b -> s2 = e1.
Definition hb_RP (r : rule) (at_ : atomicity) (q : bool) (ts : list tok) : Prop :=
  r = R_raw_block -> at_ = ANon -> q = false -> rb_adj (filter not_escape ts).

Notation hgen := (gen rule hb_defs hb_ws hb_RP).
Notation tr := (tree rule).
Notation hforest := (forest_in rule).

(* ---------- instances of the generic tools ---------- *)
Lemma hb_nl_ok : forall r, nullable_e rule hb_nl (snd (hb_defs r)) = true -> hb_nl r = true.
Proof.
  intros r. destruct (rule_ok_inv rule hb_defs hb_nl hb_rh hb_wsh hb_K hb_rules_ok r) as (A & _). exact A.
Qed.

Lemma hprogress f e at_ q p p' F :
  nullable_e rule hb_nl e = false -> hgen f e at_ q p p' F -> p < p'.
Proof. apply (gen_progress rule hb_defs hb_ws hb_RP hb_nl hb_nl_ok). Qed.

Lemma hle f e at_ q p p' F : hgen f e at_ q p p' F -> p <= p'.
Proof. intros H. eapply forest_in_le, gen_forest; eassumption. Qed.

Lemma hskip f at_ q p p' F : hgen f ESkip at_ q p p' F -> F = [] /\ p <= p'.
Proof.
  intros H. pose proof (hle _ _ _ _ _ _ _ H) as L. split; [|exact L].
  inversion H; subst; [reflexivity|]. eapply gen_quiet; eassumption.
Qed.

(* all tokens of a derivation lie inside its span *)
Lemma htokens f e at_ q p p' F : hgen f e at_ q p p' F ->
  Forall (fun t => p <= tk_start t /\ tk_start t <= tk_end t /\ tk_end t <= p') (flats F).
Proof. intros H. eapply forest_tokens, gen_forest; eassumption. Qed.

Lemma hends f e at_ q p p' F : hgen f e at_ q p p' F -> ends_le p' (flats F).
Proof.
  intros H. eapply Forall_impl; [|eapply htokens; eassumption]. cbn. intros; lia.
Qed.

(* a rule whose body emits nothing yields a leaf *)
Lemma ref_leaf f r at_ q p p' F :
  emits_k (fst (hb_defs r)) at_ q = true ->
  silent rule hb_defs 80 (snd (hb_defs r)) (body_at (fst (hb_defs r)) at_) q = true ->
  hgen f (ERef r) at_ q p p' F -> F = [Node r p p' []].
Proof.
  intros He Hs H. inversion H; subst.
  match goal with Hd : hb_defs r = (k, body) |- _ => rewrite Hd in He, Hs; cbn [fst snd] in He, Hs end.
  rewrite He. cbn [wrap]. f_equal. f_equal. eapply silent_sound; eassumption.
Qed.

(* the rules from which an `escape` token can be emitted, as a table computed by
   iterating over the grammar (references under !/& do not count); its
   complement is a closed set of rules *)
Fixpoint bad_tab (n : nat) : list bool :=
  match n with
  | O => map (rule_eqb R_escape) all_rules
  | S n' =>
      let t := bad_tab n' in
      map (fun r => nth (tab_index r) t false
                    || negb (refs_ok rule (fun x => negb (nth (tab_index x) t false)) (snd (hb_defs r))))
          all_rules
  end.
Definition esc_free_tab : list bool := Eval vm_compute in map negb (bad_tab 70).
Definition esc_free (r : rule) : bool := nth (tab_index r) esc_free_tab false.

Lemma esc_free_closed : forall r, esc_free r = true -> refs_ok rule esc_free (snd (hb_defs r)) = true.
Proof. intros r. destruct r; vm_compute; intros H; first [reflexivity | discriminate H]. Qed.

Lemma esc_free_not_escape r : esc_free r = true -> rule_eqb R_escape r = false.
Proof. destruct r; vm_compute; intros H; first [reflexivity | discriminate H]. Qed.

(* no escape token below an expression that only refers to escape-free rules *)
Lemma no_escape_tokens f e at_ q p p' F :
  refs_ok rule esc_free e = true -> hgen f e at_ q p p' F ->
  filter not_escape (flats F) = flats F.
Proof.
  intros Ho H.
  pose proof (closed_sound rule hb_defs hb_ws hb_RP esc_free esc_free_closed _ _ _ _ _ _ _ Ho H) as HF.
  induction (flats F) as [|t l IH]; [reflexivity|]. inversion HF; subst.
  cbn [filter]. unfold not_escape at 1, is_rule. rewrite (esc_free_not_escape _ H2). cbn [negb].
  f_equal. apply IH. assumption.
Qed.

(* ---------- inversion tactics ---------- *)
Ltac gen_ref H :=
  inversion H; clear H; subst;
  match goal with Hd : hb_defs _ = (_, _) |- _ =>
    cbv [hb_defs e_seq e_plus e_star] in Hd; inversion Hd; clear Hd; subst end;
  cbn [wrap emits_k emits body_at negb andb] in *.

Ltac gen_step :=
  match goal with
  | H : hgen _ (ESeq _ _) _ _ _ _ _ |- _ => inversion H; clear H; subst
  | H : hgen _ (EStr _) _ _ _ _ _ |- _ => inversion H; clear H; subst
  | H : hgen _ EAny _ _ _ _ _ |- _ => inversion H; clear H; subst
  | H : hgen _ (ERange _ _) _ _ _ _ _ |- _ => inversion H; clear H; subst
  | H : hgen _ EEoi _ _ _ _ _ |- _ => inversion H; clear H; subst
  | H : hgen _ (ENot _) _ _ _ _ _ |- _ => inversion H; clear H; subst
  | H : hgen _ (EAnd _) _ _ _ _ _ |- _ => inversion H; clear H; subst
  | H : hgen _ ESkip _ _ _ _ _ |- _ =>
      let L := fresh "Lsk" in apply hskip in H; destruct H as [-> L]
  | H : hgen _ (EOpt _) _ _ _ _ _ |- _ => inversion H; clear H; subst
  | H : hgen _ (EAlt _ _) _ _ _ _ _ |- _ => inversion H; clear H; subst
  end.
Ltac gen_inv := repeat gen_step.

(* ---------- lists of arguments with an explicit last end ---------- *)
Inductive args_to : N -> N -> list tok -> Prop :=
| ato_nil lo : args_to lo lo []
| ato_cons lo ea a hi rest : arg_toks ea a -> lo < ea -> args_to ea hi rest ->
    args_to lo hi (a ++ rest).

Lemma args_to_le lo hi l : args_to lo hi l -> lo <= hi.
Proof. induction 1; lia. Qed.

Lemma args_to_app lo mid hi l1 l2 : args_to lo mid l1 -> args_to mid hi l2 -> args_to lo hi (l1 ++ l2).
Proof.
  induction 1 as [lo|lo ea a mid rest Ha Hlt Hr IH]; intros H2; [exact H2|].
  rewrite <- app_assoc. econstructor; [eassumption|assumption|]. apply IH. exact H2.
Qed.

Lemma args_to_one lo e a : arg_toks e a -> lo < e -> args_to lo e a.
Proof. intros Ha Hlt. rewrite <- (app_nil_r a). econstructor; [eassumption|assumption|constructor]. Qed.

Lemma args_to_toks lo hi l limit : args_to lo hi l -> hi < limit -> args_toks lo limit l.
Proof.
  induction 1 as [lo|lo ea a hi rest Ha Hlt Hr IH]; intros Hl; [constructor|].
  pose proof (args_to_le _ _ _ Hr). econstructor; [eassumption|assumption|lia|]. apply IH. exact Hl.
Qed.

(* ---------- nodes ---------- *)
Lemma ref_node f r at_ q p p' F :
  emits_k (fst (hb_defs r)) at_ q = true -> hgen f (ERef r) at_ q p p' F ->
  exists ch, F = [Node r p p' ch].
Proof.
  intros He H. inversion H; subst.
  match goal with Hd : hb_defs r = (k, body) |- _ => rewrite Hd in He; cbn [fst] in He end.
  rewrite He. eexists. reflexivity.
Qed.

Ltac leaf H := apply ref_leaf in H; [subst | vm_compute; reflexivity | vm_compute; reflexivity].
Ltac node H ch := apply ref_node in H; [destruct H as (ch & ->) | vm_compute; reflexivity].
Lemma flats_nil : flats (@nil tr) = [].
Proof. reflexivity. Qed.
Lemma flats_one (t : tr) : flats [t] = flat t.
Proof. unfold flats. cbn [flat_map]. apply app_nil_r. Qed.
Lemma flats_cons' (t : tr) F : flats (t :: F) = flat t ++ flats F.
Proof. reflexivity. Qed.
Lemma flat_node' r s e (ch : list tr) : flat (Node r s e ch) = (r, s, e) :: flats ch.
Proof. reflexivity. Qed.
Lemma flats_app' (F1 F2 : list tr) : flats (F1 ++ F2) = flats F1 ++ flats F2.
Proof. apply flats_app. Qed.
#[local] Hint Rewrite flats_cons' flat_node' flats_app' flats_nil : fl.
#[local] Hint Rewrite @app_nil_r : fl.
Ltac tidy := cbn [app] in *; autorewrite with fl in *; cbn [app] in *.

Lemma ends_le_tail e t l : ends_le e (t :: l) -> ends_le e l.
Proof. intros H. inversion H; assumption. Qed.

Lemma reference_shape f p p' F : hgen f (ERef R_reference) ANon false p p' F ->
  exists l, flats F = (R_reference, p, p') :: l /\ ends_le p' l /\ p < p'.
Proof.
  intros H. assert (L : p < p') by (eapply hprogress; [|exact H]; vm_compute; reflexivity).
  pose proof (hends _ _ _ _ _ _ _ H) as He.
  node H ch. tidy.
  eexists. split; [reflexivity|]. split; [eapply ends_le_tail; exact He | exact L].
Qed.

Lemma literal_shape f p p' F : hgen f (ERef R_literal) ANon false p p' F ->
  value_toks p' (flats F) /\ p < p'.
Proof.
  intros H. assert (L : p < p') by (eapply hprogress; [|exact H]; vm_compute; reflexivity).
  split; [|exact L]. pose proof (hends _ _ _ _ _ _ _ H) as He.
  gen_ref H. gen_inv.
  - (* string literal *)
    match goal with H : hgen _ (ERef R_string_literal) _ _ _ _ _ |- _ => gen_ref H end.
    gen_inv; match goal with H : hgen _ (ERef _) _ _ _ _ _ |- _ => leaf H end; tidy;
      apply vt_lit_str; eapply ends_le_tail; exact He.
  - match goal with H : hgen _ (ERef _) _ _ _ _ _ |- _ => node H ch end.
    tidy. apply vt_lit; [discriminate | eapply ends_le_tail; exact He].
  - match goal with H : hgen _ (ERef _) _ _ _ _ _ |- _ => node H ch end.
    tidy. apply vt_lit; [discriminate | eapply ends_le_tail; exact He].
  - match goal with H : hgen _ (ERef _) _ _ _ _ _ |- _ => node H ch end.
    tidy. apply vt_lit; [discriminate | eapply ends_le_tail; exact He].
  - match goal with H : hgen _ (ERef _) _ _ _ _ _ |- _ => node H ch end.
    tidy. apply vt_lit; [discriminate | eapply ends_le_tail; exact He].
  - match goal with H : hgen _ (ERef _) _ _ _ _ _ |- _ => node H ch end.
    tidy. apply vt_lit; [discriminate | eapply ends_le_tail; exact He].
Qed.

(* ---------- parameters, hashes, subexpressions (mutual, by induction on the fuel index) ---------- *)
Definition ARG : expr rule := EAlt (ERef R_hash) (ERef R_helper_parameter).

Definition HPs (f : nat) : Prop := forall p p' F,
  hgen f (ERef R_helper_parameter) ANon false p p' F ->
  exists v, flats F = (R_helper_parameter, p, p') :: v /\ value_toks p' v /\ p < p'.
Definition HSs (f : nat) : Prop := forall p p' F,
  hgen f (ERef R_hash) ANon false p p' F -> arg_toks p' (flats F) /\ p < p'.
Definition SEs (f : nat) : Prop := forall p p' F,
  hgen f (ERef R_subexpression) ANon false p p' F ->
  exists l, flats F = (R_subexpression, p, p') :: l /\ sub_toks p' l /\ p < p'.
Definition ARs (f : nat) : Prop := forall p p' F lo,
  hgen f (ERepTail ARG) ANon false p p' F -> lo <= p ->
  exists hi, args_to lo hi (flats F) /\ lo <= hi /\ hi <= p'.
Definition All (f : nat) : Prop := HPs f /\ HSs f /\ SEs f /\ ARs f.

Lemma arg_of_param p p' v : value_toks p' v -> arg_toks p' ((R_helper_parameter, p, p') :: v).
Proof. intros H. eapply ag_param; [exact H | lia]. Qed.

Lemma All_step f : (forall f', (f' < f)%nat -> All f') -> All f.
Proof.
  intros IH.
  assert (IHP : forall f', (f' < f)%nat -> HPs f') by (intros f' L; apply IH; exact L).
  assert (IHS : forall f', (f' < f)%nat -> HSs f') by (intros f' L; apply IH; exact L).
  assert (IHE : forall f', (f' < f)%nat -> SEs f') by (intros f' L; apply IH; exact L).
  assert (IHA : forall f', (f' < f)%nat -> ARs f') by (intros f' L; apply IH; exact L).
  clear IH. unfold HPs, HSs, SEs, ARs in *.
  (* one argument: hash or parameter *)
  assert (ONE : forall f' p p' F, (f' < f)%nat -> hgen f' ARG ANon false p p' F ->
            arg_toks p' (flats F) /\ p < p').
  { intros f' p p' F L H. unfold ARG in H. gen_inv.
    - match goal with H : hgen _ (ERef R_hash) _ _ _ _ _ |- _ => eapply IHS in H; [exact H | lia] end.
    - match goal with H : hgen _ (ERef R_helper_parameter) _ _ _ _ _ |- _ =>
        eapply IHP in H; [destruct H as (v & -> & Hv & Hl) | lia] end.
      split; [apply arg_of_param; exact Hv | exact Hl]. }
  split; [|split; [|split]].
  - (* helper_parameter *)
    intros p p' F H.
    assert (L : p < p') by (eapply hprogress; [|exact H]; vm_compute; reflexivity).
    gen_ref H. gen_inv; tidy.
    + match goal with H : hgen _ (ERef R_literal) _ _ _ _ _ |- _ => destruct (literal_shape _ _ _ _ H) as [Hv _] end.
      eexists. split; [reflexivity|]. split; [exact Hv | exact L].
          + match goal with H : hgen _ (ERef R_reference) _ _ _ _ _ |- _ =>
        destruct (reference_shape _ _ _ _ H) as (l & -> & He & _) end.
      eexists. split; [reflexivity|]. split; [apply vt_ref; exact He | exact L].
    + match goal with H : hgen _ (ERef R_subexpression) _ _ _ _ _ |- _ =>
        eapply IHE in H; [destruct H as (l & -> & Hsub & _) | lia] end.
      eexists. split; [reflexivity|]. split; [apply vt_sub; exact Hsub | exact L].
  - (* hash *)
    intros p p' F H.
    assert (L : p < p') by (eapply hprogress; [|exact H]; vm_compute; reflexivity).
    split; [|exact L].
    gen_ref H. gen_inv.
    match goal with H : hgen _ (ERef R_identifier) _ _ _ _ _ |- _ => leaf H end.
    match goal with H : hgen _ (ERef R_helper_parameter) _ _ _ _ _ |- _ =>
      pose proof (hle _ _ _ _ _ _ _ H);
      eapply IHP in H; [destruct H as (v & Ev & Hv & Hl) | lia] end.
    tidy. rewrite Ev. eapply ag_hash; [exact Hv | lia].
  - (* subexpression *)
    intros p p' F H.
    assert (L : p < p') by (eapply hprogress; [|exact H]; vm_compute; reflexivity).
    gen_ref H. gen_inv; tidy.
    + (* identifier hash args *)
      match goal with H : hgen _ (ERef R_identifier) _ _ _ _ _ |- _ => leaf H end.
      match goal with H : hgen _ (ERef R_hash) _ _ _ _ _ |- _ =>
        eapply IHS in H; [destruct H as (Ha & La) | lia] end.
            match goal with H : hgen _ (ERepTail _) _ _ ?a _ _ |- _ =>
        eapply IHA in H; [destruct H as (hi & Hargs & L1 & L2) | lia | apply N.le_refl] end.
      tidy. eexists. split; [reflexivity|]. split; [|exact L].
      match goal with |- sub_toks _ (?n :: ?rest) => change (n :: rest) with ([n] ++ rest) end.
      eapply st_mk; [apply nt_plain; reflexivity | | eapply args_to_toks; [eapply ato_cons; [exact Ha | | exact Hargs]|]];
        rewrite ?len_cons, ?len_nil in *; lia.
    + (* identifier param args *)
      match goal with H : hgen _ (ERef R_identifier) _ _ _ _ _ |- _ => leaf H end.
      match goal with H : hgen _ (ERef R_helper_parameter) _ _ _ _ _ |- _ =>
        eapply IHP in H; [destruct H as (v & Ev & Hv & La) | lia] end.
      match goal with H : hgen _ (ERepTail _) _ _ ?a _ _ |- _ =>
        eapply IHA in H; [destruct H as (hi & Hargs & L1 & L2) | lia | apply N.le_refl] end.
      tidy. rewrite Ev. eexists. split; [reflexivity|]. split; [|exact L].
      match goal with |- sub_toks _ (?n :: ?rest) => change (n :: rest) with ([n] ++ rest) end.
      eapply st_mk; [apply nt_plain; reflexivity | |
        eapply args_to_toks; [eapply (ato_cons _ _ (_ :: _)); [apply arg_of_param; exact Hv| |exact Hargs]|]];
        rewrite ?len_cons, ?len_nil in *; lia.
    + (* reference *)
      match goal with H : hgen _ (ERef R_reference) _ _ _ _ _ |- _ =>
        destruct (reference_shape _ _ _ _ H) as (l & -> & He & Lr) end.
      eexists. split; [reflexivity|]. split; [|exact L].
      rewrite <- (app_nil_r (_ :: l)).
      eapply st_mk; [apply nt_ref; exact He | | apply at_nil]. rewrite ?len_cons, ?len_nil in *. lia.
  - (* argument list *)
    intros p p' F lo H Hlo. inversion H; clear H; subst.
    + exists lo. tidy. split; [constructor|lia].
    + gen_inv.
      match goal with H : hgen _ ARG _ _ _ _ _ |- _ =>
        eapply ONE in H; [destruct H as (Ha & La) | lia] end.
      match goal with H : hgen _ (ERepTail _) _ _ ?a _ _ |- _ =>
        eapply IHA in H; [destruct H as (hi & Hargs & L1 & L2) | lia | apply N.le_refl] end.
      tidy. exists hi. split; [|lia].
      eapply ato_cons; [exact Ha | lia | exact Hargs].
Qed.

Theorem All_all : forall f, All f.
Proof. induction f as [f IH] using lt_wf_ind. apply All_step. exact IH. Qed.

Definition HP_all f := proj1 (All_all f).
Definition HS_all f := proj1 (proj2 (All_all f)).
Definition SE_all f := proj1 (proj2 (proj2 (All_all f))).
Definition AR_all f := proj2 (proj2 (proj2 (All_all f))).

(* ---------- the part of a tag between the tildes: a name and its arguments ---------- *)
Definition inner_shape (q : N) (l : list tok) : Prop :=
  exists en nm args hi, l = nm ++ args /\ name_toks en nm /\ args_to en hi args /\ hi <= q.

Lemma inner_plain r s e : name_classify r = NmPlain -> inner_shape e [(r, s, e)].
Proof.
  intros Hc. exists e, [(r, s, e)], [], e. split; [reflexivity|]. split; [apply nt_plain; exact Hc|].
  split; [constructor | lia].
Qed.

Lemma leaf_inner f r p p' F :
  name_classify r = NmPlain ->
  emits_k (fst (hb_defs r)) ANon false = true ->
  silent rule hb_defs 80 (snd (hb_defs r)) (body_at (fst (hb_defs r)) ANon) false = true ->
  hgen f (ERef r) ANon false p p' F -> inner_shape p' (flats F).
Proof.
  intros Hc He Hs H. apply ref_leaf in H; [subst|exact He|exact Hs]. tidy. apply inner_plain. exact Hc.
Qed.

Lemma inner_mk q en nm args hi :
  name_toks en nm -> args_to en hi args -> hi <= q -> inner_shape q (nm ++ args).
Proof. intros Hn Ha L. exists en, nm, args, hi. auto. Qed.

Lemma name_shape f p p' F : hgen f (ERef R_name) ANon false p p' F ->
  name_toks p' (flats F) /\ p < p'.
Proof.
  intros H. assert (L : p < p') by (eapply hprogress; [|exact H]; vm_compute; reflexivity).
  split; [|exact L]. gen_ref H. gen_inv.
  - match goal with H : hgen _ (ERef R_subexpression) _ _ _ _ _ |- _ =>
      destruct (SE_all _ _ _ _ H) as (l & -> & Hsub & _) end.
    apply nt_sub; exact Hsub.
  - match goal with H : hgen _ (ERef R_reference) _ _ _ _ _ |- _ =>
      destruct (reference_shape _ _ _ _ H) as (l & -> & He & _) end.
    apply nt_ref; exact He.
Qed.

Lemma name_inner q en nm : name_toks en nm -> en <= q -> inner_shape q nm.
Proof. intros Hn L. rewrite <- (app_nil_r nm). eapply inner_mk; [exact Hn | constructor | exact L]. Qed.

(* ARG* and ARG+ *)
Lemma star_args f p p' F : hgen f (e_star ARG) ANon false p p' F ->
  forall lo, lo <= p -> exists hi, args_to lo hi (flats F) /\ lo <= hi /\ hi <= p'.
Proof.
  intros H lo Hlo. unfold e_star, ARG in H. inversion H; clear H; subst.
  - gen_inv.
    + match goal with H : hgen _ (ERef R_hash) _ _ _ _ _ |- _ => destruct (HS_all _ _ _ _ H) as (Ha & La) end.
      match goal with H : hgen _ (ERepTail _) _ _ ?a _ _ |- _ =>
        destruct (AR_all _ _ _ _ a H (N.le_refl _)) as (hi & Hargs & L1 & L2) end.
      tidy. exists hi. split; [eapply ato_cons; [exact Ha | lia | exact Hargs] | lia].
    + match goal with H : hgen _ (ERef R_helper_parameter) _ _ _ _ _ |- _ =>
        destruct (HP_all _ _ _ _ H) as (v & Ev & Hv & La) end.
      match goal with H : hgen _ (ERepTail _) _ _ ?a _ _ |- _ =>
        destruct (AR_all _ _ _ _ a H (N.le_refl _)) as (hi & Hargs & L1 & L2) end.
      tidy. rewrite Ev. exists hi.
      split; [eapply (ato_cons _ _ (_ :: _)); [apply arg_of_param; exact Hv | lia | exact Hargs] | lia].
  - exists lo. tidy. split; [constructor | lia].
Qed.

Lemma plus_args f p p' F : hgen f (e_plus ARG) ANon false p p' F ->
  forall lo, lo <= p -> exists hi, args_to lo hi (flats F) /\ lo <= hi /\ hi <= p'.
Proof.
  intros H lo Hlo. apply (star_args (S f) p p' F); [|exact Hlo]. unfold e_star. apply g_opt_some. exact H.
Qed.

Lemma block_param_shape f p p' F : hgen f (ERef R_block_param) ANon false p p' F ->
  arg_toks p' (flats F) /\ p < p'.
Proof.
  intros H. assert (L : p < p') by (eapply hprogress; [|exact H]; vm_compute; reflexivity).
  split; [|exact L]. gen_ref H. gen_inv;
    repeat match goal with H : hgen _ (ERef R_identifier) _ _ _ _ _ |- _ =>
      pose proof (hle _ _ _ _ _ _ _ H); leaf H end; tidy.
  - apply ag_bp2. rewrite ?len_cons, ?len_nil in *. lia.
  - apply ag_bp1.
Qed.

Lemma exp_line_shape f p p' F : hgen f (ERef R_exp_line) ANon false p p' F ->
  inner_shape p' (flats F) /\ p < p'.
Proof.
  intros H. assert (L : p < p') by (eapply hprogress; [|exact H]; vm_compute; reflexivity).
  split; [|exact L]. gen_ref H.
  (* identifier ~ ARG* ~ block_param? *)
  match goal with H : hgen _ (ESeq (ERef R_identifier) _) _ _ _ _ _ |- _ => inversion H; clear H; subst end.
  match goal with H : hgen _ (ERef R_identifier) _ _ ?a ?b _ |- _ =>
    assert (Lid : a < b) by (eapply hprogress; [|exact H]; vm_compute; reflexivity); leaf H end.
  match goal with H : hgen _ (ESeq ESkip _) _ _ _ _ _ |- _ => inversion H; clear H; subst end.
  match goal with H : hgen _ ESkip _ _ _ _ _ |- _ => apply hskip in H; destruct H as [-> Ls1] end.
  match goal with H : hgen _ (ESeq (EOpt _) _) _ _ _ _ _ |- _ => inversion H; clear H; subst end.
  match goal with H : hgen _ (EOpt (ESeq _ (ERepTail _))) _ _ ?a _ _ |- _ =>
    let X := fresh "X" in
    assert (Hlo : p1 <= a) by lia;
    pose proof (star_args _ _ _ _ H p1 Hlo) as X; clear H;
    destruct X as (hi & Hargs & L1 & L2) end.
  gen_inv; tidy.
  - match goal with H : hgen _ (ERef R_block_param) _ _ _ _ _ |- _ =>
      destruct (block_param_shape _ _ _ _ H) as (Hb & Lb) end.
    eexists p1, [_], _, _. split; [reflexivity|]. split; [apply nt_plain; reflexivity|].
    split; [eapply args_to_app; [exact Hargs | apply args_to_one; [exact Hb | lia]] | lia].
  - eexists p1, [_], _, hi. split; [reflexivity|]. split; [apply nt_plain; reflexivity|].
    split; [exact Hargs | lia].
Qed.

Ltac use_star H lo :=
  match type of H with hgen _ _ _ _ ?a _ _ =>
    let X := fresh "X" in let Hlo := fresh "Hlo" in
    assert (Hlo : lo <= a) by lia;
    first [ pose proof (star_args _ _ _ _ H lo Hlo) as X | pose proof (plus_args _ _ _ _ H lo Hlo) as X ];
    clear H; destruct X as (hi & Hargs & L1 & L2)
  end.

(* (partial_identifier | name) ~ ARG* *)
Lemma partial_exp_line_shape f p p' F : hgen f (ERef R_partial_exp_line) ANon false p p' F ->
  inner_shape p' (flats F) /\ p < p'.
Proof.
  intros H. assert (L : p < p') by (eapply hprogress; [|exact H]; vm_compute; reflexivity).
  split; [|exact L]. gen_ref H.
  match goal with H : hgen _ (ESeq (EAlt _ _) _) _ _ _ _ _ |- _ => inversion H; clear H; subst end.
  match goal with H : hgen _ (ESeq ESkip _) _ _ _ _ _ |- _ => inversion H; clear H; subst end.
  match goal with H : hgen _ ESkip _ _ _ _ _ |- _ => apply hskip in H; destruct H as [-> Ls1] end.
  match goal with H : hgen _ (EAlt (ERef R_partial_identifier) _) _ _ _ _ _ |- _ =>
    inversion H; clear H; subst end.
  - (* partial_identifier *)
    match goal with H : hgen _ (ERef R_partial_identifier) _ _ ?a ?b _ |- _ =>
      assert (Lid : a < b) by (eapply hprogress; [|exact H]; vm_compute; reflexivity); leaf H end.
    match goal with H : hgen _ (EOpt _) _ _ _ _ _ |- _ => use_star H p1 end.
    tidy. eexists p1, [_], _, hi. split; [reflexivity|]. split; [apply nt_plain; reflexivity|].
    split; [exact Hargs | lia].
  - (* name *)
    match goal with H : hgen _ (ERef R_name) _ _ _ _ _ |- _ =>
      destruct (name_shape _ _ _ _ H) as (Hn & Ln) end.
    match goal with H : hgen _ (EOpt _) _ _ _ _ _ |- _ => use_star H p1 end.
    tidy. eapply inner_mk; [exact Hn | exact Hargs | lia].
Qed.

(* (identifier ~ ARG+) | name *)
Definition EXPR_INNER : expr rule :=
  EAlt (e_seq (ERef R_identifier) (e_plus ARG)) (ERef R_name).

Lemma expr_inner_shape f p p' F : hgen f EXPR_INNER ANon false p p' F ->
  inner_shape p' (flats F) /\ p <= p'.
Proof.
  intros H. pose proof (hle _ _ _ _ _ _ _ H) as L. split; [|exact L].
  unfold EXPR_INNER, e_seq in H. inversion H; clear H; subst.
  - match goal with H : hgen _ (ESeq (ERef R_identifier) _) _ _ _ _ _ |- _ => inversion H; clear H; subst end.
    match goal with H : hgen _ (ESeq ESkip _) _ _ _ _ _ |- _ => inversion H; clear H; subst end.
    match goal with H : hgen _ ESkip _ _ _ _ _ |- _ => apply hskip in H; destruct H as [-> Ls1] end.
    match goal with H : hgen _ (ERef R_identifier) _ _ ?a ?b _ |- _ =>
      assert (Lid : a < b) by (eapply hprogress; [|exact H]; vm_compute; reflexivity); leaf H end.
    match goal with H : hgen _ (e_plus ARG) _ _ _ _ _ |- _ => use_star H p1 end.
    tidy. eexists p1, [_], _, hi. split; [reflexivity|]. split; [apply nt_plain; reflexivity|].
    split; [exact Hargs | lia].
  - match goal with H : hgen _ (ERef R_name) _ _ _ _ _ |- _ =>
      destruct (name_shape _ _ _ _ H) as (Hn & Ln) end.
    eapply name_inner; [exact Hn | lia].
Qed.

(* ---------- tags ---------- *)
Notation LEAD := R_leading_tilde_to_omit_whitespace.
Notation TRAIL := R_trailing_tilde_to_omit_whitespace.

Lemma sub00 limit q l : inner_shape q l -> q < limit -> sub_toks limit l.
Proof.
  intros (en & nm & args & hi & -> & Hn & Ha & Lh) Lq. pose proof (args_to_le _ _ _ Ha).
  eapply st_mk; [exact Hn | lia | eapply args_to_toks; [exact Ha | lia]].
Qed.

Lemma sub01 limit q l s e : inner_shape q l -> q < e -> e < limit -> sub_toks limit (l ++ [(TRAIL, s, e)]).
Proof.
  intros (en & nm & args & hi & -> & Hn & Ha & Lh) Lq Le. pose proof (args_to_le _ _ _ Ha).
  rewrite <- app_assoc.
  eapply st_mk; [exact Hn | lia | eapply args_to_toks; [|exact Le]].
  eapply args_to_app; [exact Ha|]. apply args_to_one; [apply ag_tilde | lia].
Qed.

Lemma tag00 limit q l : inner_shape q l -> q < limit -> tag_toks limit l.
Proof. intros. apply tg_plain. eapply sub00; eassumption. Qed.
Lemma tag10 limit q l s0 e0 : inner_shape q l -> q < limit -> tag_toks limit ((LEAD, s0, e0) :: l).
Proof. intros. apply tg_tilde. eapply sub00; eassumption. Qed.
Lemma tag01 limit q l s e : inner_shape q l -> q < e -> e < limit -> tag_toks limit (l ++ [(TRAIL, s, e)]).
Proof. intros. apply tg_plain. eapply sub01; eassumption. Qed.
Lemma tag11 limit q l s0 e0 s e : inner_shape q l -> q < e -> e < limit ->
  tag_toks limit ((LEAD, s0, e0) :: l ++ [(TRAIL, s, e)]).
Proof. intros. apply tg_tilde. eapply sub01; eassumption. Qed.

Ltac progress_of H :=
  let X := fresh "Lp" in
  assert (X := H); apply hprogress in X; [|vm_compute; reflexivity].

Ltac lens := rewrite ?len_cons, ?len_nil in *.

Ltac fin_tag :=
  tidy; lens;
  first [ eapply tag11; [eassumption | lia | lia]
        | eapply tag10; [eassumption | lia]
        | eapply tag01; [eassumption | lia | lia]
        | eapply tag00; [eassumption | lia] ].

Definition TagShape (r : rule) : Prop := forall f p p' F,
  hgen f (ERef r) ANon false p p' F ->
  exists ch, F = [Node r p p' ch] /\ tag_toks p' (flats ch) /\ p < p'.

(* the inline alternative of expression / html_expression is folded first so that
   the generic inversion does not split it *)
Ltac fold_inner :=
  repeat match goal with
  | H : hgen _ (EAlt (ESeq (ERef R_identifier) (ESeq ESkip (ESeq (EAlt (ERef R_hash) (ERef R_helper_parameter)) _))) (ERef R_name)) _ _ _ _ _ |- _ =>
      change (hgen _ EXPR_INNER _ _ _ _ _) in H
  end.

Ltac gen_step' :=
  match goal with
  | H : hgen _ (ESeq _ _) _ _ _ _ _ |- _ => inversion H; clear H; subst
  | H : hgen _ (EStr _) _ _ _ _ _ |- _ => inversion H; clear H; subst
  | H : hgen _ (ENot _) _ _ _ _ _ |- _ => inversion H; clear H; subst
  | H : hgen _ ESkip _ _ _ _ _ |- _ =>
      let L := fresh "Lsk" in apply hskip in H; destruct H as [-> L]
  | H : hgen _ (EOpt (ERef _)) _ _ _ _ _ |- _ => inversion H; clear H; subst
  | H : hgen _ (EAlt (EAlt _ _) _) _ _ _ _ _ |- _ => inversion H; clear H; subst
  | H : hgen _ (EAlt (ERef R_html_expression_triple_bracket_legacy) _) _ _ _ _ _ |- _ => inversion H; clear H; subst
  end.
Ltac gen_inv' := repeat (fold_inner; gen_step').

(* normalise the pieces of a tag body after inversion *)
Ltac tag_pieces :=
  repeat match goal with
  | H : hgen _ (ERef R_html_expression_triple_bracket_legacy) _ _ _ _ _ |- _ => gen_ref H; gen_inv'
  | H : hgen _ (ERef R_html_expression_triple_bracket) _ _ _ _ _ |- _ => gen_ref H; gen_inv'
  | H : hgen _ (ERef R_amp_expression) _ _ _ _ _ |- _ => gen_ref H; gen_inv'
  end;
  repeat match goal with
  | H : hgen _ (ERef LEAD) _ _ _ _ _ |- _ => progress_of H; leaf H
  | H : hgen _ (ERef TRAIL) _ _ _ _ _ |- _ => progress_of H; leaf H
  | H : hgen _ (ERef R_exp_line) _ _ _ _ _ |- _ =>
      let X := fresh "In" in let Y := fresh "Lin" in
      apply exp_line_shape in H; destruct H as [X Y]
  | H : hgen _ (ERef R_partial_exp_line) _ _ _ _ _ |- _ =>
      let X := fresh "In" in let Y := fresh "Lin" in
      apply partial_exp_line_shape in H; destruct H as [X Y]
  | H : hgen _ (EAlt (ESeq (ERef R_identifier) _) (ERef R_name)) _ _ _ _ _ |- _ =>
      let X := fresh "In" in let Y := fresh "Lin" in
      apply expr_inner_shape in H; destruct H as [X Y]
  | H : hgen _ (ERef R_name) _ _ ?a ?b _ |- _ =>
      let X := fresh "In" in let Y := fresh "Lin" in
      apply name_shape in H; destruct H as [X Y];
      apply (fun Hn => name_inner b _ _ Hn (N.le_refl b)) in X
  | H : hgen _ (ERef R_identifier) _ _ _ _ _ |- _ =>
      progress_of H; apply leaf_inner in H; [|reflexivity|vm_compute; reflexivity|vm_compute; reflexivity]
  | H : hgen _ (ERef R_partial_identifier) _ _ _ _ _ |- _ =>
      progress_of H; apply leaf_inner in H; [|reflexivity|vm_compute; reflexivity|vm_compute; reflexivity]
  | H : hgen _ (ERef R_invert_tag_item) _ _ _ _ _ |- _ =>
      progress_of H; apply leaf_inner in H; [|reflexivity|vm_compute; reflexivity|vm_compute; reflexivity]
  end.

Ltac tag_tac :=
  intros f p p' F H;
  let L := fresh "L" in
  assert (L : p < p') by (eapply hprogress; [|exact H]; vm_compute; reflexivity);
  gen_ref H; gen_inv'; tag_pieces;
  (eexists; split; [reflexivity|]; split; [|exact L]); fin_tag.

Lemma tag_helper_block_start : TagShape R_helper_block_start.
Proof. tag_tac. Qed.

Lemma tag_helper_block_end : TagShape R_helper_block_end.
Proof. tag_tac. Qed.
Lemma tag_decorator_block_start : TagShape R_decorator_block_start.
Proof. tag_tac. Qed.
Lemma tag_decorator_block_end : TagShape R_decorator_block_end.
Proof. tag_tac. Qed.
Lemma tag_partial_block_start : TagShape R_partial_block_start.
Proof. tag_tac. Qed.
Lemma tag_partial_block_end : TagShape R_partial_block_end.
Proof. tag_tac. Qed.
Lemma tag_raw_block_start : TagShape R_raw_block_start.
Proof. tag_tac. Qed.
Lemma tag_raw_block_end : TagShape R_raw_block_end.
Proof. tag_tac. Qed.
Lemma tag_decorator_expression : TagShape R_decorator_expression.
Proof. tag_tac. Qed.
Lemma tag_partial_expression : TagShape R_partial_expression.
Proof. tag_tac. Qed.
Lemma tag_invert_tag : TagShape R_invert_tag.
Proof. tag_tac. Qed.
Lemma tag_expression : TagShape R_expression.
Proof. tag_tac. Qed.
Lemma tag_html_expression : TagShape R_html_expression.
Proof. tag_tac. Qed.

Lemma tag_chain f p p' F : hgen f (ERef R_invert_chain_tag) ANon false p p' F ->
  exists ch, F = [Node R_invert_chain_tag p p' ch] /\ p < p' /\
    exists tl si ei l, flats ch = tl ++ (R_invert_tag_item, si, ei) :: l /\ opt_tilde tl /\ sub_toks p' l.
Proof.
  intros H. assert (L : p < p') by (eapply hprogress; [|exact H]; vm_compute; reflexivity).
  gen_ref H; gen_inv';
    repeat match goal with
    | H : hgen _ (ERef LEAD) _ _ _ _ _ |- _ => progress_of H; leaf H
    | H : hgen _ (ERef TRAIL) _ _ _ _ _ |- _ => progress_of H; leaf H
    | H : hgen _ (ERef R_invert_tag_item) _ _ _ _ _ |- _ => progress_of H; leaf H
    | H : hgen _ (ERef R_exp_line) _ _ _ _ _ |- _ =>
        let X := fresh "In" in let Y := fresh "Lin" in
        apply exp_line_shape in H; destruct H as [X Y]
    end;
    (eexists; split; [reflexivity|]; split; [exact L|]); tidy; lens.
  - eexists [_], _, _, _. split; [reflexivity|]. split; [right; eexists _, _; reflexivity|].
    eapply sub01; [eassumption | lia | lia].
  - eexists [], _, _, _. split; [reflexivity|]. split; [left; reflexivity|].
    eapply sub01; [eassumption | lia | lia].
  - eexists [_], _, _, _. split; [reflexivity|]. split; [right; eexists _, _; reflexivity|].
    eapply sub00; [eassumption | lia].
  - eexists [], _, _, _. split; [reflexivity|]. split; [left; reflexivity|].
    eapply sub00; [eassumption | lia].
Qed.

(* ---------- escapes ---------- *)
Definition is_esc_rule (r : rule) : bool := rule_eqb R_escape r.

Lemma hb_escapes_sorted f e at_ q p p' F : hgen f e at_ q p p' F -> escapes_sorted (flats F).
Proof.
  intros H.
  assert (HC : forall r at_ q, is_esc_rule r = true -> emits_k (fst (hb_defs r)) at_ q = true ->
            silent rule hb_defs 80 (snd (hb_defs r)) (body_at (fst (hb_defs r)) at_) q = true /\
            nullable_e rule hb_nl (snd (hb_defs r)) = false).
  { intros r a b Hr. assert (r = R_escape) as -> by (destruct r; try discriminate; reflexivity).
    intros He. destruct a, b; try discriminate He; split; vm_compute; reflexivity. }
  pose proof (gen_cforest rule hb_defs hb_ws hb_RP is_esc_rule hb_nl hb_nl_ok HC _ _ _ _ _ _ _ H) as Hcf.
  destruct (cforest_sorted rule is_esc_rule _ _ _ Hcf) as [Hs Hb].
  split; [exact Hs|].
  apply Forall_forall. intros t Ht Hr. rewrite Forall_forall in Hb.
  assert (Hin : In t (filter (in_class rule is_esc_rule) (flats F))) by (apply filter_In; split; assumption).
  destruct (Hb t Hin) as (_ & L & _). exact L.
Qed.

Lemma only_escapes f e at_ q p p' F :
  only rule hb_defs is_esc_rule 80 e at_ q = true -> hgen f e at_ q p p' F ->
  filter not_escape (flats F) = [].
Proof.
  intros Ho H. pose proof (only_sound rule hb_defs hb_ws hb_RP is_esc_rule _ _ _ _ _ _ _ _ Ho H) as HF.
  induction (flats F) as [|t l IH]; [reflexivity|]. inversion HF; subst.
  cbn [filter]. unfold not_escape at 1, is_rule. unfold is_esc_rule in H2. rewrite H2. cbn [negb]. apply IH. assumption.
Qed.

Notation fl := (filter not_escape).

Lemma raw_text_shape f p p' F : hgen f (ERef R_raw_text) ANon false p p' F ->
  fl (flats F) = [(R_raw_text, p, p')] /\ p < p'.
Proof.
  intros H. assert (L : p < p') by (eapply hprogress; [|exact H]; vm_compute; reflexivity).
  split; [|exact L]. gen_ref H. tidy. cbn [filter]. change (not_escape (R_raw_text, p, p')) with true. cbn iota.
  f_equal. eapply only_escapes; [|eassumption]. vm_compute. reflexivity.
Qed.

Lemma raw_block_text_shape f p p' F : hgen f (ERef R_raw_block_text) ANon false p p' F ->
  fl (flats F) = [(R_raw_block_text, p, p')] /\ p <= p'.
Proof.
  intros H. pose proof (hle _ _ _ _ _ _ _ H) as L.
  split; [|exact L]. gen_ref H. tidy. cbn [filter]. change (not_escape (R_raw_block_text, p, p')) with true.
  cbn iota. f_equal. eapply only_escapes; [|eassumption]. vm_compute. reflexivity.
Qed.

