(* Proofs/FrameFlags.v -- property C08, part (c): with no indentation active
   the three "last write" flags (trailing_newline, content_produced,
   indent_before_write) influence nothing but themselves.

   Two runs of any function of the render fixpoint from states that differ
   only in those flags give the same value (or the same error), the same
   writer, log and ghost trace, and final states that again differ only in
   those flags -- provided
     * no partial element reachable carries an indent (no_indent, a syntactic
       condition on the template, on the registry's templates and on the
       templates held by the state), and the indent string is None;
     * the harness probe helper `state` (HState), whose only purpose is to print
       these flags, is not registered. *)
From HB Require Export Proofs.PartialSpec.
Open Scope N_scope.

Lemma ni_helper_parts h : ni_helper h = true ->
  ni_param (h_name h) = true /\ forallb ni_param (h_params h) = true /\
  forallb (fun kv : str * param => ni_param (snd kv)) (h_hash h) = true /\
  opt_ni (h_tpl h) /\ opt_ni (h_inv h).
Proof.
  destruct h as [n ps hs bp tpl inv b c w]. cbn [ni_helper h_name h_params h_hash h_tpl h_inv].
  intros H. repeat (apply andb_prop in H; destruct H as [H ?]).
  repeat split; try assumption; [destruct tpl|destruct inv]; cbn; auto.
Qed.
Lemma ni_deco_parts part d : ni_deco part d = true ->
  ni_param (d_name d) = true /\ forallb ni_param (d_params d) = true /\
  forallb (fun kv : str * param => ni_param (snd kv)) (d_hash d) = true /\
  opt_ni (d_tpl d) /\ (part = true -> d_indent d = None).
Proof.
  destruct d as [n ps hs tpl ind w]. cbn [ni_deco d_name d_params d_hash d_tpl d_indent].
  intros H. repeat (apply andb_prop in H; destruct H as [H ?]).
  repeat split; try assumption; [destruct tpl; cbn; auto|].
  intros ->. destruct ind; [discriminate|reflexivity].
Qed.
Lemma ni_template_els t e : no_indent t -> In e (t_els t) -> ni_element e = true.
Proof. destruct t as [n els mp]. unfold no_indent. cbn. intros H. exact (proj1 (forallb_forall _ _) H e). Qed.

Lemma ni_map_insert m k t : ni_map m -> no_indent t -> ni_map (map_insert m k t).
Proof.
  intros Hm Ht k0 t0. destruct (str_eqb k0 k) eqn:E.
  - apply str_eqb_true in E. subst. rewrite map_get_insert_same. intros H; injection H as <-. exact Ht.
  - rewrite map_get_insert_other; [apply Hm|]. intros ->. rewrite str_eqb_refl in E. discriminate E.
Qed.

(* ---------- states that differ only in the three flags ---------- *)
Definition fl (s : rstate) (a b c : bool) : rstate :=
  set_trailing_newline (set_content_produced (set_indent_before_write s c) b) a.
Definition feq (t1 t2 : rstate) : Prop := exists a b c, t2 = fl t1 a b c.

Lemma feq_flags_only t1 t2 : feq t1 t2 <-> flags_only t1 t2.
Proof.
  split.
  - intros (a & b & c & ->). unfold flags_only. repeat split; reflexivity.
  - unfold flags_only. intros H. exists (s_trailing_newline t2), (s_content_produced t2), (s_indent_before_write t2).
    destruct t1, t2. cbn in *. decompose [and] H. subst. reflexivity.
Qed.
Lemma feq_refl t : feq t t.
Proof. apply feq_flags_only. unfold flags_only. repeat split; reflexivity. Qed.

Ltac fl_cbn :=
  unfold push_block, pop_block, log_entry in *;
  cbn [fl s_blocks s_modified s_partials s_pb_stack s_pb_depth s_local_helpers s_current s_root
       s_disable_escape s_trailing_newline s_content_produced s_indent_before_write s_indent s_dev
       s_out s_log s_esc_trace
       set_blocks set_modified set_partials set_pb_stack set_pb_depth set_local_helpers set_current
       set_disable_escape set_trailing_newline set_content_produced set_indent_before_write
       set_indent set_out set_log set_esc_trace] in *.
Ltac feq_tac :=
  solve [ apply feq_flags_only; unfold flags_only, push_block, pop_block, log_entry;
          cbn [fl s_blocks s_modified s_partials s_pb_stack s_pb_depth s_local_helpers s_current s_root
               s_disable_escape s_trailing_newline s_content_produced s_indent_before_write s_indent s_dev
               s_out s_log s_esc_trace
               set_blocks set_modified set_partials set_pb_stack set_pb_depth set_local_helpers set_current
               set_disable_escape set_trailing_newline set_content_produced set_indent_before_write
               set_indent set_out set_log set_esc_trace];
          repeat split; reflexivity ].

Section Flags.
  Variable reg : registry.
  Variable data : json.
  Variable ft : ftable.
  Hypothesis Hreg_t : ni_map (r_templates reg).
  Hypothesis Hreg_h : forall n, find_reg_helper reg n <> Some HState.

  (* the invariant on states *)
  Record Qs (s : rstate) : Prop := {
    q_indent : s_indent s = None;
    q_partials : ni_map (s_partials s);
    q_pb : Forall (fun e : template * Z => no_indent (fst e)) (s_pb_stack s);
    q_dev : match s_dev s with Some dm => ni_map dm | None => True end;
    q_local : forall n, find_local_helper s n <> Some HState
  }.

  Lemma Qs_ext s s' :
    s_indent s' = s_indent s -> s_partials s' = s_partials s -> s_pb_stack s' = s_pb_stack s ->
    s_dev s' = s_dev s -> s_local_helpers s' = s_local_helpers s -> Qs s -> Qs s'.
  Proof.
    intros E1 E2 E3 E4 E5 [Q1 Q2 Q3 Q4 Q5].
    constructor; unfold find_local_helper in *; rewrite ?E1, ?E2, ?E3, ?E4, ?E5; assumption.
  Qed.
  Ltac qs :=
    match goal with
    | H : Qs ?t |- Qs ?t' => solve [ apply (Qs_ext t t'); [reflexivity|reflexivity|reflexivity|reflexivity|reflexivity|exact H] ]
    end.

  Lemma Qs_add_partial s name t : Qs s -> no_indent t -> Qs (set_partials s (map_insert (s_partials s) name t)).
  Proof.
    intros [Q1 Q2 Q3 Q4 Q5] Ht. constructor; try assumption. cbn. apply ni_map_insert; assumption.
  Qed.
  Lemma Qs_add_local s name tag : Qs s -> Qs (set_local_helpers s (map_insert (s_local_helpers s) name (HLocal tag))).
  Proof.
    intros [Q1 Q2 Q3 Q4 Q5]. constructor; try assumption. intros n. unfold find_local_helper in *. cbn.
    destruct (str_eqb n name) eqn:E.
    - apply str_eqb_true in E. subst. rewrite map_get_insert_same. discriminate.
    - rewrite map_get_insert_other; [apply Q5|]. intros ->. rewrite str_eqb_refl in E. discriminate E.
  Qed.

  Lemma Qs_restored s s' : restored s s' -> s_partials s' = s_partials s ->
    s_local_helpers s' = s_local_helpers s -> Qs s -> Qs s'.
  Proof. intros (R1 & R2 & R3 & R4 & R5 & R6 & R7 & R8) E2 E5. apply Qs_ext; assumption. Qed.

  Lemma current_pb_ni s p d0 : Qs s -> current_pb s = Some (p, d0) -> no_indent p.
  Proof.
    intros [Q1 Q2 Q3 Q4 Q5]. unfold current_pb. cbv zeta. destruct (_ || _); [discriminate|].
    intros H. apply nth_error_In in H. exact (proj1 (Forall_forall _ _) Q3 _ H).
  Qed.
  Lemma get_partial_ni s n p : Qs s -> get_partial s n = Some p -> no_indent p.
  Proof.
    intros Q. unfold get_partial. destruct (str_eqb n PARTIAL_BLOCK).
    - destruct (current_pb s) as [[p' d0]|] eqn:E; [|discriminate]. cbn. intros H; injection H as <-.
      eapply current_pb_ni; eassumption.
    - apply (q_partials s Q).
  Qed.
  Lemma resolve_ni d s p : Qs s -> opt_ni (dv_tpl d) -> resolve_partial reg d s = Some p -> no_indent p.
  Proof.
    intros Q Hd. unfold resolve_partial.
    destruct (get_partial s (dv_name d)) eqn:E1; [intros H; injection H as <-; eapply get_partial_ni; eassumption|].
    destruct (s_dev s) as [dm|] eqn:E2.
    - destruct (map_get dm (dv_name d)) eqn:E3.
      + intros H; injection H as <-. pose proof (q_dev s Q) as Q4. rewrite E2 in Q4. eapply Q4; exact E3.
      + destruct (map_get (r_templates reg) (dv_name d)) eqn:E4.
        * intros H; injection H as <-. eapply Hreg_t; exact E4.
        * intros H. rewrite H in Hd. exact Hd.
    - destruct (map_get (r_templates reg) (dv_name d)) eqn:E4.
      + intros H; injection H as <-. eapply Hreg_t; exact E4.
      + intros H. rewrite H in Hd. exact Hd.
  Qed.

  (* ---------- the simulation relation on outcomes ---------- *)
  Definition sim {A} (V : A -> Prop) (x y : rres A) : Prop :=
    match x, y with
    | ROk v t1, ROk v' t2 => v = v' /\ feq t1 t2 /\ Qs t1 /\ V v
    | RErr e t1, RErr e' t2 => e = e' /\ feq t1 t2
    | RPanic p, RPanic q => p = q
    | RFuel, RFuel => True
    | _, _ => False
    end.
  Definition T {A} : A -> Prop := fun _ => True.

  Lemma sim_ok {A} (V : A -> Prop) v t1 t2 : feq t1 t2 -> Qs t1 -> V v -> sim V (ROk v t1) (ROk v t2).
  Proof. cbn. auto. Qed.
  Lemma sim_err {A} (V : A -> Prop) e t1 t2 : feq t1 t2 -> sim V (RErr e t1) (RErr e t2).
  Proof. cbn. auto. Qed.
  Lemma sim_rfail {A} (V : A -> Prop) r t1 t2 : feq t1 t2 -> sim V (rfail r t1) (rfail r t2).
  Proof. apply sim_err. Qed.
  Lemma sim_weaken {A} (V V' : A -> Prop) x y : (forall v, V v -> V' v) -> sim V x y -> sim V' x y.
  Proof. intros HV. destruct x, y; cbn; intuition. Qed.

  Lemma sim_rbind {A B} (V1 : A -> Prop) (V2 : B -> Prop) x y (k k' : A -> rstate -> rres B) :
    sim V1 x y ->
    (forall v t1 t2, feq t1 t2 -> Qs t1 -> V1 v -> sim V2 (k v t1) (k' v t2)) ->
    sim V2 (rbind x k) (rbind y k').
  Proof.
    intros Hxy Hk. destruct x, y; cbn in Hxy |- *; try contradiction; try assumption.
    destruct Hxy as (<- & Hf & Hq & Hv). apply Hk; assumption.
  Qed.
  Lemma sim_rmap_err {A} (V : A -> Prop) x y g : sim V x y -> sim V (rmap_err x g) (rmap_err y g).
  Proof. destruct x, y; cbn; try tauto. intros (-> & H). auto. Qed.

  Lemma sim_fold_idx {A} (st : A -> nat -> rstate -> rres unit) l :
    (forall x i t1 t2, In x l -> feq t1 t2 -> Qs t1 -> sim T (st x i t1) (st x i t2)) ->
    forall i t1 t2, feq t1 t2 -> Qs t1 -> sim T (fold_idx st l i t1) (fold_idx st l i t2).
  Proof.
    induction l as [|x l IH]; intros Hs i t1 t2 Hf Hq; cbn [fold_idx].
    - apply sim_ok; [assumption|assumption|exact I].
    - eapply sim_rbind; [apply Hs; [left; reflexivity|assumption|assumption]|].
      intros v t1' t2' Hf' Hq' _. apply IH; [|assumption|assumption].
      intros; apply Hs; [right|..]; assumption.
  Qed.
  Lemma sim_mapM {A B} (g : A -> rstate -> rres B) l :
    (forall x t1 t2, In x l -> feq t1 t2 -> Qs t1 -> sim T (g x t1) (g x t2)) ->
    forall t1 t2, feq t1 t2 -> Qs t1 -> sim T (mapM g l t1) (mapM g l t2).
  Proof.
    induction l as [|x l IH]; intros Hs t1 t2 Hf Hq; cbn [mapM].
    - apply sim_ok; [assumption|assumption|exact I].
    - eapply sim_rbind; [apply Hs; [left; reflexivity|assumption|assumption]|].
      intros v t1' t2' Hf' Hq' _.
      eapply sim_rbind; [apply IH; [|assumption|assumption]; intros; apply Hs; [right|..]; assumption|].
      intros vs t1'' t2'' Hf'' Hq'' _. apply sim_ok; [assumption|assumption|exact I].
  Qed.

  (* ---------- primitives ---------- *)
  Lemma sim_out_write ch t1 t2 : feq t1 t2 -> Qs t1 -> sim T (out_write ch t1) (out_write ch t2).
  Proof.
    intros (a & b & c & ->) Hq. unfold out_write. destruct ch; [apply sim_ok; [feq_tac|assumption|exact I]|].
    fl_cbn.
    destruct (match o_fail_at (s_out t1) with Some k => N.leb k (o_writes (s_out t1)) | None => false end).
    - apply sim_rfail. feq_tac.
    - apply sim_ok; [feq_tac|qs|exact I].
  Qed.

  Lemma sim_iaw v t1 t2 : feq t1 t2 -> Qs t1 -> sim T (indent_aware_write v t1) (indent_aware_write v t2).
  Proof.
    intros (a & b & c & ->) Hq. unfold indent_aware_write. destruct v as [|x v]; [apply sim_ok; [feq_tac|assumption|exact I]|].
    fl_cbn. rewrite (q_indent _ Hq).
    destruct (negb (first_is is_newline (x :: v)) && s_indent_before_write t1);
      destruct (negb (first_is is_newline (x :: v)) && c); cbn [rbind]; fl_cbn; rewrite (q_indent _ Hq);
      (eapply sim_rbind; [apply sim_out_write; [feq_tac|qs]|];
       intros ? ? ? (a' & b' & c' & ->) Hq' _; apply sim_ok; [feq_tac|qs|exact I]).
  Qed.

  Lemma do_escape_fl c0 s a b c :
    do_escape reg c0 (fl s a b c) = (fst (do_escape reg c0 s), fl (snd (do_escape reg c0 s)) a b c).
  Proof.
    unfold do_escape. fl_cbn. destruct (s_disable_escape s); [reflexivity|].
    destruct (r_esc_mark reg); reflexivity.
  Qed.
  Lemma do_escape_Qs c0 s : Qs s -> Qs (snd (do_escape reg c0 s)).
  Proof.
    intros Hq. unfold do_escape. destruct (s_disable_escape s); [exact Hq|].
    destruct (r_esc_mark reg); cbn [snd]; qs.
  Qed.

  Lemma sim_evaluate2 dat p t1 t2 : feq t1 t2 -> Qs t1 -> sim T (evaluate2 dat p t1) (evaluate2 dat p t2).
  Proof.
    intros (a & b & c & ->) Hq. unfold evaluate2. destruct p; fl_cbn.
    - destruct (navigate dat segs (s_blocks t1)); [apply sim_ok; [feq_tac|assumption|exact I]|apply sim_rfail; feq_tac|reflexivity].
    - apply sim_ok; [feq_tac|assumption|exact I].
  Qed.
  Lemma sim_evaluate raw t1 t2 : feq t1 t2 -> Qs t1 -> sim T (evaluate data raw t1) (evaluate data raw t2).
  Proof.
    intros Hf Hq. unfold evaluate. destruct (path_parse raw); [apply sim_evaluate2; assumption|apply sim_rfail; assumption].
  Qed.

  Lemma sim_log_write txt t1 t2 : feq t1 t2 -> Qs t1 -> sim T (log_write txt t1) (log_write txt t2).
  Proof.
    intros (a & b & c & ->) Hq. unfold log_write. apply sim_out_write; [feq_tac|qs].
  Qed.

  Lemma sim_call_inner hid h t1 t2 : feq t1 t2 -> Qs t1 -> sim T (call_inner reg hid h t1) (call_inner reg hid h t2).
  Proof.
    intros (a & b & c & ->) Hq.
    destruct hid; cbn [call_inner]; unfold macro_inner, param_or;
      repeat match goal with
             | |- sim _ (match ?x with _ => _ end) (match ?x with _ => _ end) => destruct x
             | |- sim _ (if ?x then _ else _) (if ?x then _ else _) => destruct x
             end;
      first [ apply sim_ok; [feq_tac|first [assumption|qs]|exact I] | apply sim_rfail; feq_tac ].
  Qed.

  Lemma map_front_block_fl g s a b c : map_front_block g (fl s a b c) = fl (map_front_block g s) a b c.
  Proof. unfold map_front_block. fl_cbn. destruct (s_blocks s); reflexivity. Qed.
  Lemma map_front_block_Qs g s : Qs s -> Qs (map_front_block g s).
  Proof. intros Hq. unfold map_front_block. destruct (s_blocks s); [exact Hq|qs]. Qed.

  Lemma current_pb_fl s a b c : current_pb (fl s a b c) = current_pb s.
  Proof. reflexivity. Qed.
  Lemma depth_step_fl d s a b c : depth_step d (fl s a b c) = fl (depth_step d s) a b c.
  Proof.
    unfold depth_step. rewrite current_pb_fl. destruct (str_eqb (dv_name d) PARTIAL_BLOCK); [|reflexivity].
    destruct (current_pb s) as [[pb d0]|]; reflexivity.
  Qed.
  Lemma depth_step_Qs d s : Qs s -> Qs (depth_step d s).
  Proof.
    intros Hq. unfold depth_step. destruct (str_eqb (dv_name d) PARTIAL_BLOCK); [|exact Hq].
    destruct (current_pb s) as [[pb d0]|]; [qs|exact Hq].
  Qed.

  Lemma helper_exists_fl s a b c n : helper_exists reg (fl s a b c) n = helper_exists reg s n.
  Proof. reflexivity. Qed.
  Lemma find_local_helper_fl s a b c n : find_local_helper (fl s a b c) n = find_local_helper s n.
  Proof. reflexivity. Qed.
  Lemma get_partial_fl s a b c n : get_partial (fl s a b c) n = get_partial s n.
  Proof. reflexivity. Qed.

  Definition post {A} (g : rstate -> rstate) (x : rres A) : rres A :=
    match x with
    | ROk u s' => ROk u (g s')
    | RErr e s' => RErr e (g s')
    | z => z
    end.
  Lemma sim_post {A} (V : A -> Prop) g x y :
    (forall t a b c, g (fl t a b c) = fl (g t) a b c) -> (forall t, Qs t -> Qs (g t)) ->
    sim V x y -> sim V (post g x) (post g y).
  Proof.
    intros Hg Hq. destruct x, y; cbn; try tauto.
    - intros (-> & (a1 & b1 & c1 & ->) & Hq1 & Hv).
      split; [reflexivity|]. split; [exists a1, b1, c1; apply Hg|]. split; [apply Hq; exact Hq1|exact Hv].
    - intros (-> & (a1 & b1 & c1 & ->)). split; auto. exists a1, b1, c1. apply Hg.
  Qed.

  Lemma is_self_fl d s a b c : is_self d (fl s a b c) = is_self d s.
  Proof. reflexivity. Qed.
  Lemma resolve_partial_fl d s a b c : resolve_partial reg d (fl s a b c) = resolve_partial reg d s.
  Proof. reflexivity. Qed.
  Lemma partial_inner_fl d m s a b c : partial_inner d m (fl s a b c) = fl (partial_inner d m s) a b c.
  Proof. unfold partial_inner. destruct (dv_tpl d); reflexivity. Qed.
  Lemma partial_cleanup_fl d s1 s7 a b c a' b' c' :
    partial_cleanup d (fl s1 a b c) (fl s7 a' b' c') = fl (partial_cleanup d s1 s7) a' b' c'.
  Proof. unfold partial_cleanup. destruct (dv_tpl d); reflexivity. Qed.
  Lemma partial_inner_Qs d m s : Qs s -> opt_ni (dv_tpl d) -> dv_indent d = None -> Qs (partial_inner d m s).
  Proof.
    intros [Q1 Q2 Q3 Q4 Q5] Ht Hi. unfold partial_inner.
    destruct (dv_tpl d) as [pb|]; constructor; cbn; try assumption.
    constructor; [exact Ht|exact Q3].
  Qed.
  Lemma partial_cleanup_Qs d before s : Qs before -> Qs s -> Qs (partial_cleanup d before s).
  Proof.
    intros [P1 P2 P3 P4 P5] [Q1 Q2 Q3 Q4 Q5]. unfold partial_cleanup.
    destruct (dv_tpl d); constructor; cbn; try assumption.
    destruct (s_pb_stack s); [constructor|]. inversion Q3; assumption.
  Qed.
  Lemma sim_partial_context d t1 t2 : feq t1 t2 -> Qs t1 ->
    sim T (partial_context data d t1) (partial_context data d t2).
  Proof.
    intros (a & b & c & ->) Hq. unfold partial_context.
    destruct (dv_params d) as [|p ps].
    - eapply sim_rbind; [apply sim_evaluate2; [feq_tac|assumption]|].
      intros ? ? ? ? ? _. apply sim_ok; [assumption|assumption|exact I].
    - destruct (pj_rel p).
      + eapply sim_rbind; [apply sim_evaluate; [feq_tac|assumption]|].
        intros ? ? ? ? ? _. apply sim_ok; [assumption|assumption|exact I].
      + apply sim_ok; [feq_tac|assumption|exact I].
  Qed.

  (* values carrying templates *)
  Definition ni_hv (h : helper_v) : Prop := opt_ni (hv_tpl h) /\ opt_ni (hv_inv h).
  Definition ni_dv (part : bool) (d : deco_v) : Prop :=
    opt_ni (dv_tpl d) /\ (part = true -> dv_indent d = None).

  (* ---------- the induction hypothesis ---------- *)
  Record flags_at (f : nat) : Prop := {
    fi_render_template : forall t t1 t2, feq t1 t2 -> Qs t1 -> no_indent t ->
      sim T (render_template reg data ft f t t1) (render_template reg data ft f t t2);
    fi_eval_template : forall t t1 t2, feq t1 t2 -> Qs t1 -> no_indent t ->
      sim T (eval_template reg data ft f t t1) (eval_template reg data ft f t t2);
    fi_opt_render : forall t t1 t2, feq t1 t2 -> Qs t1 -> opt_ni t ->
      sim T (opt_render reg data ft f t t1) (opt_render reg data ft f t t2);
    fi_render_element : forall e t1 t2, feq t1 t2 -> Qs t1 -> ni_element e = true ->
      sim T (render_element reg data ft f e t1) (render_element reg data ft f e t2);
    fi_eval_element : forall e t1 t2, feq t1 t2 -> Qs t1 -> ni_element e = true ->
      sim T (eval_element reg data ft f e t1) (eval_element reg data ft f e t2);
    fi_render_expression : forall ht html t1 t2, feq t1 t2 -> Qs t1 -> ni_helper ht = true ->
      sim T (render_expression reg data ft f ht html t1) (render_expression reg data ft f ht html t2);
    fi_render_helper : forall ht t1 t2, feq t1 t2 -> Qs t1 -> ni_helper ht = true ->
      sim T (render_helper reg data ft f ht t1) (render_helper reg data ft f ht t2);
    fi_helper_from_template : forall ht t1 t2, feq t1 t2 -> Qs t1 -> ni_helper ht = true ->
      sim ni_hv (helper_from_template reg data ft f ht t1) (helper_from_template reg data ft f ht t2);
    fi_deco_from_template : forall part dt t1 t2, feq t1 t2 -> Qs t1 -> ni_deco part dt = true ->
      sim (ni_dv part) (deco_from_template reg data ft f dt t1) (deco_from_template reg data ft f dt t2);
    fi_expand_as_name : forall p t1 t2, feq t1 t2 -> Qs t1 -> ni_param p = true ->
      sim T (expand_as_name reg data ft f p t1) (expand_as_name reg data ft f p t2);
    fi_expand_param : forall p t1 t2, feq t1 t2 -> Qs t1 -> ni_param p = true ->
      sim T (expand_param reg data ft f p t1) (expand_param reg data ft f p t2);
    fi_call_helper_for_value : forall hid h t1 t2, feq t1 t2 -> Qs t1 -> hid <> HState -> ni_hv h ->
      sim T (call_helper_for_value reg data ft f hid h t1) (call_helper_for_value reg data ft f hid h t2);
    fi_call_helper : forall hid h t1 t2, feq t1 t2 -> Qs t1 -> hid <> HState -> ni_hv h ->
      sim T (call_helper reg data ft f hid h t1) (call_helper reg data ft f hid h t2);
    fi_eval_decorator : forall dt t1 t2, feq t1 t2 -> Qs t1 -> ni_deco false dt = true ->
      sim T (eval_decorator reg data ft f dt t1) (eval_decorator reg data ft f dt t2);
    fi_render_partial : forall dt t1 t2, feq t1 t2 -> Qs t1 -> ni_deco true dt = true ->
      sim T (render_partial reg data ft f dt t1) (render_partial reg data ft f dt t2);
    fi_expand_partial : forall d t1 t2, feq t1 t2 -> Qs t1 -> ni_dv true d ->
      sim T (expand_partial reg data ft f d t1) (expand_partial reg data ft f d t2)
  }.

  Lemma flags_0 : flags_at 0.
  Proof. constructor; intros; exact I. Qed.
  Section Step.
    Variable f : nat.
    Hypothesis IH : flags_at f.

    Ltac qs' := first [ assumption | qs ].
    Ltac intro_k := intros ? ? ? (? & ? & ? & ->) ? ?; fl_cbn.
    Ltac nis := first [ assumption | exact I | solve [cbn; auto] ].
    Ltac nostate :=
      solve [ assumption | let E := fresh in intros E; subst;
              first [ eapply Hreg_h; eassumption
                    | match goal with Q : Qs ?t, L : find_local_helper ?t _ = Some HState |- _ =>
                        exact (q_local t Q _ L) end ] ].
    Ltac sstep :=
      match goal with
      | |- sim _ (ROk _ _) (ROk _ _) => apply sim_ok; [feq_tac | qs' | try nis]
      | |- sim _ (RErr _ _) (RErr _ _) => apply sim_err; feq_tac
      | |- sim _ (rfail _ _) (rfail _ _) => apply sim_rfail; feq_tac
      | |- sim _ (strict_error _ _) (strict_error _ _) => apply sim_rfail; feq_tac
      | |- sim _ (RPanic _) (RPanic _) => reflexivity
      | |- sim _ (rbind _ _) (rbind _ _) => eapply sim_rbind; [ | intro_k]
      | |- sim _ (rmap_err _ _) (rmap_err _ _) => apply sim_rmap_err
      | |- sim _ (indent_aware_write _ _) (indent_aware_write _ _) => apply sim_iaw; [feq_tac | qs']
      | |- sim _ (out_write _ _) (out_write _ _) => apply sim_out_write; [feq_tac | qs']
      | |- sim _ (log_write _ _) (log_write _ _) => apply sim_log_write; [feq_tac | qs']
      | |- sim _ (evaluate2 _ _ _) (evaluate2 _ _ _) => apply sim_evaluate2; [feq_tac | qs']
      | |- sim _ (evaluate _ _ _) (evaluate _ _ _) => apply sim_evaluate; [feq_tac | qs']
      | |- sim _ (call_inner _ _ _ _) (call_inner _ _ _ _) => apply sim_call_inner; [feq_tac | qs']
      | |- sim _ (render_template _ _ _ f _ _) (render_template _ _ _ f _ _) =>
          apply (fi_render_template f IH); [feq_tac | qs' | try nis]
      | |- sim _ (eval_template _ _ _ f _ _) (eval_template _ _ _ f _ _) =>
          apply (fi_eval_template f IH); [feq_tac | qs' | try nis]
      | |- sim _ (opt_render _ _ _ f _ _) (opt_render _ _ _ f _ _) =>
          apply (fi_opt_render f IH); [feq_tac | qs' | try nis]
      | |- sim _ (render_element _ _ _ f _ _) (render_element _ _ _ f _ _) =>
          apply (fi_render_element f IH); [feq_tac | qs' | try nis]
      | |- sim _ (eval_element _ _ _ f _ _) (eval_element _ _ _ f _ _) =>
          apply (fi_eval_element f IH); [feq_tac | qs' | try nis]
      | |- sim _ (render_expression _ _ _ f _ _ _) (render_expression _ _ _ f _ _ _) =>
          apply (fi_render_expression f IH); [feq_tac | qs' | try nis]
      | |- sim _ (render_helper _ _ _ f _ _) (render_helper _ _ _ f _ _) =>
          apply (fi_render_helper f IH); [feq_tac | qs' | try nis]
      | |- sim _ (helper_from_template _ _ _ f _ _) (helper_from_template _ _ _ f _ _) =>
          apply (fi_helper_from_template f IH); [feq_tac | qs' | try nis]
      | |- sim _ (deco_from_template _ _ _ f _ _) (deco_from_template _ _ _ f _ _) =>
          eapply (fi_deco_from_template f IH); [feq_tac | qs' | try eassumption]
      | |- sim _ (expand_as_name _ _ _ f _ _) (expand_as_name _ _ _ f _ _) =>
          apply (fi_expand_as_name f IH); [feq_tac | qs' | try nis]
      | |- sim _ (expand_param _ _ _ f _ _) (expand_param _ _ _ f _ _) =>
          apply (fi_expand_param f IH); [feq_tac | qs' | try nis]
      | |- sim _ (call_helper_for_value _ _ _ f _ _ _) (call_helper_for_value _ _ _ f _ _ _) =>
          apply (fi_call_helper_for_value f IH); [feq_tac | qs' | try nostate | try nis]
      | |- sim _ (call_helper _ _ _ f _ _ _) (call_helper _ _ _ f _ _ _) =>
          apply (fi_call_helper f IH); [feq_tac | qs' | try nostate | try nis]
      | |- sim _ (eval_decorator _ _ _ f _ _) (eval_decorator _ _ _ f _ _) =>
          apply (fi_eval_decorator f IH); [feq_tac | qs' | try nis]
      | |- sim _ (render_partial _ _ _ f _ _) (render_partial _ _ _ f _ _) =>
          apply (fi_render_partial f IH); [feq_tac | qs' | try nis]
      | |- sim _ (expand_partial _ _ _ f _ _) (expand_partial _ _ _ f _ _) =>
          apply (fi_expand_partial f IH); [feq_tac | qs' | try nis]
      | |- sim _ (param_or _ _ _ _ _) (param_or _ _ _ _ _) => unfold param_or
      | |- sim _ (match ?c with _ => _ end) (match ?c with _ => _ end) => destruct c eqn:?
      | |- sim _ (if ?c then _ else _) (if ?c' then _ else _) => destruct c eqn:?; destruct c' eqn:?
      end.
    Ltac norm := fl_cbn; rewrite ?helper_exists_fl, ?find_local_helper_fl, ?get_partial_fl.
    Ltac start := intros t1 t2 (a & b & c & ->) Hq; fl_cbn.
    Ltac esc_step :=
      match goal with
      | |- sim _ (let '(_, _) := do_escape _ ?c0 ?t in _) (let '(_, _) := do_escape _ ?c0 (fl ?t ?a ?b ?cc) in _) =>
          rewrite (do_escape_fl c0 t a b cc);
          let Hq := fresh "Hq" in
          assert (Hq : Qs (snd (do_escape reg c0 t))) by (apply do_escape_Qs; qs');
          destruct (do_escape reg c0 t) as [? ?]; cbn [fst snd] in *
      end.
    Ltac go := norm; repeat (first [sstep | esc_step]; norm).

    Lemma g_render_template t : forall t1 t2, feq t1 t2 -> Qs t1 -> no_indent t ->
      sim T (render_template reg data ft (S f) t t1) (render_template reg data ft (S f) t t2).
    Proof.
      start. intros Hn. rewrite !render_template_eq.
      eapply sim_rbind; [|intros ? ? ? (? & ? & ? & ->) ? ?; apply sim_ok; [feq_tac|qs|exact I]].
      apply sim_fold_idx; [|feq_tac|qs].
      intros x i t1' t2' Hin (a' & b' & c' & ->) Hq'. pose proof (ni_template_els _ _ Hn Hin).
      repeat sstep.
    Qed.

    Lemma g_eval_template t : forall t1 t2, feq t1 t2 -> Qs t1 -> no_indent t ->
      sim T (eval_template reg data ft (S f) t t1) (eval_template reg data ft (S f) t t2).
    Proof.
      start. intros Hn. rewrite !eval_template_eq.
      apply sim_fold_idx; [|feq_tac|qs'].
      intros x i t1' t2' Hin (a' & b' & c' & ->) Hq'. pose proof (ni_template_els _ _ Hn Hin).
      repeat sstep.
    Qed.

    Lemma g_opt_render t : forall t1 t2, feq t1 t2 -> Qs t1 -> opt_ni t ->
      sim T (opt_render reg data ft (S f) t t1) (opt_render reg data ft (S f) t t2).
    Proof. start. intros Hn. rewrite !opt_render_eq. destruct t; cbn in Hn; repeat sstep. Qed.

    Lemma g_render_element e : forall t1 t2, feq t1 t2 -> Qs t1 -> ni_element e = true ->
      sim T (render_element reg data ft (S f) e t1) (render_element reg data ft (S f) e t2).
    Proof. start. intros Hn. rewrite !render_element_eq. destruct e; cbn [ni_element] in Hn; repeat sstep. Qed.

    Lemma g_eval_element e : forall t1 t2, feq t1 t2 -> Qs t1 -> ni_element e = true ->
      sim T (eval_element reg data ft (S f) e t1) (eval_element reg data ft (S f) e t2).
    Proof. start. intros Hn. rewrite !eval_element_eq. destruct e; cbn [ni_element] in Hn; repeat sstep. Qed.

    Lemma g_render_expression ht html : forall t1 t2, feq t1 t2 -> Qs t1 -> ni_helper ht = true ->
      sim T (render_expression reg data ft (S f) ht html t1) (render_expression reg data ft (S f) ht html t2).
    Proof.
      start. intros Hn. rewrite !render_expression_eq. cbv zeta.
      destruct (ni_helper_parts _ Hn) as (Hn1 & Hn2 & Hn3 & Hn4 & Hn5).
      apply (sim_post T (fun s' => if html then set_disable_escape s' false else s'));
        [intros; destruct html; reflexivity|intros; destruct html; qs'|].
      destruct html; go.
    Qed.

    Lemma g_render_helper ht : forall t1 t2, feq t1 t2 -> Qs t1 -> ni_helper ht = true ->
      sim T (render_helper reg data ft (S f) ht t1) (render_helper reg data ft (S f) ht t2).
    Proof.
      start. intros Hn. rewrite !render_helper_eq. cbv zeta. go.
    Qed.

    Lemma g_mapM_params l : forallb ni_param l = true -> forall t1 t2, feq t1 t2 -> Qs t1 ->
      sim T (mapM (expand_param reg data ft f) l t1) (mapM (expand_param reg data ft f) l t2).
    Proof.
      intros Hl. apply sim_mapM. intros x t1 t2 Hin Hf Hq.
      apply (fi_expand_param f IH); [assumption|assumption|]. exact (proj1 (forallb_forall _ _) Hl x Hin).
    Qed.
    Lemma g_mapM_hash (l : list (str * param)) :
      forallb (fun kv : str * param => ni_param (snd kv)) l = true -> forall t1 t2, feq t1 t2 -> Qs t1 ->
      sim T (mapM (fun (kv : str * param) s' =>
                     rbind (expand_param reg data ft f (snd kv) s') (fun v s'' => ROk (fst kv, v) s'')) l t1)
            (mapM (fun (kv : str * param) s' =>
                     rbind (expand_param reg data ft f (snd kv) s') (fun v s'' => ROk (fst kv, v) s'')) l t2).
    Proof.
      intros Hl. apply sim_mapM. intros x t1 t2 Hin (a & b & c & ->) Hq.
      pose proof (proj1 (forallb_forall _ _) Hl x Hin) as Hx. cbn beta in Hx. go.
    Qed.
    Ltac go2 :=
      norm; repeat (first [ sstep | esc_step
                    | match goal with
                      | |- sim _ (mapM (expand_param _ _ _ f) _ _) (mapM _ _ _) =>
                          apply g_mapM_params; [assumption|feq_tac|qs']
                      | |- sim _ (mapM _ _ _) (mapM _ _ _) => apply g_mapM_hash; [assumption|feq_tac|qs']
                      end ]; norm).

    Lemma g_helper_from_template ht : forall t1 t2, feq t1 t2 -> Qs t1 -> ni_helper ht = true ->
      sim ni_hv (helper_from_template reg data ft (S f) ht t1) (helper_from_template reg data ft (S f) ht t2).
    Proof.
      start. intros Hn. rewrite !helper_from_template_eq.
      destruct (ni_helper_parts _ Hn) as (Hn1 & Hn2 & Hn3 & Hn4 & Hn5). go2.
      split; cbn; assumption.
    Qed.

    Lemma g_deco_from_template part dt : forall t1 t2, feq t1 t2 -> Qs t1 -> ni_deco part dt = true ->
      sim (ni_dv part) (deco_from_template reg data ft (S f) dt t1) (deco_from_template reg data ft (S f) dt t2).
    Proof.
      start. intros Hn. rewrite !deco_from_template_eq.
      destruct (ni_deco_parts _ _ Hn) as (Hn1 & Hn2 & Hn3 & Hn4 & Hn5). go2.
      split; cbn [dv_tpl dv_indent]; [assumption|].
      intros Hp. match goal with Q : Qs ?t |- combine_indent (s_indent ?t) _ = _ => rewrite (q_indent t Q) end.
      rewrite (Hn5 Hp). reflexivity.
    Qed.

    Lemma g_expand_as_name p : forall t1 t2, feq t1 t2 -> Qs t1 -> ni_param p = true ->
      sim T (expand_as_name reg data ft (S f) p t1) (expand_as_name reg data ft (S f) p t2).
    Proof. start. intros Hn. rewrite !expand_as_name_eq. destruct p; go2. Qed.

    Lemma g_expand_param p : forall t1 t2, feq t1 t2 -> Qs t1 -> ni_param p = true ->
      sim T (expand_param reg data ft (S f) p t1) (expand_param reg data ft (S f) p t2).
    Proof.
      start. intros Hn. rewrite !expand_param_eq. destruct p as [n|pa|j|el]; try solve [go2].
      destruct el; try reflexivity. cbn [ni_param ni_element] in Hn.
      destruct (ni_helper_parts _ Hn) as (Hn1 & Hn2 & Hn3 & Hn4 & Hn5). go2.
    Qed.

    Ltac sim_scrut :=
      match goal with
      | |- sim _ (match ?x with _ => _ end) (match ?y with _ => _ end) =>
          let H := fresh "Hs" in
          eassert (H : sim _ x y);
          [ | destruct x eqn:?, y eqn:?; cbn [sim] in H; try contradiction;
              [ destruct H as (<- & (? & ? & ? & ->) & ? & ?)
              | destruct H as (<- & (? & ? & ? & ->))
              | subst; reflexivity
              | exact I ] ]
      end.

    Ltac ci_err :=
      repeat match goal with
             | E : call_inner _ ?hid ?h ?t = RErr _ ?s |- _ =>
                 tryif constr_eq s t then fail else
                   (let X := fresh in pose proof (call_inner_res reg hid h t) as X; rewrite E in X; subst s)
             end.

    Lemma g_call_helper_for_value hid h : forall t1 t2, feq t1 t2 -> Qs t1 -> hid <> HState -> ni_hv h ->
      sim T (call_helper_for_value reg data ft (S f) hid h t1) (call_helper_for_value reg data ft (S f) hid h t2).
    Proof.
      start. intros Hh Hv. rewrite !call_helper_for_value_eq. cbv zeta.
      sim_scrut; [go2| |]; norm.
      - go2.
      - destruct (is_unimplemented e); [|go2].
        ci_err.
        sim_scrut; [go2| |]; norm; go2.
    Qed.

    Lemma g_fold_w {A} t (W : A -> nat -> rstate -> rstate) l :
      no_indent t -> (forall x i s a b c, W x i (fl s a b c) = fl (W x i s) a b c) ->
      (forall x i s, Qs s -> Qs (W x i s)) ->
      forall i t1 t2, feq t1 t2 -> Qs t1 ->
      sim T (fold_idx (fun x i s' => render_template reg data ft f t (W x i s')) l i t1)
            (fold_idx (fun x i s' => render_template reg data ft f t (W x i s')) l i t2).
    Proof.
      intros Hn HW HQ. apply sim_fold_idx. intros x i t1 t2 _ (a & b & c & ->) Hq.
      rewrite HW. apply (fi_render_template f IH); [feq_tac|apply HQ; exact Hq|exact Hn].
    Qed.

    Lemma g_call_helper hid h : forall t1 t2, feq t1 t2 -> Qs t1 -> hid <> HState -> ni_hv h ->
      sim T (call_helper reg data ft (S f) hid h t1) (call_helper reg data ft (S f) hid h t2).
    Proof.
      start. intros Hh Hv. rewrite !call_helper_eq. destruct Hv as [Hv1 Hv2].
      destruct (has_call_inner hid) eqn:Hci.
      - sim_scrut; [go2| |]; norm; ci_err; go2.
      - destruct hid; try discriminate Hci; try (exfalso; apply Hh; reflexivity); cbv zeta.
        all: try solve [go2].
        + (* HIf *) go2; match goal with |- opt_ni (if ?c then _ else _) => destruct c; assumption end.
        + (* HUnless *) go2; match goal with |- opt_ni (if ?c then _ else _) => destruct c; assumption end.
        + (* HEach *)
          go2;
            match goal with
            | Ht : hv_tpl h = Some ?t |- sim _ (fold_idx _ _ _ _) (fold_idx _ _ _ _) =>
                try rewrite Ht in Hv1; cbn [opt_ni] in Hv1;
                eapply (g_fold_w t);
                [ exact Hv1
                | intros; unfold each_iter_setup; apply map_front_block_fl
                | intros; unfold each_iter_setup; apply map_front_block_Qs; assumption
                | feq_tac | qs' ]
            end.
        + (* HLocal *)
          destruct (starts_with (`"c:") name).
          { (* the capture bracket *)
            destruct (hv_tpl h) as [t|] eqn:Et; [|go2].
            cbn [opt_ni] in Hv1.
            match goal with
            | |- context [log_entry (fl t1 a b c) ?x] =>
                change (log_entry (fl t1 a b c) x) with (fl (log_entry t1 x) a b c)
            end.
            sim_scrut; [apply (fi_render_template f IH); [feq_tac|qs'|exact Hv1]| |]; norm; go2. }
          destruct (starts_with (`"e:") name); [|go2].
          match goal with
          | |- context [log_entry (fl t1 a b c) ?x] =>
              change (log_entry (fl t1 a b c) x) with (fl (log_entry t1 x) a b c)
          end.
          go2.
    Qed.

    Lemma g_eval_decorator dt : forall t1 t2, feq t1 t2 -> Qs t1 -> ni_deco false dt = true ->
      sim T (eval_decorator reg data ft (S f) dt t1) (eval_decorator reg data ft (S f) dt t2).
    Proof.
      start. intros Hn. rewrite !eval_decorator_eq. go2.
      - match goal with Hv : ni_dv false ?d, Ht : dv_tpl ?d = Some ?t |- _ =>
          destruct Hv as [Hv _]; rewrite Ht in Hv; cbn [opt_ni] in Hv end.
        apply sim_ok; [feq_tac|apply Qs_add_partial; assumption|exact I].
      - apply sim_ok; [feq_tac|apply Qs_add_local; assumption|exact I].
    Qed.

    Lemma g_render_partial dt : forall t1 t2, feq t1 t2 -> Qs t1 -> ni_deco true dt = true ->
      sim T (render_partial reg data ft (S f) dt t1) (render_partial reg data ft (S f) dt t2).
    Proof.
      start. intros Hn. rewrite !render_partial_eq. cbv zeta. go2.
    Qed.

    Lemma g_expand_partial d : forall t1 t2, feq t1 t2 -> Qs t1 -> ni_dv true d ->
      sim T (expand_partial reg data ft (S f) d t1) (expand_partial reg data ft (S f) d t2).
    Proof.
      start. intros [Hd1 Hd2]. specialize (Hd2 eq_refl). rewrite !expand_partial_unfold.
      eapply sim_rbind.
      { unfold run_block_decorators. destruct (dv_tpl d) as [t|]; cbn [opt_ni] in Hd1; go2. }
      intros [] s1 s1' (a1 & b1 & c1 & ->) Hq1 _.
      rewrite is_self_fl, resolve_partial_fl.
      destruct (is_self d s1); [apply sim_rfail; feq_tac|].
      destruct (resolve_partial reg d s1) as [partial|] eqn:Hres; [|apply sim_rfail; feq_tac].
      pose proof (resolve_ni d s1 partial Hq1 Hd1 Hres) as Hnp.
      rewrite depth_step_fl.
      eapply sim_rbind; [apply sim_partial_context; [feq_tac|apply depth_step_Qs; exact Hq1]|].
      intros merged s3 s3' (a3 & b3 & c3 & ->) Hq3 _.
      rewrite partial_inner_fl.
      sim_scrut.
      { apply (fi_render_template f IH); [feq_tac|apply partial_inner_Qs; assumption|exact Hnp]. }
      - rewrite partial_cleanup_fl. apply sim_ok; [feq_tac|apply partial_cleanup_Qs; assumption|exact I].
      - rewrite partial_cleanup_fl. apply sim_err. feq_tac.
    Qed.

    Lemma flags_step : flags_at (S f).
    Proof.
      constructor.
      - exact g_render_template. - exact g_eval_template. - exact g_opt_render.
      - exact g_render_element. - exact g_eval_element. - exact g_render_expression.
      - exact g_render_helper. - exact g_helper_from_template. - exact g_deco_from_template.
      - exact g_expand_as_name. - exact g_expand_param. - exact g_call_helper_for_value.
      - exact g_call_helper. - exact g_eval_decorator. - exact g_render_partial.
      - exact g_expand_partial.
    Qed.
  End Step.

  Theorem flags_all : forall f, flags_at f.
  Proof. induction f as [|f IH]; [exact flags_0|exact (flags_step f IH)]. Qed.
End Flags.

(* ---------- the readable statements ---------- *)
Lemma iaw_none v s : s_indent s = None -> v <> [] ->
  indent_aware_write v s =
  rbind (out_write v (set_content_produced s true))
        (fun _ s3 => ROk tt (set_indent_before_write (set_trailing_newline s3 (last_is is_newline v))
                                                     (last_is is_newline v))).
Proof.
  intros Hi Hv. unfold indent_aware_write. destruct v as [|c0 v]; [contradiction|].
  cbv zeta. cbn [s_indent s_indent_before_write set_content_produced]. rewrite Hi.
  destruct (negb (first_is is_newline (c0 :: v)) && s_indent_before_write s); cbn [rbind];
    cbn [s_indent set_content_produced]; rewrite Hi; reflexivity.
Qed.

Lemma flags_ready_Qs s : flags_ready s <-> Qs s.
Proof.
  unfold flags_ready. split.
  - intros (H1 & H2 & H3 & H4 & H5). constructor; assumption.
  - intros [H1 H2 H3 H4 H5]. repeat split; assumption.
Qed.

Lemma sim_same {A} (V : A -> Prop) (x y : rres A) : sim V x y -> same_up_to_flags x y.
Proof.
  destruct x, y; cbn; try tauto.
  - intros (-> & Hf & _). split; [reflexivity|apply feq_flags_only; exact Hf].
  - intros (-> & Hf). split; [reflexivity|apply feq_flags_only; exact Hf].
Qed.

Section Final.
  Variable reg : registry.
  Variable data : json.
  Variable ft : ftable.
  Hypothesis Hreg_t : ni_map (r_templates reg).
  Hypothesis Hreg_h : forall n, map_get (r_helpers reg) n <> Some HState.

  Theorem flags_irrelevant_template fuel t s1 s2 :
    flags_only s1 s2 -> flags_ready s1 -> no_indent t ->
    same_up_to_flags (render_template reg data ft fuel t s1) (render_template reg data ft fuel t s2).
  Proof.
    intros Hf Hr Hn. eapply sim_same.
    apply (fi_render_template _ _ _ _ (flags_all reg data ft Hreg_t Hreg_h fuel));
      [apply feq_flags_only; exact Hf|apply flags_ready_Qs; exact Hr|exact Hn].
  Qed.

  Theorem flags_irrelevant_element fuel e s1 s2 :
    flags_only s1 s2 -> flags_ready s1 -> ni_element e = true ->
    same_up_to_flags (render_element reg data ft fuel e s1) (render_element reg data ft fuel e s2).
  Proof.
    intros Hf Hr Hn. eapply sim_same.
    apply (fi_render_element _ _ _ _ (flags_all reg data ft Hreg_t Hreg_h fuel));
      [apply feq_flags_only; exact Hf|apply flags_ready_Qs; exact Hr|exact Hn].
  Qed.

  (* a run of sibling elements; on success the final state is again ready *)
  Lemma sim_elements f (g : nat -> rerror -> rerror) l : forallb ni_element l = true ->
    forall i t1 t2, feq t1 t2 -> Qs t1 ->
    sim T (fold_idx (fun e idx s' => rmap_err (render_element reg data ft f e s') (g idx)) l i t1)
          (fold_idx (fun e idx s' => rmap_err (render_element reg data ft f e s') (g idx)) l i t2).
  Proof.
    intros Hl. apply sim_fold_idx. intros x i t1 t2 Hin Hf Hq. apply sim_rmap_err.
    apply (fi_render_element _ _ _ _ (flags_all reg data ft Hreg_t Hreg_h f)); [assumption|assumption|].
    exact (proj1 (forallb_forall _ _) Hl x Hin).
  Qed.

  Theorem flags_irrelevant_elements f (g : nat -> rerror -> rerror) l i s1 s2 :
    flags_only s1 s2 -> flags_ready s1 -> forallb ni_element l = true ->
    same_up_to_flags (fold_idx (fun e idx s' => rmap_err (render_element reg data ft f e s') (g idx)) l i s1)
                     (fold_idx (fun e idx s' => rmap_err (render_element reg data ft f e s') (g idx)) l i s2).
  Proof.
    intros Hf Hr Hn. eapply sim_same. apply sim_elements;
      [exact Hn|apply feq_flags_only; exact Hf|apply flags_ready_Qs; exact Hr].
  Qed.

  Theorem flags_ready_kept f (g : nat -> rerror -> rerror) l i s s' :
    flags_ready s -> forallb ni_element l = true ->
    fold_idx (fun e idx s' => rmap_err (render_element reg data ft f e s') (g idx)) l i s = ROk tt s' ->
    flags_ready s'.
  Proof.
    intros Hr Hn H. apply flags_ready_Qs in Hr.
    pose proof (sim_elements f g l Hn i s s (feq_refl s) Hr) as Hs. rewrite H in Hs.
    cbn in Hs. apply flags_ready_Qs. apply Hs.
  Qed.

  (* C08_concat (partial): A, then a non-empty literal, then B.  The text B's
     elements append is what they append when started from the state A left
     with only the literal appended to the writer -- the flags the literal and
     A set do not matter *)
  Theorem concat_partial f name A bar B mp s s' :
    flags_ready s -> no_indent (MkT name (A ++ ElRaw bar :: B) mp) -> bar <> [] ->
    render_template reg data ft (S (S f)) (MkT name (A ++ ElRaw bar :: B) mp) s = ROk tt s' ->
    exists s1 sb s2,
      fold_idx (fun e idx s' => rmap_err (render_element reg data ft (S f) e s')
                                         (attach_render (MkT name A mp) idx))
               A 0%nat (set_current s name) = ROk tt s1 /\
      restored (set_current s name) s1 /\ flags_ready s1 /\
      out_write bar s1 = ROk tt sb /\
      fold_idx (fun e idx s' => rmap_err (render_element reg data ft (S f) e s')
                                         (attach_render (MkT name (ElRaw bar :: B) mp) idx))
               B 1%nat sb = ROk tt s2 /\
      flags_only (set_current s2 (s_current s)) s'.
  Proof.
    intros Hr Hn Hbar H.
    apply (proj1 (render_app_ok reg data ft (S f) name A (ElRaw bar :: B) mp mp mp s s')) in H.
    destruct H as (s1 & s2r & HA & HB & ->).
    unfold no_indent in Hn. cbn [ni_template] in Hn. rewrite forallb_app in Hn.
    apply andb_prop in Hn. destruct Hn as [HnA HnB]. cbn [forallb ni_element] in HnB.
    assert (Hq0 : Qs (set_current s name)).
    { apply flags_ready_Qs in Hr. destruct Hr. constructor; assumption. }
    pose proof (flags_ready_kept _ _ _ _ _ _ (proj2 (flags_ready_Qs _) Hq0) HnA HA) as Hr1.
    pose proof (frame_elements _ _ _ _ _ _ _ _ _ HA) as Hres.
    cbn [fold_idx] in HB. apply rbind_ok in HB. destruct HB as ([] & sb' & Hw & HB).
    apply rmap_err_ok in Hw. rewrite render_element_eq in Hw.
    apply flags_ready_Qs in Hr1.
    (* the literal *)
    rewrite (iaw_none _ _ (q_indent _ Hr1) Hbar) in Hw.
    apply rbind_ok in Hw. destruct Hw as ([] & x & Hx & Hw). injection Hw as <-.
    assert (Hfx : feq x (set_indent_before_write (set_trailing_newline x (last_is is_newline bar))
                                                 (last_is is_newline bar))) by feq_tac.
    pose proof (sim_out_write bar s1 (set_content_produced s1 true) ltac:(feq_tac) Hr1) as Hso.
    rewrite Hx in Hso. destruct (out_write bar s1) as [[] sb|e sb|p|] eqn:Hsb; cbn in Hso; try contradiction.
    destruct Hso as (_ & Hfsb & Hqsb & _).
    assert (Hfb : feq sb (set_indent_before_write (set_trailing_newline x (last_is is_newline bar))
                                                  (last_is is_newline bar))).
    { destruct Hfsb as (a1 & b1 & c1 & ->). feq_tac. }
    pose proof (sim_elements (S f) (attach_render (MkT name (ElRaw bar :: B) mp)) B HnB 1%nat sb _ Hfb Hqsb) as HsB.
    rewrite HB in HsB.
    destruct (fold_idx _ B 1%nat sb) as [[] s2|e s2|p|] eqn:HB2; cbn in HsB; try contradiction.
    destruct HsB as (_ & Hf2 & _).
    exists s1, sb, s2.
    split; [exact HA|]. split; [exact Hres|]. split; [apply flags_ready_Qs; exact Hr1|].
    split; [exact Hsb|]. split; [exact HB2|].
    apply feq_flags_only. destruct Hf2 as (a2 & b2 & c2 & ->). feq_tac.
  Qed.
End Final.

(* ---------- the hypotheses are satisfiable ---------- *)
Definition fx_reg : registry :=
  reg_with_strings [(`"p", `"[{{y}}]"); (`"m", `"a{{#if x}}b{{> p}}{{/if}}|{{> p}}\n")].

Example flags_irrelevant_ex :
  ni_map (r_templates fx_reg) /\ (forall n, map_get (r_helpers fx_reg) n <> Some HState) /\
  flags_ready (st_init None None None) /\
  flags_only (st_init None None None) (fl (st_init None None None) false true true) /\
  no_indent (reg_tpl fx_reg (`"m"))
  /\ exists s', render_template fx_reg (JObj [(`"x", JBool true); (`"y", JStr (`"z"))]) [] 20
                  (reg_tpl fx_reg (`"m")) (st_init None None None) = ROk tt s'
                /\ out_text (s_out s') = `"ab[z]|[z]\n".
Proof.
  split.
  { intros k t H. vm_compute (r_templates fx_reg) in H. cbn [map_get] in H.
    repeat (destruct (str_eqb k _) in H; [injection H as <-; vm_compute; reflexivity|]). discriminate H. }
  split.
  { intros n. vm_compute (r_helpers fx_reg). cbn [map_get].
    repeat (destruct (str_eqb n _); [discriminate|]). discriminate. }
  split; [repeat split; cbn; try constructor; intros; discriminate|].
  split; [apply feq_flags_only; do 3 eexists; reflexivity|].
  split; [vm_compute; reflexivity|]. eexists. split; vm_compute; reflexivity.
Qed.
