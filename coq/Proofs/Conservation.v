(* Proofs/Conservation.v — C03 for whole templates (flat fragment): the raw text
   of the compiled template is the source with its tags deleted.

   Part 1  the rules that can occur below a tag token form a closed set, none
           of which the compile loop interprets ("kid" rules);
   Part 2  a flat schema: the token list of a source without blocks is a
           sequence of raw_text / simple tag / comment items, every tag
           followed by exactly its kid tokens (inversion of the derivation
           relation of PegForest.v, as in GrammarTemplates.v);
   Part 3  parse_expression reports `~` only if a `~` token is present;
   Part 4  one step of the loop on each flat item, from step_ws (WsProofs.v)
           and the stage lemmas of CompileStages.v;
   Part 5  the fold, and compile2; rendering when the tags write nothing;
   Part 6  the tiling of EVERY source by its main-level tokens (generic
           induction over the derivation relation) and, on the interpreter
           itself, the fact that whatever lies between them is whitespace. *)
From Coq Require Import List NArith Lia Bool Sorting.Sorted.
From HB Require Import Base.Str Peg.Peg Peg.Grammar Tpl.Ast Tpl.Compile Spec.WfTokens
  Spec.AlignedSpec Spec.WsSpec Spec.StripTags
  Proofs.PegFacts Proofs.PegTermination Proofs.PegForest Proofs.CompileBase Proofs.CompileNoPanic
  Proofs.CompileStages Proofs.CompilePositions Proofs.CompileTermination Proofs.GrammarSchema
  Proofs.RawBlockAdjacent Proofs.GrammarTemplates Proofs.WsProofs
  Rt.State Rt.Eval Rt.Render Proofs.TagFree.
Import ListNotations.
Open Scope N_scope.

Arguments N.add : simpl never.
Arguments N.sub : simpl never.
Arguments N.mul : simpl never.
Arguments N.leb : simpl never.
Arguments N.ltb : simpl never.
Arguments N.eqb : simpl never.

#[local] Hint Rewrite flats_cons' flat_node' flats_app' flats_nil : fl.
#[local] Hint Rewrite @app_nil_r : fl.

(* ================= Part 1: kid rules ================= *)
Definition is_other (r : rule) : bool :=
  match tag_classify r with KOtherRule => true | _ => false end.

(* the rules from which a token of an interpreted class can be emitted; the
   complement is closed under references *)
Fixpoint mbad_tab (n : nat) : list bool :=
  match n with
  | O => map (fun r => negb (is_other r)) all_rules
  | S n' =>
      let t := mbad_tab n' in
      map (fun r => nth (tab_index r) t false
                    || negb (refs_ok rule (fun x => negb (nth (tab_index x) t false)) (snd (hb_defs r))))
          all_rules
  end.
Definition kid_tab : list bool := Eval vm_compute in map negb (mbad_tab 70).
Definition kid (r : rule) : bool := nth (tab_index r) kid_tab false.

Lemma kid_closed : forall r, kid r = true -> refs_ok rule kid (snd (hb_defs r)) = true.
Proof. intros r. destruct r; vm_compute; intros H; first [reflexivity | discriminate H]. Qed.

Lemma kid_other r : kid r = true -> tag_classify r = KOtherRule.
Proof. destruct r; vm_compute; intros H; first [reflexivity | discriminate H]. Qed.

Definition kid_tok (t : tok) : Prop := tag_classify (tk_rule t) = KOtherRule.

(* the tokens below a node whose rule body refers to kid rules only *)
Lemma ref_kids f r p p' ch :
  refs_ok rule kid (snd (hb_defs r)) = true ->
  hgen f (ERef r) ANon false p p' [Node r p p' ch] -> Forall kid_tok (flats ch).
Proof.
  intros Hr H. inversion H; subst.
  match goal with Hd : hb_defs r = (_, _) |- _ => rewrite Hd in Hr; cbn [snd] in Hr end.
  match goal with G : hgen _ _ _ _ _ _ ?F0, Hw : wrap _ ?b _ _ _ ?F0 = _ |- _ =>
    pose proof (closed_sound rule hb_defs hb_ws hb_RP kid kid_closed _ _ _ _ _ _ _ Hr G) as HF;
    assert (HK : Forall kid_tok (flats F0))
      by (eapply Forall_impl; [|exact HF]; intros t Ht; apply kid_other; exact Ht);
    unfold wrap in Hw; destruct b;
    [ inversion Hw; subst; exact HK
    | subst F0; rewrite flats_cons', flat_node' in HK; inversion HK; subst;
      rewrite flats_nil, app_nil_r in *; assumption ]
  end.
Qed.

(* ================= Part 2: the flat schema ================= *)
Notation flat_tok := block_free_token.

Inductive fitem : N -> N -> list tok -> Prop :=
| fi_raw lo s e : lo <= s -> s < e -> fitem lo e [(R_raw_text, s, e)]
| fi_tag lo r s e l : simple_tag r -> lo <= s -> s < e -> tag_toks e l -> Forall kid_tok l ->
    fitem lo e ((r, s, e) :: l)
| fi_comment lo r s e : comment_rule r -> lo <= s -> s < e -> fitem lo e [(r, s, e)].

Inductive fitems : N -> N -> list tok -> Prop :=
| fis_nil lo : fitems lo lo []
| fis_cons lo mid hi a rest : fitem lo mid a -> fitems mid hi rest -> fitems lo hi (a ++ rest).

Lemma fsimple_item lo f r p p' F :
  simple_tag r -> TagShape r -> esc_free r = true -> refs_ok rule kid (snd (hb_defs r)) = true ->
  hgen f (ERef r) ANon false p p' F -> lo <= p ->
  fitem lo p' (fl (flats F)).
Proof.
  intros Hs Hsh Ho Hk H Hlo. rewrite (fl_tag _ _ _ _ _ Ho H).
  destruct (Hsh _ _ _ _ H) as (ch & -> & Ht & Lt).
  pose proof (ref_kids _ _ _ _ _ Hk H) as HK.
  rewrite flats_cons', flat_node', flats_nil, app_nil_r.
  apply fi_tag; [exact Hs | exact Hlo | exact Lt | exact Ht | exact HK].
Qed.

Lemma fcomment_item lo f r p p' F :
  comment_rule r ->
  emits_k (fst (hb_defs r)) ANon false = true ->
  silent rule hb_defs 80 (snd (hb_defs r)) (body_at (fst (hb_defs r)) ANon) false = true ->
  nullable_e rule hb_nl (ERef r) = false ->
  hgen f (ERef r) ANon false p p' F -> lo <= p ->
  fitem lo p' (fl (flats F)).
Proof.
  intros Hc He Hs Hn H Hlo. assert (L : p < p') by (eapply hprogress; eassumption).
  apply ref_leaf in H; [subst|exact He|exact Hs].
  rewrite flats_cons', flat_node', flats_nil. cbn [app filter].
  replace (not_escape (r, p, p')) with true by (destruct Hc as [-> | ->]; reflexivity).
  apply fi_comment; [exact Hc | exact Hlo | exact L].
Qed.

(* a block-start token among the tokens contradicts flatness *)
Lemma flat_head_false t l : flat_tok t = false -> not_escape t = true ->
  Forall (fun x => flat_tok x = true) (fl (t :: l)) -> False.
Proof.
  intros Hf Hn H. cbn [filter] in H. rewrite Hn in H. inversion H; subst. congruence.
Qed.

Ltac eseq' :=
  match goal with
  | H : hgen _ (ESeq _ (ESeq ESkip _)) _ _ _ _ _ |- _ =>
      inversion H; clear H; subst;
      match goal with H2 : hgen _ (ESeq ESkip _) _ _ _ _ _ |- _ =>
        inversion H2; clear H2; subst;
        match goal with H3 : hgen _ ESkip _ _ _ _ _ |- _ =>
          let L := fresh "Lsk" in apply hskip in H3; destruct H3 as [-> L] end end
  end.

(* a block alternative: its first token is a block start tag *)
Ltac block_absurd HP Hshape :=
  match goal with H : hgen _ (ERef ?r) _ _ _ _ _ |- _ =>
    match r with
    | R_helper_block_start => idtac | R_raw_block_start => idtac
    | R_decorator_block_start => idtac | R_partial_block_start => idtac
    end;
    destruct (Hshape _ _ _ _ H) as (ch1 & -> & _ & _); exfalso;
    rewrite ?flats_app', ?flats_cons', ?flat_node' in HP; cbn [app] in HP;
    eapply flat_head_false; [| |exact HP]; reflexivity
  end.

Lemma flat_one f p p' F lo :
  hgen f ITEM ANon false p p' F -> lo <= p ->
  Forall (fun x => flat_tok x = true) (fl (flats F)) ->
  fitem lo p' (fl (flats F)).
Proof.
  intros H Hlo HP. unfold ITEM in H. gen_inv.
  - match goal with H : hgen _ (ERef R_raw_text) _ _ _ _ _ |- _ =>
      destruct (raw_text_shape _ _ _ _ H) as (-> & L1) end.
    apply fi_raw; [exact Hlo | exact L1].
  - eapply fsimple_item; try eassumption;
      [left; reflexivity | exact tag_expression | vm_compute; reflexivity | vm_compute; reflexivity].
  - eapply fsimple_item; try eassumption;
      [right; left; reflexivity | exact tag_html_expression | vm_compute; reflexivity | vm_compute; reflexivity].
  - match goal with H : hgen _ (ERef R_helper_block) _ _ _ _ _ |- _ => gen_ref H end.
    repeat eseq'. block_absurd HP tag_helper_block_start.
  - match goal with H : hgen _ (ERef R_raw_block) _ _ _ _ _ |- _ => gen_ref H end.
    repeat eseq'. block_absurd HP tag_raw_block_start.
  - eapply fcomment_item; try eassumption;
      [left; reflexivity | reflexivity | vm_compute; reflexivity | vm_compute; reflexivity].
  - eapply fcomment_item; try eassumption;
      [right; reflexivity | reflexivity | vm_compute; reflexivity | vm_compute; reflexivity].
  - eapply fsimple_item; try eassumption;
      [right; right; left; reflexivity | exact tag_decorator_expression | vm_compute; reflexivity | vm_compute; reflexivity].
  - match goal with H : hgen _ (ERef R_decorator_block) _ _ _ _ _ |- _ => gen_ref H end.
    unfold e_seq in *. repeat eseq'. block_absurd HP tag_decorator_block_start.
  - eapply fsimple_item; try eassumption;
      [right; right; right; reflexivity | exact tag_partial_expression | vm_compute; reflexivity | vm_compute; reflexivity].
  - match goal with H : hgen _ (ERef R_partial_block) _ _ _ _ _ |- _ => gen_ref H end.
    unfold e_seq in *. repeat eseq'. block_absurd HP tag_partial_block_start.
Qed.

Lemma fitem_lt lo e a : fitem lo e a -> lo < e.
Proof. intros H; inversion H; lia. Qed.

Lemma Forall_fl_app (P : tok -> Prop) (F1 F2 : list tr) :
  Forall P (fl (flats (F1 ++ F2))) -> Forall P (fl (flats F1)) /\ Forall P (fl (flats F2)).
Proof. rewrite flats_app', fl_app. apply Forall_app. Qed.

Lemma flat_rep : forall f p p' F lo,
  hgen f (ERepTail ITEM) ANon false p p' F -> lo <= p ->
  Forall (fun x => flat_tok x = true) (fl (flats F)) ->
  exists hi, fitems lo hi (fl (flats F)) /\ lo <= hi /\ hi <= p'.
Proof.
  induction f as [|f IH]; intros p p' F lo H Hlo HP; inversion H; clear H; subst.
  - exists lo. rewrite flats_nil. cbn [filter]. split; [constructor | lia].
  - apply Forall_fl_app in HP. destruct HP as [HP1 HP2].
    match goal with H : hgen _ (ESeq ESkip ITEM) _ _ _ _ _ |- _ => inversion H; clear H; subst end.
    match goal with H : hgen _ ESkip _ _ _ _ _ |- _ => apply hskip in H; destruct H as [-> Ls] end.
    cbn [app] in HP1.
    match goal with H : hgen _ ITEM _ _ _ _ _ |- _ =>
      pose proof (hle _ _ _ _ _ _ _ H);
      eapply flat_one with (lo := lo) in H; [|lia|exact HP1] end.
    match goal with H : hgen _ (ERepTail ITEM) _ _ ?m _ _ |- _ =>
      pose proof (hle _ _ _ _ _ _ _ H);
      destruct (IH _ _ _ m H (N.le_refl _) HP2) as (hi & Hits & Ra & Rb) end.
    exists hi. cbn [app]. rewrite flats_app', fl_app.
    match goal with Hi : fitem _ _ _ |- _ => pose proof (fitem_lt _ _ _ Hi) end.
    split; [eapply fis_cons; eassumption | lia].
Qed.

Theorem flat_schema f p' F :
  hgen f (ERef R_handlebars) ANon false 0 p' F ->
  Forall (fun x => flat_tok x = true) (fl (flats F)) ->
  exists s e body hi,
    fl (flats F) = (R_template, s, e) :: body ++ [(R_EOI, p', p')] /\ fitems 0 hi body /\ hi <= p'.
Proof.
  intros H HP. gen_ref H. repeat eseq'.
  match goal with H : hgen _ (ERef R_EOI) _ _ _ _ _ |- _ => gen_ref H; gen_inv end.
  match goal with H : hgen _ (ERef R_template) _ _ _ _ _ |- _ =>
    pose proof (hle _ _ _ _ _ _ _ H) as Lt; gen_ref H end.
  fold ITEM in *.
  rewrite !flats_app', !fl_app in *. autorewrite with fl in *. cbn [app] in *.
  rewrite fl_cons_keep in * by reflexivity.
  cbn [filter]. change (not_escape (R_EOI, p', p')) with true. cbn iota.
  apply Forall_app in HP. destruct HP as [HP _]. inversion HP as [|x y _ HP']; subst. clear HP.
  match goal with H : hgen _ (EOpt _) _ _ _ _ _ |- _ => inversion H; clear H; subst end.
  - match goal with H : hgen _ (ESeq _ (ERepTail _)) _ _ _ _ _ |- _ => inversion H; clear H; subst end.
    rewrite flats_app', fl_app in *. apply Forall_app in HP'. destruct HP' as [HP1 HP2].
    match goal with H : hgen _ ITEM _ _ _ _ _ |- _ =>
      pose proof (hle _ _ _ _ _ _ _ H);
      eapply flat_one with (lo := 0) in H; [|lia|exact HP1] end.
    match goal with H : hgen _ (ERepTail ITEM) _ _ ?m _ _ |- _ =>
      pose proof (hle _ _ _ _ _ _ _ H);
      destruct (flat_rep _ _ _ _ m H (N.le_refl _) HP2) as (hi & Hits & Ra & Rb) end.
    do 4 eexists. split; [reflexivity|]. split; [eapply fis_cons; eassumption | lia].
  - do 4 eexists. split; [reflexivity|]. rewrite flats_nil. cbn [filter]. split; [constructor | lia].
Qed.

(* ================= Part 3: no `~` token, no `~` flag ================= *)
Lemma Suffix_Forall {A} (P : A -> Prop) (a b : list A) : Suffix a b -> Forall P b -> Forall P a.
Proof. intros [p ->] H. apply Forall_app in H. apply H. Qed.

Section Flags.
  Variable src : str.
  Definition NT (it : list tok) : Prop := Forall (fun t => is_tilde t = false) it.

  Lemma NT_tail t it : NT (t :: it) -> NT it.
  Proof. intros H; inversion H; assumption. Qed.

  Lemma sfx_ok {A} it (x : cres (A * list tok)) a it1 : sfx it x -> x = COk (a, it1) -> Suffix it1 it.
  Proof. intros H ->. exact H. Qed.

  Lemma expr_loop_flags : forall f it limit name ps hs bp pre pro e it',
    NT it -> expr_loop src f it limit name ps hs bp pre pro = COk (e, it') ->
    es_pre e = pre /\ es_pro e = pro.
  Proof.
    induction f as [|f IH]; intros it limit name ps hs bp pre pro e it' Hnt H; [discriminate|].
    rewrite CompileStages.expr_loop_S in H. cbv zeta in H.
    destruct it as [|p it0]; [inversion H; subst; split; reflexivity|].
    destruct (tk_end p <? limit); [|inversion H; subst; split; reflexivity].
    pose proof (NT_tail _ _ Hnt) as Hnt0.
    destruct (parsers_sfx src f) as (_ & _ & _ & HQP).
    destruct (arg_classify (tk_rule p)) eqn:Ea.
    - destruct (parse_param src f it0) as [[v it2]| | |] eqn:Ep; cbn [cbind] in H; try discriminate.
      eapply IH; [|exact H]. eapply Suffix_Forall; [|exact Hnt0].
      exact (sfx_ok _ _ _ _ (HQP it0) Ep).
    - destruct it0 as [|k it1]; [discriminate|].
      destruct (span_str src k _) as [key| | |]; cbn [cbind] in H; try discriminate.
      destruct (parse_param src f it1) as [[v it2]| | |] eqn:Ep; cbn [cbind] in H; try discriminate.
      eapply IH; [|exact H]. eapply Suffix_Forall; [|exact (NT_tail _ _ Hnt0)].
      exact (sfx_ok _ _ _ _ (HQP it1) Ep).
    - destruct (parse_block_param src it0 (tk_end p)) as [[b it2]| | |] eqn:Ep; cbn [cbind] in H;
        try discriminate.
      eapply IH; [|exact H]. unfold parse_block_param in Ep.
      destruct it0 as [|p1 it1]; [discriminate|].
      destruct (span_str src p1 _) as [n1| | |]; cbn [cbind] in Ep; try discriminate.
      destruct it1 as [|p2 it2']; [inversion Ep; subst; exact (NT_tail _ _ Hnt0)|].
      destruct (tk_end p2 <=? tk_end p).
      + destruct (span_str src p2 _) as [n2| | |]; cbn [cbind] in Ep; try discriminate.
        inversion Ep; subst. exact (NT_tail _ _ (NT_tail _ _ Hnt0)).
      + inversion Ep; subst. exact (NT_tail _ _ Hnt0).
    - (* a trailing tilde token: excluded *)
      exfalso. inversion Hnt as [|x y Hp _]; subst. unfold is_tilde in Hp.
      apply orb_false_iff in Hp. destruct Hp as [_ Hp].
      unfold is_rule in Hp. destruct p as [[r s0] e0]. cbn [tk_rule fst] in *.
      destruct r; cbn in Ea; try discriminate Ea. vm_compute in Hp. discriminate Hp.
    - eapply IH; [exact Hnt0 | exact H].
  Qed.

  Lemma parse_expression_flags f it limit e it' :
    NT it -> parse_expression src f it limit = COk (e, it') -> es_pre e = false /\ es_pro e = false.
  Proof.
    intros Hnt H. destruct f as [|f]; [discriminate|].
    rewrite CompileBase.parse_expression_S in H.
    destruct it as [|t0 it0]; [discriminate|].
    assert (Ht : is_rule R_leading_tilde_to_omit_whitespace t0 = false).
    { inversion Hnt as [|x y Hp _]; subst. unfold is_tilde in Hp. apply orb_false_iff in Hp. apply Hp. }
    rewrite Ht in H.
    destruct (parse_name src f (t0 :: it0)) as [[nm it2]| | |] eqn:En; cbn [cbind] in H; try discriminate.
    destruct (parsers_sfx src f) as (_ & _ & HQN & _).
    eapply expr_loop_flags; [|exact H].
    eapply Suffix_Forall; [|exact Hnt]. exact (sfx_ok _ _ _ _ (HQN _) En).
  Qed.
End Flags.

(* ================= Part 4: the loop on flat items ================= *)
Lemma raw_text_of_app a b : raw_text_of (a ++ b) = raw_text_of a ++ raw_text_of b.
Proof. unfold raw_text_of. rewrite map_app, concat_app. reflexivity. Qed.

Lemma raw_text_of_raw s : raw_text_of [ElRaw s] = s.
Proof. unfold raw_text_of. cbn. apply app_nil_r. Qed.

Lemma t_els_push T el lc : t_els (t_push T el lc) = t_els T ++ [el].
Proof. destruct T. reflexivity. Qed.

Lemma t_els_set_name T n : t_els (t_set_name T n) = t_els T.
Proof. destruct T. reflexivity. Qed.

Lemma firstn_add {A} (n m : nat) (l : list A) :
  firstn (n + m) l = firstn n l ++ firstn m (skipn n l).
Proof.
  revert l. induction n as [|n IH]; intros l; [reflexivity|].
  destruct l as [|x l]; cbn [Nat.add firstn skipn app]; [rewrite firstn_nil; reflexivity|].
  rewrite IH. reflexivity.
Qed.

Lemma skipn_add {A} (n m : nat) (l : list A) : skipn (n + m) l = skipn m (skipn n l).
Proof.
  revert l. induction n as [|n IH]; intros l; [reflexivity|].
  destruct l as [|x l]; cbn [Nat.add skipn]; [rewrite skipn_nil; reflexivity | apply IH].
Qed.

Section Cons.
  Variable src : str.
  Variable all : list tok.
  Variable opts : copts.
  Hypothesis Hesc : escapes_sorted all.

  Notation strip := (strip_tags src all).
  Notation SP := (Forall (span_ok src)).
  Notation PL := (Forall (fun t => plain_token src opts t = true)).

  Lemma gap_slice a b t : slice src a b = Some t -> gap src a b = t.
  Proof. unfold gap. intros ->. reflexivity. Qed.

  Lemma gap_same a : a <= len src -> gap src a a = [].
  Proof.
    intros H. destruct (slice_some src a a) as (t & E & L); [lia|exact H|].
    rewrite (gap_slice _ _ _ E). destruct t; [reflexivity|]. rewrite len_cons in L. lia.
  Qed.

  Lemma gap_split a b c : a <= b -> b <= c -> c <= len src ->
    gap src a b ++ gap src b c = gap src a c.
  Proof.
    intros H1 H2 H3. unfold gap, slice.
    replace (a <=? b) with true by (symmetry; apply N.leb_le; lia).
    replace (b <=? c) with true by (symmetry; apply N.leb_le; lia).
    replace (a <=? c) with true by (symmetry; apply N.leb_le; lia).
    replace (b <=? len src) with true by (symmetry; apply N.leb_le; lia).
    replace (c <=? len src) with true by (symmetry; apply N.leb_le; lia).
    cbn [andb].
    replace (N.to_nat (c - a)) with (N.to_nat (b - a) + N.to_nat (c - b))%nat by lia.
    rewrite firstn_add. f_equal. f_equal.
    rewrite <- skipn_add. f_equal. lia.
  Qed.

  Lemma strip_kids l rest pe0 : Forall kid_tok l -> strip (l ++ rest) pe0 = strip rest pe0.
  Proof.
    induction 1 as [|t l Ht _ IH]; [reflexivity|].
    cbn [app strip_tags]. unfold kid_tok in Ht. rewrite Ht. exact IH.
  Qed.

  (* the loop state between two flat items: one template on the stack, whose raw
     text so far is acc; no pending `~` / standalone flag *)
  Definition Inv (c : cstate) (acc : str) (lo : N) : Prop :=
    St 1 0 0 lo c /\ (exists T, c_ts c = [T] /\ raw_text_of (t_els T) = acc) /\
    c_omit c = false /\ c_trim c = false.

  Definition KK (rest : list tok) (hi : N) : Prop :=
    forall fuel c t acc, main_loop src all opts fuel c rest = COk t -> Inv c acc hi ->
      raw_text_of (t_els t) = acc ++ strip rest hi.

  Lemma loop_inv fuel c pr it t : main_loop src all opts fuel c (pr :: it) = COk t ->
    exists f c' it', fuel = S f /\ step src all opts f c pr it = COk (c', it')
                     /\ main_loop src all opts f c' it' = COk t.
  Proof.
    destruct fuel as [|f]; [discriminate|]. rewrite main_loop_S.
    destruct (step src all opts f c pr it) as [[c' it']| | |] eqn:E; cbn [cbind]; try discriminate.
    intros H. exists f, c', it'. auto.
  Qed.

  Lemma okres_ok {A} (P : A -> Prop) x a : okres P x -> x = COk a -> P a.
  Proof. intros H ->. exact H. Qed.

  Lemma Inv_pe c acc lo : Inv c acc lo -> prev_end c = lo.
  Proof. intros [[_ E] _]. exact E. Qed.

  (* the pre-step in front of a tag: the skipped text is appended *)
  Lemma tr_inv c pr lc c1 acc lo :
    trailing_string src c pr lc = COk c1 -> Inv c acc lo ->
    lo <= tk_start pr -> tk_start pr <= len src ->
    rule_eqb (tk_rule pr) R_template = false -> rule_eqb (tk_rule pr) R_raw_text = false ->
    rule_eqb (tk_rule pr) R_raw_block_text = false -> rule_eqb (tk_rule pr) R_raw_block_end = false ->
    (exists T1, c_ts c1 = [T1] /\ raw_text_of (t_els T1) = acc ++ gap src lo (tk_start pr)) /\
    c_omit c1 = false /\ c_trim c1 = false.
  Proof.
    intros H HI Hlo Hlen R1 R2 R3 R4. pose proof (Inv_pe _ _ _ HI) as Epe.
    destruct HI as (_ & (T & ET & EA) & Eo & Et).
    destruct (trailing_string_spec src c pr lc c1 H) as (Ao & _ & _ & _ & Hf).
    destruct (trailing_fires c pr) eqn:Ef.
    - destruct Hf as (_ & Et1 & txt & Es & Hp). unfold trailing_push in Hp. rewrite R4 in Hp.
      destruct Hp as (t0 & r0 & E0 & E1). rewrite ET in E0. inversion E0; subst t0 r0.
      rewrite Et in E1. unfold ws_text in E1. rewrite Epe in Es.
      split; [|split; [congruence | exact Et1]].
      eexists. split; [exact E1|]. rewrite t_els_push, raw_text_of_app, raw_text_of_raw, EA.
      rewrite (gap_slice _ _ _ Es). reflexivity.
    - subst c1. split; [|split; assumption].
      exists T. split; [exact ET|].
      unfold trailing_fires in Ef. fold (prev_end c) in Ef. rewrite Epe, R1, R2, R3, Eo in Ef.
      cbn [negb andb] in Ef. rewrite !andb_true_r in Ef. apply negb_false_iff, N.eqb_eq in Ef.
      rewrite Ef, gap_same, app_nil_r by lia. exact EA.
  Qed.

  Lemma standalone_false_sa pr ip pi : standalone src pr ip = false ->
    line_end_after src pr ip && (pi && line_start_before src pr) = false.
  Proof.
    unfold standalone. destruct (line_end_after src pr ip); [|reflexivity].
    destruct (line_start_before src pr); [rewrite orb_true_r; discriminate|].
    intros _. rewrite andb_false_r. reflexivity.
  Qed.

  (* raw text *)
  Lemma item_raw lo s e rest : lo <= s -> span_ok src (R_raw_text, s, e) ->
    KK rest e -> KK ((R_raw_text, s, e) :: rest) lo.
  Proof.
    intros Hlo Hsp HK fuel c t acc H HI.
    destruct (loop_inv _ _ _ _ _ H) as (f & c' & it' & -> & Es & Hl).
    pose proof (okres_ok _ _ _ (step_raw_text src all opts Hesc f c s e rest 1 0 0 lo
                                  (proj1 HI) (le_n _) Hlo Hsp) Es) as [E1 E2].
    cbn [fst snd] in E1, E2. subst it'.
    destruct (step_ws src all opts _ _ _ _ _ _ Es) as (c1 & Htr & Hw). cbv zeta in Hw.
    cbn [tk_rule fst snd tag_classify] in Hw.
    destruct Hw as (txt & s0 & t0 & r0 & Esl & Eun & Ets1 & Ets' & Eo' & Et' & _).
    destruct (trailing_string_spec src c _ _ c1 Htr) as (_ & _ & _ & _ & Hf).
    pose proof (trailing_fires_text c (R_raw_text, s, e)) as Hff.
    cbn [tk_rule fst snd tag_classify] in Hff. rewrite Hff in Hf. subst c1.
    pose proof (Inv_pe _ _ _ HI) as Epe. destruct HI as (_ & (T & ET & EA) & Eo & Et).
    rewrite ET in Ets1. inversion Ets1; subst t0 r0.
    rewrite Eo, Et in Ets'. unfold ws_text in Ets'. rewrite Epe in Esl. cbn [tk_end snd] in Esl.
    specialize (HK f c' t (acc ++ s0) Hl).
    rewrite HK.
    - cbn [strip_tags tk_rule tk_end fst snd tag_classify]. rewrite (gap_slice _ _ _ Esl).
      unfold unesc. rewrite Eun. rewrite app_assoc. reflexivity.
    - split; [exact E2|]. split; [|split; [congruence | exact Et']].
      eexists. split; [exact Ets'|]. rewrite t_els_push, raw_text_of_app, raw_text_of_raw, EA. reflexivity.
  Qed.

  Lemma simple_tag_rules r : simple_tag r ->
    rule_eqb r R_template = false /\ rule_eqb r R_raw_text = false /\
    rule_eqb r R_raw_block_text = false /\ rule_eqb r R_raw_block_end = false.
  Proof. intros [E | [E | [E | E]]]; subst r; repeat split; reflexivity. Qed.

  Lemma NT_of_PL l : PL l -> NT l.
  Proof.
    intros H. eapply Forall_impl; [|exact H]. intros t Ht. unfold plain_token in Ht.
    apply andb_true_iff in Ht. destruct Ht as [Ht _].
    apply andb_true_iff in Ht. destruct Ht as [Ht _]. apply negb_true_iff in Ht. exact Ht.
  Qed.

  (* {{x}} {{{x}}} {{&x}} {{> p}} {{* d}} *)
  Lemma item_tag lo r s e l rest :
    simple_tag r -> lo <= s -> span_ok src (r, s, e) -> tag_toks e l -> SP l -> Forall kid_tok l ->
    plain_token src opts (r, s, e) = true -> NT (l ++ rest) -> next_ge e rest ->
    KK rest e -> KK ((r, s, e) :: l ++ rest) lo.
  Proof.
    intros Hr Hlo Hsp Ht Hsl Hkid Hpl Hnt Hnx HK fuel c t acc H HI.
    destruct (loop_inv _ _ _ _ _ H) as (f & c' & it' & -> & Es & Hl).
    destruct (simple_tag_rules r Hr) as (R1 & R2 & R3 & R4).
    destruct (step_ws src all opts _ _ _ _ _ _ Es) as (c1 & Htr & Hw). cbv zeta in Hw.
    cbn [tk_rule tk_start fst snd] in Hw, Htr.
    destruct Hsp as [Hse Hel]. cbn [tk_start tk_end fst snd] in Hse, Hel.
    destruct (tr_inv c (r, s, e) _ c1 acc lo Htr HI) as ((T1 & ET1 & EA1) & Eo1 & Et1);
      try assumption; [cbn; lia|].
    cbn [tk_start fst snd] in EA1.
    assert (Hstrip : strip ((r, s, e) :: l ++ rest) lo = gap src lo s ++ strip rest e).
    { cbn [strip_tags tk_rule tk_start tk_end fst snd].
      destruct Hr as [E | [E | [E | E]]]; subst r; cbn [tag_classify]; rewrite strip_kids by assumption;
        reflexivity. }
    rewrite Hstrip, app_assoc. 
    destruct (simple_tag_class r Hr) as (b & [Hc | Hc]).
    - (* value expression *)
      pose proof (okres_ok _ _ _ (step_value src all opts f c r s e l rest 1 0 0 lo b Hc
                    (proj1 HI) (le_n _) Hlo (conj Hse Hel) Ht Hsl Hnx) Es) as [E1 E2].
      cbn [fst snd] in E1, E2. subst it'.
      rewrite Hc in Hw. destruct Hw as (e0 & Hex & Eo' & Et' & Hown).
      unfold tag_expr in Hex. cbn [tk_rule tk_end fst snd] in Hex. rewrite Hc in Hex.
      destruct (parse_expression_flags src _ _ _ _ _ Hnt Hex) as [Epre Epro].
      rewrite Epre in Hown. rewrite tag_ws_stack_id in Hown by exact I.
      destruct Hown as (t0 & r0 & h & E0 & E').
      rewrite ET1 in E0. inversion E0; subst t0 r0.
      apply (HK f c' t _ Hl).
      split; [exact E2|]. split; [|split; congruence].
      eexists. split; [exact E'|]. rewrite t_els_push, raw_text_of_app, EA1.
      destruct b; unfold raw_text_of; cbn; rewrite app_nil_r; reflexivity.
    - (* decorator / partial expression *)
      pose proof (okres_ok _ _ _ (step_deco_expr src all opts f c r s e l rest 1 0 0 lo b Hc
                    (proj1 HI) (le_n _) Hlo (conj Hse Hel) Ht Hsl Hnx) Es) as [E1 E2].
      cbn [fst snd] in E1, E2. subst it'.
      rewrite Hc in Hw. destruct Hw as (e0 & Hex & Eo' & Et' & Hown).
      unfold tag_expr in Hex. cbn [tk_rule tk_end fst snd] in Hex. rewrite Hc in Hex.
      destruct (parse_expression_flags src _ _ _ _ _ Hnt Hex) as [Epre Epro].
      assert (Hsa : standalone src (r, s, e) (o_is_partial opts) = false).
      { unfold plain_token in Hpl. cbn [tk_rule fst] in Hpl. rewrite Hc in Hpl.
        apply andb_true_iff in Hpl. destruct Hpl as [_ Hpl]. apply negb_true_iff in Hpl. exact Hpl. }
      rewrite Epre in Hown. rewrite tag_ws_stack_id in Hown
        by (cbn [standalone_capable]; apply standalone_false_sa; exact Hsa).
      destruct Hown as (t0 & r0 & d0 & E0 & E').
      rewrite ET1 in E0. inversion E0; subst t0 r0.
      apply (HK f c' t _ Hl).
      split; [exact E2|]. split; [|split; congruence].
      eexists. split; [exact E'|]. rewrite t_els_push, raw_text_of_app, EA1.
      destruct b; unfold raw_text_of; cbn; rewrite app_nil_r; reflexivity.
  Qed.

  (* comments *)
  Lemma item_comment lo r s e rest :
    comment_rule r -> lo <= s -> span_ok src (r, s, e) ->
    plain_token src opts (r, s, e) = true ->
    KK rest e -> KK ((r, s, e) :: rest) lo.
  Proof.
    intros Hr Hlo Hsp Hpl HK fuel c t acc H HI.
    destruct (loop_inv _ _ _ _ _ H) as (f & c' & it' & -> & Es & Hl).
    destruct (step_ws src all opts _ _ _ _ _ _ Es) as (c1 & Htr & Hw). cbv zeta in Hw.
    cbn [tk_rule tk_start fst snd] in Hw, Htr.
    destruct Hsp as [Hse Hel]. cbn [tk_start tk_end fst snd] in Hse, Hel.
    assert (exists compact, tag_classify r = KComment compact) as (compact & Hc)
      by (destruct Hr as [-> | ->]; eexists; reflexivity).
    destruct (tr_inv c (r, s, e) _ c1 acc lo Htr HI) as ((T1 & ET1 & EA1) & Eo1 & Et1);
      try assumption; try (cbn; lia); try (destruct Hr as [-> | ->]; reflexivity).
    cbn [tk_start fst snd] in EA1.
    pose proof (okres_ok _ _ _ (step_comment src all opts f c r s e rest 1 0 0 lo compact Hc
                  (proj1 HI) (le_n _) Hlo (conj Hse Hel)) Es) as [E1 E2].
    cbn [fst snd] in E1, E2. subst it'.
    rewrite Hc in Hw. destruct Hw as (Eo' & Et' & Hown & _).
    assert (Hsa : standalone src (r, s, e) (o_is_partial opts) = false).
    { unfold plain_token in Hpl. cbn [tk_rule fst] in Hpl. rewrite Hc in Hpl.
      apply andb_true_iff in Hpl. destruct Hpl as [_ Hpl]. apply negb_true_iff in Hpl. exact Hpl. }
    rewrite tag_ws_stack_id in Hown
      by (cbn [standalone_capable]; apply standalone_false_sa; exact Hsa).
    destruct Hown as (t0 & r0 & s0 & E0 & E').
    rewrite ET1 in E0. inversion E0; subst t0 r0.
    assert (Hstrip : strip ((r, s, e) :: rest) lo = gap src lo s ++ strip rest e).
    { cbn [strip_tags tk_rule tk_start tk_end fst snd]. rewrite Hc. reflexivity. }
    rewrite Hstrip, app_assoc. apply (HK f c' t _ Hl).
    split; [exact E2|]. split; [|split; congruence].
    eexists. split; [exact E'|]. rewrite t_els_push, raw_text_of_app, EA1.
    unfold raw_text_of; cbn; rewrite app_nil_r; reflexivity.
  Qed.
End Cons.

(* ================= Part 5: the fold and compile2 ================= *)
Section Fold.
  Variable src : str.
  Variable all : list tok.
  Variable opts : copts.
  Hypothesis Hesc : escapes_sorted all.

  Notation strip := (strip_tags src all).
  Notation SP := (Forall (span_ok src)).
  Notation PL := (Forall (fun t => plain_token src opts t = true)).

  Lemma ffirst lo hi l : fitems lo hi l ->
    lo <= hi /\ forall rest, first_ge hi rest -> first_ge lo (l ++ rest).
  Proof.
    induction 1 as [lo|lo mid hi a rest0 Ha Hr [IH1 IH2]].
    - split; [lia | intros rest H; exact H].
    - pose proof (fitem_lt _ _ _ Ha). split; [lia|]. intros rest Hf.
      inversion Ha; subst; cbn [app first_ge tk_start tk_end fst snd]; lia.
  Qed.

  Lemma floop lo hi l : fitems lo hi l -> forall rest,
    SP l -> PL l -> PL rest -> first_ge hi rest -> KK src all opts rest hi -> KK src all opts (l ++ rest) lo.
  Proof.
    induction 1 as [lo|lo mid hi a rest0 Ha Hr IH]; intros rest Hs Hp Hpr Hf HK; [exact HK|].
    apply Forall_app in Hs. destruct Hs as [Hsa Hsr].
    apply Forall_app in Hp. destruct Hp as [Hpa Hp0].
    rewrite <- app_assoc.
    assert (HK' : KK src all opts (rest0 ++ rest) mid) by (apply IH; assumption).
    assert (Hf' : first_ge mid (rest0 ++ rest)) by (apply (ffirst _ _ _ Hr); exact Hf).
    assert (Hnt : NT (rest0 ++ rest)).
    { apply (NT_of_PL src opts). apply Forall_app. split; assumption. }
    inversion Ha; subst.
    - cbn [app]. inversion Hsa; subst. apply item_raw; try assumption.
    - rewrite <- app_comm_cons. inversion Hsa; subst. inversion Hpa; subst.
      apply item_tag; try assumption.
      + apply Forall_app. split; [|exact Hnt]. apply (NT_of_PL src opts). assumption.
      + apply first_ge_next. exact Hf'.
    - cbn [app]. inversion Hsa; subst. inversion Hpa; subst. apply item_comment; assumption.
  Qed.

  (* the end of the token list: EOI, then the tail of the source *)
  Lemma KK_eoi hi p : hi <= p -> p <= len src -> KK src all opts [(R_EOI, p, p)] hi.
  Proof.
    intros Hhi Hp fuel c t acc H HI.
    destruct (loop_inv _ _ _ _ _ _ _ _ H) as (f & c' & it' & -> & Es & Hl).
    destruct (step_ws src all opts _ _ _ _ _ _ Es) as (c1 & Htr & Hw). cbv zeta in Hw.
    cbn [tk_rule tk_start fst snd tag_classify] in Hw, Htr.
    destruct Hw as (Eo' & Et' & Ets' & ->).
    destruct (tr_inv src c (R_EOI, p, p) _ c1 acc hi Htr HI) as ((T1 & ET1 & EA1) & Eo1 & Et1);
      try reflexivity; try (cbn; lia).
    cbn [tk_start fst snd] in EA1.
    assert (Hce : c_end c' = Some p).
    { assert (Hne : tag_classify (tk_rule (R_EOI, p, p)) <> KTemplate) by (cbn; discriminate).
      exact (step_c_end src all opts _ _ _ _ _ _ Hne Es). }
    destruct f as [|f]; [discriminate|]. cbn [main_loop] in Hl. rewrite Hce in Hl.
    cbn [strip_tags tk_rule fst snd tag_classify].
    rewrite <- (gap_split src hi p (len src)) by lia. rewrite app_assoc, <- EA1.
    rewrite Ets', ET1 in Hl.
    destruct (p <? len src) eqn:Elt.
    - destruct (slice_some src p (len src)) as (txt & Esl & _); [lia|lia|].
      rewrite Esl in Hl. cbn [push_front_el cbind] in Hl. inversion Hl; subst t.
      rewrite t_els_set_name, t_els_push, raw_text_of_app, raw_text_of_raw.
      rewrite (gap_slice _ _ _ _ Esl). reflexivity.
    - cbn [cbind] in Hl. inversion Hl; subst t. apply N.ltb_ge in Elt.
      assert (p = len src) by lia. subst p.
      rewrite t_els_set_name, gap_same, app_nil_r by lia. reflexivity.
  Qed.

  Theorem main_loop_flat s e body hi p t fuel :
    fitems 0 hi body -> hi <= p -> p <= len src ->
    SP ((R_template, s, e) :: body ++ [(R_EOI, p, p)]) ->
    PL ((R_template, s, e) :: body ++ [(R_EOI, p, p)]) ->
    main_loop src all opts fuel init_cstate ((R_template, s, e) :: body ++ [(R_EOI, p, p)]) = COk t ->
    raw_text_of (t_els t) = strip ((R_template, s, e) :: body ++ [(R_EOI, p, p)]) 0.
  Proof.
    intros Hit Hhi Hp Hs Hpl H.
    destruct (loop_inv _ _ _ _ _ _ _ _ H) as (f & c' & it' & -> & Es & Hl).
    assert (St0 : St 0 0 0 0 init_cstate) by (split; [repeat split; constructor | reflexivity]).
    pose proof (okres_ok _ _ _ (step_template src all opts f init_cstate s e _ 0 0 0 0 St0) Es) as [E1 E2].
    cbn [fst snd] in E1, E2. subst it'.
    destruct (step_ws src all opts _ _ _ _ _ _ Es) as (c1 & Htr & Hw). cbv zeta in Hw.
    cbn [tk_rule tk_start fst snd tag_classify] in Hw, Htr.
    destruct Hw as (Eo' & Et' & Ets' & _).
    destruct (trailing_string_spec src _ _ _ c1 Htr) as (_ & _ & _ & _ & Hf).
    pose proof (trailing_fires_text init_cstate (R_template, s, e)) as Hff.
    cbn [tk_rule fst snd tag_classify] in Hff. rewrite Hff in Hf. subst c1.
    cbn [init_cstate c_ts c_omit c_trim] in Eo', Et', Ets'.
    inversion Hs as [|x y _ Hs']; subst. inversion Hpl as [|x y _ Hpl']; subst.
    apply Forall_app in Hs'. destruct Hs' as [Hsb _].
    apply Forall_app in Hpl'. destruct Hpl' as [Hpb Hpe].
    cbn [strip_tags tk_rule fst snd tag_classify].
    change (strip (body ++ [(R_EOI, p, p)]) 0) with ([] ++ strip (body ++ [(R_EOI, p, p)]) 0).
    eapply (floop 0 hi body Hit [(R_EOI, p, p)]); try eassumption.
    - cbn [first_ge tk_start tk_end fst snd]. lia.
    - apply KK_eoi; assumption.
    - split; [exact E2|]. split; [|split; assumption].
      exists t_empty. split; [exact Ets' | reflexivity].
  Qed.
End Fold.

Lemma PL_of_flat src opts ts : flat_plain src opts ts = true ->
  Forall (fun t => plain_token src opts t = true) ts.
Proof. unfold flat_plain. intros H. apply Forall_forall. apply forallb_forall. exact H. Qed.

Lemma plain_flat src opts t : plain_token src opts t = true -> flat_tok t = true.
Proof.
  unfold plain_token. intros H. apply andb_true_iff in H. destruct H as [H _].
  apply andb_true_iff in H. apply H.
Qed.

Lemma Forall_filter {A} (P : A -> Prop) (f : A -> bool) l : Forall P l -> Forall P (filter f l).
Proof.
  intros H. apply Forall_forall. intros x Hx. apply filter_In in Hx. rewrite Forall_forall in H.
  apply H. apply Hx.
Qed.

(* C03 (a): the raw text of the compiled template of a flat, plain source *)
Theorem conservation_flat : forall src opts ts t,
  hb_parse (peg_fuel src) R_handlebars src = Parsed ts ->
  flat_plain src opts ts = true ->
  compile2 src opts = COk t ->
  raw_text_of (t_els t) = strip_tags src ts (filter not_escape ts) 0.
Proof.
  intros src opts ts t Hp Hfl Hc.
  rewrite compile2_unfold in Hc. 
  pose proof (hb_parse_spans _ _ _ _ Hp) as Hsp.
  pose proof (hb_parse_wf _ _ _ Hp) as [_ Hesc].
  revert Hp Hc. generalize (peg_fuel src). intros pf Hp Hc. rewrite Hp in Hc.
  unfold compile_tokens in Hc. fold not_escape in Hc.
  change (fun t0 : tok => negb (is_rule R_escape t0)) with not_escape in Hc.
  rewrite hb_parse_unfold in Hp. unfold parse in Hp.
  destruct (eval rule hb_defs hb_ws pf (ERef R_handlebars) ANon false src 0) as [pos rest ts0| |] eqn:E;
    try discriminate.
  inversion Hp; subst ts0.
  destruct (eval_gen rule hb_defs hb_ws hb_RP hb_RP_holds _ _ _ _ _ _ _ _ _ E) as (F & -> & G).
  pose proof (PL_of_flat _ _ _ Hfl) as Hpl.
  assert (Hft : Forall (fun x => flat_tok x = true) (fl (flats F))).
  { apply Forall_filter. eapply Forall_impl; [|exact Hpl]. intros a Ha. eapply plain_flat; exact Ha. }
  destruct (flat_schema _ _ _ G Hft) as (s & e & body & hi & Efl & Hit & Hhi).
  rewrite Efl in *.
  assert (Hsp' : Forall (span_ok src) ((R_template, s, e) :: body ++ [(R_EOI, pos, pos)])).
  { rewrite <- Efl. apply Forall_filter. exact Hsp. }
  assert (Hpl' : Forall (fun t => plain_token src opts t = true) ((R_template, s, e) :: body ++ [(R_EOI, pos, pos)])).
  { rewrite <- Efl. apply Forall_filter. exact Hpl. }
  assert (Hpos : pos <= len src).
  { inversion Hsp' as [|x y _ Hy]; subst. apply Forall_app in Hy. destruct Hy as [_ Hy].
    inversion Hy as [|x' y' [_ Hx'] _]; subst. exact Hx'. }
  eapply main_loop_flat; eassumption.
Qed.

(* ================= the tiling of the source by the main-level tokens ================= *)
Lemma main_spans_kids l rest : Forall kid_tok l -> main_spans (l ++ rest) = main_spans rest.
Proof.
  induction 1 as [|t l Ht _ IH]; [reflexivity|].
  cbn [app main_spans]. unfold kid_tok in Ht. rewrite Ht. exact IH.
Qed.

(* ================= rendering: tags that write nothing ================= *)
Lemma render_raw_text reg data ft f : forall els i st,
  s_indent st = None -> o_fail_at (s_out st) = None -> (1 <= f)%nat ->
  (forall el st', In el els -> match el with ElRaw _ => True
                                | _ => render_element reg data ft f el st' = ROk tt st' end) ->
  forall attach,
  exists st', fold_idx (fun e idx s' => rmap_err (render_element reg data ft f e s') (attach idx)) els i st
              = ROk tt st'
    /\ out_text (s_out st') = out_text (s_out st) ++ raw_text_of els
    /\ s_current st' = s_current st.
Proof.
  induction els as [|el els IH]; intros i st Hi Hf Hfuel Hsil attach.
  - exists st. cbn [fold_idx]. unfold raw_text_of. cbn. rewrite app_nil_r. auto.
  - cbn [fold_idx].
    assert (Hsil' : forall el0 st', In el0 els -> match el0 with ElRaw _ => True
              | _ => render_element reg data ft f el0 st' = ROk tt st' end)
      by (intros el0 st' Hin; apply Hsil; right; exact Hin).
    assert (Hstep : exists st1, render_element reg data ft f el st = ROk tt st1
              /\ out_text (s_out st1) = out_text (s_out st) ++ raw_text_of [el]
              /\ o_fail_at (s_out st1) = None /\ s_indent st1 = None /\ s_current st1 = s_current st).
    { pose proof (Hsil el st (or_introl eq_refl)) as Hel.
      destruct el; try solve [exists st; unfold raw_text_of; cbn [map concat app]; rewrite app_nil_r; repeat split; auto].
      destruct (raw_element_writes reg data ft f s st Hi Hf Hfuel) as (st1 & E1 & T1 & F1 & I1).
      exists st1. rewrite raw_text_of_raw. repeat split; try assumption.
      destruct f as [|f']; [lia|]. cbn [render_element] in E1.
      unfold indent_aware_write in E1. destruct s as [|c0 r0]; [inversion E1; reflexivity|].
      set (s1 := set_content_produced st true) in *.
      assert (Hi1 : s_indent s1 = None) by exact Hi. rewrite Hi1 in E1.
      replace (if negb (first_is is_newline (c0 :: r0)) && s_indent_before_write s1 then ROk tt s1 else ROk tt s1)
        with (@ROk unit tt s1) in E1 by (destruct (negb _ && _); reflexivity).
      cbn [rbind] in E1. rewrite Hi1 in E1. unfold out_write in E1.
      assert (Hf1 : o_fail_at (s_out s1) = None) by exact Hf. rewrite Hf1 in E1.
      cbn [rbind] in E1. inversion E1. reflexivity. }
    destruct Hstep as (st1 & E1 & T1 & F1 & I1 & C1). rewrite E1. cbn [rmap_err rbind].
    destruct (IH (S i) st1 I1 F1 Hfuel Hsil' attach) as (st' & E' & T' & C').
    exists st'. split; [exact E'|]. split; [|congruence].
    rewrite T', T1, <- app_assoc. f_equal.
    change (el :: els) with ([el] ++ els). rewrite raw_text_of_app. reflexivity.
Qed.

Theorem render_silent_tags reg data ft f t st :
  s_indent st = None -> o_fail_at (s_out st) = None -> (1 <= f)%nat ->
  (forall el st', In el (t_els t) -> match el with ElRaw _ => True
                                | _ => render_element reg data ft f el st' = ROk tt st' end) ->
  exists st', render_template reg data ft (S f) t st = ROk tt st'
    /\ out_text (s_out st') = out_text (s_out st) ++ raw_text_of (t_els t).
Proof.
  intros Hi Hf Hfuel Hsil. rewrite render_template_S.
  destruct (render_raw_text reg data ft f (t_els t) O (set_current st (t_name t)) Hi Hf Hfuel Hsil
              (attach_render t)) as (st' & E & T & _).
  rewrite E. cbn [rbind]. eexists. split; [reflexivity|]. exact T.
Qed.

(* ================= the hypotheses are satisfiable ================= *)
Definition cf_src : str := `"a {{x}} b \{{c}} {{!n}} d{{> p}} {{{y 1}}}e".
Example conservation_flat_example :
  exists ts t, hb_parse (peg_fuel cf_src) R_handlebars cf_src = Parsed ts /\
    flat_plain cf_src default_opts ts = true /\
    compile2 cf_src default_opts = COk t /\
    raw_text_of (t_els t) = `"a  b {{c}}  d e".
Proof. vm_compute. do 2 eexists. repeat split; reflexivity. Qed.

Example render_silent_example : forall reg data ft root dev,
  let t := MkT None [ElRaw (`"a"); ElComment (`"n"); ElRaw (`"b")] [] in
  s_indent (st_init root dev None) = None /\ o_fail_at (s_out (st_init root dev None)) = None /\
  (forall el st', In el (t_els t) -> match el with ElRaw _ => True
                                | _ => render_element reg data ft 1 el st' = ROk tt st' end).
Proof.
  intros. split; [reflexivity|]. split; [reflexivity|].
  intros el st' [<- | [<- | [<- | []]]]; try exact I. reflexivity.
Qed.

(* conservation + silent tags: the rendered output *)
Theorem conservation_flat_renders : forall src opts ts t reg data ft f root dev,
  hb_parse (peg_fuel src) R_handlebars src = Parsed ts ->
  flat_plain src opts ts = true ->
  compile2 src opts = COk t ->
  (1 <= f)%nat ->
  (forall el st', In el (t_els t) -> match el with ElRaw _ => True
                                | _ => render_element reg data ft f el st' = ROk tt st' end) ->
  exists st', render_template reg data ft (S f) t (st_init root dev None) = ROk tt st'
    /\ out_text (s_out st') = strip_tags src ts (filter not_escape ts) 0.
Proof.
  intros src opts ts t reg data ft f root dev Hp Hfl Hc Hf Hsil.
  destruct (render_silent_tags reg data ft f t (st_init root dev None) eq_refl eq_refl Hf Hsil)
    as (st' & E & T).
  exists st'. split; [exact E|]. rewrite T. rewrite (conservation_flat _ _ _ _ Hp Hfl Hc). reflexivity.
Qed.

(* without escape tokens the stripped text consists of plain slices of src *)
Lemma strip_tags_no_escape src all : (forall t, In t all -> is_rule R_escape t = false) ->
  forall it pe0, strip_tags src all it pe0 = strip_tags_plain src it pe0.
Proof.
  intros Hne.
  assert (Hu : forall pr txt, unesc all pr txt = txt).
  { intros pr txt. unfold unesc, unescape.
    assert (E : inner_escapes all pr = []).
    { unfold inner_escapes. induction all as [|a l IH]; [reflexivity|]. cbn [filter].
      rewrite (Hne a (or_introl eq_refl)). cbn [andb]. apply IH. intros t Ht. apply Hne. right. exact Ht. }
    rewrite E. cbn [rev remove_escapes]. destruct (N.ltb _ _); reflexivity. }
  induction it as [|t r IH]; intros pe0; [reflexivity|].
  cbn [strip_tags strip_tags_plain]. rewrite Hu, !IH. reflexivity.
Qed.

(* ================= the tiling, for every source (blocks included) ================= *)
(* rules whose tokens the loop interprets as text or as a tag ("main" tokens) *)
Definition main_rule (r : rule) : bool :=
  match tag_classify r with KTemplate | KOtherRule => false | _ => true end.

Lemma main_rule_closed r : main_rule r = true -> refs_ok rule kid (snd (hb_defs r)) = true.
Proof. destruct r; vm_compute; intros H; first [reflexivity | discriminate H]. Qed.

Lemma main_rule_not_escape r : main_rule r = true -> not_escape (r, 0, 0) = true.
Proof. destruct r; vm_compute; intros H; first [reflexivity | discriminate H]. Qed.

Lemma tiles_weaken lo lo' H sp : lo <= lo' -> tiles lo' H sp -> tiles lo H sp.
Proof. destruct sp as [|[s e] r]; cbn [tiles]; intros; [lia | intuition lia]. Qed.

Lemma main_spans_fl_kids l rest : Forall (fun t => kid (tk_rule t) = true) l ->
  main_spans (fl l ++ rest) = main_spans rest.
Proof.
  intros H. apply main_spans_kids. apply Forall_filter.
  eapply Forall_impl; [|exact H]. intros t Ht. apply kid_other. exact Ht.
Qed.

Theorem gen_tiles : forall f e at_ q p p' F, hgen f e at_ q p p' F ->
  forall lo rest H, lo <= p -> tiles p' H (main_spans rest) ->
  tiles lo H (main_spans (fl (flats F) ++ rest)).
Proof.
  induction f as [|f IH]; intros e at_ q p p' F G lo rest H Hlo HT;
    pose proof (hle _ _ _ _ _ _ _ G) as Lpp;
    inversion G; subst;
    try (rewrite flats_nil; cbn [filter app]; eapply tiles_weaken; [|exact HT]; lia).
  - (* ref *)
    match goal with G0 : hgen f _ _ _ _ _ ?F0 |- _ => rename G0 into Gb end.
    unfold wrap. destruct (emits_k k at_ q); [|eapply IH; eassumption].
    rewrite flats_cons', flat_node', flats_nil, app_nil_r.
    destruct (main_rule r) eqn:Em.
    + pose proof (main_rule_closed r Em) as Hc.
      match goal with Hd : hb_defs r = (_, _) |- _ => rewrite Hd in Hc; cbn [snd] in Hc end.
      pose proof (closed_sound rule hb_defs hb_ws hb_RP kid kid_closed _ _ _ _ _ _ _ Hc Gb) as HF.
      cbn [filter]. replace (not_escape (r, p, p')) with true
        by (symmetry; pose proof (main_rule_not_escape r Em) as X; exact X).
      rewrite <- app_comm_cons. cbn [main_spans tk_rule tk_start tk_end fst snd].
      rewrite main_spans_fl_kids by exact HF.
      unfold main_rule in Em. destruct (tag_classify r); try discriminate Em;
        cbn [tiles]; repeat split; try lia; exact HT.
    + assert (Hskip : main_spans (fl ((r, p, p') :: flats F0) ++ rest)
                      = main_spans (fl (flats F0) ++ rest)).
      { cbn [filter]. destruct (not_escape (r, p, p')); [|reflexivity].
        rewrite <- app_comm_cons. cbn [main_spans tk_rule fst].
        unfold main_rule in Em. destruct (tag_classify r); try discriminate Em; reflexivity. }
      rewrite Hskip. eapply IH; eassumption.
  - (* seq *)
    rewrite flats_app', fl_app, <- app_assoc.
    match goal with G1 : hgen f ?a _ _ _ ?p1 _, G2 : hgen f ?b _ _ ?p1 _ _ |- _ =>
      pose proof (hle _ _ _ _ _ _ _ G1); pose proof (hle _ _ _ _ _ _ _ G2);
      eapply (IH _ _ _ _ _ _ G1); [exact Hlo|];
      eapply (IH _ _ _ _ _ _ G2); [apply N.le_refl | exact HT] end.
  - eapply IH; eassumption.
  - eapply IH; eassumption.
  - eapply IH; eassumption.
  - (* rep *)
    rewrite flats_app', fl_app, <- app_assoc.
    match goal with G1 : hgen f (ESeq ESkip _) _ _ _ ?p1 _, G2 : hgen f (ERepTail _) _ _ ?p1 _ _ |- _ =>
      pose proof (hle _ _ _ _ _ _ _ G1); pose proof (hle _ _ _ _ _ _ _ G2);
      eapply (IH _ _ _ _ _ _ G1); [exact Hlo|];
      eapply (IH _ _ _ _ _ _ G2); [apply N.le_refl | exact HT] end.
  - rewrite flats_app', fl_app, <- app_assoc.
    match goal with G1 : hgen f ?a _ _ _ ?p1 _, G2 : hgen f (ERepPlain _) _ _ ?p1 _ _ |- _ =>
      pose proof (hle _ _ _ _ _ _ _ G1); pose proof (hle _ _ _ _ _ _ _ G2);
      eapply (IH _ _ _ _ _ _ G1); [exact Hlo|];
      eapply (IH _ _ _ _ _ _ G2); [apply N.le_refl | exact HT] end.
  - (* skip *)
    match goal with G1 : hgen f _ _ true _ _ _ |- _ =>
      rewrite (gen_quiet _ _ _ _ _ _ _ _ _ _ G1) end.
    rewrite flats_nil. cbn [filter app]. eapply tiles_weaken; [|exact HT]. lia.
Qed.

Theorem tokens_tile_source : forall fuel src ts,
  hb_parse fuel R_handlebars src = Parsed ts ->
  tiles 0 (len src) (main_spans (filter not_escape ts)).
Proof.
  intros pf src ts Hp.
  rewrite hb_parse_unfold in Hp. unfold parse in Hp.
  destruct (eval rule hb_defs hb_ws pf (ERef R_handlebars) ANon false src 0) as [pos rest ts0| |] eqn:E;
    try discriminate.
  inversion Hp; subst ts0.
  destruct (eval_gen rule hb_defs hb_ws hb_RP hb_RP_holds _ _ _ _ _ _ _ _ _ E) as (F & -> & G).
  destruct (eval_good rule hb_defs hb_ws _ _ _ _ _ _ _ _ _ E) as (w & Einp & Epos & _).
  rewrite <- (app_nil_r (fl (flats F))).
  eapply gen_tiles; [exact G | apply N.le_refl |]. cbn [main_spans tiles].
  rewrite Einp, len_app, Epos. lia.
Qed.

(* ================= the gaps between main-level tokens are blank ================= *)
Notation hev := (eval rule hb_defs hb_ws).

Fixpoint single_chars (e : expr rule) : option (list N) :=
  match e with
  | EStr [c] => Some [c]
  | EAlt a b => match single_chars a, single_chars b with
                | Some x, Some y => Some (x ++ y) | _, _ => None end
  | _ => None
  end.

Lemma single_chars_sound : forall e cs, single_chars e = Some cs ->
  forall f at_ q inp p p1 r1 ts, hev f e at_ q inp p = Ok p1 r1 ts ->
  exists c, In c cs /\ inp = c :: r1 /\ p1 = p + 1 /\ ts = [].
Proof.
  induction e; intros cs Hs f at_ q inp p p1 r1 ts H; cbn [single_chars] in Hs; try discriminate.
  - destruct s as [|c [|c' s']]; try discriminate. inversion Hs; subst cs.
    destruct f as [|f]; [discriminate|]. cbn [eval starts_with] in H.
    destruct inp as [|y inp']; [discriminate|].
    destruct (N.eqb c y) eqn:Ec; cbn [andb] in H; [|discriminate].
    apply N.eqb_eq in Ec. subst y. inversion H; subst. cbn [length skipn].
    exists c. split; [left; reflexivity|]. split; [reflexivity|].
    split; [rewrite len_cons, len_nil; lia | reflexivity].
  - destruct (single_chars e1) as [x|] eqn:E1; [|discriminate].
    destruct (single_chars e2) as [y|] eqn:E2; [|discriminate]. inversion Hs; subst cs.
    destruct f as [|f]; [discriminate|]. cbn [eval] in H.
    destruct (hev f e1 at_ q inp p) as [pa ra ta| |] eqn:Ea.
    + destruct (IHe1 _ eq_refl _ _ _ _ _ _ _ _ Ea) as (c & Hin & X).
      inversion H; subst. exists c. split; [apply in_or_app; left; exact Hin | exact X].
    + destruct (IHe2 _ eq_refl _ _ _ _ _ _ _ _ H) as (c & Hin & X).
      exists c. split; [apply in_or_app; right; exact Hin | exact X].
    + discriminate.
Qed.

Lemma ws_one f at_ q inp p p1 r1 ts : hev f hb_ws at_ q inp p = Ok p1 r1 ts ->
  exists c, ws_char c = true /\ inp = c :: r1 /\ p1 = p + 1 /\ ts = [].
Proof.
  intros H. destruct f as [|f]; [discriminate|].
  change (hev (S f) (ERef R_WHITESPACE) at_ q inp p = Ok p1 r1 ts) in H.
  rewrite (ev_ref rule hb_defs hb_ws f R_WHITESPACE _ _ at_ q inp p eq_refl) in H.
  destruct (single_chars_sound (EAlt (EStr [32]) (EAlt (EStr [9]) (EAlt (EStr [10]) (EStr [13]))))
              [32; 9; 10; 13] eq_refl _ _ _ _ _ _ _ _ H) as (c & Hin & X).
  exists c. split; [|exact X].
  destruct Hin as [<- | [<- | [<- | [<- | []]]]]; reflexivity.
Qed.

Lemma ws_rep : forall f inp p p' rest ts,
  hev f (ERepPlain hb_ws) AAtomic true inp p = Ok p' rest ts ->
  exists w, inp = w ++ rest /\ p' = p + len w /\ Forall (fun c => ws_char c = true) w.
Proof.
  induction f as [|f IH]; intros inp p p' rest ts H; [discriminate|].
  cbn [eval] in H.
  destruct (hev f hb_ws AAtomic true inp p) as [p1 r1 t1| |] eqn:E1.
  - destruct (ws_one _ _ _ _ _ _ _ _ E1) as (c & Hc & -> & -> & ->).
    destruct (hev f (ERepPlain hb_ws) AAtomic true r1 (p + 1)) as [p2 r2 t2| |] eqn:E2; try discriminate.
    inversion H; subst. destruct (IH _ _ _ _ _ E2) as (w & -> & -> & Hw).
    exists (c :: w). repeat split; [rewrite len_cons; lia | constructor; assumption].
  - inversion H; subst. exists []. repeat split; [rewrite len_nil; lia | constructor].
  - discriminate.
Qed.

Definition blank_out (p : N) (w : str) (sp : list (N * N)) : Prop :=
  forall i c, nth_error w i = Some c -> covered sp (p + N.of_nat i) = false -> ws_char c = true.

Lemma blank_out_nil p sp : blank_out p [] sp.
Proof. intros i c H. destruct i; discriminate. Qed.

Lemma covered_app a b x : covered (a ++ b) x = covered a x || covered b x.
Proof. unfold covered. apply existsb_app. Qed.

Lemma blank_out_app p w1 w2 sp1 sp2 :
  blank_out p w1 sp1 -> blank_out (p + len w1) w2 sp2 -> blank_out p (w1 ++ w2) (sp1 ++ sp2).
Proof.
  intros H1 H2 i c Hn Hc. rewrite covered_app in Hc. apply orb_false_iff in Hc. destruct Hc as [C1 C2].
  destruct (Nat.ltb i (length w1)) eqn:El.
  - apply Nat.ltb_lt in El. rewrite nth_error_app1 in Hn by exact El. exact (H1 i c Hn C1).
  - apply Nat.ltb_ge in El. rewrite nth_error_app2 in Hn by exact El.
    apply (H2 _ c Hn). replace (p + len w1 + N.of_nat (i - length w1)) with (p + N.of_nat i); [exact C2|].
    unfold len. lia.
Qed.

Lemma main_spans_app a b : main_spans (a ++ b) = main_spans a ++ main_spans b.
Proof.
  induction a as [|t a IH]; [reflexivity|]. cbn [app main_spans].
  destruct (tag_classify (tk_rule t)); rewrite IH; reflexivity.
Qed.

(* template-level rules: their bodies only sequence main tokens, other
   template-level rules and implicit skips *)
Definition tl_rule (r : rule) : bool :=
  match r with
  | R_handlebars | R_template | R_helper_block | R_decorator_block | R_partial_block
  | R_raw_block | R_EOI => true
  | _ => false
  end.

Fixpoint tl_ok (e : expr rule) : bool :=
  match e with
  | ERef r => main_rule r || tl_rule r
  | ESeq a b | EAlt a b => tl_ok a && tl_ok b
  | EOpt a | ERepTail a => tl_ok a
  | ESkip | EEoi | ENot _ | EAnd _ => true
  | _ => false
  end.

Lemma tl_rule_ok r : tl_rule r = true ->
  tl_ok (snd (hb_defs r)) = true /\ (fst (hb_defs r) = KSilent \/ fst (hb_defs r) = KNormal) /\
  main_rule r = false /\ not_escape (r, 0, 0) = true.
Proof. destruct r; intros H; try discriminate H; vm_compute; repeat split; auto. Qed.

Lemma main_rule_emits r : main_rule r = true -> fst (hb_defs r) <> KSilent.
Proof. destruct r; intros H; try discriminate H; vm_compute; discriminate. Qed.

Lemma covered_head s e sp x : s <= x -> x < e -> covered ((s, e) :: sp) x = true.
Proof.
  intros A B. unfold covered. cbn [existsb fst snd].
  replace (s <=? x) with true by (symmetry; apply N.leb_le; exact A).
  replace (x <? e) with true by (symmetry; apply N.ltb_lt; exact B). reflexivity.
Qed.

Theorem eval_blank : forall f e inp p p' rest ts,
  tl_ok e = true -> hev f e ANon false inp p = Ok p' rest ts ->
  exists w, inp = w ++ rest /\ p' = p + len w /\ blank_out p w (main_spans (fl ts)).
Proof.
  induction f as [|f IH]; intros e inp p p' rest ts Hok H; [discriminate|].
  destruct e; cbn [tl_ok] in Hok; try discriminate Hok.
  - (* EEoi *)
    cbn [eval] in H. destruct inp; [|discriminate]. inversion H; subst.
    exists []. repeat split; [rewrite len_nil; lia | apply blank_out_nil].
  - (* ERef *)
    destruct (main_rule r) eqn:Em.
    + destruct (eval_good rule hb_defs hb_ws _ _ _ _ _ _ _ _ _ H) as (w & Einp & Epos & _).
      exists w. split; [exact Einp|]. split; [exact Epos|].
      assert (Hts : exists ts0, ts = (r, p, p') :: ts0).
      { pose proof (main_rule_emits r Em) as Hk.
        destruct (hb_defs r) as [k body] eqn:Ed. cbn [fst] in Hk.
        rewrite (ev_ref rule hb_defs hb_ws f r k body ANon false inp p Ed) in H.
        destruct k; try contradiction;
          match type of H with match ?x with _ => _ end = _ => destruct x as [pa ra ta| |]; try discriminate end;
          inversion H; subst; eexists; reflexivity. }
      destruct Hts as (ts0 & ->).
      cbn [filter]. replace (not_escape (r, p, p')) with true
        by (symmetry; pose proof (main_rule_not_escape r Em) as X; exact X).
      cbn [main_spans tk_rule tk_start tk_end fst snd].
      assert (Hsp : exists sp, match tag_classify r with
                               | KTemplate | KOtherRule => main_spans (fl ts0)
                               | _ => (p, p') :: main_spans (fl ts0) end = (p, p') :: sp).
      { unfold main_rule in Em. destruct (tag_classify r); try discriminate Em; eexists; reflexivity. }
      destruct Hsp as (sp & ->).
      intros i c Hn Hc. exfalso.
      assert (Hi : (i < length w)%nat) by (apply nth_error_Some; congruence).
      rewrite covered_head in Hc; [discriminate | lia | unfold len in Epos; lia].
    + cbn [orb] in Hok. destruct (tl_rule_ok r Hok) as (Hb & Hk & _ & Hne).
      destruct (hb_defs r) as [k body] eqn:Ed. cbn [fst snd] in Hb, Hk.
      rewrite (ev_ref rule hb_defs hb_ws f r k body ANon false inp p Ed) in H.
      destruct Hk as [-> | ->].
      * eapply IH; eassumption.
      * destruct (hev f body ANon false inp p) as [pa ra ta| |] eqn:Eb; try discriminate.
        inversion H; subst. destruct (IH _ _ _ _ _ _ Hb Eb) as (w & Einp & Epos & Hbl).
        exists w. split; [exact Einp|]. split; [exact Epos|].
        unfold emit. cbn [filter]. replace (not_escape (r, p, p')) with true by (symmetry; exact Hne).
        cbn [main_spans tk_rule fst].
        unfold main_rule in Em. destruct (tag_classify r); try discriminate Em; exact Hbl.
  - (* ESeq *)
    apply andb_true_iff in Hok. destruct Hok as [Ha Hb]. cbn [eval] in H.
    destruct (hev f e1 ANon false inp p) as [p1 r1 t1| |] eqn:E1; try discriminate.
    destruct (hev f e2 ANon false r1 p1) as [p2 r2 t2| |] eqn:E2; try discriminate.
    inversion H; subst.
    destruct (IH _ _ _ _ _ _ Ha E1) as (w1 & -> & -> & B1).
    destruct (IH _ _ _ _ _ _ Hb E2) as (w2 & -> & -> & B2).
    exists (w1 ++ w2). rewrite app_assoc, len_app, fl_app, main_spans_app.
    repeat split; [lia | apply blank_out_app; assumption].
  - (* EAlt *)
    apply andb_true_iff in Hok. destruct Hok as [Ha Hb]. cbn [eval] in H.
    destruct (hev f e1 ANon false inp p) as [p1 r1 t1| |] eqn:E1; try discriminate.
    + inversion H; subst. exact (IH _ _ _ _ _ _ Ha E1).
    + exact (IH _ _ _ _ _ _ Hb H).
  - (* EOpt *)
    cbn [eval] in H.
    destruct (hev f e ANon false inp p) as [p1 r1 t1| |] eqn:E1; try discriminate.
    + inversion H; subst. exact (IH _ _ _ _ _ _ Hok E1).
    + inversion H; subst. exists []. repeat split; [rewrite len_nil; lia | apply blank_out_nil].
  - (* ERepTail *)
    cbn [eval] in H.
    destruct (hev f (ESeq ESkip e) ANon false inp p) as [p1 r1 t1| |] eqn:E1; try discriminate.
    + destruct (hev f (ERepTail e) ANon false r1 p1) as [p2 r2 t2| |] eqn:E2; try discriminate.
      inversion H; subst.
      destruct (IH (ESeq ESkip e) _ _ _ _ _ Hok E1) as (w1 & -> & -> & B1).
      destruct (IH (ERepTail e) _ _ _ _ _ Hok E2) as (w2 & -> & -> & B2).
      exists (w1 ++ w2). rewrite app_assoc, len_app, fl_app, main_spans_app.
      repeat split; [lia | apply blank_out_app; assumption].
    + inversion H; subst. exists []. repeat split; [rewrite len_nil; lia | apply blank_out_nil].
  - (* ESkip *)
    cbn [eval] in H. pose proof (quiet_no_tokens rule hb_defs hb_ws _ _ _ _ _ _ _ _ H) as ->.
    destruct (ws_rep _ _ _ _ _ _ H) as (w & Einp & Epos & Hw).
    exists w. split; [exact Einp|]. split; [exact Epos|].
    intros i c Hn _. rewrite Forall_forall in Hw. apply Hw. eapply nth_error_In; exact Hn.
  - (* ENot *)
    cbn [eval] in H. destruct (hev f e ANon true inp p); try discriminate.
    inversion H; subst. exists []. repeat split; [rewrite len_nil; lia | apply blank_out_nil].
  - (* EAnd *)
    cbn [eval] in H. destruct (hev f e ANon true inp p); try discriminate.
    inversion H; subst. exists []. repeat split; [rewrite len_nil; lia | apply blank_out_nil].
Qed.

Lemma handlebars_rest f src pos rest ts :
  hev f (ERef R_handlebars) ANon false src 0 = Ok pos rest ts -> rest = [].
Proof.
  intros H. destruct f as [|f]; [discriminate|].
  rewrite (ev_ref rule hb_defs hb_ws f R_handlebars KSilent
             (ESeq (ERef R_template) (ESeq ESkip (ERef R_EOI))) ANon false src 0 eq_refl) in H.
  destruct f as [|f]; [discriminate|]. cbn [eval] in H.
  destruct (hev f (ERef R_template) ANon false src 0) as [p1 r1 t1| |]; try discriminate.
  destruct f as [|f]; [discriminate|]. cbn [eval] in H.
  destruct (hev f ESkip ANon false r1 p1) as [p2 r2 t2| |]; try discriminate.
  destruct f as [|f]; [discriminate|].
  rewrite (ev_ref rule hb_defs hb_ws f R_EOI KNormal EEoi ANon false r2 p2 eq_refl) in H.
  destruct f as [|f]; [discriminate|]. cbn [eval] in H.
  destruct r2; [|discriminate]. inversion H; reflexivity.
Qed.

Theorem gaps_blank : forall fuel src ts,
  hb_parse fuel R_handlebars src = Parsed ts ->
  forall x c, nth_error src (N.to_nat x) = Some c ->
  covered (main_spans (filter not_escape ts)) x = false -> ws_char c = true.
Proof.
  intros pf src ts Hp x c Hn Hc.
  rewrite hb_parse_unfold in Hp. unfold parse in Hp.
  destruct (eval rule hb_defs hb_ws pf (ERef R_handlebars) ANon false src 0) as [pos rest ts0| |] eqn:E;
    try discriminate.
  inversion Hp; subst ts0.
  pose proof (handlebars_rest _ _ _ _ _ E) as ->.
  destruct (eval_blank _ (ERef R_handlebars) _ _ _ _ _ eq_refl E) as (w & Einp & _ & Hbl).
  rewrite app_nil_r in Einp. subst w.
  apply (Hbl (N.to_nat x) c Hn). rewrite N2Nat.id, N.add_0_l. exact Hc.
Qed.

Example gaps_blank_example :
  exists ts, hb_parse (peg_fuel cf_src) R_handlebars cf_src = Parsed ts /\
    nth_error cf_src (N.to_nat 7) = Some 32 /\
    covered (main_spans (filter not_escape ts)) 7 = false /\
    main_spans (filter not_escape ts) = [(0, 2); (2, 7); (8, 17); (17, 23); (24, 25); (25, 32); (33, 42); (42, 43)].
Proof. vm_compute. eexists. repeat split; reflexivity. Qed.

(* prev_end is the end of the last token the loop saw, `template` wrappers aside *)
Lemma step_prev_end src all opts f c pr it c' it' :
  step src all opts f c pr it = COk (c', it') ->
  prev_end c' = match tag_classify (tk_rule pr) with KTemplate => prev_end c | _ => tk_end pr end.
Proof.
  intros H. destruct (tag_classify (tk_rule pr)) eqn:Ec;
    try (unfold prev_end; rewrite (step_c_end src all opts f c pr it c' it'); [reflexivity | congruence | exact H]).
  unfold step in H. rewrite Ec in H.
  destruct (trailing_string src c pr (line_col src (tk_start pr))) as [c1| | |] eqn:Et; cbn [cbind] in H;
    try discriminate.
  destruct (trailing_string_spec src c pr _ c1 Et) as (_ & _ & _ & Ee & _).
  inversion H; subst. unfold prev_end, with_ts. cbn [c_end]. rewrite Ee. reflexivity.
Qed.
