(* Proofs/Concat.v -- property C08, first sentence: rendering A, a literal, B
   writes out(A alone) ++ literal ++ out(B alone).

   Part 1 (prefix independence): two runs of any function of the render
   fixpoint from states that differ only in
     - what the writer already holds (earlier chunks, number of writes; no
       write fault armed), the earlier log entries, the earlier ghost escape
       trace, and
     - the three "last write" flags
   give the same value or the same error, APPEND the same chunks, log entries
   and trace entries, and end in states that again differ only in that way --
   under the hypotheses of Proofs/FrameFlags.v (no indentation active, the
   probe helper `state` not registered).  Same proof architecture as
   Proofs/FrameFlags.v, over the wider relation.

   Part 2: C08_concat and C08_repeat. *)
From HB Require Export Proofs.FrameFlags.
Open Scope N_scope.

(* ---------- the wider relation ---------- *)
(* `pre po wo pl pt s a b c`: the state s with po/pl/pt placed BEFORE (= at the
   old end of) its writer chunks, log and trace, wo more writes counted, and
   the flags a b c *)
Definition pre (po : list str) (wo : N) (pl pt : list str) (s : rstate) (a b c : bool) : rstate :=
  {| s_blocks := s_blocks s; s_modified := s_modified s; s_partials := s_partials s;
     s_pb_stack := s_pb_stack s; s_pb_depth := s_pb_depth s; s_local_helpers := s_local_helpers s;
     s_current := s_current s; s_root := s_root s; s_disable_escape := s_disable_escape s;
     s_trailing_newline := a; s_content_produced := b; s_indent_before_write := c;
     s_indent := s_indent s; s_dev := s_dev s;
     s_out := {| o_chunks := o_chunks (s_out s) ++ po; o_writes := o_writes (s_out s) + wo;
                 o_fail_at := o_fail_at (s_out s) |};
     s_log := s_log s ++ pl; s_esc_trace := s_esc_trace s ++ pt |}.
Definition peq (po : list str) (wo : N) (pl pt : list str) (t1 t2 : rstate) : Prop :=
  exists a b c, t2 = pre po wo pl pt t1 a b c.

(* the same, field by field *)
Definition prel (po : list str) (wo : N) (pl pt : list str) (s1 s2 : rstate) : Prop :=
  s_blocks s2 = s_blocks s1 /\ s_modified s2 = s_modified s1 /\ s_partials s2 = s_partials s1 /\
  s_pb_stack s2 = s_pb_stack s1 /\ s_pb_depth s2 = s_pb_depth s1 /\
  s_local_helpers s2 = s_local_helpers s1 /\ s_current s2 = s_current s1 /\ s_root s2 = s_root s1 /\
  s_disable_escape s2 = s_disable_escape s1 /\ s_indent s2 = s_indent s1 /\ s_dev s2 = s_dev s1 /\
  o_chunks (s_out s2) = o_chunks (s_out s1) ++ po /\ o_writes (s_out s2) = o_writes (s_out s1) + wo /\
  o_fail_at (s_out s2) = o_fail_at (s_out s1) /\
  s_log s2 = s_log s1 ++ pl /\ s_esc_trace s2 = s_esc_trace s1 ++ pt.

Lemma peq_prel po wo pl pt t1 t2 : peq po wo pl pt t1 t2 <-> prel po wo pl pt t1 t2.
Proof.
  split.
  - intros (a & b & c & ->). unfold prel. repeat split; reflexivity.
  - unfold prel. intros H. exists (s_trailing_newline t2), (s_content_produced t2), (s_indent_before_write t2).
    destruct t1, t2. destruct s_out, s_out0. cbn in *. decompose [and] H. subst. reflexivity.
Qed.

Ltac fl_cbn :=
  unfold push_block, pop_block, log_entry in *;
  cbn [pre s_blocks s_modified s_partials s_pb_stack s_pb_depth s_local_helpers s_current s_root
       s_disable_escape s_trailing_newline s_content_produced s_indent_before_write s_indent s_dev
       s_out s_log s_esc_trace o_chunks o_writes o_fail_at
       set_blocks set_modified set_partials set_pb_stack set_pb_depth set_local_helpers set_current
       set_disable_escape set_trailing_newline set_content_produced set_indent_before_write
       set_indent set_out set_log set_esc_trace] in *.
Ltac feq_tac :=
  solve [ apply peq_prel; unfold prel, push_block, pop_block, log_entry, out_new;
          cbn [pre s_blocks s_modified s_partials s_pb_stack s_pb_depth s_local_helpers s_current s_root
               s_disable_escape s_trailing_newline s_content_produced s_indent_before_write s_indent s_dev
               s_out s_log s_esc_trace o_chunks o_writes o_fail_at app
               set_blocks set_modified set_partials set_pb_stack set_pb_depth set_local_helpers set_current
               set_disable_escape set_trailing_newline set_content_produced set_indent_before_write
               set_indent set_out set_log set_esc_trace];
          repeat split; first [ reflexivity | lia ] ].

(* the invariant on states: that of FrameFlags plus: no write fault armed *)
Record Qx (s : rstate) : Prop := {
  q_indent : s_indent s = None;
  q_partials : ni_map (s_partials s);
  q_pb : Forall (fun e : template * Z => no_indent (fst e)) (s_pb_stack s);
  q_dev : match s_dev s with Some dm => ni_map dm | None => True end;
  q_local : forall n, find_local_helper s n <> Some HState;
  q_fail : o_fail_at (s_out s) = None
}.

Section Prefix.
  Variable reg : registry.
  Variable data : json.
  Variable ft : ftable.
  Hypothesis Hreg_t : ni_map (r_templates reg).
  Hypothesis Hreg_h : forall n, find_reg_helper reg n <> Some HState.
  Variables pl pt : list str.

  (* the relation on outcomes, for a given writer prefix *)
  Definition simg (po : list str) (wo : N) {A} (V : A -> Prop) (x y : rres A) : Prop :=
    match x, y with
    | ROk v t1, ROk v' t2 => v = v' /\ peq po wo pl pt t1 t2 /\ Qx t1 /\ V v
    | RErr e t1, RErr e' t2 => e = e' /\ peq po wo pl pt t1 t2
    | RPanic p, RPanic q => p = q
    | RFuel, RFuel => True
    | _, _ => False
    end.

  Variable po : list str.
  Variable wo : N.
  Local Notation fl := (pre po wo pl pt).
  Local Notation feq := (peq po wo pl pt).
  Local Notation sim := (simg po wo).
  Local Notation Qs := Qx.

  Lemma Qs_ext s s' :
    s_indent s' = s_indent s -> s_partials s' = s_partials s -> s_pb_stack s' = s_pb_stack s ->
    s_dev s' = s_dev s -> s_local_helpers s' = s_local_helpers s ->
    (o_fail_at (s_out s') = o_fail_at (s_out s) \/ o_fail_at (s_out s') = None) -> Qs s -> Qs s'.
  Proof.
    intros E1 E2 E3 E4 E5 E6 [Q1 Q2 Q3 Q4 Q5 Q6].
    constructor; unfold find_local_helper in *; rewrite ?E1, ?E2, ?E3, ?E4, ?E5; try assumption.
    destruct E6 as [E6|E6]; congruence.
  Qed.
  Ltac qs :=
    match goal with
    | H : Qs ?t |- Qs ?t' =>
        solve [ apply (Qs_ext t t');
                [reflexivity|reflexivity|reflexivity|reflexivity|reflexivity
                |first [left; reflexivity | right; reflexivity
                       | right; cbn [s_out set_out set_disable_escape set_indent_before_write
                                     set_content_produced set_trailing_newline];
                         match goal with Q : Qs ?u |- o_fail_at (s_out ?u) = None => exact (q_fail u Q) end]
                |exact H] ]
    end.

  Lemma Qs_add_partial s name t : Qs s -> no_indent t -> Qs (set_partials s (map_insert (s_partials s) name t)).
  Proof.
    intros [Q1 Q2 Q3 Q4 Q5 Q6] Ht. constructor; try assumption. cbn. apply ni_map_insert; assumption.
  Qed.
  Lemma Qs_add_local s name tag : Qs s -> Qs (set_local_helpers s (map_insert (s_local_helpers s) name (HLocal tag))).
  Proof.
    intros [Q1 Q2 Q3 Q4 Q5 Q6]. constructor; try assumption. intros n. unfold find_local_helper in *. cbn.
    destruct (str_eqb n name) eqn:E.
    - apply str_eqb_true in E. subst. rewrite map_get_insert_same. discriminate.
    - rewrite map_get_insert_other; [apply Q5|]. intros ->. rewrite str_eqb_refl in E. discriminate E.
  Qed.

  Lemma Qs_restored s s' : restored s s' -> s_partials s' = s_partials s ->
    s_local_helpers s' = s_local_helpers s -> o_fail_at (s_out s') = o_fail_at (s_out s) -> Qs s -> Qs s'.
  Proof. intros (R1 & R2 & R3 & R4 & R5 & R6 & R7 & R8) E2 E5 E6. apply Qs_ext; try assumption. left; exact E6. Qed.

  Lemma current_pb_ni s p d0 : Qs s -> current_pb s = Some (p, d0) -> no_indent p.
  Proof.
    intros [Q1 Q2 Q3 Q4 Q5 Q6]. unfold current_pb. cbv zeta. destruct (_ || _); [discriminate|].
    intros H. apply nth_error_In in H. exact (proj1 (Forall_forall _ _) Q3 _ H).
  Qed.
  Lemma get_partial_ni s n p : Qs s -> get_partial s n = Some p -> no_indent p.
  Proof.
    intros Q. unfold get_partial. destruct (str_eqb n PARTIAL_BLOCK).
    - destruct (current_pb s) as [[p' d0]|] eqn:E; [|discriminate]. cbn. intros H; injection H as <-.
      eapply current_pb_ni; eassumption.
    - apply (q_partials s Q).
  Qed.
  Lemma resolve_ni d s p : Qs s -> opt_ni (dv_tpl d) -> resolve_partial reg d s = Some p -> no_indent p.
  Proof.
    intros Q Hd. unfold resolve_partial.
    destruct (get_partial s (dv_name d)) eqn:E1; [intros H; injection H as <-; eapply get_partial_ni; eassumption|].
    destruct (s_dev s) as [dm|] eqn:E2.
    - destruct (map_get dm (dv_name d)) eqn:E3.
      + intros H; injection H as <-. pose proof (q_dev s Q) as Q4. rewrite E2 in Q4. eapply Q4; exact E3.
      + destruct (map_get (r_templates reg) (dv_name d)) eqn:E4.
        * intros H; injection H as <-. eapply Hreg_t; exact E4.
        * intros H. rewrite H in Hd. exact Hd.
    - destruct (map_get (r_templates reg) (dv_name d)) eqn:E4.
      + intros H; injection H as <-. eapply Hreg_t; exact E4.
      + intros H. rewrite H in Hd. exact Hd.
  Qed.

  Definition T {A} : A -> Prop := fun _ => True.

  Lemma sim_ok {A} (V : A -> Prop) v t1 t2 : feq t1 t2 -> Qs t1 -> V v -> sim V (ROk v t1) (ROk v t2).
  Proof. cbn. auto. Qed.
  Lemma sim_err {A} (V : A -> Prop) e t1 t2 : feq t1 t2 -> sim V (RErr e t1) (RErr e t2).
  Proof. cbn. auto. Qed.
  Lemma sim_rfail {A} (V : A -> Prop) r t1 t2 : feq t1 t2 -> sim V (rfail r t1) (rfail r t2).
  Proof. apply sim_err. Qed.
  Lemma sim_weaken {A} (V V' : A -> Prop) x y : (forall v, V v -> V' v) -> sim V x y -> sim V' x y.
  Proof. intros HV. destruct x, y; cbn; intuition. Qed.

  Lemma sim_rbind {A B} (V1 : A -> Prop) (V2 : B -> Prop) x y (k k' : A -> rstate -> rres B) :
    sim V1 x y ->
    (forall v t1 t2, feq t1 t2 -> Qs t1 -> V1 v -> sim V2 (k v t1) (k' v t2)) ->
    sim V2 (rbind x k) (rbind y k').
  Proof.
    intros Hxy Hk. destruct x, y; cbn in Hxy |- *; try contradiction; try assumption.
    destruct Hxy as (<- & Hf & Hq & Hv). apply Hk; assumption.
  Qed.
  Lemma sim_rmap_err {A} (V : A -> Prop) x y g : sim V x y -> sim V (rmap_err x g) (rmap_err y g).
  Proof. destruct x, y; cbn; try tauto. intros (-> & H). auto. Qed.

  Lemma sim_fold_idx {A} (st : A -> nat -> rstate -> rres unit) l :
    (forall x i t1 t2, In x l -> feq t1 t2 -> Qs t1 -> sim T (st x i t1) (st x i t2)) ->
    forall i t1 t2, feq t1 t2 -> Qs t1 -> sim T (fold_idx st l i t1) (fold_idx st l i t2).
  Proof.
    induction l as [|x l IH]; intros Hs i t1 t2 Hf Hq; cbn [fold_idx].
    - apply sim_ok; [assumption|assumption|exact I].
    - eapply sim_rbind; [apply Hs; [left; reflexivity|assumption|assumption]|].
      intros v t1' t2' Hf' Hq' _. apply IH; [|assumption|assumption].
      intros; apply Hs; [right|..]; assumption.
  Qed.
  Lemma sim_mapM {A B} (g : A -> rstate -> rres B) l :
    (forall x t1 t2, In x l -> feq t1 t2 -> Qs t1 -> sim T (g x t1) (g x t2)) ->
    forall t1 t2, feq t1 t2 -> Qs t1 -> sim T (mapM g l t1) (mapM g l t2).
  Proof.
    induction l as [|x l IH]; intros Hs t1 t2 Hf Hq; cbn [mapM].
    - apply sim_ok; [assumption|assumption|exact I].
    - eapply sim_rbind; [apply Hs; [left; reflexivity|assumption|assumption]|].
      intros v t1' t2' Hf' Hq' _.
      eapply sim_rbind; [apply IH; [|assumption|assumption]; intros; apply Hs; [right|..]; assumption|].
      intros vs t1'' t2'' Hf'' Hq'' _. apply sim_ok; [assumption|assumption|exact I].
  Qed.

  (* ---------- primitives ---------- *)
  Lemma sim_out_write ch t1 t2 : feq t1 t2 -> Qs t1 -> sim T (out_write ch t1) (out_write ch t2).
  Proof.
    intros (a & b & c & ->) Hq. unfold out_write. destruct ch; [apply sim_ok; [feq_tac|assumption|exact I]|].
    fl_cbn. rewrite (q_fail _ Hq). apply sim_ok; [feq_tac|qs|exact I].
  Qed.

  Lemma sim_iaw v t1 t2 : feq t1 t2 -> Qs t1 -> sim T (indent_aware_write v t1) (indent_aware_write v t2).
  Proof.
    intros (a & b & c & ->) Hq. unfold indent_aware_write. destruct v as [|x v]; [apply sim_ok; [feq_tac|assumption|exact I]|].
    fl_cbn. rewrite (q_indent _ Hq).
    destruct (negb (first_is is_newline (x :: v)) && s_indent_before_write t1);
      destruct (negb (first_is is_newline (x :: v)) && c); cbn [rbind]; fl_cbn; rewrite (q_indent _ Hq);
      (eapply sim_rbind; [apply sim_out_write; [feq_tac|qs]|];
       intros ? ? ? (a' & b' & c' & ->) Hq' _; apply sim_ok; [feq_tac|qs|exact I]).
  Qed.

  Lemma do_escape_fl c0 s a b c :
    do_escape reg c0 (fl s a b c) = (fst (do_escape reg c0 s), fl (snd (do_escape reg c0 s)) a b c).
  Proof.
    unfold do_escape. fl_cbn. destruct (s_disable_escape s); [reflexivity|].
    destruct (r_esc_mark reg); reflexivity.
  Qed.
  Lemma do_escape_Qs c0 s : Qs s -> Qs (snd (do_escape reg c0 s)).
  Proof.
    intros Hq. unfold do_escape. destruct (s_disable_escape s); [exact Hq|].
    destruct (r_esc_mark reg); cbn [snd]; qs.
  Qed.

  Lemma sim_evaluate2 dat p t1 t2 : feq t1 t2 -> Qs t1 -> sim T (evaluate2 dat p t1) (evaluate2 dat p t2).
  Proof.
    intros (a & b & c & ->) Hq. unfold evaluate2. destruct p; fl_cbn.
    - destruct (navigate dat segs (s_blocks t1)); [apply sim_ok; [feq_tac|assumption|exact I]|apply sim_rfail; feq_tac|reflexivity].
    - apply sim_ok; [feq_tac|assumption|exact I].
  Qed.
  Lemma sim_evaluate raw t1 t2 : feq t1 t2 -> Qs t1 -> sim T (evaluate data raw t1) (evaluate data raw t2).
  Proof.
    intros Hf Hq. unfold evaluate. destruct (path_parse raw); [apply sim_evaluate2; assumption|apply sim_rfail; assumption].
  Qed.

  Lemma sim_log_write txt t1 t2 : feq t1 t2 -> Qs t1 -> sim T (log_write txt t1) (log_write txt t2).
  Proof.
    intros (a & b & c & ->) Hq. unfold log_write. apply sim_out_write; [feq_tac|qs].
  Qed.

  Lemma sim_call_inner hid h t1 t2 : feq t1 t2 -> Qs t1 -> sim T (call_inner reg hid h t1) (call_inner reg hid h t2).
  Proof.
    intros (a & b & c & ->) Hq.
    destruct hid; cbn [call_inner]; unfold macro_inner, param_or;
      repeat match goal with
             | |- sim _ (match ?x with _ => _ end) (match ?x with _ => _ end) => destruct x
             | |- sim _ (if ?x then _ else _) (if ?x then _ else _) => destruct x
             end;
      first [ apply sim_ok; [feq_tac|first [assumption|qs]|exact I] | apply sim_rfail; feq_tac ].
  Qed.

  Lemma map_front_block_fl g s a b c : map_front_block g (fl s a b c) = fl (map_front_block g s) a b c.
  Proof. unfold map_front_block. fl_cbn. destruct (s_blocks s); reflexivity. Qed.
  Lemma map_front_block_Qs g s : Qs s -> Qs (map_front_block g s).
  Proof. intros Hq. unfold map_front_block. destruct (s_blocks s); [exact Hq|qs]. Qed.

  Lemma current_pb_fl s a b c : current_pb (fl s a b c) = current_pb s.
  Proof. reflexivity. Qed.
  Lemma depth_step_fl d s a b c : depth_step d (fl s a b c) = fl (depth_step d s) a b c.
  Proof.
    unfold depth_step. rewrite current_pb_fl. destruct (str_eqb (dv_name d) PARTIAL_BLOCK); [|reflexivity].
    destruct (current_pb s) as [[pb d0]|]; reflexivity.
  Qed.
  Lemma depth_step_Qs d s : Qs s -> Qs (depth_step d s).
  Proof.
    intros Hq. unfold depth_step. destruct (str_eqb (dv_name d) PARTIAL_BLOCK); [|exact Hq].
    destruct (current_pb s) as [[pb d0]|]; [qs|exact Hq].
  Qed.

  Lemma helper_exists_fl s a b c n : helper_exists reg (fl s a b c) n = helper_exists reg s n.
  Proof. reflexivity. Qed.
  Lemma find_local_helper_fl s a b c n : find_local_helper (fl s a b c) n = find_local_helper s n.
  Proof. reflexivity. Qed.
  Lemma get_partial_fl s a b c n : get_partial (fl s a b c) n = get_partial s n.
  Proof. reflexivity. Qed.

  Definition post {A} (g : rstate -> rstate) (x : rres A) : rres A :=
    match x with
    | ROk u s' => ROk u (g s')
    | RErr e s' => RErr e (g s')
    | z => z
    end.
  Lemma sim_post {A} (V : A -> Prop) g x y :
    (forall t a b c, g (fl t a b c) = fl (g t) a b c) -> (forall t, Qs t -> Qs (g t)) ->
    sim V x y -> sim V (post g x) (post g y).
  Proof.
    intros Hg Hq. destruct x, y; cbn; try tauto.
    - intros (-> & (a1 & b1 & c1 & ->) & Hq1 & Hv).
      split; [reflexivity|]. split; [exists a1, b1, c1; apply Hg|]. split; [apply Hq; exact Hq1|exact Hv].
    - intros (-> & (a1 & b1 & c1 & ->)). split; auto. exists a1, b1, c1. apply Hg.
  Qed.

  Lemma is_self_fl d s a b c : is_self d (fl s a b c) = is_self d s.
  Proof. reflexivity. Qed.
  Lemma resolve_partial_fl d s a b c : resolve_partial reg d (fl s a b c) = resolve_partial reg d s.
  Proof. reflexivity. Qed.
  Lemma partial_inner_fl d m s a b c : partial_inner d m (fl s a b c) = fl (partial_inner d m s) a b c.
  Proof. unfold partial_inner. destruct (dv_tpl d); reflexivity. Qed.
  Lemma partial_cleanup_fl d s1 s7 a b c a' b' c' :
    partial_cleanup d (fl s1 a b c) (fl s7 a' b' c') = fl (partial_cleanup d s1 s7) a' b' c'.
  Proof. unfold partial_cleanup. destruct (dv_tpl d); reflexivity. Qed.
  Lemma partial_inner_Qs d m s : Qs s -> opt_ni (dv_tpl d) -> dv_indent d = None -> Qs (partial_inner d m s).
  Proof.
    intros [Q1 Q2 Q3 Q4 Q5 Q6] Ht Hi. unfold partial_inner.
    destruct (dv_tpl d) as [pb|]; constructor; cbn; try assumption.
    constructor; [exact Ht|exact Q3].
  Qed.
  Lemma partial_cleanup_Qs d before s : Qs before -> Qs s -> Qs (partial_cleanup d before s).
  Proof.
    intros [P1 P2 P3 P4 P5 P6] [Q1 Q2 Q3 Q4 Q5 Q6]. unfold partial_cleanup.
    destruct (dv_tpl d); constructor; cbn; try assumption.
    destruct (s_pb_stack s); [constructor|]. inversion Q3; assumption.
  Qed.
  Lemma sim_partial_context d t1 t2 : feq t1 t2 -> Qs t1 ->
    sim T (partial_context data d t1) (partial_context data d t2).
  Proof.
    intros (a & b & c & ->) Hq. unfold partial_context.
    destruct (dv_params d) as [|p ps].
    - eapply sim_rbind; [apply sim_evaluate2; [feq_tac|assumption]|].
      intros ? ? ? ? ? _. apply sim_ok; [assumption|assumption|exact I].
    - destruct (pj_rel p).
      + eapply sim_rbind; [apply sim_evaluate; [feq_tac|assumption]|].
        intros ? ? ? ? ? _. apply sim_ok; [assumption|assumption|exact I].
      + apply sim_ok; [feq_tac|assumption|exact I].
  Qed.

  (* values carrying templates *)
  Definition ni_hv (h : helper_v) : Prop := opt_ni (hv_tpl h) /\ opt_ni (hv_inv h).
  Definition ni_dv (part : bool) (d : deco_v) : Prop :=
    opt_ni (dv_tpl d) /\ (part = true -> dv_indent d = None).

  (* ---------- the induction hypothesis ---------- *)
  Record flags_at (f : nat) : Prop := {
    fi_render_template : forall t t1 t2, feq t1 t2 -> Qs t1 -> no_indent t ->
      sim T (render_template reg data ft f t t1) (render_template reg data ft f t t2);
    fi_eval_template : forall t t1 t2, feq t1 t2 -> Qs t1 -> no_indent t ->
      sim T (eval_template reg data ft f t t1) (eval_template reg data ft f t t2);
    fi_opt_render : forall t t1 t2, feq t1 t2 -> Qs t1 -> opt_ni t ->
      sim T (opt_render reg data ft f t t1) (opt_render reg data ft f t t2);
    fi_render_element : forall e t1 t2, feq t1 t2 -> Qs t1 -> ni_element e = true ->
      sim T (render_element reg data ft f e t1) (render_element reg data ft f e t2);
    fi_eval_element : forall e t1 t2, feq t1 t2 -> Qs t1 -> ni_element e = true ->
      sim T (eval_element reg data ft f e t1) (eval_element reg data ft f e t2);
    fi_render_expression : forall ht html t1 t2, feq t1 t2 -> Qs t1 -> ni_helper ht = true ->
      sim T (render_expression reg data ft f ht html t1) (render_expression reg data ft f ht html t2);
    fi_render_helper : forall ht t1 t2, feq t1 t2 -> Qs t1 -> ni_helper ht = true ->
      sim T (render_helper reg data ft f ht t1) (render_helper reg data ft f ht t2);
    fi_helper_from_template : forall ht t1 t2, feq t1 t2 -> Qs t1 -> ni_helper ht = true ->
      sim ni_hv (helper_from_template reg data ft f ht t1) (helper_from_template reg data ft f ht t2);
    fi_deco_from_template : forall part dt t1 t2, feq t1 t2 -> Qs t1 -> ni_deco part dt = true ->
      sim (ni_dv part) (deco_from_template reg data ft f dt t1) (deco_from_template reg data ft f dt t2);
    fi_expand_as_name : forall p t1 t2, feq t1 t2 -> Qs t1 -> ni_param p = true ->
      sim T (expand_as_name reg data ft f p t1) (expand_as_name reg data ft f p t2);
    fi_expand_param : forall p t1 t2, feq t1 t2 -> Qs t1 -> ni_param p = true ->
      sim T (expand_param reg data ft f p t1) (expand_param reg data ft f p t2);
    fi_call_helper_for_value : forall hid h t1 t2, feq t1 t2 -> Qs t1 -> hid <> HState -> ni_hv h ->
      sim T (call_helper_for_value reg data ft f hid h t1) (call_helper_for_value reg data ft f hid h t2);
    fi_call_helper : forall hid h t1 t2, feq t1 t2 -> Qs t1 -> hid <> HState -> ni_hv h ->
      sim T (call_helper reg data ft f hid h t1) (call_helper reg data ft f hid h t2);
    fi_eval_decorator : forall dt t1 t2, feq t1 t2 -> Qs t1 -> ni_deco false dt = true ->
      sim T (eval_decorator reg data ft f dt t1) (eval_decorator reg data ft f dt t2);
    fi_render_partial : forall dt t1 t2, feq t1 t2 -> Qs t1 -> ni_deco true dt = true ->
      sim T (render_partial reg data ft f dt t1) (render_partial reg data ft f dt t2);
    fi_expand_partial : forall d t1 t2, feq t1 t2 -> Qs t1 -> ni_dv true d ->
      sim T (expand_partial reg data ft f d t1) (expand_partial reg data ft f d t2)
  }.

  Lemma flags_0 : flags_at 0.
  Proof. constructor; intros; exact I. Qed.
  Section Step.
    Variable f : nat.
    Hypothesis IH : flags_at f.
    (* the private buffer of a subexpression: both runs start it empty *)
    Hypothesis IH0 : forall hid h t1 t2, peq [] 0 pl pt t1 t2 -> Qx t1 -> hid <> HState -> ni_hv h ->
      simg [] 0 T (call_helper reg data ft f hid h t1) (call_helper reg data ft f hid h t2).
    (* the private buffer of a captured block body (Renderable::renders): likewise *)
    Hypothesis IH0t : forall t t1 t2, peq [] 0 pl pt t1 t2 -> Qx t1 -> no_indent t ->
      simg [] 0 T (render_template reg data ft f t t1) (render_template reg data ft f t t2).

    Ltac qs' := first [ assumption | qs ].
    Ltac intro_k := intros ? ? ? (? & ? & ? & ->) ? ?; fl_cbn.
    Ltac nis := first [ assumption | exact I | solve [cbn; auto] ].
    Ltac nostate :=
      solve [ assumption | let E := fresh in intros E; subst;
              first [ eapply Hreg_h; eassumption
                    | match goal with Q : Qs ?t, L : find_local_helper ?t _ = Some HState |- _ =>
                        exact (q_local t Q _ L) end ] ].
    Ltac sstep :=
      match goal with
      | |- sim _ (ROk _ _) (ROk _ _) => apply sim_ok; [feq_tac | qs' | try nis]
      | |- sim _ (RErr _ _) (RErr _ _) => apply sim_err; feq_tac
      | |- sim _ (rfail _ _) (rfail _ _) => apply sim_rfail; feq_tac
      | |- sim _ (strict_error _ _) (strict_error _ _) => apply sim_rfail; feq_tac
      | |- sim _ (RPanic _) (RPanic _) => reflexivity
      | |- sim _ (rbind _ _) (rbind _ _) => eapply sim_rbind; [ | intro_k]
      | |- sim _ (rmap_err _ _) (rmap_err _ _) => apply sim_rmap_err
      | |- sim _ (indent_aware_write _ _) (indent_aware_write _ _) => apply sim_iaw; [feq_tac | qs']
      | |- sim _ (out_write _ _) (out_write _ _) => apply sim_out_write; [feq_tac | qs']
      | |- sim _ (log_write _ _) (log_write _ _) => apply sim_log_write; [feq_tac | qs']
      | |- sim _ (evaluate2 _ _ _) (evaluate2 _ _ _) => apply sim_evaluate2; [feq_tac | qs']
      | |- sim _ (evaluate _ _ _) (evaluate _ _ _) => apply sim_evaluate; [feq_tac | qs']
      | |- sim _ (call_inner _ _ _ _) (call_inner _ _ _ _) => apply sim_call_inner; [feq_tac | qs']
      | |- sim _ (render_template _ _ _ f _ _) (render_template _ _ _ f _ _) =>
          apply (fi_render_template f IH); [feq_tac | qs' | try nis]
      | |- sim _ (eval_template _ _ _ f _ _) (eval_template _ _ _ f _ _) =>
          apply (fi_eval_template f IH); [feq_tac | qs' | try nis]
      | |- sim _ (opt_render _ _ _ f _ _) (opt_render _ _ _ f _ _) =>
          apply (fi_opt_render f IH); [feq_tac | qs' | try nis]
      | |- sim _ (render_element _ _ _ f _ _) (render_element _ _ _ f _ _) =>
          apply (fi_render_element f IH); [feq_tac | qs' | try nis]
      | |- sim _ (eval_element _ _ _ f _ _) (eval_element _ _ _ f _ _) =>
          apply (fi_eval_element f IH); [feq_tac | qs' | try nis]
      | |- sim _ (render_expression _ _ _ f _ _ _) (render_expression _ _ _ f _ _ _) =>
          apply (fi_render_expression f IH); [feq_tac | qs' | try nis]
      | |- sim _ (render_helper _ _ _ f _ _) (render_helper _ _ _ f _ _) =>
          apply (fi_render_helper f IH); [feq_tac | qs' | try nis]
      | |- sim _ (helper_from_template _ _ _ f _ _) (helper_from_template _ _ _ f _ _) =>
          apply (fi_helper_from_template f IH); [feq_tac | qs' | try nis]
      | |- sim _ (deco_from_template _ _ _ f _ _) (deco_from_template _ _ _ f _ _) =>
          eapply (fi_deco_from_template f IH); [feq_tac | qs' | try eassumption]
      | |- sim _ (expand_as_name _ _ _ f _ _) (expand_as_name _ _ _ f _ _) =>
          apply (fi_expand_as_name f IH); [feq_tac | qs' | try nis]
      | |- sim _ (expand_param _ _ _ f _ _) (expand_param _ _ _ f _ _) =>
          apply (fi_expand_param f IH); [feq_tac | qs' | try nis]
      | |- sim _ (call_helper_for_value _ _ _ f _ _ _) (call_helper_for_value _ _ _ f _ _ _) =>
          apply (fi_call_helper_for_value f IH); [feq_tac | qs' | try nostate | try nis]
      | |- sim _ (call_helper _ _ _ f _ _ _) (call_helper _ _ _ f _ _ _) =>
          apply (fi_call_helper f IH); [feq_tac | qs' | try nostate | try nis]
      | |- sim _ (eval_decorator _ _ _ f _ _) (eval_decorator _ _ _ f _ _) =>
          apply (fi_eval_decorator f IH); [feq_tac | qs' | try nis]
      | |- sim _ (render_partial _ _ _ f _ _) (render_partial _ _ _ f _ _) =>
          apply (fi_render_partial f IH); [feq_tac | qs' | try nis]
      | |- sim _ (expand_partial _ _ _ f _ _) (expand_partial _ _ _ f _ _) =>
          apply (fi_expand_partial f IH); [feq_tac | qs' | try nis]
      | |- sim _ (param_or _ _ _ _ _) (param_or _ _ _ _ _) => unfold param_or
      | |- sim _ (match ?c with _ => _ end) (match ?c with _ => _ end) => destruct c eqn:?
      | |- sim _ (if ?c then _ else _) (if ?c' then _ else _) => destruct c eqn:?; destruct c' eqn:?
      end.
    Ltac norm := fl_cbn; rewrite ?helper_exists_fl, ?find_local_helper_fl, ?get_partial_fl.
    Ltac start := intros t1 t2 (a & b & c & ->) Hq; fl_cbn.
    Ltac esc_step :=
      match goal with
      | |- sim _ (let '(_, _) := do_escape _ ?c0 ?t in _) (let '(_, _) := do_escape _ ?c0 (fl ?t ?a ?b ?cc) in _) =>
          rewrite (do_escape_fl c0 t a b cc);
          let Hq := fresh "Hq" in
          assert (Hq : Qs (snd (do_escape reg c0 t))) by (apply do_escape_Qs; qs');
          destruct (do_escape reg c0 t) as [? ?]; cbn [fst snd] in *
      end.
    Ltac go := norm; repeat (first [sstep | esc_step]; norm).

    Lemma g_render_template t : forall t1 t2, feq t1 t2 -> Qs t1 -> no_indent t ->
      sim T (render_template reg data ft (S f) t t1) (render_template reg data ft (S f) t t2).
    Proof.
      start. intros Hn. rewrite !render_template_eq.
      eapply sim_rbind; [|intros ? ? ? (? & ? & ? & ->) ? ?; apply sim_ok; [feq_tac|qs|exact I]].
      apply sim_fold_idx; [|feq_tac|qs].
      intros x i t1' t2' Hin (a' & b' & c' & ->) Hq'. pose proof (ni_template_els _ _ Hn Hin).
      repeat sstep.
    Qed.

    Lemma g_eval_template t : forall t1 t2, feq t1 t2 -> Qs t1 -> no_indent t ->
      sim T (eval_template reg data ft (S f) t t1) (eval_template reg data ft (S f) t t2).
    Proof.
      start. intros Hn. rewrite !eval_template_eq.
      apply sim_fold_idx; [|feq_tac|qs'].
      intros x i t1' t2' Hin (a' & b' & c' & ->) Hq'. pose proof (ni_template_els _ _ Hn Hin).
      repeat sstep.
    Qed.

    Lemma g_opt_render t : forall t1 t2, feq t1 t2 -> Qs t1 -> opt_ni t ->
      sim T (opt_render reg data ft (S f) t t1) (opt_render reg data ft (S f) t t2).
    Proof. start. intros Hn. rewrite !opt_render_eq. destruct t; cbn in Hn; repeat sstep. Qed.

    Lemma g_render_element e : forall t1 t2, feq t1 t2 -> Qs t1 -> ni_element e = true ->
      sim T (render_element reg data ft (S f) e t1) (render_element reg data ft (S f) e t2).
    Proof. start. intros Hn. rewrite !render_element_eq. destruct e; cbn [ni_element] in Hn; repeat sstep. Qed.

    Lemma g_eval_element e : forall t1 t2, feq t1 t2 -> Qs t1 -> ni_element e = true ->
      sim T (eval_element reg data ft (S f) e t1) (eval_element reg data ft (S f) e t2).
    Proof. start. intros Hn. rewrite !eval_element_eq. destruct e; cbn [ni_element] in Hn; repeat sstep. Qed.

    Lemma g_render_expression ht html : forall t1 t2, feq t1 t2 -> Qs t1 -> ni_helper ht = true ->
      sim T (render_expression reg data ft (S f) ht html t1) (render_expression reg data ft (S f) ht html t2).
    Proof.
      start. intros Hn. rewrite !render_expression_eq. cbv zeta.
      destruct (ni_helper_parts _ Hn) as (Hn1 & Hn2 & Hn3 & Hn4 & Hn5).
      apply (sim_post T (fun s' => if html then set_disable_escape s' false else s'));
        [intros; destruct html; reflexivity|intros; destruct html; qs'|].
      destruct html; go.
    Qed.

    Lemma g_render_helper ht : forall t1 t2, feq t1 t2 -> Qs t1 -> ni_helper ht = true ->
      sim T (render_helper reg data ft (S f) ht t1) (render_helper reg data ft (S f) ht t2).
    Proof.
      start. intros Hn. rewrite !render_helper_eq. cbv zeta. go.
    Qed.

    Lemma g_mapM_params l : forallb ni_param l = true -> forall t1 t2, feq t1 t2 -> Qs t1 ->
      sim T (mapM (expand_param reg data ft f) l t1) (mapM (expand_param reg data ft f) l t2).
    Proof.
      intros Hl. apply sim_mapM. intros x t1 t2 Hin Hf Hq.
      apply (fi_expand_param f IH); [assumption|assumption|]. exact (proj1 (forallb_forall _ _) Hl x Hin).
    Qed.
    Lemma g_mapM_hash (l : list (str * param)) :
      forallb (fun kv : str * param => ni_param (snd kv)) l = true -> forall t1 t2, feq t1 t2 -> Qs t1 ->
      sim T (mapM (fun (kv : str * param) s' =>
                     rbind (expand_param reg data ft f (snd kv) s') (fun v s'' => ROk (fst kv, v) s'')) l t1)
            (mapM (fun (kv : str * param) s' =>
                     rbind (expand_param reg data ft f (snd kv) s') (fun v s'' => ROk (fst kv, v) s'')) l t2).
    Proof.
      intros Hl. apply sim_mapM. intros x t1 t2 Hin (a & b & c & ->) Hq.
      pose proof (proj1 (forallb_forall _ _) Hl x Hin) as Hx. cbn beta in Hx. go.
    Qed.
    Ltac go2 :=
      norm; repeat (first [ sstep | esc_step
                    | match goal with
                      | |- sim _ (mapM (expand_param _ _ _ f) _ _) (mapM _ _ _) =>
                          apply g_mapM_params; [assumption|feq_tac|qs']
                      | |- sim _ (mapM _ _ _) (mapM _ _ _) => apply g_mapM_hash; [assumption|feq_tac|qs']
                      end ]; norm).

    Lemma g_helper_from_template ht : forall t1 t2, feq t1 t2 -> Qs t1 -> ni_helper ht = true ->
      sim ni_hv (helper_from_template reg data ft (S f) ht t1) (helper_from_template reg data ft (S f) ht t2).
    Proof.
      start. intros Hn. rewrite !helper_from_template_eq.
      destruct (ni_helper_parts _ Hn) as (Hn1 & Hn2 & Hn3 & Hn4 & Hn5). go2.
      split; cbn; assumption.
    Qed.

    Lemma g_deco_from_template part dt : forall t1 t2, feq t1 t2 -> Qs t1 -> ni_deco part dt = true ->
      sim (ni_dv part) (deco_from_template reg data ft (S f) dt t1) (deco_from_template reg data ft (S f) dt t2).
    Proof.
      start. intros Hn. rewrite !deco_from_template_eq.
      destruct (ni_deco_parts _ _ Hn) as (Hn1 & Hn2 & Hn3 & Hn4 & Hn5). go2.
      split; cbn [dv_tpl dv_indent]; [assumption|].
      intros Hp. match goal with Q : Qs ?t |- combine_indent (s_indent ?t) _ = _ => rewrite (q_indent t Q) end.
      rewrite (Hn5 Hp). reflexivity.
    Qed.

    Lemma g_expand_as_name p : forall t1 t2, feq t1 t2 -> Qs t1 -> ni_param p = true ->
      sim T (expand_as_name reg data ft (S f) p t1) (expand_as_name reg data ft (S f) p t2).
    Proof. start. intros Hn. rewrite !expand_as_name_eq. destruct p; go2. Qed.

    Lemma g_expand_param p : forall t1 t2, feq t1 t2 -> Qs t1 -> ni_param p = true ->
      sim T (expand_param reg data ft (S f) p t1) (expand_param reg data ft (S f) p t2).
    Proof.
      start. intros Hn. rewrite !expand_param_eq. destruct p as [n|pa|j|el]; try solve [go2].
      destruct el; try reflexivity. cbn [ni_param ni_element] in Hn.
      destruct (ni_helper_parts _ Hn) as (Hn1 & Hn2 & Hn3 & Hn4 & Hn5). go2.
    Qed.

    Ltac sim_scrut :=
      match goal with
      | |- sim _ (match ?x with _ => _ end) (match ?y with _ => _ end) =>
          let H := fresh "Hs" in
          eassert (H : sim _ x y);
          [ | destruct x eqn:?, y eqn:?; cbn [sim] in H; try contradiction;
              [ destruct H as (<- & (? & ? & ? & ->) & ? & ?)
              | destruct H as (<- & (? & ? & ? & ->))
              | subst; reflexivity
              | exact I ] ]
      end.

    Ltac ci_err :=
      repeat match goal with
             | E : call_inner _ ?hid ?h ?t = RErr _ ?s |- _ =>
                 tryif constr_eq s t then fail else
                   (let X := fresh in pose proof (call_inner_res reg hid h t) as X; rewrite E in X; subst s)
             end.

    Lemma g_call_helper_for_value hid h : forall t1 t2, feq t1 t2 -> Qs t1 -> hid <> HState -> ni_hv h ->
      sim T (call_helper_for_value reg data ft (S f) hid h t1) (call_helper_for_value reg data ft (S f) hid h t2).
    Proof.
      start. intros Hh Hv. rewrite !call_helper_for_value_eq. cbv zeta.
      sim_scrut; [go2| |]; norm.
      - go2.
      - destruct (is_unimplemented e); [|go2].
        ci_err.
        match goal with
        | |- simg _ _ _ (match ?X with _ => _ end) (match ?Y with _ => _ end) =>
            assert (Hp : simg [] 0 T X Y);
            [ apply IH0; [feq_tac| |assumption|assumption];
              destruct Hq; constructor; try assumption; reflexivity
            | destruct X as [u3 s3|e3 s3|p3|]; destruct Y as [u3' s3'|e3' s3'|p3'|];
              cbn [simg] in Hp; try contradiction ]
        end.
        + destruct Hp as (_ & (a3 & b3 & c3 & ->) & Hq3 & _).
          replace (out_text (s_out (pre [] 0 pl pt s3 a3 b3 c3))) with (out_text (s_out s3))
            by (unfold out_text; cbn [pre s_out o_chunks]; rewrite app_nil_r; reflexivity).
          apply sim_ok; [feq_tac| |exact I].
          destruct Hq3, Hq. constructor; try assumption.
        + destruct Hp as (<- & (a3 & b3 & c3 & ->)). apply sim_err. feq_tac.
        + subst. reflexivity.
        + exact I.
    Qed.

    Lemma g_fold_w {A} t (W : A -> nat -> rstate -> rstate) l :
      no_indent t -> (forall x i s a b c, W x i (fl s a b c) = fl (W x i s) a b c) ->
      (forall x i s, Qs s -> Qs (W x i s)) ->
      forall i t1 t2, feq t1 t2 -> Qs t1 ->
      sim T (fold_idx (fun x i s' => render_template reg data ft f t (W x i s')) l i t1)
            (fold_idx (fun x i s' => render_template reg data ft f t (W x i s')) l i t2).
    Proof.
      intros Hn HW HQ. apply sim_fold_idx. intros x i t1 t2 _ (a & b & c & ->) Hq.
      rewrite HW. apply (fi_render_template f IH); [feq_tac|apply HQ; exact Hq|exact Hn].
    Qed.

    Lemma g_call_helper hid h : forall t1 t2, feq t1 t2 -> Qs t1 -> hid <> HState -> ni_hv h ->
      sim T (call_helper reg data ft (S f) hid h t1) (call_helper reg data ft (S f) hid h t2).
    Proof.
      start. intros Hh Hv. rewrite !call_helper_eq. destruct Hv as [Hv1 Hv2].
      destruct (has_call_inner hid) eqn:Hci.
      - sim_scrut; [go2| |]; norm; ci_err; go2.
      - destruct hid; try discriminate Hci; try (exfalso; apply Hh; reflexivity); cbv zeta.
        all: try solve [go2].
        + (* HIf *) go2; match goal with |- opt_ni (if ?c then _ else _) => destruct c; assumption end.
        + (* HUnless *) go2; match goal with |- opt_ni (if ?c then _ else _) => destruct c; assumption end.
        + (* HEach *)
          go2;
            match goal with
            | Ht : hv_tpl h = Some ?t |- sim _ (fold_idx _ _ _ _) (fold_idx _ _ _ _) =>
                try rewrite Ht in Hv1; cbn [opt_ni] in Hv1;
                eapply (g_fold_w t);
                [ exact Hv1
                | intros; unfold each_iter_setup; apply map_front_block_fl
                | intros; unfold each_iter_setup; apply map_front_block_Qs; assumption
                | feq_tac | qs' ]
            end.
        + (* HLocal *)
          destruct (starts_with (`"c:") name).
          { (* the capture bracket: both runs start the private buffer empty *)
            destruct (hv_tpl h) as [t|] eqn:Et; [|go2].
            cbn [opt_ni] in Hv1.
            match goal with
            | |- simg _ _ _ (match ?X with _ => _ end) (match ?Y with _ => _ end) =>
                assert (Hp : simg [] 0 T X Y);
                [ apply IH0t; [feq_tac| |exact Hv1];
                  destruct Hq; constructor; try assumption; reflexivity
                | destruct X as [u3 s3|e3 s3|p3|]; destruct Y as [u3' s3'|e3' s3'|p3'|];
                  cbn [simg] in Hp; try contradiction ]
            end.
            - destruct Hp as (_ & (a3 & b3 & c3 & ->) & Hq3 & _).
              replace (out_text (s_out (pre [] 0 pl pt s3 a3 b3 c3))) with (out_text (s_out s3))
                by (unfold out_text; cbn [pre s_out o_chunks]; rewrite app_nil_r; reflexivity).
              assert (HQ : Qs (set_out s3 (s_out (log_entry t1
                             (`"local(" ++ name ++ `":" ++ params_text (hv_params h) ++ `")"))))).
              { destruct Hq3, Hq. constructor; try assumption. }
              match goal with
              | |- simg _ _ _ (rbind (out_write _ ?A) _) (rbind (out_write _ ?B) _) =>
                  change B with (fl A a3 b3 c3)
              end.
              go2.
            - destruct Hp as (<- & (a3 & b3 & c3 & ->)). apply sim_err.
              exists a3, b3, c3. reflexivity.
            - subst. reflexivity.
            - exact I. }
          destruct (starts_with (`"e:") name); [|go2].
          match goal with
          | |- context [log_entry (fl t1 a b c) ?x] =>
              change (log_entry (fl t1 a b c) x) with (fl (log_entry t1 x) a b c)
          end.
          go2.
    Qed.

    Lemma g_eval_decorator dt : forall t1 t2, feq t1 t2 -> Qs t1 -> ni_deco false dt = true ->
      sim T (eval_decorator reg data ft (S f) dt t1) (eval_decorator reg data ft (S f) dt t2).
    Proof.
      start. intros Hn. rewrite !eval_decorator_eq. go2.
      - match goal with Hv : ni_dv false ?d, Ht : dv_tpl ?d = Some ?t |- _ =>
          destruct Hv as [Hv _]; rewrite Ht in Hv; cbn [opt_ni] in Hv end.
        apply sim_ok; [feq_tac|apply Qs_add_partial; assumption|exact I].
      - apply sim_ok; [feq_tac|apply Qs_add_local; assumption|exact I].
    Qed.

    Lemma g_render_partial dt : forall t1 t2, feq t1 t2 -> Qs t1 -> ni_deco true dt = true ->
      sim T (render_partial reg data ft (S f) dt t1) (render_partial reg data ft (S f) dt t2).
    Proof.
      start. intros Hn. rewrite !render_partial_eq. cbv zeta. go2.
    Qed.

    Lemma g_expand_partial d : forall t1 t2, feq t1 t2 -> Qs t1 -> ni_dv true d ->
      sim T (expand_partial reg data ft (S f) d t1) (expand_partial reg data ft (S f) d t2).
    Proof.
      start. intros [Hd1 Hd2]. specialize (Hd2 eq_refl). rewrite !expand_partial_unfold.
      eapply sim_rbind.
      { unfold run_block_decorators. destruct (dv_tpl d) as [t|]; cbn [opt_ni] in Hd1; go2. }
      intros [] s1 s1' (a1 & b1 & c1 & ->) Hq1 _.
      rewrite is_self_fl, resolve_partial_fl.
      destruct (is_self d s1); [apply sim_rfail; feq_tac|].
      destruct (resolve_partial reg d s1) as [partial|] eqn:Hres; [|apply sim_rfail; feq_tac].
      pose proof (resolve_ni d s1 partial Hq1 Hd1 Hres) as Hnp.
      rewrite depth_step_fl.
      eapply sim_rbind; [apply sim_partial_context; [feq_tac|apply depth_step_Qs; exact Hq1]|].
      intros merged s3 s3' (a3 & b3 & c3 & ->) Hq3 _.
      rewrite partial_inner_fl.
      sim_scrut.
      { apply (fi_render_template f IH); [feq_tac|apply partial_inner_Qs; assumption|exact Hnp]. }
      - rewrite partial_cleanup_fl. apply sim_ok; [feq_tac|apply partial_cleanup_Qs; assumption|exact I].
      - rewrite partial_cleanup_fl. apply sim_err. feq_tac.
    Qed.

    Lemma flags_step : flags_at (S f).
    Proof.
      constructor.
      - exact g_render_template. - exact g_eval_template. - exact g_opt_render.
      - exact g_render_element. - exact g_eval_element. - exact g_render_expression.
      - exact g_render_helper. - exact g_helper_from_template. - exact g_deco_from_template.
      - exact g_expand_as_name. - exact g_expand_param. - exact g_call_helper_for_value.
      - exact g_call_helper. - exact g_eval_decorator. - exact g_render_partial.
      - exact g_expand_partial.
    Qed.
  End Step.

End Prefix.

Theorem prefix_all reg data ft :
  ni_map (r_templates reg) -> (forall n, find_reg_helper reg n <> Some HState) ->
  forall pl pt f po wo, flags_at reg data ft pl pt po wo f.
Proof.
  intros Ht Hh pl pt. induction f as [|f IHf]; intros po wo.
  - apply flags_0.
  - apply flags_step; [exact Ht|exact Hh|apply IHf| |].
    + intros hid h t1 t2 Hf Hq Hn Hv. apply (fi_call_helper _ _ _ _ _ _ _ _ (IHf [] 0)); assumption.
    + intros t t1 t2 Hf Hq Hn. apply (fi_render_template _ _ _ _ _ _ _ _ (IHf [] 0)); assumption.
Qed.

(* ================= Part 2: concatenation ================= *)
Lemma out_text_pre po wo pl pt s a b c :
  out_text (s_out (pre po wo pl pt s a b c)) = concat (rev po) ++ out_text (s_out s).
Proof. unfold out_text. cbn [pre s_out o_chunks]. rewrite rev_app_distr, concat_app. reflexivity. Qed.

(* siblings: states that differ only in the writer content, the log, the
   trace and the flags, with no write fault armed *)
Definition sib (s1 s2 : rstate) : Prop :=
  s_blocks s2 = s_blocks s1 /\ s_modified s2 = s_modified s1 /\ s_partials s2 = s_partials s1 /\
  s_pb_stack s2 = s_pb_stack s1 /\ s_pb_depth s2 = s_pb_depth s1 /\
  s_local_helpers s2 = s_local_helpers s1 /\ s_current s2 = s_current s1 /\ s_root s2 = s_root s1 /\
  s_disable_escape s2 = s_disable_escape s1 /\ s_indent s2 = s_indent s1 /\ s_dev s2 = s_dev s1 /\
  o_fail_at (s_out s1) = None /\ o_fail_at (s_out s2) = None.

Lemma sib_sym s1 s2 : sib s1 s2 -> sib s2 s1.
Proof. unfold sib. intuition. Qed.
Lemma sib_trans s1 s2 s3 : sib s1 s2 -> sib s2 s3 -> sib s1 s3.
Proof. unfold sib. intuition congruence. Qed.
Lemma sib_refl s : o_fail_at (s_out s) = None -> sib s s.
Proof. unfold sib. intuition. Qed.
Lemma Qx_sib s s' : sib s s' -> Qx s -> Qx s'.
Proof.
  intros (H1 & H2 & H3 & H4 & H5 & H6 & H7 & H8 & H9 & H10 & H11 & H12 & H13) [Q1 Q2 Q3 Q4 Q5 Q6].
  constructor; unfold find_local_helper in *; rewrite ?H3, ?H4, ?H6, ?H10, ?H11; assumption.
Qed.

(* the hub: the state with an empty writer, log and trace and cleared flags *)
Definition strip (s : rstate) : rstate :=
  {| s_blocks := s_blocks s; s_modified := s_modified s; s_partials := s_partials s;
     s_pb_stack := s_pb_stack s; s_pb_depth := s_pb_depth s; s_local_helpers := s_local_helpers s;
     s_current := s_current s; s_root := s_root s; s_disable_escape := s_disable_escape s;
     s_trailing_newline := false; s_content_produced := false; s_indent_before_write := false;
     s_indent := s_indent s; s_dev := s_dev s; s_out := out_new None; s_log := []; s_esc_trace := [] |}.

Lemma strip_sib s s' : sib s s' -> strip s' = strip s.
Proof.
  intros (H1 & H2 & H3 & H4 & H5 & H6 & H7 & H8 & H9 & H10 & H11 & _). unfold strip.
  rewrite H1, H2, H3, H4, H5, H6, H7, H8, H9, H10, H11. reflexivity.
Qed.
Lemma strip_peq s : o_fail_at (s_out s) = None ->
  peq (o_chunks (s_out s)) (o_writes (s_out s)) (s_log s) (s_esc_trace s) (strip s) s.
Proof.
  intros Hf. apply peq_prel. unfold prel, strip, out_new.
  cbn [s_blocks s_modified s_partials s_pb_stack s_pb_depth s_local_helpers s_current s_root
       s_disable_escape s_indent s_dev s_out s_log s_esc_trace o_chunks o_writes o_fail_at app].
  repeat split; try reflexivity; first [lia | exact Hf | (symmetry; exact Hf)].
Qed.
Lemma strip_Qx s : Qx s -> Qx (strip s).
Proof. intros [Q1 Q2 Q3 Q4 Q5 Q6]. constructor; try assumption. reflexivity. Qed.
Lemma peq_sib po wo pl pt t1 t2 : peq po wo pl pt t1 t2 -> o_fail_at (s_out t1) = None -> sib t1 t2.
Proof.
  intros (a & b & c & ->) Hf. unfold sib. cbn [pre s_blocks s_modified s_partials s_pb_stack s_pb_depth
    s_local_helpers s_current s_root s_disable_escape s_indent s_dev s_out o_fail_at].
  repeat split; try reflexivity; exact Hf.
Qed.

Section Concat.
  Variable reg : registry.
  Variable data : json.
  Variable ft : ftable.
  Hypothesis Hreg_t : ni_map (r_templates reg).
  Hypothesis Hreg_h : forall n, map_get (r_helpers reg) n <> Some HState.

  (* a run of sibling elements, without the error decoration *)
  Definition els (f : nat) (L : list element) (s : rstate) : rres unit :=
    fold_idx (fun e (_ : nat) s' => render_element reg data ft f e s') L 0%nat s.

  Lemma fold_idx_noidx {A} (h : A -> rstate -> rres unit) l : forall i j s,
    fold_idx (fun x (_ : nat) s' => h x s') l i s = fold_idx (fun x (_ : nat) s' => h x s') l j s.
  Proof.
    induction l as [|x l IH]; intros i j s; cbn [fold_idx]; [reflexivity|].
    destruct (h x s); cbn [rbind]; try reflexivity. apply IH.
  Qed.

  Lemma els_app f L1 L2 s : els f (L1 ++ L2) s = rbind (els f L1 s) (fun _ s' => els f L2 s').
  Proof.
    unfold els. rewrite fold_idx_app. destruct (fold_idx _ L1 0%nat s); cbn [rbind]; try reflexivity.
    apply fold_idx_noidx.
  Qed.

  Lemma els_dec f (g : nat -> rerror -> rerror) L i s s' :
    fold_idx (fun e idx s' => rmap_err (render_element reg data ft f e s') (g idx)) L i s = ROk tt s' <->
    els f L s = ROk tt s'.
  Proof.
    unfold els. apply fold_idx_step_ok. intros x i0 j s0 s0'. apply rmap_err_ok_iff.
  Qed.

  Lemma els_restored f L s s' : els f L s = ROk tt s' -> restored s s'.
  Proof.
    intros H. apply (els_dec f (fun _ e => e) L 0%nat) in H. eapply frame_elements; exact H.
  Qed.

  (* prefix independence for a run of elements *)
  Lemma els_sim f pl pt po wo L : forallb ni_element L = true ->
    forall t1 t2, peq po wo pl pt t1 t2 -> Qx t1 -> simg pl pt po wo T (els f L t1) (els f L t2).
  Proof.
    intros Hl. unfold els. apply sim_fold_idx. intros x i t1 t2 Hin Hf Hq.
    apply (fi_render_element _ _ _ _ _ _ _ _ (prefix_all reg data ft Hreg_t Hreg_h pl pt f po wo));
      [assumption|assumption|]. exact (proj1 (forallb_forall _ _) Hl x Hin).
  Qed.

  (* the core: from sibling states, a run of elements has the same outcome and
     appends the same text *)
  Lemma els_core f L sa sb : Qx sa -> sib sa sb -> forallb ni_element L = true ->
    match els f L sa with
    | ROk _ ra => exists rb x, els f L sb = ROk tt rb /\ sib ra rb /\ Qx ra /\
                    out_text (s_out ra) = out_text (s_out sa) ++ x /\
                    out_text (s_out rb) = out_text (s_out sb) ++ x
    | RErr e _ => exists r, els f L sb = RErr e r
    | RPanic p => els f L sb = RPanic p
    | RFuel => els f L sb = RFuel
    end.
  Proof.
    intros Hq Hs Hl.
    pose proof Hs as (_ & _ & _ & _ & _ & _ & _ & _ & _ & _ & _ & Hfa & Hfb).
    pose proof (els_sim f _ _ _ _ L Hl _ _ (strip_peq sa Hfa) (strip_Qx sa Hq)) as Ha.
    pose proof (els_sim f _ _ _ _ L Hl _ _ (strip_peq sb Hfb) (strip_Qx sb (Qx_sib _ _ Hs Hq))) as Hb.
    rewrite (strip_sib _ _ Hs) in Hb.
    destruct (els f L (strip sa)) as [[] ru|eu ru|pu|]; destruct (els f L sa) as [[] ra|ea ra|pa|];
      cbn [simg] in Ha; try contradiction;
      destruct (els f L sb) as [[] rb|eb rb|pb|]; cbn [simg] in Hb; try contradiction.
    - destruct Ha as (_ & Hfa' & Hqu & _). destruct Hb as (_ & Hfb' & _ & _).
      pose proof (q_fail _ Hqu) as Hfu.
      exists rb, (out_text (s_out ru)). split; [reflexivity|].
      split; [eapply sib_trans; [apply sib_sym; eapply peq_sib; eassumption|eapply peq_sib; eassumption]|].
      split; [eapply Qx_sib; [eapply peq_sib; eassumption|exact Hqu]|].
      destruct Hfa' as (a1 & b1 & c1 & ->). destruct Hfb' as (a2 & b2 & c2 & ->).
      rewrite !out_text_pre. split; reflexivity.
    - destruct Ha as (<- & _). destruct Hb as (<- & _). eexists; reflexivity.
    - subst. reflexivity.
    - reflexivity.
  Qed.

  (* the literal *)
  Lemma els_raw f bar s : Qx s -> bar <> [] ->
    exists r, els (S f) [ElRaw bar] s = ROk tt r /\ sib s r /\ Qx r /\
              out_text (s_out r) = out_text (s_out s) ++ bar.
  Proof.
    intros Hq Hb. unfold els. cbn [fold_idx]. rewrite render_element_eq.
    rewrite (iaw_none _ _ (q_indent _ Hq) Hb).
    unfold out_write. destruct bar as [|c0 bar]; [contradiction|].
    cbn [s_out set_content_produced]. rewrite (q_fail _ Hq). cbn [rbind].
    eexists. split; [reflexivity|].
    assert (Hs : sib s (set_indent_before_write
                (set_trailing_newline
                   (set_out (set_content_produced s true)
                      {| o_chunks := (c0 :: bar) :: o_chunks (s_out s); o_writes := o_writes (s_out s) + 1;
                         o_fail_at := None |}) (last_is is_newline (c0 :: bar)))
                (last_is is_newline (c0 :: bar)))).
    { unfold sib. cbn. repeat split; try reflexivity. exact (q_fail _ Hq). }
    split; [exact Hs|]. split; [exact (Qx_sib _ _ Hs Hq)|].
    unfold out_text. cbn. rewrite concat_app. cbn. rewrite app_nil_r. reflexivity.
  Qed.

  (* what A must not do: persist decorator effects *)
  Definition keeps (s s' : rstate) : Prop :=
    s_partials s' = s_partials s /\ s_local_helpers s' = s_local_helpers s /\ s_modified s' = s_modified s.

  Lemma sib_after f A s sa : Qx s -> s_disable_escape s = false ->
    els f A s = ROk tt sa -> keeps s sa -> Qx sa -> sib s sa.
  Proof.
    intros Hq He HA (K1 & K2 & K3) Hqa. apply els_restored in HA.
    destruct HA as (R1 & R2 & R3 & R4 & R5 & R6 & R7 & R8).
    unfold sib. repeat split; try assumption; try (exact (q_fail _ Hq)); try (exact (q_fail _ Hqa)).
    rewrite He. destruct (s_disable_escape sa); [|reflexivity]. rewrite R8 in He; [discriminate He|reflexivity].
  Qed.

  (* concatenation, at the level of element runs *)
  Lemma concat_els_ok f A bar B s sa sb :
    Qx s -> s_disable_escape s = false -> bar <> [] ->
    forallb ni_element A = true -> forallb ni_element B = true ->
    els (S f) A s = ROk tt sa -> keeps s sa -> els (S f) B s = ROk tt sb ->
    exists r x y, els (S f) (A ++ ElRaw bar :: B) s = ROk tt r /\
      out_text (s_out sa) = out_text (s_out s) ++ x /\
      out_text (s_out sb) = out_text (s_out s) ++ y /\
      out_text (s_out r) = out_text (s_out s) ++ x ++ bar ++ y.
  Proof.
    intros Hq He Hb HnA HnB HA HK HB.
    pose proof (els_core (S f) A s s Hq (sib_refl s (q_fail _ Hq)) HnA) as CA. rewrite HA in CA.
    destruct CA as (ra & x & HA' & _ & Hqa & Hxa & _).
    pose proof (sib_after _ _ _ _ Hq He HA HK Hqa) as Hsa.
    destruct (els_raw f bar sa Hqa Hb) as (r1 & H1 & Hs1 & Hq1 & Ht1).
    pose proof (els_core (S f) B s r1 Hq (sib_trans _ _ _ Hsa Hs1) HnB) as CB. rewrite HB in CB.
    destruct CB as (rb & y & HB' & _ & _ & Hyb & Hyr).
    exists rb, x, y. split.
    - change (A ++ ElRaw bar :: B) with (A ++ [ElRaw bar] ++ B). rewrite els_app, HA. cbn [rbind].
      rewrite els_app, H1. cbn [rbind]. exact HB'.
    - split; [exact Hxa|]. split; [exact Hyb|]. rewrite Hyr, Ht1, Hxa. rewrite <- !app_assoc. reflexivity.
  Qed.

  Lemma concat_els_inv f A bar B s r :
    Qx s -> s_disable_escape s = false -> bar <> [] ->
    forallb ni_element A = true -> forallb ni_element B = true ->
    (forall sa, els (S f) A s = ROk tt sa -> keeps s sa) ->
    els (S f) (A ++ ElRaw bar :: B) s = ROk tt r ->
    exists sa sb, els (S f) A s = ROk tt sa /\ els (S f) B s = ROk tt sb.
  Proof.
    intros Hq He Hb HnA HnB HK H.
    change (A ++ ElRaw bar :: B) with (A ++ [ElRaw bar] ++ B) in H. rewrite els_app in H.
    apply rbind_ok in H. destruct H as ([] & sa & HA & H). rewrite els_app in H.
    apply rbind_ok in H. destruct H as ([] & r1 & H1 & HB).
    pose proof (els_core (S f) A s s Hq (sib_refl s (q_fail _ Hq)) HnA) as CA. rewrite HA in CA.
    destruct CA as (_ & _ & _ & _ & Hqa & _).
    pose proof (sib_after _ _ _ _ Hq He HA (HK _ HA) Hqa) as Hsa.
    destruct (els_raw f bar sa Hqa Hb) as (r1' & H1' & Hs1 & Hq1 & _).
    rewrite H1 in H1'. injection H1' as <-.
    pose proof (els_core (S f) B r1 s Hq1 (sib_sym _ _ (sib_trans _ _ _ Hsa Hs1)) HnB) as CB. rewrite HB in CB.
    destruct CB as (sb & _ & HB' & _). eauto.
  Qed.

  (* repetition *)
  Definition rep {X} (l : list X) (k : nat) : list X := concat (repeat l k).
  Lemma rep_snoc {X} (l : list X) k : rep l (S k) = rep l k ++ l.
  Proof.
    unfold rep. induction k as [|k IH]; cbn [repeat concat] in *; [rewrite app_nil_r; reflexivity|].
    rewrite IH at 1. rewrite app_assoc. reflexivity.
  Qed.
  Lemma rep_ni (l : list element) k : forallb ni_element l = true -> forallb ni_element (rep l k) = true.
  Proof.
    intros Hl. unfold rep. induction k as [|k IH]; cbn [repeat concat]; [reflexivity|].
    rewrite forallb_app, Hl, IH. reflexivity.
  Qed.

  Lemma repeat_els f A bar s sa x :
    Qx s -> s_disable_escape s = false -> bar <> [] -> forallb ni_element A = true ->
    els (S f) A s = ROk tt sa -> keeps s sa -> out_text (s_out sa) = out_text (s_out s) ++ x ->
    forall k, exists r, els (S f) (rep (A ++ [ElRaw bar]) k) s = ROk tt r /\ sib s r /\ Qx r /\
                        out_text (s_out r) = out_text (s_out s) ++ rep (x ++ bar) k.
  Proof.
    intros Hq He Hb HnA HA HK Hx.
    pose proof (els_core (S f) A s s Hq (sib_refl s (q_fail _ Hq)) HnA) as CA. rewrite HA in CA.
    destruct CA as (_ & _ & _ & _ & Hqa & _).
    pose proof (sib_after _ _ _ _ Hq He HA HK Hqa) as Hsa.
    induction k as [|k (r & Hr & Hsr & Hqr & Htr)].
    - exists s. split; [reflexivity|]. split; [exact (sib_refl s (q_fail _ Hq))|]. split; [exact Hq|].
      cbn. rewrite app_nil_r. reflexivity.
    - pose proof (els_core (S f) A s r Hq Hsr HnA) as CA. rewrite HA in CA.
      destruct CA as (m & x' & Hm & Hsm & _ & Hx' & Hxm).
      rewrite Hx in Hx'. apply app_inv_head in Hx'. subst x'.
      assert (Hqm : Qx m) by (eapply Qx_sib; [exact Hsm|exact Hqa]).
      destruct (els_raw f bar m Hqm Hb) as (r' & H1 & Hs1 & Hq1 & Ht1).
      exists r'. split.
      + rewrite rep_snoc, els_app, Hr. cbn [rbind]. rewrite els_app, Hm. cbn [rbind]. exact H1.
      + split; [exact (sib_trans _ _ _ (sib_trans _ _ _ Hsa Hsm) Hs1)|]. split; [exact Hq1|].
        rewrite Ht1, Hxm, Htr, rep_snoc. rewrite <- !app_assoc. reflexivity.
  Qed.
End Concat.

(* ---------- at the level of templates ---------- *)
Section ConcatT.
  Variable reg : registry.
  Variable data : json.
  Variable ft : ftable.
  Hypothesis Hreg_t : ni_map (r_templates reg).
  Hypothesis Hreg_h : forall n, map_get (r_helpers reg) n <> Some HState.

  Lemma render_els f t s s' :
    render_template reg data ft (S f) t s = ROk tt s' <->
    exists s2, els reg data ft f (t_els t) (set_current s (t_name t)) = ROk tt s2 /\
               s' = set_current s2 (s_current s).
  Proof.
    rewrite render_template_ok. split; intros (s2 & H & ->); exists s2; (split; [|reflexivity]).
    - apply (els_dec reg data ft f _ _ _ _ _) in H. exact H.
    - apply (els_dec reg data ft f (attach_render t) (t_els t) 0%nat). exact H.
  Qed.

  Lemma ready_Qx s name : flags_ready s -> o_fail_at (s_out s) = None -> Qx (set_current s name).
  Proof. intros (H1 & H2 & H3 & H4 & H5) Hf. constructor; assumption. Qed.

  Theorem concat_ok f name A bar B mpA mpB mp s0 sA sB :
    flags_ready s0 -> o_fail_at (s_out s0) = None -> s_disable_escape s0 = false -> bar <> [] ->
    forallb ni_element A = true -> forallb ni_element B = true ->
    render_template reg data ft (S (S f)) (MkT name A mpA) s0 = ROk tt sA ->
    s_partials sA = s_partials s0 -> s_local_helpers sA = s_local_helpers s0 -> s_modified sA = s_modified s0 ->
    render_template reg data ft (S (S f)) (MkT name B mpB) s0 = ROk tt sB ->
    exists s' x y,
      render_template reg data ft (S (S f)) (MkT name (A ++ ElRaw bar :: B) mp) s0 = ROk tt s' /\
      out_text (s_out sA) = out_text (s_out s0) ++ x /\
      out_text (s_out sB) = out_text (s_out s0) ++ y /\
      out_text (s_out s') = out_text (s_out s0) ++ x ++ bar ++ y.
  Proof.
    intros Hr Hf He Hb HnA HnB HA K1 K2 K3 HB.
    apply render_els in HA. destruct HA as (sa & HA & ->).
    apply render_els in HB. destruct HB as (sb & HB & ->). cbn [t_els t_name] in HA, HB.
    destruct (concat_els_ok reg data ft Hreg_t Hreg_h f A bar B (set_current s0 name) sa sb
                (ready_Qx s0 name Hr Hf) He Hb HnA HnB HA (conj K1 (conj K2 K3)) HB) as (r & x & y & H & Hx & Hy & Ht).
    exists (set_current r (s_current s0)), x, y. split; [|split; [exact Hx|split; [exact Hy|exact Ht]]].
    apply render_els. exists r. split; [exact H|reflexivity].
  Qed.

  (* if either fails alone, the combination fails *)
  Theorem concat_inv f name A bar B mpA mpB mp s0 s' :
    flags_ready s0 -> o_fail_at (s_out s0) = None -> s_disable_escape s0 = false -> bar <> [] ->
    forallb ni_element A = true -> forallb ni_element B = true ->
    (forall sA, render_template reg data ft (S (S f)) (MkT name A mpA) s0 = ROk tt sA ->
                s_partials sA = s_partials s0 /\ s_local_helpers sA = s_local_helpers s0 /\
                s_modified sA = s_modified s0) ->
    render_template reg data ft (S (S f)) (MkT name (A ++ ElRaw bar :: B) mp) s0 = ROk tt s' ->
    exists sA sB,
      render_template reg data ft (S (S f)) (MkT name A mpA) s0 = ROk tt sA /\
      render_template reg data ft (S (S f)) (MkT name B mpB) s0 = ROk tt sB.
  Proof.
    intros Hr Hf He Hb HnA HnB HK H.
    apply render_els in H. destruct H as (r & H & ->). cbn [t_els t_name] in H.
    destruct (concat_els_inv reg data ft Hreg_t Hreg_h f A bar B (set_current s0 name) r
                (ready_Qx s0 name Hr Hf) He Hb HnA HnB) as (sa & sb & HA & HB); [|exact H|].
    - intros sa HA. apply (HK (set_current sa (s_current s0))). apply render_els. exists sa. split; [exact HA|reflexivity].
    - exists (set_current sa (s_current s0)), (set_current sb (s_current s0)).
      split; apply render_els; eexists; (split; [eassumption|reflexivity]).
  Qed.

  Theorem repeat_ok f name A bar mpA s0 sA :
    flags_ready s0 -> o_fail_at (s_out s0) = None -> s_disable_escape s0 = false -> bar <> [] ->
    forallb ni_element A = true ->
    render_template reg data ft (S (S f)) (MkT name A mpA) s0 = ROk tt sA ->
    s_partials sA = s_partials s0 -> s_local_helpers sA = s_local_helpers s0 -> s_modified sA = s_modified s0 ->
    exists x, out_text (s_out sA) = out_text (s_out s0) ++ x /\
      forall k mp, exists s',
        render_template reg data ft (S (S f)) (MkT name (concat (repeat (A ++ [ElRaw bar]) k)) mp) s0 = ROk tt s' /\
        out_text (s_out s') = out_text (s_out s0) ++ concat (repeat (x ++ bar) k).
  Proof.
    intros Hr Hf He Hb HnA HA K1 K2 K3.
    apply render_els in HA. destruct HA as (sa & HA & ->). cbn [t_els t_name] in HA.
    pose proof (ready_Qx s0 name Hr Hf) as Hq.
    pose proof (els_core reg data ft Hreg_t Hreg_h (S f) A _ _ Hq (sib_refl _ (q_fail _ Hq)) HnA) as CA.
    rewrite HA in CA. destruct CA as (_ & x & _ & _ & _ & Hx & _).
    exists x. split; [exact Hx|]. intros k mp.
    destruct (repeat_els reg data ft Hreg_t Hreg_h f A bar _ sa x Hq He Hb HnA HA (conj K1 (conj K2 K3)) Hx k)
      as (r & H & _ & _ & Ht).
    exists (set_current r (s_current s0)). split; [|exact Ht].
    apply render_els. exists r. split; [exact H|reflexivity].
  Qed.
End ConcatT.

(* ---------- the hypotheses are satisfiable ---------- *)
Definition cx_reg : registry := reg_with_strings [(`"p", `"[{{y}}]")].
Definition cx_data : json := JObj [(`"l", JArr [JNum (PosInt 1); JNum (PosInt 2)]); (`"y", JStr (`"z"))].
Definition cx_A : list element := t_els (reg_tpl (reg_with_strings [(`"a", `"{{#each l}}<{{this}}>{{/each}}")]) (`"a")).
Definition cx_B : list element := t_els (reg_tpl (reg_with_strings [(`"b", `"{{> p}}{{{y}}}")]) (`"b")).

Example concat_ex :
  ni_map (r_templates cx_reg) /\ (forall n, map_get (r_helpers cx_reg) n <> Some HState) /\
  flags_ready (st_init None None None) /\ forallb ni_element cx_A = true /\ forallb ni_element cx_B = true /\
  exists sA sB s',
    render_template cx_reg cx_data [] 20 (MkT None cx_A []) (st_init None None None) = ROk tt sA /\
    s_partials sA = [] /\ s_local_helpers sA = [] /\ s_modified sA = None /\
    render_template cx_reg cx_data [] 20 (MkT None cx_B []) (st_init None None None) = ROk tt sB /\
    render_template cx_reg cx_data [] 20 (MkT None (cx_A ++ ElRaw (`"|") :: cx_B) []) (st_init None None None) = ROk tt s' /\
    out_text (s_out sA) = `"<1><2>" /\ out_text (s_out sB) = `"[z]z" /\ out_text (s_out s') = `"<1><2>|[z]z".
Proof.
  split.
  { intros k t H. vm_compute (r_templates cx_reg) in H. cbn [map_get] in H.
    repeat (destruct (str_eqb k _) in H; [injection H as <-; vm_compute; reflexivity|]). discriminate H. }
  split.
  { intros n. vm_compute (r_helpers cx_reg). cbn [map_get].
    repeat (destruct (str_eqb n _); [discriminate|]). discriminate. }
  split; [repeat split; cbn; try constructor; intros; discriminate|].
  split; [vm_compute; reflexivity|]. split; [vm_compute; reflexivity|].
  do 3 eexists.
  repeat (split; [vm_compute; reflexivity|]). vm_compute; reflexivity.
Qed.

Example repeat_ex :
  exists s', render_template cx_reg cx_data [] 20
               (MkT None (concat (repeat (cx_A ++ [ElRaw (`"|")]) 3)) []) (st_init None None None) = ROk tt s' /\
             out_text (s_out s') = concat (repeat (`"<1><2>" ++ `"|") 3).
Proof. eexists. split; vm_compute; reflexivity. Qed.

(* from a state whose writer is empty *)
Lemma out_text_empty s : o_chunks (s_out s) = [] -> out_text (s_out s) = [].
Proof. unfold out_text. intros ->. reflexivity. Qed.

Theorem concat_fresh reg data ft :
  ni_map (r_templates reg) -> (forall n, map_get (r_helpers reg) n <> Some HState) ->
  forall f name A bar B mpA mpB mp s0 sA sB,
    flags_ready s0 -> o_fail_at (s_out s0) = None -> o_chunks (s_out s0) = [] ->
    s_disable_escape s0 = false -> bar <> [] ->
    forallb ni_element A = true -> forallb ni_element B = true ->
    render_template reg data ft (S (S f)) (MkT name A mpA) s0 = ROk tt sA ->
    s_partials sA = s_partials s0 -> s_local_helpers sA = s_local_helpers s0 -> s_modified sA = s_modified s0 ->
    render_template reg data ft (S (S f)) (MkT name B mpB) s0 = ROk tt sB ->
    exists s',
      render_template reg data ft (S (S f)) (MkT name (A ++ ElRaw bar :: B) mp) s0 = ROk tt s' /\
      out_text (s_out s') = out_text (s_out sA) ++ bar ++ out_text (s_out sB).
Proof.
  intros Ht Hh f name A bar B mpA mpB mp s0 sA sB Hr Hf Hc He Hb HnA HnB HA K1 K2 K3 HB.
  destruct (concat_ok reg data ft Ht Hh f name A bar B mpA mpB mp s0 sA sB Hr Hf He Hb HnA HnB HA K1 K2 K3 HB)
    as (s' & x & y & H & Hx & Hy & Hxy).
  exists s'. split; [exact H|]. rewrite (out_text_empty _ Hc) in *. cbn [app] in *. congruence.
Qed.

Theorem repeat_fresh reg data ft :
  ni_map (r_templates reg) -> (forall n, map_get (r_helpers reg) n <> Some HState) ->
  forall f name A bar mpA s0 sA,
    flags_ready s0 -> o_fail_at (s_out s0) = None -> o_chunks (s_out s0) = [] ->
    s_disable_escape s0 = false -> bar <> [] -> forallb ni_element A = true ->
    render_template reg data ft (S (S f)) (MkT name A mpA) s0 = ROk tt sA ->
    s_partials sA = s_partials s0 -> s_local_helpers sA = s_local_helpers s0 -> s_modified sA = s_modified s0 ->
    forall k mp, exists s',
      render_template reg data ft (S (S f)) (MkT name (concat (repeat (A ++ [ElRaw bar]) k)) mp) s0 = ROk tt s' /\
      out_text (s_out s') = concat (repeat (out_text (s_out sA) ++ bar) k).
Proof.
  intros Ht Hh f name A bar mpA s0 sA Hr Hf Hc He Hb HnA HA K1 K2 K3 k mp.
  destruct (repeat_ok reg data ft Ht Hh f name A bar mpA s0 sA Hr Hf He Hb HnA HA K1 K2 K3) as (x & Hx & Hk).
  destruct (Hk k mp) as (s' & H & Ht'). exists s'. split; [exact H|].
  rewrite (out_text_empty _ Hc) in *. cbn [app] in *. congruence.
Qed.

(* prefix independence, for render_template (prefix_all has all sixteen) *)
Theorem prefix_independent reg data ft :
  ni_map (r_templates reg) -> (forall n, map_get (r_helpers reg) n <> Some HState) ->
  forall pl pt po wo fuel t s1 s2,
    peq po wo pl pt s1 s2 -> Qx s1 -> no_indent t ->
    simg pl pt po wo (fun _ => True) (render_template reg data ft fuel t s1) (render_template reg data ft fuel t s2).
Proof.
  intros Ht Hh pl pt po wo fuel t s1 s2 Hp Hq Hn.
  apply (fi_render_template _ _ _ _ _ _ _ _ (prefix_all reg data ft Ht Hh pl pt fuel po wo)); assumption.
Qed.

(* the side condition on A is needed: an inline partial defined in A makes B
   succeed in the combination although B fails alone *)
Definition cx_Ad : list element := t_els (reg_tpl (reg_with_strings [(`"a", `"{{#*inline ""q""}}Q{{/inline}}")]) (`"a")).
Definition cx_Bq : list element := t_els (reg_tpl (reg_with_strings [(`"b", `"{{> q}}")]) (`"b")).
Example concat_needs_no_decorators_ex :
  (exists e s, render_template reg_new JNull [] 20 (MkT None cx_Bq []) (st_init None None None) = RErr e s /\
               e_reason e = RPartialNotFound (`"q")) /\
  (exists s', render_template reg_new JNull [] 20 (MkT None (cx_Ad ++ ElRaw (`"|") :: cx_Bq) [])
                (st_init None None None) = ROk tt s' /\ out_text (s_out s') = `"|Q").
Proof. split; [do 2 eexists|eexists]; split; vm_compute; reflexivity. Qed.
