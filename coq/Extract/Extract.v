(* Extraction of the executable model for the correspondence check.
   ExtrOcamlBasic only: bool/option/list/prod/unit/sumbool map to OCaml's; N, Z,
   positive, nat stay as extracted inductives. No Extract Constant. *)
From Coq Require Import extraction.Extraction extraction.ExtrOcamlBasic.
From HB Require Import Reg.RegOps.
Extraction Language OCaml.
Extraction "../ocaml/gen/hb_model.ml" run_case rule_name all_rules map_insert.
