(* Extraction of the executable model for the correspondence check.
   ExtrOcamlBasic only: bool/option/list/prod/unit/sumbool map to OCaml's; N, Z,
   positive, nat stay as extracted inductives. No Extract Constant. *)
From Coq Require Import extraction.Extraction extraction.ExtrOcamlBasic.
From HB Require Import Tpl.Compile.
Extraction Language OCaml.
Extraction "../ocaml/gen/hb_model.ml" hb_parse compile2 default_opts rule_name all_rules line_col peg_fuel map_insert.
