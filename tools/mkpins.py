#!/usr/bin/env python3
"""mkpins.py — record the sha256 of every Props file listed in _CoqProject (statement pins)."""
import glob, hashlib, json, os
V = os.path.dirname(os.path.dirname(os.path.abspath(__file__)))
C = os.path.join(V, 'coq')
proj = open(os.path.join(C, '_CoqProject')).read()
pins = {}
for f in sorted(glob.glob(os.path.join(C, 'Props', '*.v'))):
    rel = os.path.relpath(f, C)
    if rel in proj:
        pins[rel] = hashlib.sha256(open(f, 'rb').read()).hexdigest()
json.dump(pins, open(os.path.join(C, 'Props', 'pins.json'), 'w'), indent=1)
print(len(pins), 'Props files pinned')
