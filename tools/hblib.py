"""hblib.py — shared pieces of the orchestrator: case encoding, running the model
(OCaml driver) and the implementation (Rust harness) on a case file, and the
canonical comparison of their observation lines (DESIGN.md §4.2)."""
import json, os, re, struct, subprocess, sys, tempfile, time, hashlib

VERIF = os.path.dirname(os.path.dirname(os.path.abspath(__file__)))
MODEL_BIN = os.path.join(VERIF, 'ocaml', 'hbmodel')
HARNESS_DIR = os.path.join(VERIF, 'harness')
WORK = os.path.join(VERIF, 'work')


def harness_bin(profile='debug'):
    return os.path.join(HARNESS_DIR, 'target', profile, 'hbharness')


# ---------- encoding ----------
def x(s):
    if isinstance(s, str):
        s = s.encode('utf-8')
    return 'x' + s.hex()


def unx(t):
    assert t.startswith('x'), t
    return bytes.fromhex(t[1:]).decode('utf-8', errors='replace')


class F:
    """a JSON float given by value"""
    def __init__(self, v):
        self.v = float(v)

    def bits(self):
        return struct.unpack('>Q', struct.pack('>d', self.v))[0]


class U:
    def __init__(self, n):
        self.n = n


def jtok(v):
    """Python value -> JSON token of PROTOCOL.md"""
    if v is None:
        return 'n'
    if v is True:
        return 't'
    if v is False:
        return 'f'
    if isinstance(v, F):
        return 'd%d' % v.bits()
    if isinstance(v, float):
        return 'd%d' % F(v).bits()
    if isinstance(v, int):
        return ('u%d' % v) if v >= 0 else ('i%d' % v)
    if isinstance(v, str):
        return x(v)
    if isinstance(v, (list, tuple)):
        return '[' + ','.join(jtok(e) for e in v) + ']'
    if isinstance(v, dict):
        return '{' + ','.join(x(k) + ':' + jtok(e) for k, e in sorted(v.items(), key=lambda kv: kv[0].encode('utf-8'))) + '}'
    raise TypeError(v)


def floats_in(v, acc=None):
    acc = set() if acc is None else acc
    if isinstance(v, F):
        acc.add(v.bits())
    elif isinstance(v, float):
        acc.add(F(v).bits())
    elif isinstance(v, (list, tuple)):
        for e in v:
            floats_in(e, acc)
    elif isinstance(v, dict):
        for e in v.values():
            floats_in(e, acc)
    return acc


# ---------- running ----------
def _run(cmd, timeout):
    t0 = time.time()
    try:
        p = subprocess.run(cmd, stdout=subprocess.PIPE, stderr=subprocess.PIPE, timeout=timeout)
        return p.returncode, time.time() - t0
    except subprocess.TimeoutExpired:
        return -999, time.time() - t0


def read_lines(path):
    if not os.path.exists(path):
        return []
    with open(path, 'r', encoding='utf-8', errors='replace') as f:
        return [l.rstrip('\n') for l in f]


def _run_model_1(lines, tag='m', timeout=600):
    os.makedirs(WORK, exist_ok=True)
    cf = os.path.join(WORK, f'{tag}.{os.getpid()}.cases')
    of = os.path.join(WORK, f'{tag}.{os.getpid()}.model.out')
    with open(cf, 'w') as f:
        f.write('\n'.join(lines) + '\n')
    if os.path.exists(of):
        os.remove(of)
    rc, dt = _run(['bash', '-c', f'ulimit -s unlimited 2>/dev/null; exec "{MODEL_BIN}" "{cf}" "{of}"'], timeout)
    out = read_lines(of)
    res = {}
    for l in out:
        k, _, v = l.partition(' ')
        res[k] = v
    for p in (cf, of):
        try:
            os.remove(p)
        except OSError:
            pass
    return res, rc


_TERRN = re.compile(r'(terr:[a-z_]+:[0-9-]+:[0-9-]+)@(x[0-9a-f]*|-)')
TERR_NAMES = {}


def _run_impl_1(lines, tag='i', timeout=600, profile='debug'):
    """Runs the harness; a dying process (stack overflow abort) is handled by
    resuming after the case that killed it, which is recorded as ABORT."""
    os.makedirs(WORK, exist_ok=True)
    res = {}
    pending = list(lines)
    rounds = 0
    while pending:
        rounds += 1
        cf = os.path.join(WORK, f'{tag}.{os.getpid()}.{rounds}.cases')
        of = os.path.join(WORK, f'{tag}.{os.getpid()}.{rounds}.impl.out')
        with open(cf, 'w') as f:
            f.write('\n'.join(pending) + '\n')
        if os.path.exists(of):
            os.remove(of)
        # memory cap: unbounded partial recursion in the crate must die quickly, not eat the machine
        rc, dt = _run(['bash', '-c', f'ulimit -v 2500000; exec "{harness_bin(profile)}" "{cf}" "{of}"'],
                      min(timeout, 120 + 0.2 * len(pending)))
        out = read_lines(of)
        done = 0
        for l in out:
            k, _, v = l.partition(' ')
            # a partially written last line can only occur if the process died mid-write
            if '@' in v and 'terr:' in v:
                # registration errors carry `@<name>` (harness only, PROTOCOL.md §4.1): kept aside for C18's oracle
                nm = _TERRN.findall(v)
                if nm:
                    TERR_NAMES[k] = [n for _, n in nm]
                    v = _TERRN.sub(r'\1', v)
            res[k] = v
            done += 1
        for p in (cf, of):
            try:
                os.remove(p)
            except OSError:
                pass
        if done >= len(pending):
            break
        # the case after the last completed one killed the process (or timed out)
        culprit = pending[done]
        cid = culprit.split(' ', 1)[0]
        res[cid] = 'TIMEOUT' if rc == -999 else 'ABORT'
        pending = pending[done + 1:]
    return res


def _shards(lines, per=400, maxn=12):
    n = max(1, min(maxn, len(lines) // per))
    return [lines[i::n] for i in range(n)]


def run_model(lines, tag='m', timeout=600):
    """runs the extracted model, sharded over several processes"""
    from concurrent.futures import ThreadPoolExecutor
    sh = _shards(lines)
    if len(sh) == 1:
        return _run_model_1(lines, tag, timeout)
    res, rcs = {}, []
    with ThreadPoolExecutor(len(sh)) as ex:
        for r, rc in ex.map(lambda a: _run_model_1(a[1], f'{tag}{a[0]}', timeout), list(enumerate(sh))):
            res.update(r); rcs.append(rc)
    return res, max(rcs)


def run_impl(lines, tag='i', timeout=600, profile='debug'):
    """runs the harness, sharded over several processes"""
    from concurrent.futures import ThreadPoolExecutor
    sh = _shards(lines)
    if len(sh) == 1:
        return _run_impl_1(lines, tag, timeout, profile)
    res = {}
    with ThreadPoolExecutor(len(sh)) as ex:
        for r in ex.map(lambda a: _run_impl_1(a[1], f'{tag}{a[0]}', timeout, profile), list(enumerate(sh))):
            res.update(r)
    return res


# ---------- canonical comparison ----------
_SYN1 = re.compile(r'terr:syntax:(\d+|-):(\d+|-)')
_SYN2 = re.compile(r'TemplateError:syntax\.(\d+|-)\.(\d+|-)')


def canon_impl(obs):
    obs = _SYN1.sub('terr:syntax:?:?', obs)
    obs = _SYN2.sub('TemplateError:syntax.?.?', obs)
    return obs


def canon_model(obs):
    return obs


_HASH_SUBEXPR = re.compile(r'3d28')      # "=(" inside a hex-encoded template


def _log_perm_equal(a, b):
    """R: observations equal except that the LOG lines are permuted (hash-argument evaluation
    order follows a HashMap in the implementation: finding F12)"""
    pa, pb = a.split(':'), b.split(':')
    if len(pa) != len(pb) or pa[0] != 'R' or pb[0] != 'R' or pa[1] != pb[1]:
        return False
    li = 3 if pa[1] == 'ok' else 8
    if pa[:li] != pb[:li] or pa[li + 1:] != pb[li + 1:]:
        return False
    try:
        return sorted(unx(pa[li]).split('\n')) == sorted(unx(pb[li]).split('\n'))
    except Exception:
        return False


_FLOATQ = [x('<float?>')[1:], x('&lt;float?&gt;')[1:]]


def _float_wild_equal(a, b):
    """the model prints <float?> for a float whose display the case's table does not give (floats that
    arise from template literals): accept any number text there"""
    if not any(f in a for f in _FLOATQ):
        return False
    pa, pb = a.split(':'), b.split(':')
    if len(pa) != len(pb):
        return False
    for u, v in zip(pa, pb):
        if u == v:
            continue
        if not (u.startswith('x') and v.startswith('x') and any(f in u for f in _FLOATQ)):
            return False
        pat = re.escape(u[1:])
        for f in _FLOATQ:
            pat = pat.replace(re.escape(f), '(?:2d|2b|2e|65|45|3[0-9])+')
        if not re.fullmatch(pat, v[1:]):
            return False
    return True


_FLOATBITS = re.compile(r'd(\d{15,20})')
_LONGDEC = re.compile(r'(3[0-9]|2e){17,}')        # a decimal literal with more than 15 digits, hex-encoded


def _float_ulp_equal(a, b, line):
    """decimal literals with more than 15 significant digits are converted by serde_json's fast path, which
    may be one ulp away from correct rounding (documented limit of the model): accept a 1-ulp difference"""
    if not _LONGDEC.search(line):
        return False
    fa, fb = _FLOATBITS.findall(a), _FLOATBITS.findall(b)
    if len(fa) != len(fb) or _FLOATBITS.sub('d#', a) != _FLOATBITS.sub('d#', b):
        return False
    return all(abs(int(u) - int(v)) <= 1 for u, v in zip(fa, fb))


_TWO_HASH = re.compile(r'(3d[0-9a-f]*?20[0-9a-f]*?3d)')       # "=" ... " " ... "=" inside a hex-encoded template


def _hash_err_equal(a, b, line):
    """two hash arguments of one tag both fail: which error is reported follows HashMap order (finding F12);
    same position (the tag), same accepted output and log; reason and payload are those of whichever argument was evaluated first"""
    pa, pb = a.split(':'), b.split(':')
    if len(pa) != len(pb) or pa[:2] != pb[:2] or pa[1] != 'err' or not _TWO_HASH.search(line):
        return False
    if pa[4:7] != pb[4:7] or pa[7] != pb[7]:
        return False
    if pa[8:] == pb[8:]:
        return True
    # ... and when the hash values are subexpressions, the argument evaluated BEFORE the failing one may have logged:
    # one log is the other plus the lines of arguments that happened to come first
    if len(_HASH_SUBEXPR.findall(line)) < 2 or len(pa) != 9:
        return False
    try:
        la, lb = [l for l in unx(pa[8]).split('\n') if l], [l for l in unx(pb[8]).split('\n') if l]
    except Exception:
        return False
    short, long_ = (la, lb) if len(la) <= len(lb) else (lb, la)
    rest = list(long_)
    for l in short:
        if l not in rest:
            return False
        rest.remove(l)
    return True


_SHORT_WRITER = re.compile(r' -([2-9]|[1-9]\d+)( ;|$)')


def obs_equal(m, i, line=''):
    """model observation list vs implementation observation list (strings)"""
    if m is None or i is None:
        return False
    mt = m.split(' ') if m else []
    it = canon_impl(i).split(' ') if i else []
    if _SHORT_WRITER.search(line):
        # a writer that takes a few bytes per call sees more `write` calls than the logical writes the model counts
        strip = lambda t: re.sub(r':\d+$', ':-', t) if t.startswith('R:ok:') else t
        mt, it = [strip(t) for t in mt], [strip(t) for t in it]
    if len(mt) != len(it):
        # the model stops nothing early; an implementation ABORT/TIMEOUT replaces the line
        if i in ('ABORT', 'TIMEOUT'):
            return 'FUEL' in mt
        return False
    for a, b in zip(mt, it):
        if a == b:
            continue
        if len(_HASH_SUBEXPR.findall(line)) >= 2 and _log_perm_equal(a, b):
            continue
        if _float_wild_equal(a, b):
            continue
        if _float_ulp_equal(a, b, line) or _hash_err_equal(a, b, line):
            continue
        return False
    return True


def compare(lines, profile='debug', timeout=900):
    """returns list of (case_id, case_line, model_obs, impl_obs, equal)"""
    m, _ = run_model(lines, timeout=timeout)
    i = run_impl(lines, timeout=timeout, profile=profile)
    out = []
    for l in lines:
        cid = l.split(' ', 1)[0]
        mo, io = m.get(cid), i.get(cid)
        out.append((cid, l, mo, io, obs_equal(mo, io, l)))
    return out


def describe_case(line):
    """human-readable rendering of a case line (decodes hex tokens)"""
    toks = line.split(' ')
    out = []
    for t in toks:
        if re.fullmatch(r'x([0-9a-f]{2})*', t):
            out.append(json.dumps(unx(t), ensure_ascii=False))
        else:
            out.append(t)
    return ' '.join(out)


def decode_obs(o):
    def rep(m):
        try:
            return json.dumps(bytes.fromhex(m.group(1)).decode('utf-8', errors='replace'), ensure_ascii=False)
        except Exception:
            return m.group(0)
    return re.sub(r'\bx((?:[0-9a-f]{2})+)\b', rep, o or '')


# ---------- float display tables ----------
_FLOAT_TOK = re.compile(r'(?:(?<=[\[,:{ ]))d(\d+)\b')


def add_float_tables(lines, extra_bits=()):
    """serde_json's float printing is not modelled: ask the harness for the display of every
    float bit pattern occurring in the cases and prepend an `ft` op to the lines that need it"""
    need = {}
    allbits = set(extra_bits)
    for l in lines:
        bs = set(int(b) for b in _FLOAT_TOK.findall(l))
        if bs:
            need[l] = bs
            allbits |= bs
    if not allbits:
        return lines
    bl = sorted(allbits)
    q = [f'q{i} leaf render d{b}' for i, b in enumerate(bl)]
    r = run_impl(q, tag='ft')
    disp = {}
    for i, b in enumerate(bl):
        v = r.get(f'q{i}', '')
        if v.startswith('x'):
            disp[b] = v
    out = []
    for l in lines:
        bs = need.get(l)
        if bs or extra_bits:
            use = sorted(set(bs or ()) | set(extra_bits))
            cid, rest = l.split(' ', 1)
            tbl = ','.join(f'{b}={disp[b]}' for b in use if b in disp)
            out.append(f'{cid} ft {tbl} ; {rest}' if tbl else l)
        else:
            out.append(l)
    return out


def parse_robs(tok):
    """one render observation token -> dict"""
    if tok is None:
        return {'kind': 'none'}
    if tok in ('PANIC', 'FUEL', 'ABORT', 'TIMEOUT'):
        return {'kind': tok.lower()}
    p = tok.split(':')
    if p[0] != 'R':
        return {'kind': 'other', 'raw': tok}
    if p[1] == 'ok':
        return {'kind': 'ok', 'out': unx(p[2]), 'log': unx(p[3]), 'nwrites': p[4]}
    return {'kind': 'err', 'reason': p[2], 'payload': p[3], 'tpl': (unx(p[4]) if p[4] != '-' else None),
            'line': (int(p[5]) if p[5] not in ('-', '?') else None),
            'col': (int(p[6]) if p[6] not in ('-', '?') else None),
            'accepted': (unx(p[7]) if p[7] != '-' else None), 'log': unx(p[8])}


def last_obs(obsline):
    if not obsline:
        return None
    return obsline.split(' ')[-1]
