"""C04 — compile never panics: token soups, grammar-generated templates (nesting <= 64) and single-edit
mutations (delete/insert/duplicate a token, toggle '~', swap tag kinds); every tag kind x every position
of '~' x every else/else-chain form. Oracle: template or TemplateError (never PANIC / ABORT / TIMEOUT),
errors carry a position inside the source, a rejected registration leaves the registry unchanged."""
import re
from hblib import x, jtok
from gen import gen_object, TplGen
from families.common import res_of

RULE = ('malformed stream: token soups over {{, }}, {{{, {{{{, ~, #, /, >, *, !, --, else, ^, identifiers, '
        'literals, quotes, brackets, parentheses, =, |, as, whitespace, multi-byte characters; '
        'grammar-generated templates incl. deep nesting (<= 64); single-edit mutations of valid templates; the '
        'full grid tag kind x ~ position x chain form. Each source goes through Template::compile (cmp), '
        'register_template_string, register_partial, render_template, with the key set before/after. '
        'Non-trivial = the source is rejected, or contains a block construct')
TOK = ['{{', '}}', '{{{', '}}}', '{{{{', '}}}}', '~', '#', '/', '>', '*', '!', '--', 'else', '^', 'if', 'each', 'with', 'a', 'b.c', '../x',
       '@index', 'this', '"s"', "'q'", '1', '-2.5', 'true', 'null', '[1,2]', '{"k":1}', '(', ')', '=', '|', 'as', ' ', '\n', '\t', 'é', '\\',
       '&', 'raw', 'inline', '@partial-block', '[', ']', '.', '[k]', 'k=1', 'as |v i|', '{{else}}', '{{/if}}', '{{#if a}}', '{{!', '{{!--', '--}}']

def soup(rng):
    return ''.join(rng.choice(TOK) for _ in range(rng.randint(1, 14)))

def tokens_of(src):
    return re.findall(r'\{\{\{\{|\}\}\}\}|\{\{\{|\}\}\}|\{\{|\}\}|~|[#/>*!^&]|[A-Za-z_@.]+|\s+|.', src, re.S)

def mutate(rng, src):
    ts = tokens_of(src)
    if not ts:
        return src
    i = rng.randrange(len(ts))
    k = rng.random()
    if k < 0.25:
        del ts[i]
    elif k < 0.5:
        ts.insert(i, rng.choice(TOK))
    elif k < 0.65:
        ts.insert(i, ts[i])
    elif k < 0.8:
        # toggle ~ next to a delimiter
        js = [j for j, t in enumerate(ts) if t in ('{{', '}}', '{{{', '}}}', '{{{{', '}}}}')]
        if js:
            j = rng.choice(js)
            if ts[j].startswith('{'):
                ts.insert(j + 1, '~')
            else:
                ts.insert(j, '~')
    else:
        swaps = {'#': '/', '/': '#', 'if': 'each', 'each': 'with', 'with': 'if', '>': '*', '*': '>', 'else': '^', '^': 'else'}
        js = [j for j, t in enumerate(ts) if t in swaps]
        if js:
            j = rng.choice(js); ts[j] = swaps[ts[j]]
    return ''.join(ts)

def grid():
    out = []
    tags = ['{{%sx%s}}', '{{{%sx%s}}}', '{{%s&x%s}}', '{{%s#if a%s}}B{{/if}}', '{{#if a}}B{{%s/if%s}}', '{{#if a}}B{{%selse%s}}C{{/if}}',
            '{{#if a}}B{{%s^%s}}C{{/if}}', '{{#if a}}B{{%selse if b%s}}C{{/if}}', '{{#if a}}B{{%selse if b%s}}C{{else}}D{{/if}}',
            '{{#if a}}B{{else if b}}C{{%selse%s}}D{{/if}}', '{{#each a}}B{{%selse unless b%s}}C{{/each}}', '{{%s> p%s}}', '{{%s#> p%s}}B{{/p}}',
            '{{#> p}}B{{%s/p%s}}', '{{%s*d%s}}', '{{%s#*inline "n"%s}}B{{/inline}}', '{{#*inline "n"}}B{{%s/inline%s}}',
            '{{{{%sraw%s}}}}B{{{{/raw}}}}', '{{{{raw}}}}B{{{{%s/raw%s}}}}', '{{%sh 1 k=2%s}}', '{{%s#h a as |v i|%s}}B{{/h}}', '{{id (%sh 1%s)}}']
    # block-parameter lists of every length, in every tag kind that takes them
    for head in ('{{#h x %s}}B{{/h}}', '{{#each a %s}}B{{/each}}', '{{#if a}}B{{else h x %s}}C{{/if}}', '{{#*inline "p" %s}}B{{/inline}}',
                 '{{{{raw %s}}}}B{{{{/raw}}}}', '{{#> p %s}}B{{/p}}', '{{h x %s}}', '{{#with a %s~}}B{{/with}}'):
        for bp in ('as ||', 'as | |', 'as |a|', 'as |a b|', 'as |a b c|', 'as |', 'as', 'as |a', 'as a|', 'as |a,b|', 'as |1|', 'as |a.b|'):
            out.append(head % bp)
    for t in tags:
        for a in ('', '~'):
            for b in ('', '~'):
                for ws in ('', ' '):
                    out.append(t % (a + ws, ws + b))
    return out

def inject_ws(rng, src):
    """whitespace (blank, tab, line break) inserted between the lexical pieces INSIDE tags: pest's implicit
    whitespace makes many of these spellings valid, and the compile loop must cope with each"""
    ts = tokens_of(src)
    out, inside = [], 0
    for i, t in enumerate(ts):
        if t in ('{{', '{{{', '{{{{'):
            inside += 1
            out.append(t)
            if rng.random() < 0.35:
                out.append(rng.choice([' ', '\t', '\n', '  ']))
            continue
        if t in ('}}', '}}}', '}}}}'):
            if inside and rng.random() < 0.25:
                out.append(rng.choice([' ', '\n']))
            inside = max(0, inside - 1)
            out.append(t)
            continue
        out.append(t)
        if inside and t in ('#', '/', '>', '*', '!', '&', '^', '~', '--', '=', '|', '(', ')') and rng.random() < 0.4:
            out.append(rng.choice([' ', '\t', '\n']))
    return ''.join(out)

COMMENTS = ['{{! -- note --}}', '{{!\n-- x --}}', '{{!\t--x--}}', '{{!--x-- }}', '{{! -- x -- }}', '{{!-- a --}} --}}', '{{!--}}', '{{!----}}', '{{!}}', '{{! }}',
            '{{!-- {{x}} --}}', '{{!-- }} --}}', '{{~!-- x --~}}', '{{!--x}}', '{{!-x-}}', '{{! --}}', '{{!-- --}}--}}']

def probe_line(cid, src):
    X = x(src)
    return (f'{cid} cmp {X} ; regs {x("keep")} {x("K")} ; keys ; regs {x("n")} {X} ; keys ; regp {x("pp")} {X} ; '
            f'rt 4 {X} {jtok({"a": [1], "b": True, "x": "v"})} -1 ; keys ; tok handlebars {X}')

def gen_cases(rng, tier, scale):
    cases = []
    srcs = []
    for g in grid():
        srcs.append((g, 'grid'))
    n = (700 if tier == 'quick' else 15000) * scale
    for _ in range(n):
        srcs.append((soup(rng), 'soup'))
    for _ in range(n):
        data = gen_object(rng, 2, odd=0.05)
        t = TplGen(rng, data, ws=True, tilde=True, partials=['p'], partial_blocks=True, inline=True, probes=True, decorators=True).template(rng.randint(1, 4))
        srcs.append((mutate(rng, t), 'mutation'))
        if rng.random() < 0.3:
            srcs.append((mutate(rng, mutate(rng, t)), 'mutation2'))
    for wch in ('\u00a0', '\u2003', '\u3000', '\u2028', 'é\u00a0 ', ' \u3000\n\u00a0'):
        for tg in ('{{~a}}', '{{~#if a}}y{{/if}}', '{{#if a}}y{{~/if}}', '{{#if a}}y{{~else}}n{{/if}}', '{{~> p}}', '{{~{a}}}', '{{{{~raw}}}}r{{{{/raw}}}}'):
            srcs.append((wch + tg, 'unicode-ws-before-tilde'))
            srcs.append(('x' + wch + tg + wch + 'y', 'unicode-ws-before-tilde'))
    # ... and behind a trailing `~`: the run the trim removes may be wider than the run the grammar skipped
    for wch in ('\x0b', '\x0c', '\u0085', '\u00a0', '\u2003', '\u2028', '\u3000', ' \x0c ', '\n\u00a0\n', '\u00a0é'):
        for tg in ('{{a~}}', '{{#if a~}}y{{/if}}', '{{#if a}}y{{/if~}}', '{{#if a}}y{{else~}}n{{/if}}', '{{#if a}}y{{else if b~}}n{{/if}}', '{{> p~}}',
                   '{{{a~}}}', '{{{{raw~}}}}r{{{{/raw}}}}', '{{{{raw}}}}r{{{{/raw~}}}}', '{{#*inline "i"~}}x{{/inline~}}', '{{#each a as |v|~}}y{{/each}}'):
            srcs.append((tg + wch + 'b', 'unicode-ws-after-tilde'))
            srcs.append((tg + wch, 'unicode-ws-after-tilde'))
            srcs.append((tg + wch + '\\{{b', 'unicode-ws-after-tilde'))
    # @-paths in every spelling the grammar admits, in every position a path may take
    for ap in ('@this', '@../this', '@../../this', '@../[this]', '@./this', '@this.x', '@../this.x', '@../index', '@../../key', '@root', '@root.this', '@../root',
               '@[this]', '@../..', '@..', '@../', '@', '@this/this', '@../this/../x', 'this', '../this', './this', '../../[this]', 'this.this', 'this/../x'):
        for tg in ('{{%s}}', '{{foo %s}}', '{{foo k=%s}}', '{{#if %s}}x{{/if}}', '{{> p %s}}', '{{#each a as |v|}}{{%s}}{{/each}}', '{{foo (bar %s)}}', '{{{%s}}}', '{{#with %s as |w|}}{{/with}}'):
            srcs.append((tg % ap, 'at-paths'))
    # a lone CR (no LF) right after a tag that stands alone on its line, followed by nothing / a multi-byte character
    for tg in ('{{#if a}}', '{{! note }}', '{{!-- n --}}', '{{> p}}', '{{else}}', '{{/if}}', '{{#*inline "i"}}', '{{{{raw}}}}'):
        for tail in ('\r', '\r\u00e9toile', '\r\u65e5', '\rx', '\r\r', ' \r\u00e9'):
            srcs.append(('{{#if a}}' * (tg in ('{{else}}', '{{/if}}')) + tg + tail + ('{{/if}}' if tg in ('{{#if a}}', '{{else}}') else '') + ('{{/inline}}' if 'inline' in tg else '') + ('{{{{/raw}}}}' if 'raw' in tg else ''), 'lone-cr-after-standalone'))
            srcs.append(('x\n  ' + tg + tail, 'lone-cr-after-standalone'))
    for c in COMMENTS:
        for ctx in ('%s', 'a %s b', '{{#if a}}\n  %s\n{{/if}}', '{{x~}} %s {{~y}}'):
            srcs.append((ctx % c, 'comment'))
    for g in grid():
        for _ in range(1 if tier == 'quick' else 6):
            srcs.append((inject_ws(rng, g), 'ws-injected'))
    for depth in (8, 32, 64):
        t = ''.join('{{#if a}}x' for _ in range(depth)) + 'y' + ''.join('{{/if}}' for _ in range(depth))
        srcs.append((t, 'deep'))
        srcs.append((t[:-7], 'deep-unclosed'))
        srcs.append(('{{h ' + '(h ' * depth + '1' + ')' * depth + '}}', 'deep-subexpr'))
        srcs.append(('{{h ' + '[' * depth + ']' * depth + '}}', 'deep-literal'))
    for k, (s, tag) in enumerate(srcs):
        cases.append({'line': probe_line(f's{k}', s), 'src': s, 'kind': tag, 'tpl': s, 'tags': [tag]})
    # a rejected registration leaves the registry as it was — including the dev-mode file tracking of the name
    for k2, bad in enumerate(['{{#if a}}x', '{{/if}}', '{{> }}', '{{#each a}}{{/if}}']):
        for how in ('regs', 'regp'):
            ops = ['dev 1', f'fw {x("f1")} {x("v1 {{x}}")}', f'regf {x("pg")} {x("f1")}', f'regs {x("use")} {x("[{{> pg}}]")}', 'keys',
                   f'{how} {x("pg")} {x(bad)}', 'keys', f'fw {x("f1")} {x("v2 {{x}}")}',
                   f'r 0 {x("pg")} {jtok({"x": "a"})} -1', f'r 0 {x("use")} {jtok({"x": "a"})} -1']
            cases.append({'line': f'dvr{k2}{how} ' + ' ; '.join(ops), 'src': bad, 'kind': 'devreject', 'tpl': bad, 'tags': ['dev-rejected-registration']})
    return cases

def oracle(c, io, mo):
    if io is None:
        return 'no output'
    if c.get('kind') == 'devreject':
        toks = io.split(' ')
        from families.common import res_of as _r
        from hblib import parse_robs
        rs = [parse_robs(t) for t in toks if t.startswith('R:')]
        ks = [t for t in toks if t.startswith('k[')]
        if len(ks) == 2 and ks[0] != ks[1]:
            return f'a rejected registration changed the key set: {ks}'
        if len(rs) == 2 and (rs[0].get('out') != 'v2 a' or rs[1].get('out') != '[v2 a]'):
            return f'after a rejected re-registration the file-backed template no longer follows its file: {rs[0].get("out", rs[0].get("reason"))!r}, {rs[1].get("out", rs[1].get("reason"))!r}'
        return None
    if io in ('ABORT', 'TIMEOUT'):
        # the case also renders the compiled template once; a source whose inline partial includes itself
        # recurses without bound when RENDERED (the model reports FUEL at the render op and a value at every
        # compile op): that is outside this property (and excluded by C09's acyclicity), not a compile abort
        mt = (mo or '').split(' ')
        if len(mt) == 9 and mt[6] == 'FUEL' and all('FUEL' not in t and 'PANIC' not in t for t in mt[:6]):
            return None
        return f'compiling this source makes the process {io}'
    toks = io.split(' ')
    src = c['src']
    nlines = src.count('\n') + 1
    if len(toks) != 9:
        return f'unexpected observation count {len(toks)}'
    cmp_, k0, keys0, regs, keys1, regp, rt, keys2, tk = toks
    if tk.startswith('tok:'):
        n = len(src)
        for t in tk[4:].split(','):
            if t:
                _, a, b = t.rsplit(':', 2)
                if not (0 <= int(a) <= int(b) <= n):
                    return f'token span {t} lies outside the source'
    for t in (cmp_, regs, regp, rt):
        if t == 'PANIC' or 'PANIC' in t:
            return 'compile panicked'
    for t in (cmp_, regs, regp):
        if t.startswith('terr:'):
            p = t.split(':')
            if p[1] in ('syntax', 'mismatch_helper', 'mismatch_decorator'):
                if p[2] == '-' or p[3] == '-':
                    return f'{p[1]} error without a position'
                if not (1 <= int(p[2]) <= nlines) or int(p[3]) < 1 or int(p[3]) > len(src) + 1:
                    return f'reported position {p[2]}:{p[3]} lies outside the source'
    if regs != 'ok':
        if keys1 != keys0:
            return f'a rejected registration changed the registry: {keys0} -> {keys1}'
    else:
        if x('n') not in keys1:
            return 'a successful registration is not visible'
    if (cmp_.startswith('ast:')) != (regs == 'ok'):
        return f'Template::compile and register_template_string disagree: {cmp_[:20]} vs {regs}'
    return None

def nontrivial(c, mo, io):
    return io is not None and ('terr' in io or '#' in c['src'])

def relevant_difference(c, mo, io):
    return True

