"""C19 — streaming and writer failures: for every generated case and every k up to the number of write
calls of the fault-free run (cap 200) a writer that fails at call k; accepted bytes must be a prefix of
the fault-free output, the result an IOError, and nothing written after the failure."""
from hblib import x, jtok, run_impl, parse_robs
from gen import gen_object, TplGen
from families.common import rcase, res_of

RULE = ('generated templates (partials with indentation, helpers, each/with/if, multi-line data) rendered '
        'through render_to_write / render_template_to_write with a writer failing at call k, for EVERY k from 0 '
        'to the number of write calls of the fault-free run (exhaustive per case, cap 200); oracle: result is '
        'IOError, accepted bytes are a prefix of the fault-free output, accepted call count = k. Two passes: '
        'the first finds the write count, the second enumerates k. Non-trivial = k > 0 and k < n_writes')
EXHAUSTIVE = {'quick': True, 'thorough': True}

def base_cases(rng, n):
    out = []
    for k in range(n):
        data = gen_object(rng, 3, odd=0.0)
        data['ml'] = 'l1\nl2\nl3'
        parts = {'p1': 'P1 {{ml}}\n{{#each this}}{{@key}},{{/each}}\n', 'p2': TplGen(rng, data, maxdepth=2).template(2)}
        g = TplGen(rng, data, partials=['p1', 'p2'], ws=True, missing=0.02)
        t = g.template(rng.randint(2, 5)) + '\n  {{> p1}}\n{{ml}}'
        out.append((t, data, parts, rng.choice([2, 3, 6, 7])))
    # fixed bases (whatever the seed): the failing write happens inside a partial that has no template name of its own — an
    # inline partial, a partial-block body reached through @partial-block, the fallback body of a missing partial — also nested
    # in a named one; the reason must still be the IO error itself
    FD = {'v': 'V', 'ml': 'l1\nl2', 'l': [1, 2]}
    for j, (t, parts) in enumerate([
            ('{{#*inline "row"}}r{{v}};{{ml}}{{/inline}}a{{> row}}b\n  {{> row}}\nc', {}),
            ('x{{#> lay}}B{{v}}|{{ml}}{{/lay}}y', {'lay': 'H{{> @partial-block}}T{{> @partial-block}}'}),
            ('{{#> nolay}}fb{{v}}{{ml}}{{/nolay}}z', {}),
            ('{{#each l}}{{#> lay}}{{#*inline "in"}}i{{this}}{{/inline}}{{> in}}{{v}}{{/lay}}{{/each}}', {'lay': '<{{> @partial-block}}>'}),
            ('{{> named}}', {'named': '{{#*inline "q"}}Q{{v}}{{/inline}}n{{> q}}{{#> lay}}k{{v}}{{/lay}}', 'lay': '({{> @partial-block}})'})]):
        out.append((t, FD, parts, [2, 3, 6, 7][j % 4]))
    return out

def case_line(cid, t, data, parts, entry, failat):
    # every third base case runs with the helperMissing / blockHelperMissing hooks registered: a hook must not turn a
    # writer failure inside a found helper into something else
    hk = int(cid[1:].split('k')[0].split('o')[0].split('e')[0]) % 3 == 2
    ops = (['probes', 'hooks 3'] if hk else []) + [f'regs {x(n)} {x(s)}' for n, s in parts.items()]
    if entry in (2, 3):
        ops += [f'regs {x("main")} {x(t)}', f'r {entry} {x("main")} {jtok(data)} {failat}']
    else:
        ops += [f'rt {entry} {x(t)} {jtok(data)} {failat}']
    return f'{cid} ' + ' ; '.join(ops)

def gen_cases(rng, tier, scale):
    n = (40 if tier == 'quick' else 600) * scale
    bases = base_cases(rng, n)
    # pass 1 (implementation only): the fault-free run gives the number of write calls
    probe = [case_line(f'b{i}', t, d, p, e, -1) for i, (t, d, p, e) in enumerate(bases)]
    res = run_impl(probe, tag='c19probe')
    cases = []
    for i, (t, d, p, e) in enumerate(bases):
        r = parse_robs((res.get(f'b{i}') or '').split(' ')[-1])
        if r['kind'] != 'ok':
            continue
        nw = int(r['nwrites'])
        cases.append({'line': probe[i], 'kind': 'free', 'grp': i, 'tags': ['fault-free'], 'tpl': t})
        for k in range(0, min(nw, 200) + 1):
            cases.append({'line': case_line(f'b{i}k{k}', t, d, p, e, k), 'kind': 'fault', 'grp': i, 'k': k, 'nw': nw,
                          'full': r['out'], 'tags': ['fault'], 'tpl': t})
            # a writer that fails only once: anything written after the failure becomes visible
            cases.append({'line': case_line(f'b{i}o{k}', t, d, p, e, 1000000 + k), 'kind': 'fault', 'grp': 100000 + i, 'k': k, 'nw': nw,
                          'full': r['out'], 'tags': ['fail-once'], 'tpl': t})
            # the same fault with another io::ErrorKind (every 7th k, kinds in rotation): the kind must not matter
            if k % 7 == 3 or k == 0:
                kind = (i + k) % 7
                cases.append({'line': case_line(f'b{i}e{k}', t, d, p, e, (kind + 2) * 1000000 + k), 'kind': 'fault', 'grp': 200000 + i, 'k': k,
                              'nw': nw, 'full': r['out'], 'tags': ['error-kind'], 'tpl': t})
    # a writer that accepts only a few bytes per call (a pipe, a socket) loses nothing — whatever way a helper hands its text
    # over: `out.write`, `write!` with arguments, or `write!` with a bare literal
    LIT = 'literal-0123456789'
    for j, (t, exp) in enumerate([('{{*sethelper "lit" "f:"}}a{{lit}}b{{lit 1}}c', 'a' + LIT + 'b' + LIT + 'c'),
                                  ('{{*sethelper "lit" "f:"}}{{#each l}}{{lit}};{{/each}}', (LIT + ';') * 2),
                                  ('{{*sethelper "w" "w:"}}[{{w s}}]{{dump 1}}', '[héllo wörld]dump(-:v:-:u1;;bti;-)')]):
        for e in (2, 3, 6, 7):
            for fa in (-2, -3, -6, -18, -19):
                cid = f'sw{j}e{e}f{-fa}'
                ops = ['probes', 'esc 1']
                if e in (2, 3):
                    ops += [f'regs {x("main")} {x(t)}', f'r {e} {x("main")} {jtok({"l": [1, 2], "s": "héllo wörld"})} {fa}']
                else:
                    ops += [f'rt {e} {x(t)} {jtok({"l": [1, 2], "s": "héllo wörld"})} {fa}']
                cases.append({'line': f'{cid} ' + ' ; '.join(ops), 'kind': 'short', 'exp': exp, 'tags': ['short-writer'], 'tpl': t})
    return cases

def oracle(c, io, mo):
    if c['kind'] == 'short':
        r = res_of(io)
        return None if (r['kind'] == 'ok' and r['out'] == c['exp']) else f'a short-writing writer must receive everything: expected {c["exp"]!r}, got {r.get("out", r.get("reason"))!r}'
    if c['kind'] != 'fault':
        return None
    r = res_of(io)
    k, nw, full = c['k'], c['nw'], c['full']
    if k >= nw:
        if r['kind'] != 'ok' or r['out'] != full:
            return f'a writer failing at call {k} >= {nw} write calls must not matter: {r.get("reason", r["kind"])}'
        return None
    if r['kind'] == 'ok':
        return f'writer failed at call {k} of {nw} but render returned Ok'
    if r['kind'] != 'err' or r['reason'] != 'IOError':
        return f'writer failed at call {k}: expected IOError, got {r["kind"]} {r.get("reason")}'
    acc = r['accepted'] or ''
    if not full.startswith(acc):
        return f'accepted bytes {acc!r} are not a prefix of the fault-free output'
    return None

def oracle_all(byid):
    # accepted prefixes grow monotonically with k (append-only streaming)
    out, g = [], {}
    for cid, (c, mo, io) in byid.items():
        if c['kind'] == 'fault':
            g.setdefault(c['grp'], []).append((c['k'], c, res_of(io)))
    for grp, lst in g.items():
        lst.sort(key=lambda t: t[0])
        prev = ''
        for k, c, r in lst:
            acc = r.get('accepted') if r['kind'] == 'err' else r.get('out')
            if acc is None:
                continue
            if not acc.startswith(prev):
                out.append((c, f'bytes accepted before failure {k} do not extend those accepted before failure {k - 1}'))
                break
            prev = acc
    return out

def nontrivial(c, mo, io):
    return c['kind'] == 'fault' and 0 < c['k'] < c['nw']

def relevant_difference(c, mo, io):
    return True
