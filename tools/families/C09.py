"""C09 — partials: acyclic registries, every call form; oracle relation
render('{{> p c k=v}}', D) == render(body(p), merge(D.c, {k: D.v})) for self-contained bodies; inline
precedence; partial blocks with @partial-block used 0..3 times; dynamic names; errors."""
from hblib import x, jtok
from gen import gen_object, TplGen, gen_json
from families.common import rcase, res_of

RULE = ('acyclic sets of <= 4 registered templates plus inline partials; call forms: plain, context path / '
        'literal, hash with path/literal/subexpression values, dynamic name, block form with @partial-block '
        'used 0..3 times, nested partial blocks <= 3; from top level and inside each/with/if. Oracles: the '
        'merge relation against rendering the body directly on the merged context, fixed expectations for '
        'precedence / not-found / self-inclusion / hash invisibility. Non-trivial = the partial body produced '
        'output that depends on the context')

def body_gen(rng, data):
    # self-contained body: no ../, no @root, no partial calls
    g = TplGen(rng, data, updirs=False, root=False, partials=[], maxdepth=2, missing=0.05, locals=False)
    return g.template(rng.randint(1, 3))

def merge(base, add):
    if not add:
        return base
    if isinstance(base, dict):
        m = dict(base)
    elif isinstance(base, list):
        m = {str(i): v for i, v in enumerate(base)}
    elif isinstance(base, str):
        m = {str(i): ch for i, ch in enumerate(base)}
    else:
        m = {}
    m.update(add)
    return m

def jtok_lit(b):
    """template literal for a scalar/array base, None when it has no literal spelling used here"""
    import json
    if isinstance(b, str):
        return json.dumps(b, ensure_ascii=False)
    if isinstance(b, bool):
        return 'true' if b else 'false'
    if b is None:
        return 'null'
    if isinstance(b, int):
        return str(b)
    return None

class PBMissing(Exception):
    pass

def pb_body(rng, depth, callable_, allow_pb):
    """a body as a list of nodes: ('t', s) | ('leaf',) | ('pb',) | ('call', name, body)"""
    out = []
    for _ in range(rng.randint(1, 4)):
        r = rng.random()
        if r < 0.3:
            out.append(('t', rng.choice('abcdefg')))
        elif r < 0.45:
            out.append(('leaf',))
        elif r < 0.75 and allow_pb:
            out.append(('pb',))
        elif depth > 0 and callable_:
            nm = rng.choice(callable_)
            out.append(('call', nm, pb_body(rng, depth - 1, callable_, allow_pb)))
        else:
            out.append(('t', rng.choice('xyz')))
    return out

def pb_src(nodes):
    s = ''
    for n in nodes:
        if n[0] == 't':
            s += n[1]
        elif n[0] == 'leaf':
            s += '{{> leaf}}'
        elif n[0] == 'pb':
            s += '{{> @partial-block}}'
        else:
            s += '{{#> %s}}%s{{/%s}}' % (n[1], pb_src(n[2]), n[1])
    return s

def pb_gen(rng):
    names = ['L1', 'L2', 'L3']
    trees = {}
    for i, nm in enumerate(names):
        trees[nm] = [('t', '<' + nm[1])] + pb_body(rng, 2, names[i + 1:], True) + [('t', '>')]
    main_tree = pb_body(rng, 3, names + ['nolayout'], False)
    pb_gen.trees = trees
    parts = {nm: pb_src(t) for nm, t in trees.items()}
    parts['leaf'] = 'L'
    pb_gen.main = main_tree
    return parts, pb_src(main_tree)

def pb_eval(parts, main):
    trees = pb_gen.trees
    def ev(nodes, pb, fuel):
        if fuel <= 0:
            raise RecursionError
        out = ''
        for n in nodes:
            if n[0] == 't':
                out += n[1]
            elif n[0] == 'leaf':
                out += 'L'
            elif n[0] == 'pb':
                if pb is None:
                    raise PBMissing()
                out += ev(pb[0], pb[1], fuel - 1)
            else:
                if n[1] in trees:
                    out += ev(trees[n[1]], (n[2], pb), fuel - 1)
                else:
                    out += ev(n[2], pb, fuel - 1)     # no such partial: the block body is the default
        return out
    return ev(pb_gen.main, None, 200)

def gen_cases(rng, tier, scale):
    cases = []
    n = (300 if tier == 'quick' else 5000) * scale
    for k in range(n):
        data = gen_object(rng, 3, odd=0.0)
        data['c'] = gen_object(rng, 2, odd=0.0)
        data['hv'] = gen_json(rng, 1, odd=0.0)
        body = body_gen(rng, data['c'] if rng.random() < 0.7 else data)
        form = rng.choice(['plain', 'ctx', 'hash', 'ctxhash', 'lit', 'inloop'])
        add = {}
        if form == 'plain':
            call, base = '{{> p}}', data
        elif form == 'ctx':
            call, base = '{{> p c}}', data['c']
        elif form == 'hash':
            call, base, add = '{{> p k=hv j=7}}', data, {'k': data['hv'], 'j': 7}
            if rng.random() < 0.3 and isinstance(data, dict) and data:
                over = rng.choice(sorted(set(data) - {'k', 'j'}))          # an existing field overridden by a value that is missing
                call, add = '{{> p k=hv j=7 %s=zz9.nope}}' % over if over.isidentifier() else call, dict(add)
                if over.isidentifier():
                    add[over] = None
        elif form == 'ctxhash':
            call, base, add = '{{> p c name="N" k=(lookup this "hv")}}', data['c'], {'name': 'N', 'k': data['hv']}
        elif form == 'lit':
            call, base, add = '{{> p "xy" k=1}}', 'xy', {'k': 1}
        else:
            call, base = '{{#with c}}{{> p}}{{/with}}', data['c']
        grp = f'g{k}'
        cases.append(rcase(f'{grp}a', 'L:' + call + ':R', data, partials={'p': body}, entry=0, kind='call', grp=grp, form=form, tags=[form]))
        cases.append(rcase(f'{grp}b', 'L:' + body + ':R', merge(base, add), entry=4, kind='direct', grp=grp, form=form, tags=['direct']))
    fixed = [
        # (template, partials, data, expected ('ok', text) | ('err', reason, payload))
        ('{{#*inline "p"}}I{{/inline}}{{> p}}', {'p': 'R'}, {}, ('ok', 'I')),
        ('{{> p}}{{#*inline "p"}}I{{/inline}}{{> p}}', {'p': 'R'}, {}, ('ok', 'RI')),
        ('{{#> nope}}D{{/nope}}', {}, {}, ('ok', 'D')),
        ('{{#> p}}D{{/p}}', {'p': '<{{> @partial-block}}>'}, {}, ('ok', '<D>')),
        ('{{#> p}}D{{/p}}', {'p': 'no block use'}, {}, ('ok', 'no block use')),
        ('{{#> p}}{{v}}{{/p}}', {'p': '{{#with o}}<{{> @partial-block}}>{{/with}}'}, {'v': 'OUT', 'o': {'v': 'IN'}}, ('ok', '<IN>')),
        ('{{#> p}}A{{#> q}}B{{/q}}C{{/p}}', {'p': '[{{> @partial-block}}]', 'q': '({{> @partial-block}})'}, {}, ('ok', '[A(B)C]')),
        ('{{#> p}}1{{/p}}{{#> p}}2{{/p}}', {'p': '<{{> @partial-block}}>'}, {}, ('ok', '<1><2>')),
        ('{{> nope}}', {}, {}, ('err', 'PartialNotFound', x('nope'))),
        ('{{> (lookup this "n")}}', {'p': 'DYN'}, {'n': 'p'}, ('ok', 'DYN')),
        ('{{> p k=1}}[{{k}}]', {'p': '({{k}})'}, {'k': 0}, ('ok', '(1)[0]')),
        ('{{#each l}}{{> p k=this}}{{/each}}[{{k}}]', {'p': '({{k}})'}, {'l': [1, 2]}, ('ok', '(1)(2)[]')),
        ('{{#each l as |v|}}{{> p}}{{/each}}', {'p': '[{{v}}{{@index}}{{../x}}{{@root.x}}]'}, {'l': [1], 'x': 'X'}, ('ok', '[X]')),
        ('{{#with o}}{{> p}}{{/with}}', {'p': '[{{a}}{{../a}}]'}, {'a': 'OUT', 'o': {'a': 'IN'}}, ('notin', 'OUT')),
        ('{{> main}}', {}, {}, ('err', 'CannotIncludeSelf', '-')),
        # a computed name that designates the template being rendered is self-inclusion too
        ('{{> (lookup this "n")}}', {}, {'n': 'main'}, ('err', 'CannotIncludeSelf', '-')),
        ('{{> p next="p"}}', {'p': '[{{> (lookup this "next") next="q"}}]', 'q': 'q'}, {}, ('err', 'CannotIncludeSelf', '-')),
        ('{{> p next="q"}}', {'p': '[{{> (lookup this "next") next="q"}}]', 'q': 'q'}, {}, ('ok', '[q]')),
        # a hash argument bound to a path that designates nothing still overrides the context's field (with null)
        ('{{> p title=nope}}', {'p': '[{{title}}|{{body}}]'}, {'title': 'T', 'body': 'B'}, ('ok', '[|B]')),
        ('{{> p title=nul}}', {'p': '[{{title}}|{{body}}]'}, {'title': 'T', 'body': 'B', 'nul': None}, ('ok', '[|B]')),
        ('{{> p c title=c.nope}}', {'p': '[{{title}}]'}, {'c': {'title': 'CT'}}, ('ok', '[]')),
        ('{{#> p x=nope}}{{x}}{{/p}}', {'p': '({{x}}:{{> @partial-block}})'}, {'x': 'outer'}, ('ok', '(:)')),
        ('{{#each l}}{{> p k=../nope}}{{/each}}', {'p': '({{k}})'}, {'l': [{'k': 1}, {'k': 2}]}, ('ok', '()()')),
        ('{{#with o}}{{> p a=nope b=2}}{{/with}}', {'p': '({{a}},{{b}},{{c}})'}, {'o': {'a': 'A', 'b': 'B', 'c': 'C'}}, ('ok', '(,2,C)')),
        ('{{> p title=(lookup this "nope")}}', {'p': '[{{title}}|{{body}}]'}, {'title': 'T', 'body': 'B'}, ('ok', '[|B]')),
        ('{{> p title=nope}}{{title}}', {'p': '[{{#if title}}set{{else}}unset{{/if}}]'}, {'title': 'T'}, ('ok', '[unset]T')),
    ]
    for k, (t, parts, d, exp) in enumerate(fixed):
        cases.append(rcase(f'f{k}', t, d, partials=parts, entry=0, kind='fixed', exp=exp, grp=f'f{k}', tags=['fixed']))
    # nested call forms: outer form x inner form, the inner partial must see the context designated by the outer call
    D = {'a': 1, 'b': 2, 'k': 0, 'c': {'a': 10, 'b': 20, 'c': {'a': 100, 'b': 200}}, 'l': [{'a': 5, 'b': 6}]}
    def fmt(ctx):
        g = lambda k_: '' if not isinstance(ctx, dict) or ctx.get(k_) is None else (str(ctx[k_]) if not isinstance(ctx[k_], dict) else '[object]')
        return '(%s,%s,%s)' % (g('a'), g('b'), g('k'))
    FORMS = {
        'plain': ('{{> %s}}', lambda c: c),
        'ctx': ('{{> %s c}}', lambda c: c.get('c') if isinstance(c, dict) else None),
        'hash': ('{{> %s k=7}}', lambda c: merge(c, {'k': 7})),
        'ctxhash': ('{{> %s c k=8}}', lambda c: merge(c.get('c') if isinstance(c, dict) else None, {'k': 8})),
        'with': ('{{#with c}}{{> %s}}{{/with}}', lambda c: c.get('c') if isinstance(c, dict) else None),
        'withsub': ('{{#with (lookup this "c")}}{{> %s}}{{/with}}', lambda c: c.get('c') if isinstance(c, dict) else None),
        'eachlit': ('{{#each l}}{{> %s}}{{/each}}', lambda c: c['l'][0] if isinstance(c, dict) and 'l' in c else None),
        'pblock': ('{{#> wrap c}}{{> %s}}{{/wrap}}', lambda c: c.get('c') if isinstance(c, dict) else None),
        'inline': ('{{#*inline "il"}}{{> %s}}{{/inline}}{{> il c}}', lambda c: c.get('c') if isinstance(c, dict) else None),
    }
    kk = 0
    for of, (osrc, octx) in FORMS.items():
        for inf, (isrc, ictx) in FORMS.items():
            if inf in ('pblock', 'inline') or of == 'eachlit' and inf == 'eachlit':
                continue
            mid_ctx = octx(D)
            if mid_ctx is None or (inf in ('ctx', 'ctxhash', 'with', 'withsub') and not (isinstance(mid_ctx, dict) and 'c' in mid_ctx)) \
               or (inf == 'eachlit' and not (isinstance(mid_ctx, dict) and 'l' in mid_ctx)):
                continue
            show_ctx = ictx(mid_ctx)
            parts = {'show': '({{a}},{{b}},{{k}})', 'mid': 'm' + (isrc % 'show'), 'wrap': '{{> @partial-block}}'}
            tpl = osrc % 'mid'
            cases.append(rcase(f'n{kk}', tpl, D, partials=parts, entry=0, kind='fixed', exp=('ok', 'm' + fmt(show_ctx)), grp=f'n{kk}',
                               tags=['nested:' + of + '/' + inf]))
            kk += 1
    # non-object contexts with hash arguments: strings (incl. multi-byte characters) become objects keyed by
    # CHARACTER position, arrays by index, scalars give an empty base; the body enumerates what it sees
    SHOW = '{{#each this}}{{@key}}={{this}};{{/each}}|{{[0]}}{{[1]}}{{[2]}}{{[3]}}|{{k}}'
    BASES = ['aé€b', 'x', '', '日本語!', 'a\U0001F600b', [1, 'é', None], [], 5, True, None, 'plain']
    nb = 0
    for b in BASES:
        for hash_src, add in (('k=1', {'k': 1}), ('k="é" j=this', None), ('', {})):
            d = {'s': b, 'l': [b]}
            if add is None:
                hash_src, add = 'k="é" j=2', {'k': 'é', 'j': 2}
            lit = jtok_lit(b)
            forms = [('{{> p s %s}}' % hash_src, 'path')]
            if lit is not None:
                forms.append(('{{> p %s %s}}' % (lit, hash_src), 'literal'))
            forms.append(('{{#each l}}{{> p %s}}{{/each}}' % hash_src, 'current'))
            forms.append(('{{#with s}}{{> p %s}}{{/with}}' % hash_src, 'with'))
            for call, how in forms:
                if how == 'with' and not b:
                    continue            # a falsy value makes `with` render its (absent) else branch
                grp = f'nb{nb}'
                nb += 1
                cases.append(rcase(f'{grp}a', 'L:' + call + ':R', d, partials={'p': SHOW}, entry=0, kind='call', grp=grp, form='nonobj-' + how,
                                   tags=['nonobj-' + how]))
                cases.append(rcase(f'{grp}b', 'L:' + SHOW + ':R', merge(b, add), entry=4, kind='direct', grp=grp, form='nonobj-' + how, tags=['direct']))
    # nested partial blocks: layouts L1..L3 (Li may wrap only Lj, j > i), a leaf partial, bodies built from text,
    # plain partial calls, `{{> @partial-block}}` (0..3 uses) and nested block calls <= 3 deep; expectation from the
    # reference semantics below (a block body is a closure: its own `@partial-block` is the one current where the
    # block was written)
    npb = (120 if tier == 'quick' else 3000) * scale
    for k in range(npb):
        # repeated uses multiply: keep the expected output small (the model's writer is a list of chunks and the
        # point is the binding, not the volume)
        for _try in range(50):
            parts, main = pb_gen(rng)
            try:
                exp = ('ok', pb_eval(parts, main))
            except PBMissing:
                exp = ('err', 'PartialNotFound', x('@partial-block'))
            if exp[0] != 'ok' or len(exp[1]) <= 600:
                break
        else:
            continue
        cases.append(rcase(f'pb{k}', main, {}, partials=parts, entry=0, kind='fixed', exp=exp, grp=f'pb{k}', tags=['pbnest']))
    # witness of the repaired finding F21 (two levels of forwarding recursed without bound)
    cases.append(rcase('f21w', '{{#> l2}}X{{/l2}}', {}, partials={'l2': '<{{#> l3}}{{#> l3}}{{> @partial-block}}{{/l3}}{{/l3}}>', 'l3': '[{{> @partial-block}}]'},
                       entry=0, kind='fixed', exp=('ok', '<[[X]]>'), grp='f21w', tags=['F21']))
    # the two witnesses of findings F3 and F4
    cases.append(rcase('f3w', '{{#> p}}D{{/p}}', {}, partials={'p': '<{{> @partial-block}}{{> @partial-block}}>'}, entry=0,
                       kind='fixed', exp=('ok', '<DD>'), grp='f3w', tags=['F3']))
    cases.append(rcase('f4w', '{{#if true}}x{{/if}}{{> main}}', {}, entry=0, kind='fixed', exp=('err', 'CannotIncludeSelf', '-'),
                       grp='f4w', tags=['F4']))
    # random registries through the broad generator (correspondence only)
    m = (300 if tier == 'quick' else 6000) * scale
    for k in range(m):
        data = gen_object(rng, 3, odd=0.05)
        names = ['p1', 'p2', 'p3']
        parts = {}
        for i, nm in enumerate(names):       # p_i may call only p_j with j > i : acyclic
            g = TplGen(rng, data, partials=names[i + 1:], maxdepth=2, missing=0.05, hash=True)
            b = g.template(rng.randint(1, 3))
            if rng.random() < 0.5:
                b += '{{> @partial-block}}' * rng.randint(1, 2)
            parts[nm] = b
        g = TplGen(rng, data, partials=names, partial_blocks=True, inline=(k % 2 == 0), dynamic_partial=True, maxdepth=3)
        t = g.template(rng.randint(1, 4))
        cases.append(rcase(f'r{k}', t, data, partials=parts, entry=0, kind='random', grp=f'r{k}', tags=['random']))
    return cases

def oracle(c, io, mo):
    if c['kind'] != 'fixed':
        return None
    r = res_of(io)
    e = c['exp']
    if e[0] == 'notin':
        return None if (r['kind'] == 'ok' and e[1] not in r['out']) else f'the caller scope is visible inside the partial: {r}'
    if e[0] == 'ok':
        return None if r.get('out') == e[1] else f'expected {e[1]!r}, got {r.get("out", r.get("reason", r["kind"]))!r}'
    ok = r['kind'] == 'err' and r['reason'] == e[1] and r['payload'] == e[2]
    return None if ok else f'expected error {e[1]}, got {r["kind"]} {r.get("reason", "")} {r.get("out", "")!r}'

def oracle_all(byid):
    out = []
    groups = {}
    for cid, (c, mo, io) in byid.items():
        if c['kind'] in ('call', 'direct'):
            groups.setdefault(c['grp'], {})[c['kind']] = (c, res_of(io))
    for g, d in groups.items():
        if len(d) != 2:
            continue
        (cc, a), (cd, b) = d['call'], d['direct']
        if b['kind'] == 'ok':
            if a['kind'] != 'ok':
                out.append((cc, f'body renders {b["out"]!r} on the merged context but the partial call fails: {a.get("reason")}'))
            elif a['out'] != b['out']:
                out.append((cc, f'partial call renders {a["out"]!r}, body on merged context renders {b["out"]!r}'))
        elif b['kind'] == 'err' and a['kind'] == 'ok':
            out.append((cc, f'body fails on the merged context ({b["reason"]}) but the partial call renders {a["out"]!r}'))
    return out

def nontrivial(c, mo, io):
    r = res_of(io)
    return r['kind'] == 'ok' and len(r['out']) > 4

def relevant_difference(c, mo, io):
    a, b = res_of(mo), res_of(io)
    return a['kind'] != b['kind'] or a.get('out') != b.get('out') or a.get('reason') != b.get('reason')

