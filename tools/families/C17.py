"""C17 — the registry as a name->template map; dev mode: random operation sequences <= 12 over 3 names,
3 files and a pool of valid/invalid sources, file rewrite/delete, dev / prevent_indent toggles,
clone-and-diverge, observation after every step; exhaustive for sequences <= 3 over a reduced alphabet.
Oracle: an abstract map written from the property text."""
import itertools
from hblib import x, jtok
from families.common import res_of

RULE = ('histories of <= 12 operations (register string/partial/precompiled/file, unregister, clear, file '
        'write/delete, dev and prevent_indent toggles, clone + select) over names {a,b,c}, files {f1,f2,f3}, '
        'sources {valid x4, invalid x2}; after EVERY step: has_template and key set and a render of every name; '
        'all sequences of length <= 3 over a reduced alphabet in thorough. Oracle: abstract name->source map with '
        'dev-mode file tracking per the property text. Non-trivial = the history contains a registration that '
        'replaces or removes an earlier one, or a dev-mode file change')
EXHAUSTIVE = {'quick': False, 'thorough': True}
NAMES = ['a', 'b', 'c']
FILES = ['f1', 'f2', 'f3']
VALID = ['A1', 'B2 {{v}}', '  {{> b}}\n', 'C3{{#if v}}y{{/if}}', 'B2 {{v}}\nL2\n', 'A1\n  {{> b}}\nZ']
INVALID = ['{{#if}', '{{/x}}', '{{#if v}']
DATA = {'v': 'V'}

class Abs:
    """the registry as the property text describes it"""
    def __init__(self):
        self.tpl = {}        # name -> ('src', text, pi) | ('file', path, pi, text_at_registration)
        self.dev = False
        self.pi = False
    def clone(self):
        a = Abs(); a.tpl = dict(self.tpl); a.dev = self.dev; a.pi = self.pi
        return a

def valid(src):
    return src not in INVALID and src is not None

def gen_ops(rng, n):
    ops = []
    for _ in range(n):
        k = rng.random()
        nm = rng.choice(NAMES)
        if k < 0.22: ops.append(('regs', nm, rng.choice(VALID + INVALID)))
        elif k < 0.3: ops.append(('regt', nm, rng.choice(VALID + INVALID[:1])))
        elif k < 0.45: ops.append(('regf', nm, rng.choice(FILES)))
        elif k < 0.55: ops.append(('fw', rng.choice(FILES), rng.choice(VALID + INVALID[:1])))
        elif k < 0.6: ops.append(('fd', rng.choice(FILES)))
        elif k < 0.7: ops.append(('unreg', nm))
        elif k < 0.74: ops.append(('clear',))
        elif k < 0.84: ops.append(('dev', rng.choice([0, 1, 1])))
        elif k < 0.9: ops.append(('pi', rng.choice([0, 1])))
        elif k < 0.95: ops.append(('clone',))
        else: ops.append(('sel', rng.choice([0, 1])))
    return ops

def to_line(cid, ops):
    out, cloned = [], False
    for o in ops:
        if o[0] in ('regs', 'regp', 'regf'): out.append(f'{o[0]} {x(o[1])} {x(o[2])}')
        elif o[0] == 'regt': out.append(f'regt {x(o[1])} 1 {x(o[2])}')
        elif o[0] == 'fw': out.append(f'fw {x(o[1])} {x(o[2])}')
        elif o[0] == 'fd': out.append(f'fd {x(o[1])}')
        elif o[0] == 'unreg': out.append(f'unreg {x(o[1])}')
        elif o[0] == 'clear': out.append('clear')
        elif o[0] in ('dev', 'pi'): out.append(f'{o[0]} {o[1]}')
        elif o[0] == 'clone': out.append('clone'); cloned = True
        elif o[0] == 'sel':
            if not cloned and o[1] == 1:
                out.append('clone'); cloned = True
            out.append(f'sel {o[1]}')
        # observation after every step
        out.append('keys')
        for nm in NAMES:
            out.append(f'has {x(nm)}')
            out.append(f'r 0 {x(nm)} {jtok(DATA)} -1')
    return f'{cid} ' + ' ; '.join(out)

def gen_cases(rng, tier, scale):
    cases = []
    n = (150 if tier == 'quick' else 2500) * scale
    for k in range(n):
        ops = gen_ops(rng, rng.randint(2, 12))
        if not any(o[0] in ('regs', 'regp', 'regf', 'regt') for o in ops):
            ops.insert(0, ('fw', 'f1', VALID[0])); ops.insert(1, ('regf', 'a', 'f1'))
        cases.append({'line': to_line(f'h{k}', ops), 'ops': ops, 'kind': 'history', 'tags': ['random']})
    # scenario skeletons (multi-step stories around dev-mode tracking, untracking and flag toggles) with
    # random extra operations inserted at random positions
    SK = [
        [('dev', 1), ('fw', 'f1', 'A1'), ('regf', 'a', 'f1'), ('dev', 0), ('fw', 'f1', 'B2 {{v}}'), ('dev', 1)],
        [('dev', 1), ('fw', 'f1', 'A1'), ('regf', 'a', 'f1'), ('dev', 0), ('fd', 'f1'), ('dev', 1), ('regs', 'b', 'C3{{#if v}}y{{/if}}')],
        [('dev', 1), ('fw', 'f2', 'A1'), ('regf', 'a', 'f2'), ('unreg', 'a'), ('fw', 'f2', 'B2 {{v}}'), ('regs', 'a', 'C3{{#if v}}y{{/if}}')],
        [('dev', 1), ('fw', 'f1', 'A1'), ('regf', 'a', 'f1'), ('clear',), ('fw', 'f1', 'B2 {{v}}'), ('regf', 'b', 'f1'), ('fd', 'f1')],
        [('dev', 1), ('fw', 'f1', 'A1'), ('regf', 'a', 'f1'), ('clone',), ('sel', 1), ('dev', 0), ('sel', 0), ('fw', 'f1', 'B2 {{v}}'), ('sel', 1), ('dev', 1)],
        [('fw', 'f1', 'A1'), ('regf', 'a', 'f1'), ('dev', 1), ('fw', 'f1', 'B2 {{v}}'), ('regf', 'b', 'f1'), ('fw', 'f1', 'C3{{#if v}}y{{/if}}')],
        [('dev', 1), ('fw', 'f1', 'A1'), ('regf', 'a', 'f1'), ('regf', 'b', 'f1'), ('fd', 'f1'), ('unreg', 'a'), ('unreg', 'b')],
        [('pi', 1), ('regs', 'b', 'B2 {{v}}'), ('regs', 'a', '  {{> b}}\n'), ('pi', 0), ('regs', 'c', '  {{> b}}\n'), ('clone',), ('sel', 1), ('pi', 1)],
        [('dev', 1), ('fw', 'f1', 'A1'), ('regf', 'a', 'f1'), ('regs', 'a', 'B2 {{v}}'), ('fw', 'f1', 'C3{{#if v}}y{{/if}}'), ('dev', 0), ('dev', 1)],
        [('dev', 1), ('fw', 'f3', '{{#if}'), ('regf', 'a', 'f3'), ('fw', 'f3', 'A1'), ('regf', 'a', 'f3'), ('fw', 'f3', '{{#if}'), ('dev', 0)],
        # a registration that FAILS to compile changes nothing — the name stays file-backed and follows the file
        [('dev', 1), ('fw', 'f1', 'A1'), ('regf', 'a', 'f1'), ('regs', 'a', '{{#if}'), ('fw', 'f1', 'B2 {{v}}')],
        [('dev', 1), ('fw', 'f1', 'A1'), ('regf', 'a', 'f1'), ('regs', 'a', '{{/x}}'), ('fw', 'f1', 'C3{{#if v}}y{{/if}}'), ('regs', 'a', '{{#if}'), ('fw', 'f1', 'B2 {{v}}')],
        [('dev', 1), ('fw', 'f1', 'A1'), ('fw', 'f3', '{{#if}'), ('regf', 'a', 'f1'), ('regf', 'a', 'f3'), ('fw', 'f1', 'B2 {{v}}'), ('fd', 'f3')],
        [('dev', 1), ('fw', 'f1', 'A1'), ('regf', 'a', 'f1'), ('regt', 'a', '{{/x}}'), ('fd', 'f1')],
        # a precompiled Template registered over a file-backed name ends the file tracking, like a string registration
        [('dev', 1), ('fw', 'f1', 'A1'), ('regf', 'a', 'f1'), ('regt', 'a', 'C3{{#if v}}y{{/if}}'), ('fw', 'f1', 'B2 {{v}}'), ('fd', 'f1')],
        [('dev', 1), ('fw', 'f1', 'B2 {{v}}'), ('regf', 'b', 'f1'), ('regs', 'a', '  {{> b}}\n'), ('regt', 'b', 'A1'), ('fw', 'f1', 'C3{{#if v}}y{{/if}}')],
        # a file-registered template reached as a partial of a string template / of another file template follows its file
        [('dev', 1), ('fw', 'f1', 'B2 {{v}}'), ('regf', 'b', 'f1'), ('regs', 'a', 'A1\n  {{> b}}\nZ'), ('fw', 'f1', 'C3{{#if v}}y{{/if}}')],
        [('dev', 1), ('fw', 'f1', 'B2 {{v}}'), ('regf', 'b', 'f1'), ('fw', 'f2', '  {{> b}}\n'), ('regf', 'c', 'f2'), ('fw', 'f1', 'A1'), ('dev', 0), ('dev', 1)],
        [('fw', 'f1', 'B2 {{v}}'), ('dev', 1), ('regf', 'b', 'f1'), ('regs', 'c', '  {{> b}}\n'), ('fw', 'f1', 'B2 {{v}}\nL2\n'), ('clone',), ('sel', 1), ('fw', 'f1', 'A1')],
        # a file template with an indented include of a multi-line partial: the prevent_indent setting in force at
        # registration (and at every dev-mode reload) decides its rendering
        [('pi', 1), ('dev', 1), ('regs', 'b', 'B2 {{v}}\nL2\n'), ('fw', 'f1', 'A1\n  {{> b}}\nZ'), ('regf', 'a', 'f1'), ('fw', 'f1', 'A1\n  {{> b}}\nZ2')],
        [('dev', 1), ('regs', 'b', 'B2 {{v}}\nL2\n'), ('fw', 'f1', 'A1\n  {{> b}}\nZ'), ('regf', 'a', 'f1'), ('pi', 1), ('fw', 'f2', 'A1\n  {{> b}}\nZ'), ('regf', 'c', 'f2'), ('dev', 0)],
        [('pi', 1), ('regs', 'b', 'B2 {{v}}\nL2\n'), ('fw', 'f1', 'A1\n  {{> b}}\nZ'), ('regf', 'a', 'f1'), ('dev', 1), ('regf', 'c', 'f1'), ('clone',), ('sel', 1), ('pi', 0), ('regf', 'a', 'f1')],
    ]
    # a file-backed template reached again from inside its own render (a -> b -> a, cut off by the data): every copy is current.
    # Only as written: with a random operation inserted the include graph could become cyclic, which the property excludes.
    SK_PLAIN = [[('pi', 1), ('regs', 'b', 'B2 {{v}}\nL2\n'), ('regp', 'a', 'A1\n  {{> b}}\nZ'), ('pi', 0), ('regp', 'c', 'A1\n  {{> b}}\nZ')],
                [('regp', 'a', 'A1'), ('regp', 'a', '{{#if}'), ('pi', 1), ('regp', 'b', 'B2 {{v}}\nL2\n'), ('regs', 'c', 'C3\n\t{{> b}}\n')],
                [('dev', 1), ('fw', 'f1', 'A1{{#if v}}{{> b v=false}}{{/if}}'), ('regf', 'a', 'f1'), ('regs', 'b', 'C3[{{> a}}]'), ('fw', 'f1', 'B2{{#if v}}{{> b v=false}}{{/if}}')]]
    # rewrites that keep the file's LENGTH (the harness keeps its modification time on every overwrite): valid -> valid -> invalid ->
    # valid, top level and as a partial, also seen through a clone made before the rewrite
    SK_PLAIN += [[('dev', 1), ('fw', 'f1', 'A1 {{v}}'), ('regf', 'a', 'f1'), ('fw', 'f1', 'B2 {{v}}'), ('fw', 'f1', '{{#if v}'), ('fw', 'f1', 'C3 {{v}}')],
                 [('dev', 1), ('fw', 'f2', 'A1 {{v}}'), ('regf', 'b', 'f2'), ('regs', 'c', 'C3[{{> b}}]'), ('fw', 'f2', 'B2 {{v}}'), ('clone',), ('sel', 1), ('fw', 'f2', 'C3 {{v}}'), ('sel', 0)]]
    for k, sk in enumerate(SK + SK_PLAIN):           # every skeleton once as written, whatever the seed
        cases.append({'line': to_line(f'sk{k}', list(sk)), 'ops': list(sk), 'kind': 'history', 'tags': ['scenario-plain']})
    m = (120 if tier == 'quick' else 2000) * scale
    for k in range(m):
        ops = list(rng.choice(SK))
        for _ in range(rng.randint(0, 3)):
            ops.insert(rng.randint(0, len(ops)), gen_ops(rng, 1)[0])
        cases.append({'line': to_line(f's{k}', ops), 'ops': ops, 'kind': 'history', 'tags': ['scenario']})
    if tier == 'thorough':
        alpha = [('regs', 'a', 'A1'), ('regs', 'a', '{{#if}'), ('fw', 'f1', 'B2 {{v}}'), ('regf', 'a', 'f1'), ('fd', 'f1'),
                 ('unreg', 'a'), ('dev', 1), ('dev', 0), ('regt', 'a', 'C3{{#if v}}y{{/if}}'), ('clear',), ('regs', 'b', 'A1')]
        k = 0
        for ln in (1, 2, 3):
            for seq in itertools.product(alpha, repeat=ln):
                cases.append({'line': to_line(f'x{k}', list(seq)), 'ops': list(seq), 'kind': 'history', 'tags': ['exhaustive']})
                k += 1
    # the F6 witness
    ops = [('dev', 1), ('fw', 'f1', 'FILE'), ('regf', 'a', 'f1'), ('regs', 'a', 'STRING')]
    cases.append({'line': to_line('f6w', ops), 'ops': ops, 'kind': 'history', 'tags': ['F6']})
    return cases

def simulate(ops):
    """expected observations per the property text: list per step of (keys, {name: (has, render)})
    where render is ('out-of', source text) | ('notfound',) | ('fileerr',)"""
    regs = [Abs(), None]
    sel = 0
    files = {}
    cloned = False
    steps = []
    for o in ops:
        r = regs[sel]
        res = None
        if o[0] in ('regs', 'regp'):
            if valid(o[2]):
                r.tpl[o[1]] = ('src', o[2], r.pi)
        elif o[0] == 'regt':
            if valid(o[2]):
                r.tpl[o[1]] = ('src', o[2], False)
        elif o[0] == 'regf':
            content = files.get(o[2])
            if content is not None and valid(content):
                r.tpl[o[1]] = ('file', o[2], r.pi, content) if r.dev else ('src', content, r.pi)
        elif o[0] == 'fw':
            files[o[1]] = o[2]
        elif o[0] == 'fd':
            files.pop(o[1], None)
        elif o[0] == 'unreg':
            r.tpl.pop(o[1], None)
        elif o[0] == 'clear':
            r.tpl.clear()
        elif o[0] == 'dev':
            r.dev = bool(o[1])
            if not r.dev:      # turning dev mode off stops tracking: the content at registration is used
                for n_, t in list(r.tpl.items()):
                    if t[0] == 'file':
                        r.tpl[n_] = ('src', t[3], t[2])
        elif o[0] == 'pi':
            r.pi = bool(o[1])
        elif o[0] == 'clone':
            regs[1] = r.clone(); cloned = True
        elif o[0] == 'sel':
            if o[1] == 1 and not cloned:
                regs[1] = r.clone(); cloned = True
            sel = o[1]
        r = regs[sel]
        obs = {}
        for nm in NAMES:
            t = r.tpl.get(nm)
            if t is None:
                obs[nm] = (False, ('notfound',))
            elif t[0] == 'src':
                obs[nm] = (True, ('src', t[1], t[2]))
            else:
                content = files.get(t[1])
                obs[nm] = (True, ('src', content, t[2]) if (content is not None and valid(content)) else ('fileerr',))
        steps.append((sorted(r.tpl), obs, r))
    return steps, files

def oracle(c, io, mo):
    """checks has/keys exactly and the KIND of each render (found / not found / file error) — the rendered
    bytes themselves are compared with the model by the correspondence layer"""
    if io is None:
        return 'no output'
    toks = io.split(' ')
    steps, _ = simulate(c['ops'])
    i = 0
    # skip the observations of the registration ops themselves
    seq = []
    for o in c['ops']:
        if o[0] in ('regs', 'regp', 'regf', 'regt'):
            seq.append('reg')
        seq.append('step')
    si = 0
    for kind in seq:
        if kind == 'reg':
            i += 1
            continue
        keys, obs, r = steps[si]; si += 1
        want = 'k[' + ','.join(x(k_) for k_ in keys) + ']'
        if toks[i] != want:
            return f'step {si}: key set {toks[i]} expected {want}'
        i += 1
        for nm in NAMES:
            has, rend = obs[nm]
            if toks[i] != ('1' if has else '0'):
                return f'step {si}: has_template({nm}) = {toks[i]}, expected {int(has)}'
            i += 1
            from hblib import parse_robs
            rr = parse_robs(toks[i]); i += 1
            if rend[0] == 'notfound':
                if not (rr['kind'] == 'err' and rr['reason'] == 'TemplateNotFound'):
                    return f'step {si}: render({nm}) expected TemplateNotFound, got {rr}'
            elif rend[0] == 'fileerr':
                if not (rr['kind'] == 'err' and rr['reason'] == 'TemplateError'):
                    return f'step {si}: render({nm}) expected a template error for the missing/invalid file, got {rr}'
            else:
                src = rend[1]
                # the text rendered must come from the expected source: each valid source has a distinct first marker
                mark = src.strip()[:2] if not src.startswith('  {{>') else None
                if rr['kind'] == 'ok' and mark is not None and not rr['out'].startswith(mark):
                    return f'step {si}: render({nm}) = {rr["out"]!r} does not come from the last registered source {src!r}'
                if rr['kind'] == 'err' and rr['reason'] == 'TemplateNotFound':
                    return f'step {si}: render({nm}) TemplateNotFound but a template is registered'
    return None

def nontrivial(c, mo, io):
    names = [o[1] for o in c['ops'] if o[0] in ('regs', 'regp', 'regt', 'regf')]
    return len(names) != len(set(names)) or any(o[0] in ('unreg', 'clear', 'fd') for o in c['ops'])

def relevant_difference(c, mo, io):
    return True

def _fixed_F6_stale_source(c, mo, io):
    # a name registered from a file under dev mode is later re-registered by string / precompiled template
    tracked = set(); dev = False
    for o in c['ops']:
        if o[0] == 'dev': dev = bool(o[1]); tracked = tracked if dev else set()
        elif o[0] == 'regf' and dev: tracked.add(o[1])
        elif o[0] in ('unreg',): tracked.discard(o[1])
        elif o[0] == 'clear': tracked = set()
        elif o[0] in ('regs', 'regt') and o[1] in tracked: return True
        elif o[0] in ('clone', 'sel'): pass
    return False

