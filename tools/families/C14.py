"""C14 — name resolution: the full decision table name class x tag form x configuration, every run,
at random nesting positions; expectations computed from the property text."""
import itertools
from hblib import x, jtok
from families.common import rcase, res_of

RULE = ('name class {user helper, built-in helper, data field, helper+field, neither, field whose value is null} x tag form {bare, with '
        'args, hash only, args+hash, block, block with hash only, subexpression, subexpression with hash only, ./n, this.n, [n], this/n} x configuration {hooks on/off, local helper via '
        'decorator on/off, strict on/off} x position {top level, inside each, inside with, inside a partial} '
        '(exhaustive every run) plus decorator-forward-effect cases; oracle: who must handle the tag per the '
        'property text. Non-trivial = every cell (each is a distinct decision)')
EXHAUSTIVE = {'quick': True, 'thorough': True}

NAMES = {
    'user': dict(name='dump2', helper=True, field=False),
    'user+field': dict(name='dump', helper=True, field=True),
    'builtin+field': dict(name='len', helper=True, field=True),
    'field': dict(name='fld', helper=False, field=True),
    'neither': dict(name='zip', helper=False, field=False),
    'nullfield': dict(name='nul', helper=False, field=True, value=None),     # the field exists, its value is null
}
FORMS = ['bare', 'args', 'block', 'subexpr', './', 'this.', '[]', 'this/', 'hash', 'argshash', 'blockhash', 'subhash', 'chain']

def wrap(pos, t):
    if pos == 'top':
        return t, {}
    if pos == 'each':
        return '{{#each one}}' + t + '{{/each}}', {}
    if pos == 'with':
        return '{{#with ctx}}' + t + '{{/with}}', {}
    return '{{> part}}', {'part': t}

def gen_cases(rng, tier, scale):
    cases = []
    k = 0
    for (cls, info), form, hooks, local, strict, pos in itertools.product(NAMES.items(), FORMS, (0, 3), (False, True), (0, 1),
                                                                         ('top', 'each', 'with', 'partial')):
        n = info['name']
        if tier == 'quick' and pos != 'top' and rng.random() > 0.25:
            continue
        fields = {'other': 'O'}
        if info['field']:
            fields[n] = info.get('value', 'FIELD')
        data = dict(fields)
        data['one'] = [dict(fields)]
        data['ctx'] = dict(fields)
        if form == 'bare':
            t = '{{%s}}' % n
        elif form == 'args':
            t = '{{%s 1}}' % n
        elif form == 'block':
            t = '{{#%s 1}}B{{/%s}}' % (n, n)
        elif form == 'subexpr':
            t = '{{id (%s 1)}}' % n
        elif form == 'hash':
            t = '{{%s k=1}}' % n
        elif form == 'argshash':
            t = '{{%s 1 k=2}}' % n
        elif form == 'blockhash':
            t = '{{#%s k=1}}B{{/%s}}' % (n, n)
        elif form == 'subhash':
            t = '{{id (%s k=1)}}' % n
        elif form == 'chain':
            t = '{{#if zzz}}A{{else %s 1}}B{{/if}}' % n          # an else-chain link is a block call
        elif form == './':
            t = '{{./%s}}' % n
        elif form == 'this.':
            t = '{{this.%s}}' % n
        elif form == '[]':
            t = '{{[%s]}}' % n
        else:
            t = '{{this/%s}}' % n
        if local:
            t = '{{*sethelper "%s"}}' % n + t
        tpl, parts = wrap(pos, t)
        pre = ['probes', 'esc 1', f'hooks {hooks}', f'strict {strict}']
        cases.append(rcase(f't{k}', tpl, data, pre=pre, partials=parts, entry=0, kind='cell', cls=cls, form=form, hooks=hooks,
                           local=local, strict=strict, pos=pos, nm=n, info=info, tags=[cls, form]))
        k += 1
    # decorator effects apply forward only
    fixed = [
        ('{{v}}|{{*setctx o}}{{v}}|{{dump v}}', {'v': 'OUTER', 'o': {'v': 'INNER'}}, 'OUTER|INNER|dump(x76:v:-:x494e4e4552;;bti;-)'),
        ('{{b}}|{{*setctx o}}{{a}}|{{b}}|{{./b}}|{{this.b}}|{{#if b}}Y{{else}}N{{/if}}|{{#each l}}x{{else}}E{{/each}}',
         {'b': 'old', 'l': [1], 'o': {'a': 'new'}}, 'old|new||||N|E'),
        ('{{b}}|{{*setctx 5}}{{b}}|{{this}}', {'b': 'old'}, 'old||5'),
        ('{{#with w}}{{*setctx @root.o}}{{a}}{{b}}{{/with}}|{{b}}', {'b': 'old', 'w': {'b': 'wb'}, 'o': {'a': 'new'}}, None),
        # a registry helper whose name is a path: the bare tag looks the raw text up among the helpers first
        ('{{math/pi}}|{{{math/pi}}}|{{&math/pi}}', {'math': {'pi': 'field'}}, 'math/pi(;;bti;-)|math/pi(;;bti;-)|math/pi(;;bti;-)'),
        ('{{math/pi}}', {}, 'math/pi(;;bti;-)'), ('{{ns.id}}', {'ns': {'id': 'field'}}, ('err', 'ParamNotFoundForIndex')),
        ('{{#with math}}{{pi}}{{/with}}|{{math.pi}}|{{math/[pi]}}', {'math': {'pi': 'field'}}, 'field|field|field'),
        # decorators at the top level of a partial-block body are evaluated before the partial runs, in either form
        ('{{#> plain}}x{{*nodeco}}y{{/plain}}', {}, ('err', 'DecoratorNotFound')),
        ('{{#> pu}}{{*sethelper "u" "L"}}{{/pu}}', {}, 'local(L:)||local(L:)'),
        ('{{#> pu}}{{#*inline "zz"}}i{{/inline}}{{*sethelper "u" "M"}}b{{/pu}}', {}, 'local(M:)|b|local(M:)'),
        ('{{lh 1}}', {}, ('err', 'HelperNotFound')),
        ('{{#if t}}{{*sethelper "lh"}}{{/if}}{{lh 1}}', {'t': True}, 'local(lh:-:v:-:u1)'),
        ('{{> il}}', {}, ('err', 'PartialNotFound')),
        ('{{#*inline "il"}}I{{/inline}}{{> il}}', {}, 'I'),
        ('{{*nodeco}}', {}, ('err', 'DecoratorNotFound')),
        ('{{#*nodeco}}x{{/nodeco}}', {}, ('err', 'DecoratorNotFound')),
    ]
    # a later registration of a local helper under the same name replaces the earlier one, in every tag form
    fixed += [
        ('{{*sethelper "u" "one"}}{{u}}|{{*sethelper "u" "two"}}{{u}}', {}, 'local(one:)|local(two:)'),
        ('{{*sethelper "u" "one"}}{{u 1}}|{{*sethelper "u" "two"}}{{u 1}}|{{#u}}b{{/u}}|{{id (u 2)}}', {}, None),
        ('{{#each l}}{{*sethelper "u" this}}{{u}};{{/each}}', {'l': ['x', 'y', 'z']}, 'local(x:);local(y:);local(z:);'),
        ('{{*sethelper "u" "one"}}{{#if t}}{{*sethelper "u" "two"}}{{/if}}{{u}}', {'t': True}, 'local(two:)'),
    ]
    for i, (t, d, exp) in enumerate(fixed):
        cases.append(rcase(f'f{i}', t, d, pre=['probes', 'esc 1'], partials={'plain': 'P', 'pu': '{{u}}|{{> @partial-block}}|{{u}}'}, entry=4, kind='fixed', exp=exp, tags=['decorator']))
    return cases

def expect(c):
    """who handles the tag, per the property text -> predicate on the result"""
    info, form, n = c['info'], c['form'], c['nm']
    noparam = form in ('hash', 'blockhash', 'subhash')      # a call (it has hash arguments) without positional ones
    form = {'hash': 'args', 'argshash': 'args', 'blockhash': 'block', 'subhash': 'subexpr', 'chain': 'block'}.get(form, form)
    explicit = form in ('./', 'this.', '[]', 'this/')
    FV = 'FIELD' if info.get('value', 'FIELD') is not None else ''
    if explicit:
        if info['field']:
            return ('out', FV)
        return ('missing',)
    if c['local']:
        return ('prefix', 'local(' + n + ':')
    if info['helper']:
        if n in ('dump', 'dump2'):
            return ('prefix', n + '(')
        # len: invoked as a helper (not read as a field)
        if form == 'bare' or noparam:
            return ('err', 'ParamNotFoundForName')
        if form == 'block':
            return ('out', '1' if False else '0')        # len of the number 1 is 0; a block call still calls the helper
        return ('out', '0')
    if form == 'bare':
        if info['field']:
            return ('out', FV)
        return ('missing',)
    # call with arguments / block / subexpression and no helper
    if form == 'block':
        return ('prefix', 'bhm(' + n + ')') if c['hooks'] & 2 else ('err', 'HelperNotFound')
    return ('prefix', 'hm(' + n + ':') if c['hooks'] & 1 else ('err', 'HelperNotFound')

def oracle(c, io, mo):
    r = res_of(io)
    if c['kind'] == 'fixed':
        e = c['exp']
        if e is None:
            return None
        if isinstance(e, tuple):
            return None if (r['kind'] == 'err' and r['reason'] == e[1]) else f'expected error {e[1]}, got {r}'
        return None if r.get('out') == e else f'expected {e!r}, got {r.get("out", r.get("reason"))!r}'
    e = expect(c)
    sub = c['form'] in ('subexpr', 'subhash')
    if e[0] == 'out':
        return None if r.get('out') == e[1] else f'{c["cls"]}/{c["form"]}: expected output {e[1]!r}, got {r.get("out", r.get("reason"))!r}'
    if e[0] == 'prefix':
        ok = r['kind'] == 'ok' and (r['out'].startswith(e[1]) or (sub and e[1] in r['log']))
        return None if ok else f'{c["cls"]}/{c["form"]} hooks={c["hooks"]} local={c["local"]}: expected {e[1]!r}..., got {r.get("out", r.get("reason"))!r}'
    if e[0] == 'err':
        return None if (r['kind'] == 'err' and r['reason'] == e[1]) else f'{c["cls"]}/{c["form"]}: expected {e[1]}, got {r.get("out", r.get("reason"))!r}'
    if e[0] == 'missing':
        if c['strict']:
            return None if (r['kind'] == 'err' and r['reason'] == 'MissingVariable') else f'strict missing: expected MissingVariable, got {r}'
        if c['hooks'] & 1:
            return None if (r['kind'] == 'ok' and r['out'].startswith('hm(')) else f'helperMissing hook expected, got {r.get("out", r.get("reason"))!r}'
        return None if r.get('out') == '' else f'expected nothing, got {r.get("out", r.get("reason"))!r}'
    return None

def nontrivial(c, mo, io):
    return True

def relevant_difference(c, mo, io):
    return True
