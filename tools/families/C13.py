"""C13 — helper arguments: every JSON value of depth <= 3 as a literal (both quote styles, escapes,
integers across the i64/u64 range, decimals <= 15 significant digits), arity 0..6, hash 0..4, every
argument kind in every position, subexpressions nested <= 4; a recording probe dumps what it received."""
import json, struct
from hblib import x, jtok, F
from families.common import rcase, res_of

RULE = ('{{dump a1 .. an k1=v1 ..}} / {{#dump ..}} / (dump ..) with arguments drawn from literals (all JSON '
        'kinds, nested <= 3, both quote styles, escapes incl. \\uXXXX and surrogate pairs, boundary integers, '
        'decimals), paths (present/missing) and subexpressions nested <= 4; arity 0..6, hash 0..4; oracle: the '
        'exact dump text (order, typing, missing flags, block metadata) and the invocation log (each occurrence '
        'once, inner before outer). Non-trivial = at least one non-scalar or escaped literal or a subexpression')
STR_ALPHA = ['a', 'B', ' ', '"', "'", '\\', '{', '}', '/', 'é', '日', '\U0001F600', '\n', '\t', '\x01', '=', '|', '~', '(', ')', '[', ']', ',', ':']

def rstr(rng):
    return ''.join(rng.choice(STR_ALPHA) for _ in range(rng.randint(0, 6)))

def dq(s, rng):
    out = []
    for ch in s:
        if ch == '"': out.append('\\"')
        elif ch == '\\': out.append('\\\\')
        elif ch == '\n': out.append('\\n')
        elif ch == '\t': out.append('\\t')
        elif ord(ch) < 32: out.append('\\u%04x' % ord(ch))
        elif ch == '/' and rng.random() < 0.3: out.append('\\/')
        elif ord(ch) > 0xffff and rng.random() < 0.5:
            c = ord(ch) - 0x10000
            out.append('\\u%04x\\u%04x' % (0xd800 + (c >> 10), 0xdc00 + (c & 0x3ff)))
        elif ord(ch) > 127 and ord(ch) <= 0xffff and rng.random() < 0.3: out.append('\\u%04X' % ord(ch))
        else: out.append(ch)
    return '"' + ''.join(out) + '"'

def sq(s):
    out = []
    for ch in s:
        if ch == "'": out.append("\\'")
        elif ch == '\\': out.append('\\\\')
        elif ch == '\n': out.append('\\n')
        elif ch == '\t': out.append('\\t')
        elif ord(ch) < 32: out.append('\\u%04x' % ord(ch))
        else: out.append(ch)
    return "'" + ''.join(out) + "'"

INTS = [0, 1, -1, 7, 42, 2**31, -2**31, 2**53, 2**53 + 1, 2**63 - 1, 2**63, 2**64 - 1, -2**63, -2**63 + 1, 10**15]
DECS = ['1.5', '-2.25', '0.1', '100.0', '1E2', '-1E-2', '1.25E3', '123456.789', '0.000001', '9.99E20', '1E21', '4.9E-324', '1.7976931348623157E308', '-0.0', '0.5E0']

# integer-looking spellings whose JSON reading is not the integer one (-0 is the float -0.0), exponent forms
ZEROS = ['-0', '-0E0', '0.0', '0E0', '-0.0E1', '0E5']
# spellings the grammar accepts as number literals but JSON does not: the template is rejected (InvalidParam)
NOT_JSON = ['007', '-01', '00', '1.', '-00', '01.5', '[1, 007]', '{"k": -01}']

def lit(rng, depth, top=True):
    """(source text, python value)"""
    k = rng.random()
    if depth > 0 and k < 0.25:
        if rng.random() < 0.5:
            items = [lit(rng, depth - 1, False) for _ in range(rng.randint(0, 3))]
            sep = rng.choice([',', ', ', ' , '])
            return '[' + sep.join(i[0] for i in items) + ']', [i[1] for i in items]
        d, src = {}, []
        for _ in range(rng.randint(0, 3)):
            key = rng.choice(['a', 'b', 'k k', 'é', ''])
            v = lit(rng, depth - 1, False)
            src.append(dq(key, rng) + rng.choice([':', ': ']) + v[0])
            d[key] = v[1]
        return '{' + ','.join(src) + '}', d
    if k < 0.5:
        s = rstr(rng)
        if top and rng.random() < 0.5:
            return sq(s), s
        return dq(s, rng), s
    if k < 0.72:
        n = rng.choice(INTS)
        return str(n), n
    if k < 0.82:
        t = rng.choice(DECS + ZEROS)
        return t, F(float(t))
    return rng.choice([('true', True), ('false', False), ('null', None)])

def pj_lit(v):
    return '-:v:-:' + jtok(v)

DATA = {'a': 1, 'b': 'str', 'o': {'k': [1, 2]}, 'n': None}
PATHS = {'a': ('a', 'v', '[x61]', jtok(1)), 'b': ('b', 'v', '[x62]', jtok('str')), 'o.k': ('o.k', 'v', '[x6f,x6b]', jtok([1, 2])),
         'zz': ('zz', 'm', '-', 'n'), 'n': ('n', 'v', '[x6e]', 'n'), 'o.k.[1]': ('o.k.[1]', 'v', '[x6f,x6b,x31]', jtok(2))}

# names that begin with a keyword or a literal of the grammar are ordinary path names
for _n, _v in (('elsewhere', 5), ('else_b', 'eb'), ('assets', 'A'), ('as_of', [0]), ('nullable', True), ('trueish', 0), ('falsey', False), ('undefinedx', 'u')):
    DATA[_n] = _v
    PATHS[_n] = (_n, 'v', '[' + x(_n) + ']', jtok(_v))
for _n in ('else1', 'elsez.k', 'asx', 'nullx'):
    PATHS[_n] = (_n, 'm', '-', 'n')

def arg(rng, depth):
    """(source, expected pj text, log lines produced while evaluating it)"""
    k = rng.random()
    if k < 0.55:
        s, v = lit(rng, 2)
        return s, pj_lit(v), []
    if k < 0.8:
        p = rng.choice(list(PATHS))
        rel, m, ctx, canon = PATHS[p]
        return p, f'{x(rel)}:{m}:{ctx}:{canon}', []
    if depth > 0:
        s, v = lit(rng, 1)
        src, log = s, []
        for _ in range(rng.randint(1, min(4, depth + 1))):
            src = '(id ' + src + ')'
            log.append('id(' + jtok(v) + ')')
        return src, pj_lit(v), log
    s, v = lit(rng, 1)
    return s, pj_lit(v), []

def gen_cases(rng, tier, scale):
    cases = []
    n = (500 if tier == 'quick' else 10000) * scale
    for k in range(n):
        arity = rng.randint(0, 6)
        hn = rng.randint(0, 4)
        args = [arg(rng, 3) for _ in range(arity)]
        keys = rng.sample(['k', 'j', 'key2', 'zeta', 'alpha'], hn)
        hargs = [(key, arg(rng, 2)) for key in keys]
        form = rng.choice(['expr', 'expr', 'block', 'blockelse', 'blockbp', 'subexpr', 'chainbp'])
        argsrc = ' '.join(a[0] for a in args)
        hsrc = ''.join(f' {k_}={a[0]}' for k_, a in hargs)
        ptxt = ','.join(a[1] for a in args)
        htxt = ','.join(f'{k_}={a[1]}' for k_, a in sorted(hargs))
        log = [l for a in args for l in a[2]]
        # hash arguments are evaluated after the positional ones (their relative order is not fixed: HashMap)
        hlog = sorted(l for _, a in hargs for l in a[2])
        if form == 'expr':
            tpl = '{{dump ' + argsrc + hsrc + '}}'
            flags, bp = 'bti', '-'
        elif form == 'block':
            tpl = '{{#dump ' + argsrc + hsrc + '}}body{{/dump}}'
            flags, bp = 'BTi', '-'
        elif form == 'blockelse':
            tpl = '{{#dump ' + argsrc + hsrc + '}}body{{else}}other{{/dump}}'
            flags, bp = 'BTI', '-'
        elif form == 'blockbp':
            two = rng.random() < 0.5
            # ... optionally followed by the whitespace-control tilde (the only token the grammar allows there)
            tl = rng.choice(['', '', '~', ' ~'])
            tpl = '{{#dump ' + argsrc + hsrc + (' as |first second|' if two else ' as |only|') + tl + '}}body{{/dump}}'
            flags, bp = 'BTi', ('2' + x('first') + ',' + x('second')) if two else ('1' + x('only'))
        elif form == 'chainbp':
            # the same as a link of an else-chain (`{{else dump .. as |a b|}}`): the link helper receives its own
            # arguments, hash, body and block-parameter names
            two = rng.random() < 0.5
            tpl = '{{#if zz}}no{{else dump ' + argsrc + hsrc + (' as |first second|' if two else ' as |only|') + '}}body{{/if}}'
            flags, bp = 'BTi', ('2' + x('first') + ',' + x('second')) if two else ('1' + x('only'))
        else:
            if arity + hn == 0:
                args = [arg(rng, 0)]
                argsrc, ptxt, log = args[0][0], args[0][1], list(args[0][2])
            tpl = '{{id (dump ' + argsrc + hsrc + ')}}'
            flags, bp = 'bti', '-'
        dump = f'dump({ptxt};{htxt};{flags};{bp})'
        cases.append(rcase(f'd{k}', tpl, DATA, pre=['probes', 'esc 1'], entry=4, kind='dump', form=form, dump=dump,
                           log=log, hlog=hlog, tags=[form, f'arity{arity}']))
    # both quote styles also inside array / object literals (finding F20)
    for i, (src, v) in enumerate([("['a']", ['a']), ("[1,'b c']", [1, 'b c']), ("{'k': 1}", {'k': 1}), ('{"k": \'v\'}', {'k': 'v'})]):
        cases.append(rcase(f'q{i}', '{{dump ' + src + '}}', DATA, pre=['probes', 'esc 1'], entry=4, kind='dump', form='expr',
                           dump='dump(' + pj_lit(v) + ';;bti;-)', log=[], hlog=[], tags=['nested-single-quote']))
    DER = [('{{> p}}', 'dump(x7a7a:m:-:n;k=x7a7a2e79:m:-:n;bti;-)'),
           ('{{#with (lookup this "o") as |w|}}{{dump w.zz}}{{/with}}', 'dump(x772e7a7a:m:-:n;;bti;-)'),
           ('{{#with (lookup this "o")}}{{dump zz}}{{/with}}', 'dump(x7a7a:m:-:n;;bti;-)'),
           ('{{#each (lookup o "k")}}{{dump zz}}{{/each}}', 'dump(x7a7a:m:-:n;;bti;-)dump(x7a7a:m:-:n;;bti;-)'),
           ('{{#each o.k as |e i|}}{{dump i.nokey}}{{/each}}', 'dump(x692e6e6f6b6579:m:-:n;;bti;-)dump(x692e6e6f6b6579:m:-:n;;bti;-)'),
           ('{{#each [{"a":1}] as |e|}}{{dump e.zz ../zz}}{{/each}}', None)]
    DER += [('{{*sethelper "lh"}}{{lh}}|{{{lh}}}|{{&lh}}|{{lh 1}}', 'local(lh:)|local(lh:)|local(lh:)|local(lh:-:v:-:u1)'),
            ('{{#if t}}{{*sethelper "b"}}{{/if}}{{b}}', None)]
    OK_ = 'dump(%s:v:[x6f,x6b]:%s;;bti;-)' % (x('o.k'), jtok([1, 2]))
    OK2 = 'dump(%s:v:[x6f,x6b]:%s;;bti;-)' % (x('../o.k'), jtok([1, 2]))
    OK3 = 'dump(%s:v:[x6f,x6b]:%s;;bti;-)' % (x('@root.o.k'), jtok([1, 2]))
    DER += [('{{#each o.k as |k|}}{{dump ../o.k}}{{/each}}', OK2 * 2), ('{{#with o as |k|}}{{dump @root.o.k}}{{/with}}', OK3),
            ('{{#each o.k as |k i|}}{{dump ../o.k}}{{/each}}', OK2 * 2)]
    for i, (tpl, exp) in enumerate(DER):
        cases.append(rcase(f'der{i}', tpl, DATA, pre=['probes', 'esc 1'], partials={'p': '{{dump zz k=zz.y}}'}, entry=0, kind='exact', exp=exp, tags=['missing-in-derived-scope']))
    # a helper that WRITES its result hands a subexpression caller a string, whatever the text looks like
    for i, (warg, exp) in enumerate([('"123"', 'x313233'), ('123', 'x313233'), ('true', 'x74727565'), ('null', 'x'), ('"null"', 'x6e756c6c'), ('"\\"x\\""', 'x227822'),
                                    ('[1,2]', 'x5b312c20325d'), ('"4.50"', 'x342e3530'), ('"{}"', 'x7b7d'), ('"abc"', 'x616263')]):
        tpl = '{{*sethelper "echo" "w:"}}{{dump (echo %s)}}' % warg
        cases.append(rcase(f'wr{i}', tpl, DATA, pre=['probes', 'esc 1'], entry=0, kind='exact', exp='dump(-:v:-:%s;;bti;-)' % exp, tags=['writing-helper-result-is-a-string']))
    for i, src in enumerate(NOT_JSON):
        for j, tpl in enumerate(['{{dump %s}}', '{{dump 1 k=%s}}', '{{#dump %s}}b{{/dump}}', '{{id (dump %s)}}']):
            cases.append(rcase(f'nj{i}_{j}', tpl % src, DATA, pre=['probes', 'esc 1'], entry=4, kind='notjson', form='expr', tags=['not-json-number']))
    return cases

def oracle(c, io, mo):
    r = res_of(io)
    if c['kind'] == 'notjson':
        ok = r['kind'] == 'err' and r['reason'] == 'TemplateError' and str(r.get('payload', '')).startswith('invalid_param')
        return None if ok else f'a number literal that is not JSON must be rejected (InvalidParam), got {r.get("out", r.get("reason"))!r} {r.get("payload", "")}'
    if c['kind'] == 'exact':
        if c['exp'] is None:
            return None if (r['kind'] == 'ok' and ':v:' not in r['out']) else f'absent paths must be flagged missing, got {r.get("out", r.get("reason"))!r}'
        return None if r.get('out') == c['exp'] else f'expected {c["exp"]!r}, got {r.get("out", r.get("reason"))!r}'
    if r['kind'] != 'ok':
        return f'expected {c["dump"]!r}, got {r.get("reason", r["kind"])} {r.get("payload", "")}'
    exp_out = c['dump']
    if r['out'] != exp_out:
        return f'expected output {exp_out!r}, got {r["out"]!r}'
    lines = [l for l in r['log'].split('\n') if l]
    n_pos = len(c['log'])
    want_tail = [c['dump']] + (['id(' + x(c['dump']) + ')'] if c['form'] == 'subexpr' else [])
    got_pos, got_hash, got_tail = lines[:n_pos], sorted(lines[n_pos:len(lines) - len(want_tail)]), lines[len(lines) - len(want_tail):]
    if got_pos != c['log'] or got_hash != c['hlog'] or got_tail != want_tail:
        return f'invocation log {lines!r}: expected positional {c["log"]!r}, hash (any order) {c["hlog"]!r}, then {want_tail!r}'
    return None

def nontrivial(c, mo, io):
    return res_of(io)['kind'] == 'ok' and any(t in c['tpl'] for t in ('[', '{"', '\\', '(id'))

def relevant_difference(c, mo, io):
    return True


def known_F20_nested_single_quote(c, mo, io):
    return 'nested-single-quote' in c['tags']
