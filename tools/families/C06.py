"""C06 — conditional blocks: else-chains of length 1..6 mixing if/unless/with/each links, exhaustive
assignments over a truthiness-class value set for chains <= 3 (quick) / <= 4 (thorough), random beyond;
oracle = reference semantics from the property text + "no later body entered" via cnt probes."""
import itertools
from hblib import x, jtok, F
from refsem import Ref, to_source
from families.common import rcase, res_of

RULE = ('else-chains of 1..6 links (if/unless/with/each), with and without a final else, every assignment of '
        'condition values from a set containing each truthiness class (exhaustive for short chains), nested and '
        'placed inside each/with scopes; each branch writes a distinct marker and calls a counting probe. '
        'Non-trivial = render succeeded; distinct = distinct (chain shape, assignment)')
ASSUMPTIONS = ['reference semantics tools/refsem.py transcribes the property text']
VALUES = [False, None, 0, '', [], {}, True, 1, 'x', [0], {'a': 1}, -1]   # 'missing' is added as an absent key
SUBNORMAL = F(1e-320)

def chain_case(cid, kinds, vals, has_else, wrap, rng, tags):
    data = {}
    nodes_chain = []
    for i, (k, v) in enumerate(zip(kinds, vals)):
        if v != 'MISSING':
            data[f'c{i}'] = v
    def arg(i):
        return ('path', {'ups': (1 if wrap == 'with' else 0), 'segs': [f'c{i}']}) if wrap != 'each' else \
               ('path', {'ups': 0, 'segs': [f'c{i}'], 'root': True})
    def body(i):
        return [('text', f'<{i}>')]
    first, rest = kinds[0], kinds[1:]
    chain = [(k, arg(i + 1), body(i + 1)) for i, k in enumerate(rest)]
    els = [('text', '<E>')] if has_else else None
    if first in ('if', 'unless'):
        node = ('if', first == 'unless', arg(0), body(0), chain, els)
    else:
        # a with/each head with a chain: express through the generic 'if' node machinery of the reference
        node = ('if', False, ('lit', False), [], [(first, arg(0), body(0))] + chain, els)
    if wrap == 'with':
        data['w'] = {'z': 1}
        nodes = [('with', ('path', {'ups': 0, 'segs': ['w']}), None, [node], None)]
    elif wrap == 'each':
        data['l'] = [1, 2]
        nodes = [('each', ('path', {'ups': 0, 'segs': ['l']}), (), [node], None)]
    else:
        nodes = [node]
    src = to_source(nodes) if first in ('if', 'unless') else None
    if src is None:
        # print the head link as its own block kind with the chain attached
        def link_src(k, a):
            from refsem import arg_src
            return arg_src(a)
        from refsem import arg_src
        s = '{{#%s %s}}<0>' % (first, arg_src(arg(0)))
        for i, k in enumerate(rest):
            s += '{{else %s %s}}<%d>' % (k, arg_src(arg(i + 1)), i + 1)
        if has_else:
            s += '{{else}}<E>'
        s += '{{/%s}}' % first
        if wrap == 'with':
            s = '{{#with w}}' + s + '{{/with}}'
        elif wrap == 'each':
            s = '{{#each l}}' + s + '{{/each}}'
        src = s
    return rcase(cid, src, data, entry=4, ast=nodes, tags=tags, kind='chain', kinds=kinds, vals=vals)

def gen_cases(rng, tier, scale):
    cases = []
    k = 0
    vals = VALUES + ['MISSING']
    maxlen = 2 if tier == 'quick' else 3
    # exhaustive: if/unless chains
    for ln in range(1, maxlen + 1):
        for kinds in itertools.product(['if', 'unless'], repeat=ln):
            for assign in itertools.product(vals, repeat=ln):
                for has_else in (False, True):
                    cases.append(chain_case(f'x{k}', kinds, assign, has_else, None, rng, ['exhaustive']))
                    k += 1
    # the else tag in all its spellings (blanks, tabs and line breaks inside the tag, `^`, `~`): the same chain, the same
    # answer.  Bodies are markers without whitespace, so a `~` changes nothing.
    import re, copy
    SPELL = [('{{else', '{{else\n'), ('{{else', '{{else\t'), ('{{else', '{{else\r\n'), ('{{else', '{{ else'), ('{{else', '{{\telse  '),
             ('{{else', '{{~else'), ('{{else}}', '{{^}}'), ('{{else}}', '{{ ^ }}'), ('{{else}}', '{{else~}}'), ('{{else}}', '{{~^~}}'),
             ('{{else ', '{{else\n  '), ('{{else ', '{{else\t'), ('{{else ', '{{else   ')]
    SHAPES = [(('if',), (False,), True), (('if',), (1,), True), (('unless',), (0,), True), (('if', 'if'), (False, True), True),
              (('if', 'unless'), (None, ''), True), (('if', 'if'), (0, 0), True), (('if', 'if', 'if'), (False, False, 'x'), False),
              (('with', 'if'), ({}, 1), True), (('each', 'each'), ([], [0]), True), (('if', 'with', 'each'), (False, None, []), True)]
    for si, (kinds, assign, has_else) in enumerate(SHAPES):
        for wi, wrap in enumerate((None, 'with', 'each')):
            base = chain_case('sp', kinds, assign, has_else, wrap, rng, ['else-spelling'])
            for pi, (old, new) in enumerate(SPELL):
                if old not in base['tpl']:
                    continue
                c = copy.deepcopy(base)
                src = base['tpl'].replace(old, new)
                c2 = rcase(f'sp{si}_{wi}_{pi}', src, base['data'], entry=4, ast=base['ast'], tags=['else-spelling'], kind='chain', kinds=kinds, vals=assign)
                cases.append(c2)
    n = (600 if tier == 'quick' else 6000) * scale
    for i in range(n):
        ln = rng.randint(1, 6)
        kinds = tuple(rng.choice(['if', 'unless', 'if', 'with', 'each']) for _ in range(ln))
        assign = tuple(rng.choice(vals) for _ in range(ln))
        cases.append(chain_case(f'r{i}', kinds, assign, rng.random() < 0.5, rng.choice([None, 'with', 'each']), rng, ['random']))
    # an else body that exists but is EMPTY is still the selected branch: a falsy with/each (alone or as the last chain link) renders
    # nothing and raises nothing — in strict mode too (there the helper tells "no else" from "empty else")
    ke = 0
    for st in (0, 1):
        for t, d, exp in [('[{{#with v}}W{{else}}{{/with}}]', {'v': 0}, '[]'), ('[{{#each v}}W{{else}}{{/each}}]', {'v': False}, '[]'), ('[{{#each v}}W{{^}}{{/each}}]', {'v': []}, '[]'),
                          ('[{{#if a}}A{{else with b}}B{{else}}{{/if}}]', {'a': 0, 'b': ''}, '[]'), ('[{{#unless a}}A{{else each b}}B{{else}}{{/unless}}]', {'a': 1, 'b': False}, '[]'),
                          ('[{{#if a}}A{{else each b}}B{{else}}{{/if}}]', {'a': 0, 'b': [1, 2]}, '[BB]'), ('[{{#with v}}W{{else}}{{! c }}{{/with}}]', {'v': None}, '[]'),
                          ('[{{#with v}}{{else}}E{{/with}}|{{#with w}}{{else}}{{/with}}]', {'v': 1, 'w': 0}, '[|]'), ('[{{#if a}}{{else}}{{/if}}{{#unless a}}{{else}}{{/unless}}]', {'a': 0}, '[]')]:
            cases.append(rcase(f'ee{ke}', t, d, pre=[f'strict {st}'], entry=4, kind='izchain', exp=exp, tags=['empty-else-body'] + (['strict'] if st else []))); ke += 1
    # includeZero and the subnormal witness of finding F5
    for v in [0, 1, F(0.0), F(-0.0), -1]:
        cases.append(rcase(f'z{k}', '{{#if v includeZero=true}}T{{else}}F{{/if}}|{{#unless v includeZero=true}}T{{else}}F{{/unless}}',
                           {'v': v}, entry=4, kind='iz', v=v, tags=['includeZero'])); k += 1
    # hash arguments on chain links: includeZero on the head and on every later link, if/unless mixed
    IZV = [0, F(0.0), F(-0.0), False, None, '', 1, 'x', [], [0]]
    m = (150 if tier == 'quick' else 3000) * scale
    for i in range(m):
        ln = rng.randint(2, 5)
        links = [(rng.choice(['if', 'unless']), rng.random() < 0.6, rng.choice(IZV)) for _ in range(ln)]
        s = ''
        bodies = []
        for j, (kd, iz, v) in enumerate(links):
            # some link bodies are empty (a chain link with an empty body is still a link)
            bodies.append('' if rng.random() < 0.3 else f'<{j}>')
            s += ('{{#%s c%d%s}}' if j == 0 else '{{else %s c%d%s}}') % (kd, j, ' includeZero=true' if iz else '') + bodies[-1]
        has_else = rng.random() < 0.6
        s += ('{{else}}<E>' if has_else else '') + '{{/%s}}' % links[0][0]
        def tr(v, iz):
            if isinstance(v, F) or (isinstance(v, (int, float)) and not isinstance(v, bool)):
                fv = v.v if isinstance(v, F) else v
                return fv != 0 or iz
            return bool(v)
        exp = '<E>' if has_else else ''
        for j, (kd, iz, v) in enumerate(links):
            if tr(v, iz) != (kd == 'unless'):
                exp = bodies[j]
                break
        cases.append(rcase(f'zc{i}', s, {f'c{j}': l[2] for j, l in enumerate(links)}, entry=4, kind='izchain', exp=exp, tags=['includeZero-chain']))
    XS = {'xs': [{'k': 1}, {'a': {'z': 1}, 'k': 2, 'q': {'z': 2}}, {'k': 3, 'p': True}], 'k': 'ROOT'}
    for i, (t, exp) in enumerate([('{{#each xs}}{{#with a}}T{{else}}F{{/with}}{{k}}{{/each}}', 'F1T2F3'),
                                  ('{{#each xs}}{{#if p}}P{{else with q}}Q{{else}}N{{/if}}{{k}};{{/each}}', 'N1;Q2;P3;'),
                                  ('{{#each xs}}{{#with a}}T{{^}}F{{/with}}{{#if p}}y{{else}}n{{/if}}{{@index}}{{/each}}', 'Fn0Tn1Fy2'),
                                  ('{{#with xs.[0]}}{{#with nope}}T{{else}}F{{/with}}{{k}}{{/with}}|{{k}}', 'F1|ROOT'),
                                  ('{{#each xs}}{{#with a}}T{{else if p}}P{{else}}F{{/with}}{{k}}{{/each}}', 'F1T2P3')]):
        cases.append(rcase(f'wsc{i}', t, XS, entry=4, kind='izchain', exp=exp, tags=['falsy-with-in-scope']))
    for i, (t, d, exp) in enumerate([('{{#if a}}A{{else with b as |x|}}{{x.n}}{{else}}E{{/if}}', {'b': {'n': 5}}, '5'), ('{{#if a}}A{{else with b as |x|}}{{x.n}}{{else}}E{{/if}}', {'a': 1, 'b': {'n': 5}}, 'A'),
                                     ('{{#if a}}A{{else each xs as |v k|}}{{k}}{{v}};{{else}}E{{/if}}', {'xs': [7, 8]}, '07;18;'), ('{{#unless a}}U{{else with b as |x|}}{{x}}{{/unless}}', {'a': True, 'b': 'B'}, 'B'),
                                     ('{{#with a as |p|}}{{p}}{{else each xs as |v|}}{{v}}{{else}}E{{/with}}', {'xs': []}, 'E')]):
        cases.append(rcase(f'lbp{i}', t, d, entry=4, kind='izchain', exp=exp, tags=['chain-link-block-params']))
    LAY = {'layout': '[{{> title}}]{{> @partial-block}}', 'title': 'default'}
    for i, (t, d, exp) in enumerate([
            ('{{#> layout}}{{#if a}}yes{{else}}{{#*inline "title"}}custom{{/inline}}no{{/if}}{{/layout}}', {'a': True}, '[default]yes'),
            ('{{#> layout}}{{#if a}}yes{{else}}{{#*inline "title"}}custom{{/inline}}no{{/if}}{{/layout}}', {'a': False}, '[default]no'),
            ('{{#> layout}}{{#unless a}}{{#*inline "title"}}custom{{/inline}}u{{else}}e{{/unless}}{{/layout}}', {'a': True}, '[default]e'),
            ('{{#> layout}}{{#with o}}w{{else}}{{#*inline "title"}}custom{{/inline}}e{{/with}}{{/layout}}', {'o': {'k': 1}}, '[default]w'),
            ('{{#> layout}}{{#if a}}1{{else if b}}{{#*inline "title"}}two{{/inline}}2{{else}}{{#*inline "title"}}three{{/inline}}3{{/if}}{{/layout}}', {'a': 1}, '[default]1'),
            ('{{#> layout}}{{#each l}}{{#if this}}y{{else}}{{#*inline "title"}}custom{{/inline}}n{{/if}}{{/each}}{{/layout}}', {'l': [1, 1]}, '[default]yy'),
            ('{{#> layout}}{{#*inline "title"}}top{{/inline}}{{#if a}}yes{{/if}}{{/layout}}', {'a': True}, '[top]yes')]):
        cases.append(rcase(f'deco{i}', t, d, partials=LAY, entry=0, kind='izchain', exp=exp, tags=['decorator-in-unselected-branch']))
    cases.append(rcase('sub0', '{{#if a}}A{{else}}B{{/if}}', {'a': SUBNORMAL}, entry=4, kind='subnormal', tags=['subnormal']))
    # no later body is evaluated: counting probes in every branch
    for i in range(100 * scale):
        ln = rng.randint(2, 5)
        assign = [rng.choice([True, False]) for _ in range(ln)]
        s = '{{#if c0}}{{cnt 0}}'
        for j in range(1, ln):
            s += '{{else if c%d}}{{cnt %d}}' % (j, j)
        s += '{{else}}{{cnt "E"}}{{/if}}'
        cases.append(rcase(f'n{i}', s, {f'c{j}': v for j, v in enumerate(assign)}, pre=['probes'], entry=4,
                           kind='cnt', assign=assign, tags=['cnt']))
    return cases

def oracle(c, io, mo):
    r = res_of(io)
    if c['kind'] == 'chain':
        exp = Ref(c['data']).render(c['ast'])
        if r['kind'] != 'ok':
            return f"expected {exp!r}, got {r.get('reason', r['kind'])}"
        return None if r['out'] == exp else f'expected {exp!r}, got {r["out"]!r}'
    if c['kind'] == 'iz':
        exp = 'T|F'
        return None if r.get('out') == exp else f'includeZero: expected {exp}, got {r.get("out")}'
    if c['kind'] == 'izchain':
        return None if r.get('out') == c['exp'] else f'chain with includeZero links: expected {c["exp"]!r}, got {r.get("out", r.get("reason"))!r}'
    if c['kind'] == 'subnormal':
        return None if r.get('out') == 'A' else f'non-zero subnormal must be truthy: expected A, got {r.get("out")}'
    if c['kind'] == 'cnt':
        first = next((j for j, v in enumerate(c['assign']) if v), None)
        exp = 'cnt(%s)\n' % ('E' if first is None else first)
        return None if r.get('log') == exp else f'bodies entered: expected {exp!r}, got {r.get("log")!r}'
    return None

def nontrivial(c, mo, io):
    return res_of(io)['kind'] == 'ok'

def relevant_difference(c, mo, io):
    return res_of(mo).get('out') != res_of(io).get('out') or res_of(mo)['kind'] != res_of(io)['kind']

def _fixed_F5_subnormal(c, mo, io):
    return c['kind'] == 'subnormal'
