"""C16 — all entry points agree; determinism; sharing: every generated (template set, data, config)
through the eight entry points and a precompiled registration; repeated and interleaved batches; a clone;
2..16 threads sharing one registry (harness only: schedules cannot be exhibited by the model)."""
from hblib import x, jtok
from gen import gen_object, TplGen
from families.common import rcase, res_of

RULE = ('for each generated (template, partials, data, strict/prevent_indent/escape config): entries 0..7, a '
        'Template precompiled with compile_with_name and registered, the same render repeated, interleaved with '
        'renders of other templates in random order (batch <= 8), from a clone, and from 2..16 threads x 20 '
        'iterations sharing the registry; oracle: identical bytes / identical error reason everywhere. '
        'Non-trivial = the template renders non-empty output or fails with a render error')
ASSUMPTIONS = ['thread interleavings and HashMap iteration order are not modelled in Coq: this part is decided by the harness runs only']

def gen_cases(rng, tier, scale):
    cases = []
    n = (120 if tier == 'quick' else 2500) * scale
    for k in range(n):
        data = gen_object(rng, 3, odd=0.05)
        parts = {'p1': TplGen(rng, data, maxdepth=2).template(2)}
        g = TplGen(rng, data, partials=['p1'], ws=(k % 2 == 0), missing=0.05)
        t = g.template(rng.randint(1, 4))
        if '> main' in t:
            continue
        pre = []
        if rng.random() < 0.3: pre.append('strict 1')
        if rng.random() < 0.3: pre.append('pi 1')
        if rng.random() < 0.3: pre.append(f'esc {rng.choice([0, 1])}')
        ops = list(pre) + [f'regs {x(n_)} {x(s_)}' for n_, s_ in parts.items()]
        ops.append(f'regs {x("main")} {x(t)}')
        other = TplGen(rng, data).template(2)
        ops.append(f'regs {x("other")} {x(other)}')
        D = jtok(data)
        seq = []
        for e in (0, 1, 2, 3):
            seq.append(f'r {e} {x("main")} {D} -1')
        for e in (4, 5, 6, 7):
            seq.append(f'rt {e} {x(t)} {D} -1')
        # the *_to_write entry points into a writer that takes 1 or 3 bytes per call
        for e, fa in ((2, -2), (3, -4)):
            seq.append(f'r {e} {x("main")} {D} {fa}')
        for e, fa in ((6, -4), (7, -2)):
            seq.append(f'rt {e} {x(t)} {D} {fa}')
        batch = [f'r 0 {x("main")} {D} -1', f'r 0 {x("other")} {D} -1', f'r 2 {x("main")} {D} -1', f'rt 4 {x(other)} {D} -1',
                 f'r 1 {x("main")} {D} -1', f'r 0 {x("p1")} {D} -1', f'r 3 {x("main")} {D} -1', f'r 0 {x("main")} {D} -1']
        rng.shuffle(batch)
        seq += batch
        seq += ['clone', 'sel 1', f'r 0 {x("main")} {D} -1', 'sel 0']
        thr = rng.choice([2, 4, 8, 16])
        seq.append(f'rthr {thr} 20 {x("main")} {D}')
        # precompiled with the same options (prevent_indent is a registry option: only without pi)
        if 'pi 1' not in pre:
            seq += [f'regt {x("pre")} 1 {x(t)}', f'r 0 {x("pre")} {D} -1']
        obs_ops = [o for o in ops + seq if o.split(' ')[0] in ('regs', 'regt', 'r', 'rt', 'rthr')]
        main_idx = [i for i, o in enumerate(obs_ops) if (o.startswith('r ') and o.split(' ')[2] in (x('main'), x('pre')))
                    or (o.startswith('rt ') and o.split(' ')[2] == x(t)) or o.startswith('rthr ')]
        cases.append({'line': f'e{k} ' + ' ; '.join(ops + seq), 'kind': 'entries', 'tpl': t, 'nsetup': len(parts) + 2, 'main_idx': main_idx,
                      'pi': 'pi 1' in pre, 'tags': ['entries']})
    # configuration-sensitive templates through every entry point under every flag combination: an entry point
    # that does not pass a registry setting along shows here
    SENS = ['A\n  {{> p1}}\nZ', '{{#each l}}\n\t{{> p1}}\n{{/each}}', '{{v}}|{{{v}}}|{{zz}}', '{{#with o}}  {{> p1}}{{/with}}\n{{lookup o "zz"}}',
            '{{> (lookup this "pn")}}\n {{> p1 v="<x>"}}\n']
    D2 = {'v': '<b a="1">', 'l': [1, 2], 'o': {'v': "it's"}, 'pn': 'p1'}
    k2 = 0
    for t in SENS:
        for pi in (0, 1):
            for strict in (0, 1):
                for esc in (0, 1):
                    P1 = x('L1 {{v}}\nL2\n')
                    ops = [f'pi {pi}', f'strict {strict}', f'esc {esc}', f'regs {x("p1")} {P1}', f'regs {x("main")} {x(t)}',
                           f'regs {x("other")} {x("o")}']
                    Dj = jtok(D2)
                    seq = [f'r {e} {x("main")} {Dj} -1' for e in (0, 1, 2, 3)] + [f'rt {e} {x(t)} {Dj} -1' for e in (4, 5, 6, 7)]
                    obs_ops = [o for o in ops + seq if o.split(' ')[0] in ('regs', 'r', 'rt')]
                    main_idx = [i for i, o in enumerate(obs_ops) if o.startswith('r ') or o.startswith('rt ')]
                    cases.append({'line': f'c{k2} ' + ' ; '.join(ops + seq), 'kind': 'entries', 'tpl': t, 'nsetup': 3, 'main_idx': main_idx,
                                  'pi': bool(pi), 'tags': ['config']})
                    k2 += 1
    # dev mode: a partial registered from a file that changed afterwards is seen alike by every entry point (named,
    # ad-hoc, to_write, through another partial, from a clone)
    kd = 0
    for body_old, body_new in (('<{{v}}>', '[{{v}}]'), ('A\n', 'B\n{{#each l}}{{this}}{{/each}}'), ('x', '')):
        for via in ('{{> fp}};', '{{#if v}}{{> mid}}{{/if}}|', '{{#each l}}{{> fp}}{{/each}}'):
            Dj = jtok(D2)
            ops = ['dev 1', f'fw {x("f1")} {x(body_old)}', f'regf {x("fp")} {x("f1")}', f'regs {x("mid")} {x("({{> fp}})")}',
                   f'regs {x("main")} {x(via)}', f'regs {x("other")} {x("o")}', f'fw {x("f1")} {x(body_new)}']
            seq = [f'r {e} {x("main")} {Dj} -1' for e in (0, 1, 2, 3)] + [f'rt {e} {x(via)} {Dj} -1' for e in (4, 5, 6, 7)]
            seq += ['clone', 'sel 1', f'r 0 {x("main")} {Dj} -1', f'rt 4 {x(via)} {Dj} -1', 'sel 0']
            obs_ops = [o for o in ops + seq if o.split(' ')[0] in ('regs', 'regf', 'r', 'rt')]
            main_idx = [i for i, o in enumerate(obs_ops) if o.startswith('r ') or o.startswith('rt ')]
            cases.append({'line': f'dv{kd} ' + ' ; '.join(ops + seq), 'kind': 'entries', 'tpl': via, 'nsetup': 4, 'main_idx': main_idx,
                          'pi': False, 'tags': ['dev-file-partial']})
            kd += 1
    # dev mode with the ROOT template registered from a file: by-name entry points (which recompile the file) and ad-hoc
    # entry points on the same text agree — also when the text ends in a standalone tag without a final line break
    for kf, tsrc in enumerate(['a\n  {{#if v}}\n  b\n  {{/if}}', 'x\n{{!c}} ', 'y\n  {{> fp}}', 'z\n{{#each l}}\n{{this}}\n{{/each}}  ', 'plain {{v}}\n']):
        Dj = jtok(D2)
        FP = x('P{{v}}\n')
        ops = ['dev 1', f'fw {x("f1")} {FP}', f'regf {x("fp")} {x("f1")}', f'fw {x("f2")} {x(tsrc)}', f'regf {x("main")} {x("f2")}', f'regs {x("other")} {x("o")}']
        seq = [f'r {e} {x("main")} {Dj} -1' for e in (0, 1, 2, 3)] + [f'rt {e} {x(tsrc)} {Dj} -1' for e in (4, 5, 6, 7)]
        obs_ops = [o for o in ops + seq if o.split(' ')[0] in ('regs', 'regf', 'r', 'rt')]
        main_idx = [i for i, o in enumerate(obs_ops) if o.startswith('r ') or o.startswith('rt ')]
        cases.append({'line': f'dvroot{kf} ' + ' ; '.join(ops + seq), 'kind': 'entries', 'tpl': tsrc, 'nsetup': 3, 'main_idx': main_idx, 'pi': False, 'tags': ['dev-file-root']})
    for kp, tsrc in enumerate(['pre:{{v}}', 'pre\n  {{#if v}}\n  y\n  {{/if}}']):
        Dj = jtok(D2)
        ops = ['dev 1', f'fw {x("f2")} {x("file:{{v}}")}', f'regf {x("main")} {x("f2")}', f'regt {x("main")} 1 {x(tsrc)}', f'regs {x("other")} {x("o")}']
        seq = [f'r {e} {x("main")} {Dj} -1' for e in (0, 1, 2, 3)] + [f'rt {e} {x(tsrc)} {Dj} -1' for e in (4, 5, 6, 7)]
        obs_ops = [o for o in ops + seq if o.split(' ')[0] in ('regs', 'regf', 'regt', 'r', 'rt')]
        main_idx = [i for i, o in enumerate(obs_ops) if o.startswith('r ') or o.startswith('rt ')]
        cases.append({'line': f'dvpre{kp} ' + ' ; '.join(ops + seq), 'kind': 'entries', 'tpl': tsrc, 'nsetup': 3, 'main_idx': main_idx, 'pi': False, 'tags': ['dev-precompiled-over-file']})
    # recursion cut off by data, with another partial included before the recursive call inside the block: every entry
    # point (the root is named for 0-3, unnamed for 4-7) renders the same
    TREE = {'name': 'r', 'kids': [{'name': 'a', 'kids': [{'name': 'c', 'kids': []}]}, {'name': 'b', 'kids': []}]}
    for kr, tsrc in enumerate(['{{name}}({{#each kids}}{{> leaf}}{{> main}}{{/each}})', '{{name}}[{{#each kids}}{{> main}}{{> leaf}}{{> main}}{{/each}}]',
                               '{{#if kids}}{{> leaf}}{{#each kids}}{{> main}}{{/each}}{{else}}.{{/if}}', '{{> leaf}}{{#each kids}}{{#with this}}{{> leaf}}{{> main}}{{/with}}{{/each}}']):
        Dj = jtok(TREE)
        ops = [f'regs {x("leaf")} {x("<{{name}}>")}', f'regs {x("main")} {x(tsrc)}', f'regs {x("other")} {x("o")}']
        seq = [f'r {e} {x("main")} {Dj} -1' for e in (0, 1, 2, 3)] + [f'rt {e} {x(tsrc)} {Dj} -1' for e in (4, 5, 6, 7)] + [f'regt {x("pre")} 1 {x(tsrc)}', f'r 0 {x("pre")} {Dj} -1']
        obs_ops = [o for o in ops + seq if o.split(' ')[0] in ('regs', 'regt', 'r', 'rt')]
        main_idx = [i for i, o in enumerate(obs_ops) if o.startswith('r ') or o.startswith('rt ')]
        cases.append({'line': f'rec{kr} ' + ' ; '.join(ops + seq), 'kind': 'entries', 'tpl': tsrc, 'nsetup': 3, 'main_idx': main_idx, 'pi': False, 'tags': ['bounded-recursion']})
    # ... and mutual recursion back to the ROOT template through the top level of a second registered template
    CHAIN = {'v': 1, 'next': {'v': 2, 'next': {'v': 3}}}
    for km, (tsrc, step) in enumerate([('{{v}}{{#if next}}-{{> step}}{{/if}}', '{{> main next}}'), ('{{v}}{{#with next}}-{{> step}}{{/with}}', '{{> main}}'),
                                       ('[{{v}}{{#if next}}{{> step next}}{{/if}}]', '{{> main}}'), ('{{v}}{{#if next}}{{#> step}}-{{/step}}{{/if}}', '{{> @partial-block}}{{> main next}}')]):
        Dj = jtok(CHAIN)
        ops = [f'regs {x("step")} {x(step)}', f'regs {x("main")} {x(tsrc)}', f'regs {x("other")} {x("o")}']
        seq = [f'r {e} {x("main")} {Dj} -1' for e in (0, 1, 2, 3)] + [f'rt {e} {x(tsrc)} {Dj} -1' for e in (4, 5, 6, 7)] + [f'regt {x("pre")} 1 {x(tsrc)}', f'r 0 {x("pre")} {Dj} -1']
        obs_ops = [o for o in ops + seq if o.split(' ')[0] in ('regs', 'regt', 'r', 'rt')]
        main_idx = [i for i, o in enumerate(obs_ops) if o.startswith('r ') or o.startswith('rt ')]
        cases.append({'line': f'mrec{km} ' + ' ; '.join(ops + seq), 'kind': 'entries', 'tpl': tsrc, 'nsetup': 3, 'main_idx': main_idx, 'pi': False, 'tags': ['mutual-recursion']})
    # data that cannot be serialized: every entry point fails alike (SerdeError), nothing is rendered or written
    for kb, tsrc in enumerate(['[{{a}}]', 'plain', '{{#each l}}x{{/each}}{{> other}}']):
        ops = [f'regs {x("main")} {x(tsrc)}', f'regs {x("other")} {x("o")}']
        seq = [f'rbad {e} {x("main")}' for e in (0, 1, 2, 3)] + [f'rbad {e} {x(tsrc)}' for e in (4, 5, 6, 7)]
        cases.append({'line': f'bad{kb} ' + ' ; '.join(ops + seq), 'kind': 'badser', 'tpl': tsrc, 'tags': ['unserializable-data']})
    # ... and when a second failure is waiting behind it (a name that is not registered, a template string that does not compile):
    # the data is wrapped first by every entry point, so all eight still fail alike with SerdeError
    ops = [f'regs {x("other")} {x("o")}']
    seq = [f'rbad {e} {x("nosuch")}' for e in (0, 1, 2, 3)] + [f'rbad {e} {x("{{#if a}}open")}' for e in (4, 5, 6, 7)]
    cases.append({'line': 'bad2f ' + ' ; '.join(ops + seq), 'kind': 'badser', 'tpl': 'nosuch', 'tags': ['unserializable-data', 'two-failures']})
    # history independence: render_template* under configuration B gives the same bytes whether the registry (or a
    # clone of it) rendered the same template string under configuration A before or not
    k3 = 0
    for t in SENS:
        for (pa, sa, ea), (pb, sb, eb) in [((0, 0, 0), (1, 0, 0)), ((1, 0, 0), (0, 0, 0)), ((0, 0, 0), (0, 1, 0)), ((0, 1, 1), (0, 0, 0)),
                                           ((0, 0, 0), (0, 0, 1)), ((1, 1, 1), (0, 0, 0)), ((0, 0, 1), (1, 1, 0))]:
            for via_clone in (False, True):
                P1 = x('L1 {{v}}\nL2\n')
                Dj = jtok(D2)
                setup = [f'regs {x("p1")} {P1}']
                rts = [f'rt {e} {x(t)} {Dj} -1' for e in (4, 5, 6, 7)]
                hist = [f'pi {pa}', f'strict {sa}', f'esc {ea}'] + setup + rts
                hist += (['clone', 'sel 1'] if via_clone else []) + [f'pi {pb}', f'strict {sb}', f'esc {eb}'] + rts
                fresh = [f'pi {pb}', f'strict {sb}', f'esc {eb}'] + setup + rts
                grp = f'h{k3}'
                k3 += 1
                cases.append({'line': f'{grp}a ' + ' ; '.join(hist), 'kind': 'hist', 'grp': grp, 'tpl': t, 'tags': ['history' + ('-clone' if via_clone else '')]})
                cases.append({'line': f'{grp}b ' + ' ; '.join(fresh), 'kind': 'fresh', 'grp': grp, 'tpl': t, 'tags': ['history-fresh']})
    # F12: which error is reported when several hash subexpressions fail varies between identical calls
    cases.append({'line': 'f12 probes ; ' + ' ; '.join([f'rt 4 {x("{{dump a=(n1) b=(n2) c=(n3) d=(n4)}}")} {{}} -1'] * 12),
                  'kind': 'f12', 'tpl': '', 'tags': ['F12']})
    return cases

def key(tok, same_name=True):
    r = res_of(tok) if ' ' not in tok else None
    from hblib import parse_robs
    r = parse_robs(tok)
    if r['kind'] == 'ok':
        return ('ok', r['out'])
    if r['kind'] == 'err':
        return ('err', r['reason'], r['payload'])
    return (r['kind'],)

def oracle_all(byid):
    out, g = [], {}
    for cid, (c, mo, io) in byid.items():
        if c['kind'] in ('hist', 'fresh') and io:
            g.setdefault(c['grp'], {})[c['kind']] = (c, [t for t in io.split(' ') if t.startswith('R:') or t == 'PANIC'])
    for k, d in g.items():
        if len(d) == 2:
            (ch, h), (cf, f) = d['hist'], d['fresh']
            if len(h) == 8 and len(f) == 4 and [key(t) for t in h[4:]] != [key(t) for t in f]:
                out.append((ch, f'render_template after a render under another configuration differs from a fresh registry: {[key(t) for t in h[4:]][:2]} vs {[key(t) for t in f][:2]}'))
    return out

def oracle(c, io, mo):
    if io is None:
        return 'no output'
    if c['kind'] == 'badser':
        obs = [t for t in io.split(' ') if t.startswith('R:') or t in ('PANIC', 'ABORT')]
        bad = [t for t in obs if not t.startswith('R:err:SerdeError:')]
        if len(obs) != 8 or bad:
            return f'unserializable data must make every entry point fail alike with SerdeError; got {[t[:40] for t in obs]}'
        return None
    if c['kind'] in ('hist', 'fresh'):
        return None
    toks = io.split(' ')
    if c['kind'] == 'f12':
        ks = {key(t) for t in toks}
        return None if len(ks) == 1 else f'identical calls reported {len(ks)} different results: {sorted(ks)[:3]}'
    if any(t != 'ok' for t in toks[:c['nsetup']]):
        return None            # a template of the set does not compile: nothing to compare
    toks = [toks[i] for i in c['main_idx'] if i < len(toks)]
    rs = [t for t in toks if t.startswith('R:') or t in ('PANIC',)]
    ts = [t for t in toks if t.startswith('T:')]
    base = key(rs[0])
    for i, t in enumerate(rs):
        if key(t) != base:
            # entries 4-7 render an unnamed template: a template that includes itself by name differs by design
            return f'render #{i} differs: {key(t)} vs {base}'
    for t in ts:
        cnt, first = t.split(':', 2)[1], t.split(':', 2)[2]
        if cnt != '1' or key(first) != base:
            return f'concurrent renders gave {cnt} distinct results / {key(first)} vs {base}'
    return None

def nontrivial(c, mo, io):
    if c['kind'] in ('hist', 'fresh'):
        return io is not None and 'R:ok:x' in io
    return io is not None and ('R:ok:x' in io and 'R:ok:x:' not in io.split(' ')[c.get('nsetup', 0)] or 'R:err' in io)

def relevant_difference(c, mo, io):
    return True

def known_F12_hash_error_order(c, mo, io):
    return c['kind'] == 'f12'
known_F12_hash_error_order.nondeterministic = True
