"""helpers shared by the property families"""
from hblib import x, jtok, parse_robs, last_obs, unx


def rcase(cid, tpl, data, pre=(), entry=4, failat=-1, partials=None, tags=(), **meta):
    ops = list(pre)
    for n, src in (partials or {}).items():
        ops.append(f'regs {x(n)} {x(src)}')
    if entry >= 4:
        ops.append(f'rt {entry} {x(tpl)} {jtok(data)} {failat}')
    else:
        ops.append(f'regs {x("main")} {x(tpl)}')
        ops.append(f'r {entry} {x("main")} {jtok(data)} {failat}')
    d = {'line': f'{cid} ' + ' ; '.join(ops), 'tpl': tpl, 'data': data, 'tags': list(tags)}
    d.update(meta)
    return d


def out_of(obsline):
    """rendered text of the last observation, or None if it is not R:ok"""
    r = parse_robs(last_obs(obsline))
    return r['out'] if r['kind'] == 'ok' else None


def res_of(obsline):
    return parse_robs(last_obs(obsline))
