"""C20 — macro-defined helpers: the harness family (every type token, arity 0..3, 0..2 options,
*args, **kwargs) called with every combination of argument kinds from a pool containing each JSON type,
missing paths and omitted arguments, strict and non-strict; oracle from the property text."""
import itertools, struct
from hblib import x, jtok, F
from families.common import rcase, res_of

RULE = ('each family member x every argument vector over the pool {string, int, negative int, u64-only int, '
        'float, bool, array, u64-array, object, null, missing path, omitted} (exhaustive up to arity 3) x hash '
        'options {absent, well-typed, ill-typed} x strict on/off x {expression, subexpression}; oracle: '
        'expected text / ParamNotFoundForName / ParamTypeMismatchForName / HashTypeMismatchForName computed '
        'from the declared signature. Non-trivial = at least one argument is ill-typed, missing or defaulted')
EXHAUSTIVE = {'quick': True, 'thorough': True}
POOL = {
    's': 'str', 'i': 5, 'n': -4, 'u': 2**63 + 5, 'f': F(1.5), 'b': True, 'a': [1, 'x'], 'ua': [1, 2], 'o': {'k': 1}, 'z': None,
}
DATA = dict(POOL)
SIGS = {
    'm_str': (['str'], []), 'm_i64': (['i64'], []), 'm_u64': (['u64'], []), 'm_f64': (['f64'], []), 'm_bool': (['bool'], []),
    'm_arr': (['array'], []), 'm_obj': (['object'], []), 'm_null': (['null'], []), 'm_json': (['Json'], []), 'm_vec': (['Vec< u64 >'], []),
    'm0': ([], []), 'm2': (['i64', 'str'], []), 'm3': (['bool', 'Json', 'u64'], []),
    'mo0': ([], [('k', 'u64', 3)]), 'mo1': (['i64'], [('k', 'i64', 7)]), 'mo2': (['str'], [('k', 'str', 'dflt'), ('flag', 'bool', False)]),
    'm_ret_i': (['i64'], []), 'm_ret_b': (['Json'], []),
}
PNAMES = {'m2': ['a', 'b'], 'm3': ['a', 'b', 'c'], 'mo1': ['a'], 'mo2': ['a']}

def conv(t, v):
    """None = mismatch"""
    isnum = isinstance(v, (int, F)) and not isinstance(v, bool)
    if t == 'str': return v if isinstance(v, str) else None
    if t == 'i64': return v if (isinstance(v, int) and not isinstance(v, bool) and -2**63 <= v <= 2**63 - 1) else None
    if t == 'u64': return v if (isinstance(v, int) and not isinstance(v, bool) and 0 <= v < 2**64) else None
    if t == 'f64': return (F(float(v)) if isinstance(v, int) else v) if isnum else None
    if t == 'bool': return v if isinstance(v, bool) else None
    if t == 'array': return v if isinstance(v, list) else None
    if t == 'object': return v if isinstance(v, dict) else None
    if t == 'null': return () if v is None else None
    if t == 'Json': return ('json', v)
    if t == 'Vec< u64 >':
        return v if (isinstance(v, list) and all(isinstance(e, int) and not isinstance(e, bool) and e >= 0 for e in v)) else None
    raise ValueError(t)

def fmt(v):
    if isinstance(v, bool): return 'true' if v else 'false'
    if isinstance(v, F): return str(v.bits())
    if isinstance(v, tuple) and v and v[0] == 'json': return jtok(v[1])
    if v == (): return '()'
    if isinstance(v, list): return ','.join(str(e) for e in v)
    return str(v)

def body(name, ps, os):
    if name == 'm_str': return 'str:' + ps[0]
    if name in ('m_i64', 'm_u64'): return name[2:] + ':' + str(ps[0])
    if name == 'm_f64': return 'f64:' + fmt(ps[0])
    if name == 'm_bool': return 'bool:' + fmt(ps[0])
    if name == 'm_arr': return 'array:%d' % len(ps[0])
    if name == 'm_obj': return 'object:%d' % len(ps[0])
    if name == 'm_null': return 'null:()'
    if name == 'm_json': return 'json:' + fmt(ps[0])
    if name == 'm_vec': return 'vec:' + fmt(ps[0])
    if name == 'm0': return 'zero'
    if name == 'm2': return 'm2:%d:%s' % (ps[0], ps[1])
    if name == 'm3': return 'm3:%s:%s:%d' % (fmt(ps[0]), fmt(ps[1]), ps[2])
    if name == 'mo0': return 'mo0:%d' % os[0]
    if name == 'mo1': return 'mo1:%d:%d' % (ps[0], os[0])
    if name == 'mo2': return 'mo2:%s:%s:%s' % (ps[0], os[0], fmt(os[1]))
    if name == 'm_ret_i': return str(ps[0])
    if name == 'm_ret_b': return 'true' if isinstance(ps[0][1], str) else 'false'

def spec(name, args, hashes, strict):
    """args: list of pool keys or 'MISS'; hashes: dict option -> pool key. -> ('ok', text) | ('err', reason, payload)"""
    ptypes, opts = SIGS[name]
    pn = PNAMES.get(name, ['x'] * len(ptypes))
    ps = []
    for i, t in enumerate(ptypes):
        if i >= len(args):
            return ('err', 'ParamNotFoundForName', x(name) + '.' + x(pn[i]))
        a = args[i]
        if a == 'MISS':
            if strict:
                return ('err', 'ParamNotFoundForName', x(name) + '.' + x(pn[i]))
            v = None
        else:
            v = POOL[a]
        c = conv(t, v)
        if c is None:
            return ('err', 'ParamTypeMismatchForName', x(name) + '.' + x(pn[i]) + '.' + x(t))
        ps.append(c)
    os = []
    for (on, t, d) in opts:
        if on in hashes:
            a = hashes[on]
            v = None if a == 'MISS' else POOL[a]
            c = conv(t, v)
            if c is None:
                return ('err', 'HashTypeMismatchForName', x(name) + '.' + x(on) + '.' + x(t))
            os.append(c)
        else:
            os.append(d)
    return ('ok', body(name, ps, os))

def gen_cases(rng, tier, scale):
    cases = []
    k = 0
    keys = list(POOL) + ['MISS']
    for name, (ptypes, opts) in SIGS.items():
        ar = len(ptypes)
        vecs = set()
        for n_ in range(0, ar + 2):
            combos = list(itertools.product(keys, repeat=n_))
            if len(combos) > 200:
                combos = rng.sample(combos, 200 if tier == 'quick' else 800)
            vecs.update(combos)
        hsets = [{}]
        for (on, t, d) in opts:
            hsets = [dict(h, **({on: a} if a else {})) for h in hsets for a in (None, 's', 'i', 'b', 'n', 'MISS')]
        for args in sorted(vecs):
            for hs in (hsets if len(vecs) < 50 else rng.sample(hsets, min(len(hsets), 3))):
                for strict in (0, 1):
                    asrc = ' '.join('zz' if a == 'MISS' else a for a in args)
                    hsrc = ''.join(' %s=%s' % (on, 'zz' if a == 'MISS' else a) for on, a in hs.items())
                    sub = (k % 5 == 0) and name not in ('m0',)
                    call = f'{name} {asrc}{hsrc}'.strip()
                    tpl = '{{id (%s)}}' % call if sub and (args or hs) else '{{%s}}' % call
                    cases.append(rcase(f'm{k}', tpl, DATA, pre=['macros', 'probes', 'esc 1', f'strict {strict}'], entry=4, kind='macro',
                                       name=name, args=args, hs=hs, strict=strict, tags=[name]))
                    k += 1
    # a missing argument is missing wherever its path is resolved: relative to a COMPUTED context (with over a subexpression
    # result) or through a block parameter bound to one — strict mode reports it, non-strict mode passes null
    for name in ('m_json', 'm_str', 'm_null', 'm_i64', 'mo1'):
        for strict in (0, 1):
            for j, tpl in enumerate(['{{#with (m_ret_j o)}}{{%s zz}}{{/with}}', '{{#with (m_ret_j o) as |w|}}{{%s w.zz}}{{/with}}', '{{#with (id o) as |w|}}{{%s w.k.zz}}{{/with}}',
                                     '{{#with (m_ret_j o)}}{{id (%s zz.y)}}{{/with}}', '{{#with o as |w|}}{{%s w.zz}}{{/with}}']):
                cases.append(rcase(f'dv{k}', tpl % name, DATA, pre=['macros', 'probes', 'esc 1', f'strict {strict}'], entry=4, kind='macro',
                                   name=name, args=('MISS',), hs={}, strict=strict, tags=['missing-under-derived-context']))
                k += 1
    # *args / **kwargs / typed results / escaping of the written result
    fixed = [('{{margs 1 "a" o}}', 'args:u1,x61,{x6b:u1}'), ('{{margs}}', 'args:'), ('{{mkw z=1 a="s"}}', 'kw:x61=x73,x7a=u1'),
             ('{{mall 5 7 8 k=2 q=1}}', 'mall:5:2:3:2'), ('{{#if (m_ret_b s)}}T{{else}}F{{/if}}', 'T'), ('{{#if (m_ret_b i)}}T{{else}}F{{/if}}', 'F'),
             ('{{eq (m_ret_i n) -4}}', 'true'), ('{{len (m_ret_i i)}}', '0')]
    for i, (t, exp) in enumerate(fixed):
        cases.append(rcase(f'x{i}', t, DATA, pre=['macros', 'esc 1'], entry=4, kind='fixed', exp=exp, tags=['fixed']))
    # a typed result of ANY JSON kind — null included — reaches a subexpression caller, in both modes
    for st in (0, 1):
        for i, (t, exp) in enumerate([('{{#if (m_ret_j z)}}T{{else}}F{{/if}}', 'F'), ('{{eq (m_ret_j z) null}}', 'true'), ('{{m_json (m_ret_j z)}}', 'json:n'),
                                      ('{{m_null (m_ret_j z)}}', 'null:()'), ('{{m_json (m_ret_j a)}}|{{m_ret_i (m_ret_j i)}}', 'json:[u1,x78]|5'),
                                      ('{{mkw k=(m_ret_j z)}}', 'kw:x6b=n')]):
            cases.append(rcase(f'rj{st}_{i}', t, DATA, pre=['macros', 'probes', 'esc 1', f'strict {st}'], entry=4, kind='fixed', exp=exp, tags=['typed-null-result']))
    # **kwargs holds EVERY hash argument, also one bound to a path that resolves to nothing (as null), in both modes
    for st in (0, 1):
        for i, (t, exp) in enumerate([('{{mkw a=1 b=zz c=o.zz}}', 'kw:x61=u1,x62=n,x63=n'), ('{{mkw b=zz}}', 'kw:x62=n'), ('{{mkw z=z a=b}}', 'kw:x61=t,x7a=n'),
                                      ('{{id (mkw q=zz.y r=5)}}', 'kw:x71=n,x72=u5')]):
            cases.append(rcase(f'kw{st}_{i}', t, DATA, pre=['macros', 'probes', 'esc 1', f'strict {st}'], entry=4, kind='fixed', exp=exp, tags=['kwargs-missing']))
    # the written result of a macro helper passes through the registered escape function exactly once whatever its
    # JSON type (marking escape fn: \x01 .. \x02), and not at all under {{{ }}}
    for i, (t, exp) in enumerate([('{{m_ret_i i}}', '\x015\x02'), ('{{m_ret_b s}}', '\x01true\x02'), ('{{m_ret_b i}}', '\x01false\x02'),
                                  ('{{m_str s}}', '\x01str:str\x02'), ('{{{m_ret_i i}}}', '5'), ('{{m_ret_i n}}|{{m0}}', '\x01-4\x02|\x01zero\x02'),
                                  ('{{#each a}}{{m_ret_i 7}}{{/each}}', '\x017\x02\x017\x02')]):
        cases.append(rcase(f'mk{i}', t, DATA, pre=['macros', 'esc 2'], entry=4, kind='fixed', exp=exp, tags=['escape-marking']))
    for i, (t, exp) in enumerate([('{{{m0}}}{{m_str s}}', 'zero\x01str:str\x02'), ('{{&m0}}|{{m_ret_i i}}', 'zero|\x015\x02'), ('{{{margs}}}{{m0}}', 'args:\x01zero\x02'),
                                  ('{{#each a}}{{{mo0}}}{{/each}}{{m0}}', 'mo0:3mo0:3\x01zero\x02'), ('{{#if s}}{{{m0}}}{{/if}}{{#if s}}{{m_str s}}{{/if}}', 'zero\x01str:str\x02'),
                                  ('{{{mkw}}}{{s}}', 'kw:\x01str\x02'), ('{{{m0}}}{{{m0}}}{{m0}}', 'zerozero\x01zero\x02')]):
        cases.append(rcase(f'mr{i}', t, DATA, pre=['macros', 'esc 2'], entry=4, kind='fixed', exp=exp, tags=['escape-after-raw-call']))
    cases.append(rcase('esc1', '{{m_str q}}|{{{m_str q}}}|{{m_str b}}|{{m_json a}}', {'q': 'a=b', 'b': '`x`', 'a': ['k=v', 1]}, pre=['macros'], entry=4, kind='fixed',
                       exp='str:a&#x3D;b|str:a=b|str:&#x60;x&#x60;|json:[x6b3d76,u1]', tags=['escape']))
    cases.append(rcase('esc0', '{{m_str lt}}|{{{m_str lt}}}', {'lt': '<'}, pre=['macros'], entry=4, kind='fixed', exp='str:&lt;|str:<', tags=['escape']))
    return cases

def oracle(c, io, mo):
    r = res_of(io)
    if c['kind'] == 'fixed':
        return None if r.get('out') == c['exp'] else f'expected {c["exp"]!r}, got {r.get("out", r.get("reason"))!r}'
    e = spec(c['name'], list(c['args']), c['hs'], bool(c['strict']))
    if e[0] == 'ok':
        return None if r.get('out') == e[1] else f'{c["tpl"]} strict={c["strict"]}: expected {e[1]!r}, got {r.get("out", (r.get("reason"), r.get("payload")))!r}'
    ok = r['kind'] == 'err' and r['reason'] == e[1] and r['payload'] == e[2]
    return None if ok else f'{c["tpl"]} strict={c["strict"]}: expected {e[1]} {e[2]}, got {r.get("out", (r.get("reason"), r.get("payload")))!r}'

def nontrivial(c, mo, io):
    return c['kind'] == 'fixed' or spec(c['name'], list(c['args']), c['hs'], bool(c['strict']))[0] == 'err' or len(c['hs']) < len(SIGS[c['name']][1])

def relevant_difference(c, mo, io):
    return True
