"""C15 — comparison and boolean helpers: exhaustive grid over a boundary set
(all ordered pairs x 6 operators), random near-equal integer/float pairs,
and/or over all truthiness vectors of length 0..4, not, len."""
import itertools, struct
from fractions import Fraction
from hblib import x, jtok, F, unx

RULE = ('all ordered pairs of a >=60-value boundary set x {eq,ne,gt,gte,lt,lte} via one-tag templates '
        '(leaf cmpop), random near-equal integer/float pairs, and/or over every truthiness vector of '
        'length 0..4, not/len over the set; a case is non-trivial when the two operands are comparable '
        '(the comparison is decided by value, not by the "all false" default)')
EXHAUSTIVE = {'quick': True, 'thorough': True}
ASSUMPTIONS = ['num-order and serde_json are dependencies: their behaviour enters the model as stated '
               '(exact comparison, number classification) and is exercised by this grid, not proved',
               'decimal-string -> f64 is modelled by correct rounding; the grid uses strings with <= 15 digits']

OPS = ['eq', 'ne', 'gt', 'gte', 'lt', 'lte']

def fl(v):
    return F(v)

BOUNDARY = [
    0, F(-0.0), F(0.0), 1, -1, F(1.0), F(-1.0), 2, F(0.5), F(1.5), F(-1.5), F(0.1),
    2**53 - 1, 2**53, 2**53 + 1, F(2.0**53), F(2.0**53 + 2), -(2**53) - 1, F(-(2.0**53)),
    -(2**63), F(-(2.0**63)), 2**63 - 1, 2**63, F(2.0**63), 2**64 - 1, F(2.0**64), 2**63 + 1,
    -(2**63) + 1, F(1e-320), F(5e-324), F(-5e-324), F(1e308), F(-1e308), F(1e19), F(1e-7),
    10**19, 9223372036854775806,
    '', 'a', 'b', 'ab', 'B', 'é', '￿', '\U00010000', '1', '-1', '1.5', '-0', '0', '1e2', '01', ' 1',
    '18446744073709551616', '9007199254740993', '9223372036854775808', '-9223372036854775809', 'abc', '1.0',
    'NaN', 'nan', '-NaN', 'inf', '-inf', 'Infinity', '+1', '.5', ' 2 ', '1e999', '1.', '0x10',
    True, False, None, [], [1], [1, 2], {}, {'a': 1}, {'a': 1, 'b': 2},
]

def gen_cases(rng, tier, scale):
    cases = []
    k = 0
    for a in BOUNDARY:
        ops = []
        tags = []
        for b in BOUNDARY:
            for op in OPS:
                ops.append(f'leaf cmpop {op} {jtok(a)} {jtok(b)}')
        # one case per left operand and chunk of right operands
        per = 6 * 11
        for j in range(0, len(ops), per):
            cases.append({'line': f'g{k} ' + ' ; '.join(ops[j:j + per]), 'kind': 'grid', 'a': a,
                          'bs': BOUNDARY[j // 6:(j + per) // 6], 'tags': ['grid']})
            k += 1
    # random near-equal integer/float pairs
    n = (300 if tier == 'quick' else 5000) * scale
    for i in range(n):
        e = rng.choice([52, 53, 54, 62, 63, 64, rng.randint(0, 70)])
        base = 2**e + rng.randint(-3, 3)
        if rng.random() < 0.3:
            base = -base
        iv = max(-(2**63), min(2**64 - 1, base))
        fv = float(iv + rng.randint(-2, 2))
        if rng.random() < 0.5:
            a, b = iv, F(fv)
        else:
            a, b = F(fv), iv
        ops = [f'leaf cmpop {op} {jtok(a)} {jtok(b)}' for op in OPS]
        cases.append({'line': f'n{i} ' + ' ; '.join(ops), 'kind': 'grid', 'a': a, 'bs': [b], 'tags': ['near-equal']})
    # and / or / not / len
    tv = [True, False, None, 0, 1, '', 'x', [], [0], {}, {'k': None}, F(0.0), F(1e-320)]
    k = 0
    for ln in range(0, 5):
        combos = list(itertools.product([True, False, 0, 'x', '', [], {'k': 1}], repeat=ln)) if ln <= 3 else \
            [tuple(rng.choice(tv) for _ in range(4)) for _ in range(200)]
        for combo in combos:
            data = {f'v{i}': v for i, v in enumerate(combo)}
            args = ' '.join(f'v{i}' for i in range(ln))
            for op in ('and', 'or'):
                cases.append({'line': f'b{k} esc 1 ; rt 4 {x("{{" + op + " " + args + "}}")} {jtok(data)} -1',
                              'kind': 'bool', 'op': op, 'vals': combo, 'tags': ['and-or']})
                k += 1
    for v in BOUNDARY:
        cases.append({'line': f'u{k} esc 1 ; rt 4 {x("{{not v}}|{{len v}}")} {jtok({"v": v})} -1',
                      'kind': 'unary', 'v': v, 'tags': ['not-len']})
        k += 1
    return cases

# ---------- independent oracle (exact arithmetic in Python) ----------
def num_value(v):
    if isinstance(v, bool):
        return None
    if isinstance(v, int):
        return Fraction(v)
    if isinstance(v, F):
        return Fraction(v.v)
    return None

def parse_numeric_string(s):
    import re
    if not re.fullmatch(r'-?(0|[1-9][0-9]*)(\.[0-9]+)?([eE][+-]?[0-9]+)?', s):
        return None
    if re.fullmatch(r'-?[0-9]+', s):
        iv = int(s)
        if s == '-0':
            return Fraction(0)
        if -(2**63) <= iv <= 2**64 - 1:
            return Fraction(iv)
    f = float(s)
    if f in (float('inf'), float('-inf')):
        return None            # a numeral outside the f64 range is not a JSON number (serde_json rejects it)
    return Fraction(f)

def spec_compare(a, b):
    """None = incomparable; else -1/0/1"""
    def c(p, q):
        return (p > q) - (p < q)
    na, nb = num_value(a), num_value(b)
    if na is not None and nb is not None:
        return c(na, nb)
    if isinstance(a, str) and isinstance(b, str):
        return c([ord(ch) for ch in a], [ord(ch) for ch in b])
    if isinstance(a, bool) and isinstance(b, bool):
        return c(a, b)
    if na is not None and isinstance(b, str):
        pb = parse_numeric_string(b)
        return None if pb is None else c(na, pb)
    if isinstance(a, str) and nb is not None:
        pa = parse_numeric_string(a)
        return None if pa is None else c(pa, nb)
    return None

def rep(v):
    if isinstance(v, bool): return ('b', v)
    if isinstance(v, int): return ('u' if v >= 0 else 'i', v)
    if isinstance(v, F): return ('f', 0.0 if v.v == 0 else v.v)
    if v is None: return ('n',)
    if isinstance(v, str): return ('s', v)
    if isinstance(v, (list, tuple)): return ('a', tuple(rep(e) for e in v))
    if isinstance(v, dict): return ('o', tuple(sorted((k, rep(e)) for k, e in v.items())))

def truthy(v):
    if isinstance(v, bool): return v
    if v is None: return False
    if isinstance(v, int): return v != 0
    if isinstance(v, F): return v.v != 0 and v.v == v.v
    return len(v) > 0

def utf8len(s): return len(s.encode('utf-8'))

KNOWN_SUBNORMAL = lambda v: isinstance(v, F) and v.v != 0 and abs(v.v) < 2.2250738585072014e-308

def oracle(c, io, mo):
    if io is None:
        return 'no implementation output'
    obs = io.split(' ')
    tf = {True: x('true'), False: x('false')}
    if c['kind'] == 'grid':
        i = 0
        for b in c['bs']:
            r = spec_compare(c['a'], b)
            exp = {
                'eq': rep(c['a']) == rep(b), 'ne': rep(c['a']) != rep(b),
                'gt': r == 1, 'gte': r is not None and r >= 0, 'lt': r == -1, 'lte': r is not None and r <= 0}
            for op in OPS:
                if i >= len(obs) or obs[i] != tf[exp[op]]:
                    return f'{op} {c["a"]!r} {b!r}: expected {exp[op]}, got {obs[i] if i < len(obs) else None}'
                i += 1
        return None
    if c['kind'] == 'bool':
        vals = [truthy(v) for v in c['vals']]
        if False:
            return None   # subnormal truthiness is C06's finding F5, not a property of and/or
        exp = all(vals) if c['op'] == 'and' else any(vals)
        want = f'R:ok:{tf[exp]}:x:-'
        return None if obs[-1] == want else f'{c["op"]} {c["vals"]!r}: expected {exp}, got {obs[-1]}'
    if c['kind'] == 'unary':
        v = c['v']
        ln = len(v) if isinstance(v, (list, tuple, dict)) else utf8len(v) if isinstance(v, str) else 0
        want = f'R:ok:{x(("false" if truthy(v) else "true") + "|" + str(ln))}:x:-'
        return None if obs[-1] == want else f'not/len {v!r}: expected {want}, got {obs[-1]}'
    return None

def nontrivial(c, mo, io):
    if c['kind'] == 'grid':
        return any(spec_compare(c['a'], b) is not None for b in c['bs'])
    return True

def relevant_difference(c, mo, io):
    return True
