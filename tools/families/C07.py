"""C07 — each: collections of length 0..8 reached by context path, ../ path, block parameter, @root,
literal or subexpression result; nesting <= 4 mixed with with/if; 0/1/2 block params; bodies print
this/@index/@key/@first/@last/params; oracle = reference semantics from the property text."""
from hblib import x, jtok
from gen import gen_json, gen_scalar, gen_key
from refsem import Ref, to_source, StructGen
from families.common import rcase, res_of

RULE = ('each over arrays/objects of length 0..8 (arbitrary JSON elements) reached through every provenance '
        '(context path, ../, block parameter, @root, literal, subexpression), nested <= 4 with with/if, 0/1/2 '
        'block params, bodies printing this/@index/@key/@first/@last/params with separators, with and without '
        'else. Non-trivial = at least one iteration with index > 0 or an else/empty case')
ASSUMPTIONS = ['reference semantics tools/refsem.py transcribes the property text']

BODY = [('text', '['), ('expr', {'ups': 0, 'segs': []}, True), ('text', ','),
        ('expr', {'ups': 0, 'segs': [], 'local': 'index'}, False), ('text', ','),
        ('expr', {'ups': 0, 'segs': [], 'local': 'key'}, False), ('text', ','),
        ('expr', {'ups': 0, 'segs': [], 'local': 'first'}, False), ('text', ','),
        ('expr', {'ups': 0, 'segs': [], 'local': 'last'}, False), ('text', ']')]

def coll(rng):
    n = rng.choice([0, 1, 1, 2, 3, 4, 8])
    if rng.random() < 0.5:
        return [gen_json(rng, 1, odd=0.0) for _ in range(n)]
    d = {}
    while len(d) < n:
        d[gen_key(rng, 0.2)] = gen_json(rng, 1, odd=0.0)
    return {k: v for k, v in d.items() if ']' not in k}

def gen_cases(rng, tier, scale):
    cases = []
    n = (400 if tier == 'quick' else 8000) * scale
    for k in range(n):
        c = coll(rng)
        prov = rng.choice(['ctx', 'up', 'root', 'param', 'literal', 'subexpr', 'nested'])
        params = rng.choice([(), ('v',), ('v', 'k')])
        body = list(BODY)
        if params:
            body += [('text', '<'), ('expr', {'ups': 0, 'segs': [params[0]]}, True)]
            if len(params) > 1:
                body += [('text', ':'), ('expr', {'ups': 0, 'segs': [params[1]]}, False)]
            body += [('text', '>')]
        els = [('text', 'EMPTY')] if rng.random() < 0.5 else None
        data = {'c': c, 'o': {'x': 1}, 'n': [[1, 2], [3]]}
        if prov == 'ctx':
            nodes = [('each', ('path', {'ups': 0, 'segs': ['c']}), params, body, els)]
            src = to_source(nodes)
        elif prov == 'root':
            nodes = [('with', ('path', {'ups': 0, 'segs': ['o']}), None,
                      [('each', ('path', {'ups': 0, 'segs': ['c'], 'root': True}), params, body, els)], None)]
            src = to_source(nodes)
        elif prov == 'up':
            nodes = [('with', ('path', {'ups': 0, 'segs': ['o']}), None,
                      [('each', ('path', {'ups': 1, 'segs': ['c']}), params, body, els)], None)]
            src = to_source(nodes)
        elif prov == 'param':
            nodes = [('with', ('path', {'ups': 0, 'segs': ['c']}), 'w',
                      [('each', ('path', {'ups': 0, 'segs': ['w']}), params, body, els)], None)]
            src = to_source(nodes)
            if not c:       # with on an empty collection renders nothing: fine, still a case
                pass
        elif prov == 'literal':
            if any(isinstance(e, (dict, list)) and False for e in (c if isinstance(c, list) else c.values())):
                pass
            nodes = [('each', ('lit', c), params, body, els)]
            src = to_source(nodes)
            if "'" in src and False:
                continue
        elif prov == 'subexpr':
            nodes = [('each', ('path', {'ups': 0, 'segs': ['c']}), params, body, els)]
            src = to_source(nodes).replace('{{#each c', '{{#each (lookup this "c")', 1)
        else:
            inner = ('each', ('path', {'ups': 0, 'segs': []}), params,
                     body + [('text', '^'), ('expr', {'ups': 1, 'segs': [], 'local': 'index'}, False)], els)
            nodes = [('each', ('path', {'ups': 0, 'segs': ['n']}), (), [('text', '('), inner, ('text', ')')], None)]
            src = to_source(nodes)
        cases.append(rcase(f'e{k}', src, data, entry=4, ast=nodes, kind='each', prov=prov, coll=c, tags=[prov]))
    # random structured templates rich in each
    m = (200 if tier == 'quick' else 3000) * scale
    for k in range(m):
        from gen import gen_object
        data = gen_object(rng, 3, odd=0.05)
        g = StructGen(rng, data, missing=0.05)
        ast = g.gen_nodes(4, rng.randint(1, 3))
        src = to_source(ast)
        if '#each' not in src or '[this]' in src:
            continue
        cases.append(rcase(f's{k}', src, data, entry=4, ast=ast, kind='each', prov='struct', coll=None, tags=['struct']))
    # nested blocks re-declaring the SAME block-parameter name: the innermost binding wins, and the outer one is back
    # after the inner block
    D3 = {'groups': [{'n': 'g0', 'items': ['a', 'b']}, {'n': 'g1', 'items': ['c']}], 'o': {'k': 'K'}}
    for k5, (tpl, exp) in enumerate([
            ('{{#each groups as |it|}}{{it.n}}[{{#each it.items as |it|}}{{it}};{{/each}}]{{it.n}} {{/each}}', 'g0[a;b;]g0 g1[c;]g1 '),
            ('{{#each groups as |row i|}}{{#each row.items as |cell i|}}{{i}}{{cell}}{{/each}}|{{i}} {{/each}}', '0a1b|0 0c|1 '),
            ('{{#each groups as |e|}}{{#with @root.o as |e|}}{{e.k}}{{/with}}{{e.n}};{{/each}}', 'Kg0;Kg1;'),
            ('{{#each groups as |v k|}}{{#each v.items as |k v|}}{{k}}={{v}},{{/each}}{{k}};{{/each}}', 'a=0,b=1,0;c=0,1;'),
            ('{{#with o as |x|}}{{#each @root.groups as |x|}}{{x.n}}{{/each}}{{x.k}}{{/with}}', 'g0g1K')]):
        cases.append(rcase(f'sh{k5}', tpl, D3, entry=4, kind='fixedout', exp=exp, tags=['shadowed-block-param']))
    D4 = {'l': [['a', 'b'], ['c']], 'o': {'x': {'n': 1}, 'y': {'n': 2}}, 'rows': [{'name': 'A', 'cells': [1, 2]}], 'tags': ['t1', 't2'],
          'l2': [{'name': 'n1', 'members': ['m1', 'm2']}], 'meta': {'a': 1}, 'po': {'n': 'N'}, 'eo': {}, 'ea': []}
    for k6, (tpl, exp) in enumerate([
            ('{{#each l as |row i|}}{{#each row}}{{../i}}:{{this}} {{/each}}{{/each}}', '0:a 0:b 1:c '),
            ('{{#each o as |v k|}}{{#with v}}{{../k}}={{n}};{{/with}}{{/each}}', 'x=1;y=2;'),
            ('{{#each l as |row i|}}{{#each row as |c j|}}{{#if c}}{{../../i}}{{../j}}{{/if}}{{/each}}{{/each}}', '000110'),
            ('{{#each (id rows) as |row|}}{{#with row}}{{../row.name}}{{/with}}{{/each}}', 'A'),
            ('{{#each (id rows) as |row|}}{{#each ../row.cells}}{{this}}{{/each}}{{/each}}', None),
            ('{{#each (id l2)}}{{#each @root.tags}}{{../name}}-{{this}};{{/each}}{{/each}}', 'n1-t1;n1-t2;'),
            ('{{#each (id l2)}}{{#with @root.meta}}{{#each ../members}}{{this}},{{/each}}{{/with}}{{/each}}', 'm1,m2,'),
            ('{{#each [[1]]}}{{#with @root.meta}}{{a}}{{../this}}{{/with}}{{/each}}', '1[1]'),
            ('{{#each tags as |t|}}{{#each (id l2)}}{{#each t}}x{{else}}{{../name}}{{/each}}{{/each}}{{/each}}', None),
            ('{{#each rows as |tags|}}[{{#each @root.tags}}{{this}}{{/each}}]{{/each}}', '[t1t2]'),
            ('{{#each o as |meta tags|}}{{#each @root.tags}}{{@index}}{{/each}}{{@root.meta.a}};{{/each}}', '011;011;'),
            ('{{#with po as |tags|}}{{#each @root.tags as |x|}}{{x}}{{tags.n}}{{/each}}{{/with}}', 't1Nt2N'),
            ('{{#each eo}}x{{else}}[{{meta.a}}{{this.meta.a}}]{{/each}}|{{#each ea}}x{{else}}[{{meta.a}}]{{/each}}', '[11]|[1]'),
            ('{{#each l2}}{{#each ../eo}}x{{else}}{{name}}{{@index}}{{../meta.a}}{{/each}}{{/each}}', 'n101'),
            ('{{> pp po}}', 'NN')]):
        cases.append(rcase(f'up{k6}', tpl, D4, pre=['probes'], partials={'pp': '{{#each @root.tags}}{{../n}}{{/each}}'}, entry=0, kind='fixedout', exp=exp, tags=['up-to-value-bound']))
    return cases

def oracle(c, io, mo):
    r = res_of(io)
    if c.get('kind') == 'fixedout':
        if c['exp'] is None:
            return None          # decided by the correspondence alone
        return None if r.get('out') == c['exp'] else f'expected {c["exp"]!r}, got {r.get("out", r.get("reason"))!r}'
    try:
        exp = Ref(c['data']).render(c['ast'])
    except ValueError:
        return None
    if r['kind'] == 'err' and r['reason'] == 'InvalidJsonIndex':
        return None     # non-numeric segment into an array: C01's finding F9, outside this family's vocabulary
    if r['kind'] != 'ok':
        return f"expected {exp!r}, got {r.get('reason', r['kind'])}"
    return None if r['out'] == exp else f'expected {exp!r}, got {r["out"]!r}'

def nontrivial(c, mo, io):
    return res_of(io)['kind'] == 'ok' and (c.get('coll') is None or len(c['coll']) != 1)

def relevant_difference(c, mo, io):
    return res_of(mo).get('out') != res_of(io).get('out') or res_of(mo)['kind'] != res_of(io)['kind']

def known_F9_array_key(c, mo, io):
    r = res_of(io)
    return r['kind'] == 'err' and r['reason'] == 'InvalidJsonIndex'
