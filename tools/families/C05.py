"""C05 — render never panics: compilable templates from the C04 space with ill-typed uses (each over
scalars, non-numeric segments into arrays, missing params, unknown helpers/partials/decorators, '../'
beyond the root), JSON depth <= 5, strict and prevent_indent on/off, acyclic partial graphs; a second
render on the same registry after every error."""
from hblib import x, jtok
from gen import gen_object, TplGen, gen_json
from families.C04 import mutate
from families.common import res_of

RULE = ('generated and mutated templates that still compile, with ill-typed uses planted ({{#each scalar}}, '
        '{{a.x}} into arrays, helpers without params, unknown helpers/partials/decorators, ../ beyond the root, '
        'built-ins in wrong forms), JSON depth <= 5, strict/prevent_indent toggles, acyclic registries; every '
        'case renders twice plus a fixed control template afterwards. Oracle: Ok or RenderError (never PANIC/'
        'ABORT/TIMEOUT); after an error the same render gives the same result and the control renders. '
        'Non-trivial = the first render returns a RenderError')
ILL = ['{{#each v}}x{{/each}}', '{{#each}}x{{/each}}', '{{#with}}x{{/with}}', '{{#if}}x{{/if}}', '{{lookup}}', '{{lookup a}}', '{{a.x.y}}',
       '{{../../../../a}}', '{{@../../index}}', '{{nohelper 1}}', '{{> nopartial}}', '{{*nodeco}}', '{{#*inline}}x{{/inline}}', '{{#*inline 1}}x{{/inline}}',
       '{{*inline "x"}}', '{{eq 1}}', '{{len}}', '{{gt}}', '{{not}}', '{{and}}', '{{#raw}}x{{/raw}}', '{{log a level="nolevel"}}', '{{log}}', '{{#each a as |x|}}{{x.y.z}}{{/each}}',
       '{{#with a as |x y|}}{{y}}{{/with}}', '{{(a)}}', '{{#> @partial-block}}x{{/@partial-block}}', '{{> @partial-block}}', '{{> (lookup a 0)}}', '{{> [a b]}}',
       '{{#each a}}{{> @partial-block}}{{/each}}', '{{[0]}}', '{{a.[-1]}}', '{{a.[1e3]}}', '{{a.18446744073709551616}}', '{{this.this}}', '{{@root}}', '{{@index}}',
       '{{#if a}}{{else if}}{{/if}}', '{{#each a}}{{else each}}{{/each}}', '{{lookup a "0"}}', '{{lookup a -1}}', '{{lookup a 1.5}}', '{{lookup o 0}}', '{{#unless}}{{/unless}}',
       '{{gt 1 "NaN"}}', '{{lte v "nan"}}', '{{#if (lt "-NaN" 2)}}y{{/if}}', '{{gte 1.5 "inf"}}', '{{lt 1 "+1"}}', '{{gt "1e999" 0}}', '{{gt v "NaN"}}{{lt "NaN" "NaN"}}',
       '{{if a}}', '{{each a}}', '{{with a}}', '{{raw}}', '{{{{raw}}}}{{{{/raw}}}}', '{{{{if a}}}}x{{{{/if}}}}', '{{{{each a}}}}x{{{{/each}}}}']

def gen_cases(rng, tier, scale):
    cases = []
    n = (600 if tier == 'quick' else 12000) * scale
    control = '{{#each c}}{{this}},{{/each}}'
    for k in range(n):
        data = gen_json(rng, 5, odd=0.1) if rng.random() < 0.3 else gen_object(rng, 4, odd=0.1)
        base = data if isinstance(data, dict) else {}
        parts = {'p1': TplGen(rng, base, maxdepth=2, missing=0.3).template(2), 'p2': rng.choice(ILL)}
        g = TplGen(rng, base, partials=['p1', 'p2'], partial_blocks=True, inline=True, probes=False, ws=True, tilde=True, missing=0.3)
        t = g.template(rng.randint(1, 3))
        for _ in range(rng.randint(1, 3)):
            pos = rng.randint(0, len(t))
            # insert an ill-typed use at a tag boundary
            cut = t.rfind('}}', 0, pos)
            cut = 0 if cut < 0 else cut + 2
            t = t[:cut] + rng.choice(ILL) + t[cut:]
        if rng.random() < 0.3:
            t = mutate(rng, t)
        if '> main' in t or '> ctl' in t:
            continue
        pre = []
        if rng.random() < 0.4: pre.append('strict 1')
        if rng.random() < 0.3: pre.append('pi 1')
        if rng.random() < 0.2: pre.append('dev 1')
        ops = pre + [f'regs {x(n_)} {x(s_)}' for n_, s_ in parts.items()] + [f'regs {x("ctl")} {x(control)}', f'regs {x("main")} {x(t)}']
        D = jtok(data)
        ops += [f'r 0 {x("main")} {D} -1', f'r 2 {x("main")} {D} -1', f'r 0 {x("ctl")} {jtok({"c": [1, 2]})} -1', f'rt 4 {x(t)} {D} -1']
        cases.append({'line': f'r{k} ' + ' ; '.join(ops), 'kind': 'render', 'tpl': t, 'npre': len(parts) + 2, 'tags': ['render']})
    # every ill-typed use on its own, against each shape of `a` (array, object, scalar, null, missing), strict on/off:
    # nothing here depends on what the random generator happens to combine
    SHAPES = [{'a': [1, 2, 3], 'o': {'k': 1}, 'v': 5}, {'a': {'x': {'y': 1}, '0': 'z'}, 'o': {'k': 1}, 'v': 's'}, {'a': 7, 'o': [], 'v': None},
              {'a': None, 'o': 1, 'v': [[1]]}, {'o': {}}]
    EXTRA = ['{{a.[]}}', '{{a.99999999999999999999}}', '{{a.[18446744073709551616]}}', '{{a.[18446744073709551615]}}', '{{#if a.[]}}y{{/if}}',
             '{{lookup a.99999999999999999999 0}}', '{{#each a}}{{../a.[]}}{{/each}}', '{{#each a as |e|}}{{e.[]}}{{/each}}', '{{a.[ ]}}', '{{a.[+1]}}',
             '{{a.00}}', '{{a.[1].[2].[3]}}', '{{../a}}', '{{../../a}}', '{{#with o}}{{../../a}}{{/with}}', '{{> pz}}']
    kf = 0
    for item in ILL + EXTRA:
        for sh in SHAPES:
            st = kf % 2
            parts = {'p1': 'x', 'p2': item, 'pz': '{{../name}}{{../../a}}'}
            ops = ([f'strict 1'] if st else []) + [f'regs {x(n_)} {x(s_)}' for n_, s_ in parts.items()] + [f'regs {x("ctl")} {x(control)}', f'regs {x("main")} {x(item)}']
            D = jtok(sh)
            ops += [f'r 0 {x("main")} {D} -1', f'r 2 {x("main")} {D} -1', f'r 0 {x("ctl")} {jtok({"c": [1, 2]})} -1', f'rt 4 {x(item)} {D} -1']
            cases.append({'line': f'il{kf} ' + ' ; '.join(ops), 'kind': 'render', 'tpl': item, 'npre': len(parts) + 2, 'tags': ['ill-typed-alone']})
            kf += 1
    # indented standalone partial calls whose chunks (raw text, values) begin/end with multi-byte characters,
    # line breaks, or are empty: the byte-slicing paths of the indenting writer
    UNI = ['Zoë', '10 €', '€', 'é\nü', '日本\n', '\n', '', '\U0001F600', 'a\r\nß', 'x']
    m = (80 if tier == 'quick' else 1500) * scale
    for k in range(m):
        vals = {f's{i}': rng.choice(UNI) for i in range(3)}
        vals['l'] = [rng.choice(UNI) for _ in range(rng.randint(0, 3))]
        pu = ''.join(rng.choice(['{{s0}}', '{{{s1}}}', 'é', 'w€', '\n', '{{s2}}\n', '{{#each l}}{{this}}{{/each}}', '日', ' ', '{{#if s0}}ü{{/if}}'])
                     for _ in range(rng.randint(1, 6)))
        W = rng.choice([' ', '  ', '\t', ' \t '])
        t = rng.choice(['', 'A\n', 'é\n']) + W + '{{> pu}}' + rng.choice(['\n', '\nZ', ''])
        pre = ['pi 1'] if rng.random() < 0.2 else []
        parts = {'pu': pu, 'p2': 'x'}
        ops = pre + [f'regs {x(n_)} {x(s_)}' for n_, s_ in parts.items()] + [f'regs {x("ctl")} {x(control)}', f'regs {x("main")} {x(t)}']
        D = jtok(vals)
        ops += [f'r 0 {x("main")} {D} -1', f'r 2 {x("main")} {D} -1', f'r 0 {x("ctl")} {jtok({"c": [1, 2]})} -1', f'rt 4 {x(t)} {D} -1']
        cases.append({'line': f'u{k} ' + ' ; '.join(ops), 'kind': 'render', 'tpl': t, 'npre': len(parts) + 2, 'tags': ['indent-unicode']})
    # acyclic nested partial blocks (layouts forwarding @partial-block): must terminate with a value or an error
    from families.C09 import pb_gen, pb_eval, PBMissing
    for k in range((40 if tier == 'quick' else 800) * scale):
        for _try in range(50):
            parts, t = pb_gen(rng)
            try:
                if len(pb_eval(parts, t)) <= 600:
                    break
            except PBMissing:
                break
        else:
            continue
        ops = [f'regs {x(n_)} {x(s_)}' for n_, s_ in parts.items()] + [f'regs {x("ctl")} {x(control)}', f'regs {x("main")} {x(t)}']
        ops += [f'r 0 {x("main")} {{}} -1', f'r 2 {x("main")} {{}} -1', f'r 0 {x("ctl")} {jtok({"c": [1, 2]})} -1', f'rt 4 {x(t)} {{}} -1']
        cases.append({'line': f'pb{k} ' + ' ; '.join(ops), 'kind': 'render', 'tpl': t, 'npre': len(parts) + 2, 'tags': ['partial-block-layouts']})
    return cases

def key(tok):
    from hblib import parse_robs
    r = parse_robs(tok)
    return (r['kind'], r.get('out'), r.get('reason'), r.get('payload'))

def oracle(c, io, mo):
    if io is None:
        return 'no output'
    if io == 'ABORT' and mo and 'FUEL' in mo:
        return None       # unbounded partial recursion (e.g. a partial-block body including @partial-block): excluded by the property
    if io in ('ABORT', 'TIMEOUT'):
        return f'rendering makes the process {io}'
    toks = io.split(' ')
    if toks[c['npre'] - 1] == 'PANIC':
        return None       # the template does not even compile (a compile-time panic is property C04's business)
    if 'PANIC' in toks:
        return 'render (or compile) panicked'
    obs = toks[c['npre']:]
    if len(obs) != 4:
        return f'unexpected observation count {len(obs)}'
    first, second, ctl, direct = obs
    if toks[c['npre'] - 1] != 'ok':
        return None       # the mutated template does not compile: C04's business
    import hblib as _hb
    # two failing hash arguments of one tag: which of the two errors is reported follows HashMap order (finding F12, C16)
    if key(first) != key(second) and not _hb._hash_err_equal(first, second, c['line']):
        return f'the same render repeated gives a different result: {key(first)} then {key(second)}'
    if key(ctl) != ('ok', '1,2,', None, None):
        return f'after the render the registry no longer renders a control template: {key(ctl)}'
    return None

def nontrivial(c, mo, io):
    return io is not None and ' R:err:' in ' ' + io.split(' ')[c['npre']] if io and len(io.split(' ')) > c['npre'] else False

def relevant_difference(c, mo, io):
    return True
