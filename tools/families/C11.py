"""C11 — whitespace control: exhaustive grid tag kind x tilde setting x left context x right context,
plus random multi-line templates built from such lines; oracle = tools/wsspec.py (the rules as stated
in the property text) and the hand-deletion relation for `~` on value expressions."""
import itertools
from hblib import x, jtok
from wsspec import tag, text, expected, source
from families.common import rcase, res_of

RULE = ('grid: 14 tag kinds x {none, ~ before, ~ after, both} x 14 left contexts x 14 right contexts '
        '(start/end of template, LF, CRLF, spaces, tabs, text, blank lines, lone CR, non-ASCII whitespace) — every cell in thorough, '
        'a seeded third in quick — plus random multi-line templates built from lines holding text, value '
        'tags and standalone-capable tags; oracle: the whitespace rules of the property text (tools/wsspec.py). '
        'Non-trivial = the cell contains whitespace adjacent to the tag')
EXHAUSTIVE = {'quick': False, 'thorough': True}
ASSUMPTIONS = ['tools/wsspec.py transcribes the whitespace rules of the property text']

LEFT = ['', 'x', 'x\n', 'x\n  ', '  ', '\t', 'x  ', 'x\r\n', 'x\r\n\t ', 'x\n\n  ', ' \n ', 'x\r  ', 'x\n\u00a0', '\u3000']
RIGHT = ['', 'y', '\ny', '  \ny', '  ', ' y', '\r\ny', ' \t\r\ny', '\n\ny', '\n', ' \n  y', '\ry', '\u2003\ny', '\u00a0']
DATA = {'v': 'V', 't': True, 'u': True, 'o': {'k': 'K'}, 'l': [1]}
PARTS = {'p': 'P', 'pb': '[{{> @partial-block}}]'}

def cell(kind, tl, tr, L, R):
    """items of a complete template in which the tag under test sits between texts L and R"""
    T = lambda body, cap, out='', live=True, **kw: tag(body, cap, tl, tr, out, live, **kw)
    if kind == 'value':
        return [text(L), T('v', False, 'V'), text(R)]
    if kind == 'html':
        return [text(L), ('tag', '{{{' + ('~' if tl else '') + 'v' + ('~' if tr else '') + '}}}', False, tl, tr, 'V', True, False), text(R)]
    if kind == 'helper':
        return [text(L), T('lookup o "k"', False, 'K'), text(R)]
    if kind == 'open':
        return [text(L), T('#if t', True), text(R + 'B'), tag('/if', True)]
    if kind == 'close':
        return [tag('#if t', True), text('B' + L), T('/if', True), text(R)]
    if kind == 'else':
        return [tag('#if t', True), text('B' + L), T('else', True), text(R + 'E', live=False), tag('/if', True)]
    if kind == 'elsechain':
        return [tag('#if t', True), text('B' + L), T('else if u', True), text(R + 'E', live=False), tag('/if', True)]
    if kind == 'elselive':       # the else branch is the one rendered (f is absent from the data)
        return [tag('#if f', True), text('B' + L, live=False), T('else', True), text(R + 'E'), tag('/if', True)]
    if kind == 'elsechainlive':
        return [tag('#if f', True), text('B' + L, live=False), T('else if u', True), text(R + 'E'), tag('/if', True)]
    if kind == 'eachopen':
        return [text(L), T('#each l', True), text(R + 'B'), tag('/each', True)]
    if kind == 'comment':
        return [text(L), T('!c', True), text(R)]
    if kind == 'comment2':
        return [text(L), T('!-- c --', True), text(R)]
    if kind == 'partial':
        return [text(L), T('> p', True, 'P', partial=True), text(R)]
    if kind == 'inlineopen':
        return [text(L), T('#*inline "n"', True), text(R + 'B', live=False), tag('/inline', True)]
    if kind == 'inlineclose':
        return [tag('#*inline "n"', True), text('B' + L, live=False), T('/inline', True), text(R)]
    if kind == 'pblockopen':
        return [text(L), T('#> nopartial', True), text(R + 'B'), tag('/nopartial', True)]
    if kind == 'pblockclose':
        return [tag('#> nopartial', True), text('B' + L), T('/nopartial', True), text(R)]
    if kind == 'eachbp':
        return [text(L), T('#each l as |x|', True), text(R + 'B'), tag('/each', True)]
    if kind == 'withbp':
        return [text(L), T('#with o as |w|', True), text(R + 'B'), tag('/with', True)]
    if kind == 'rawopen':
        # the body of a raw block is text: `{{x}}` in it is literal
        return [text(L), tag('raw', True, tl, tr, quad=True), text(R + '{{x}} B'), tag('/raw', True, quad=True)]
    if kind == 'rawclose':
        return [tag('raw', True, quad=True), text('B {{x}}' + L), tag('/raw', True, tl, tr, quad=True), text(R)]
    raise ValueError(kind)

KINDS = ['value', 'html', 'helper', 'open', 'close', 'else', 'elsechain', 'eachopen', 'comment', 'comment2',
         'partial', 'inlineopen', 'inlineclose', 'pblockopen', 'pblockclose', 'rawopen', 'rawclose', 'eachbp', 'withbp', 'elselive', 'elsechainlive']

def gen_cases(rng, tier, scale):
    cases = []
    k = 0
    for kind in KINDS:
        for tl, tr in ((False, False), (True, False), (False, True), (True, True)):
            if kind in ('comment', 'comment2') and (tl or tr):
                continue          # the grammar gives comment tags no `~` markers (a ~ there is comment text)
            for L in LEFT:
                for R in RIGHT:
                    if tier == 'quick' and rng.random() > 0.34 / scale:
                        continue
                    items = cell(kind, tl, tr, L, R)
                    cases.append(rcase(f'g{k}', source(items), DATA, partials=PARTS, entry=0, items=items, kind='grid',
                                       cellk=(kind, tl, tr, L, R), tags=[kind]))
                    k += 1
    # random multi-line templates
    n = (400 if tier == 'quick' else 8000) * scale
    for i in range(n):
        items = []
        lines = rng.randint(1, 5)
        open_blocks = []
        for ln in range(lines):
            ind = rng.choice(['', '', '  ', '\t', ' '])
            what = rng.choice(['text', 'value', 'open', 'close', 'comment', 'partial', 'mixed', 'blank', 'else'])
            nl = rng.choice(['\n', '\n', '\r\n', '']) if ln == lines - 1 else rng.choice(['\n', '\n', '\r\n'])
            tl, tr = rng.random() < 0.12, rng.random() < 0.12
            def addtext(s):
                if items and items[-1][0] == 'text':
                    items[-1] = text(items[-1][1] + s, items[-1][2])
                else:
                    items.append(text(s))
            if what == 'text':
                addtext(ind + rng.choice(['abc', 'x y', 'z']) + nl)
            elif what == 'blank':
                addtext(ind + nl)
            elif what == 'value':
                addtext(ind); items.append(tag('v', False, tl, tr, 'V')); addtext(rng.choice(['', ' ', ' w']) + nl)
            elif what == 'mixed':
                addtext(ind + 'q '); items.append(tag('!c', True)); addtext(' r' + nl)
            elif what == 'comment':
                addtext(ind); items.append(tag(rng.choice(['!c', '!-- c --']), True)); addtext(rng.choice(['', ' ', '\t']) + nl)
            elif what == 'partial':
                addtext(ind); items.append(tag('> p', True, tl, tr, 'P', partial=True)); addtext(rng.choice(['', ' ']) + nl)
            elif what == 'open':
                addtext(ind); items.append(tag('#if t', True, tl, tr)); open_blocks.append('if'); addtext(rng.choice(['', ' ']) + nl)
            elif what == 'close' and open_blocks:
                open_blocks.pop(); addtext(ind); items.append(tag('/if', True, tl, tr)); addtext(rng.choice(['', ' ']) + nl)
            else:
                addtext(ind + 'k' + nl)
        while open_blocks:
            open_blocks.pop()
            items.append(tag('/if', True))
        cases.append(rcase(f'r{i}', source(items), DATA, partials=PARTS, entry=0, items=items, kind='random', cellk=None, tags=['random']))
    # fixed witnesses of the recorded findings, so that each is met on every run
    from wsspec import tag as _t, text as _x
    W = [('wF8', [_t('#if t', True), _x('\nb\n'), _t('/if', True), _x('  ')]),
         ('wF11', [_t('v', False, False, True, 'V'), _x('  '), _t('!c', True), _x('  z')]),
         ('wF11d', [_t('v', False, False, True, 'V'), _x('  '), _t('!-- c --', True), _x('  z')]),
         ('wF11e', [_t('#if t', True, False, True), _x('\n \n'), _t('!-- c --', True), _x('\t'), _t('/if', True)]),
         ('wF13', [_x('q\r  '), _t('#if t', True), _x('\ry'), _t('/if', True)]),
         ('wF14', [_t('#if t', True, False, True), _x('\n'), _t('v', False, False, False, 'V'), _x('\n foo'), _t('/if', True)])]
    for cid, items in W:
        cases.append(rcase(cid, source(items), DATA, partials=PARTS, entry=0, items=items, kind='grid', cellk=None, tags=['witness']))
    # the registry's prevent_indent option concerns what a PARTIAL writes; the standalone rule itself is the same with it:
    # an indented decorator / comment / block tag alone on its line still leaves no trace
    for i, (t, exp) in enumerate([('a\n  {{*sethelper "u"}}\nb', 'a\nb'), ('a\n\t{{! c }}\nb', 'a\nb'), ('a\n  {{#if t}}\n  x\n  {{/if}}\nb', 'a\n  x\nb'),
                                  ('a\n  {{#*inline "i"}}\n  x\n  {{/inline}}\nb{{> i}}', 'a\nb  x\n'), ('a\n  {{> p}}\nb', 'a\n  Pb'),
                                  ('  {{*sethelper "u"}}\nb', 'b'), ('a\n  {{*sethelper "u"}}', 'a\n')]):
        for pi in (1, 0):
            cases.append(rcase(f'pi{i}_{pi}', t, DATA, pre=['probes', f'pi {pi}'], partials=PARTS, entry=0, kind='exact', exp=exp, tags=['standalone-under-prevent-indent']))
    # `~` on a value expression equals deleting the whitespace by hand
    m = (150 if tier == 'quick' else 2000) * scale
    for i in range(m):
        A = rng.choice(['a', 'a\n', '{{v}}', 'a{{!c}}', '']) + rng.choice(['', ' ', '\n ', '\t\n\n  ', '\r\n'])
        B = rng.choice(['', ' ', '\n', ' \n\t']) + rng.choice(['b', '{{v}}b', ''])
        t1 = A + '{{~v~}}' + B
        t2 = A.rstrip(' \t\r\n') + '{{v}}' + B.lstrip(' \t\r\n')
        cases.append(rcase(f'h{i}a', t1, DATA, entry=4, kind='hand', grp=f'h{i}', role='tilde', cellk=None, tags=['hand-deletion']))
        cases.append(rcase(f'h{i}b', t2, DATA, entry=4, kind='hand', grp=f'h{i}', role='hand', cellk=None, tags=['hand-deletion']))
    return cases

def oracle(c, io, mo):
    if c['kind'] == 'exact':
        r = res_of(io)
        return None if r.get('out') == c['exp'] else f'expected {c["exp"]!r}, got {r.get("out", r.get("reason"))!r}'
    if c['kind'] not in ('grid', 'random'):
        return None
    r = res_of(io)
    exp = expected(c['items'])
    if r['kind'] != 'ok':
        return f'expected {exp!r}, got {r.get("reason", r["kind"])}'
    return None if r['out'] == exp else f'expected {exp!r}, got {r["out"]!r}'

def oracle_all(byid):
    out, g = [], {}
    for cid, (c, mo, io) in byid.items():
        if c['kind'] == 'hand':
            g.setdefault(c['grp'], {})[c['role']] = (c, res_of(io))
    for k, d in g.items():
        if len(d) == 2 and d['tilde'][1].get('out') != d['hand'][1].get('out'):
            out.append((d['tilde'][0], f"~ on a value expression renders {d['tilde'][1].get('out')!r}, hand deletion renders {d['hand'][1].get('out')!r}"))
    return out

def nontrivial(c, mo, io):
    return res_of(io)['kind'] == 'ok' and any(ch in c['tpl'] for ch in ' \t\n')

def relevant_difference(c, mo, io):
    return res_of(mo).get('out') != res_of(io).get('out') or res_of(mo)['kind'] != res_of(io)['kind']

import re as _re

def known_F13_lone_cr(c, mo, io):
    return bool(_re.search(r'\r(?!\n)', c['tpl']))

