"""C01 — path resolution: structured templates over scope stacks (each over
array/object, with, if), every path kind; oracle = reference scope semantics
written from the property text (tools/refsem.py)."""
from hblib import x, jtok
from gen import gen_object
from refsem import StructGen, Ref, to_source, StrictMissing, MISSING
from families.common import rcase, res_of

RULE = ('structured templates (nesting <= 5: each over arrays/objects, with, if/unless chains) over random JSON '
        'objects (identifier and non-identifier keys), paths drawn from the actual data at the current scope: '
        'relative, ../, @root, block-parameter heads, @index/@key/@first/@last, this./ ./ prefixes, [literal] '
        'segments; also probe cases calling RenderContext::evaluate and lookup. Non-trivial = the render '
        'succeeded and at least one path expression was evaluated inside a pushed scope')
ASSUMPTIONS = ['the reference scope semantics in tools/refsem.py is a transcription of the property text']

def gen_cases(rng, tier, scale):
    n = (600 if tier == 'quick' else 12000) * scale
    cases = []
    for k in range(n):
        data = gen_object(rng, depth=3, odd=0.12, width=4)
        g = StructGen(rng, data, missing=0.08, shadow=0.0)
        ast = g.gen_nodes(rng.randint(1, 5), rng.randint(1, 4))
        src = to_source(ast)
        cases.append(rcase(f'p{k}', src, data, entry=4, ast=ast, tags=['struct'], kind='struct'))
    # evaluate() and lookup agree with the inline path
    m = (150 if tier == 'quick' else 2000) * scale
    for k in range(m):
        data = gen_object(rng, depth=3, odd=0.05, width=4)
        g = StructGen(rng, data, missing=0.05, params=False, locals_=False, thisprefix=0.0)
        p = g.gen_path()
        from refsem import path_src
        ps = path_src(p)
        if '"' in ps or '\\' in ps:
            continue
        tpl = '{{%s}}|{{id (evalv "%s")}}' % (ps, ps)
        tpl = '{{{%s}}}|{{evalp "%s"}}' % (ps, ps)
        cases.append(rcase(f'e{k}', tpl, data, pre=['probes'], entry=4, path=p, tags=['evaluate'], kind='evaluate'))
    # fixed witnesses of the recorded findings (so that each is met on every run)
    W = [('w16', '{{#each a as |name|}}{{../name}}{{/each}}', {'a': [1, 2], 'name': 'ROOT'}, 'ROOTROOT'),
         ('w17a', '{{#with a as |name|}}{{this.name}} {{./name}}{{/with}}', {'a': {'name': 'INNER'}}, 'INNER INNER'),
         ('w17b', '{{#with a as |name|}}{{[name]}}{{/with}}', {'a': {'name': 'INNER'}}, 'INNER'),
         ('w9', '{{a.x}}|', {'a': [5, 6]}, '|'),
         ('w18', '{{a.[this]}}', {'a': {'this': 1}}, '1')]
    for cid, t, d, exp in W:
        cases.append(rcase(cid, t, d, entry=4, kind='witness', exp=exp, tags=['witness']))
    # block parameters over a collection that has no path in the data (a literal, a helper result, the context handed
    # to a partial): the value parameter is bound to the element itself, whatever the seed draws above
    D = {'o': {'a': {'n': 1}, 'b': {'n': 2}}, 'l': [{'n': 7}, {'n': 8}], 'n': 'ROOT'}
    V = [('v1', '{{#each [[3]] as |item i|}}({{item}}:{{i}}:{{this}}){{/each}}', '([3]:0:[3])', {}),
         ('v2', '{{#each (id o) as |v k|}}{{k}}={{v.n}},{{n}};{{/each}}', 'a=1,1;b=2,2;', {}),
         ('v3', '{{#each (id l) as |v|}}{{v.n}}{{@index}}{{/each}}', '7081', {}),
         ('v4', '{{#each (id l) as |v k|}}{{v.n}}{{k}}{{../n}}{{/each}}', '70ROOT81ROOT', {}),
         ('v5', '{{> p o}}', 'a=1;b=2;', {'p': '{{#each this as |v k|}}{{k}}={{v.n}};{{/each}}'}),
         ('v6', '{{> p l}}', '0=7;1=8;', {'p': '{{#each this as |v k|}}{{k}}={{v.n}};{{/each}}'}),
         ('v7', '{{#with (id o) as |w|}}{{w.a.n}}{{#each w as |v k|}}{{k}}{{v.n}}{{/each}}{{/with}}', '1a1b2', {}),
         ('v9', '{{#each l as |n|}}{{> q}}{{/each}}', '[7|][8|]', {'q': '[{{n}}|{{@index}}{{@first}}{{@last}}]'}),
         ('v10', '{{#each o as |n k|}}{{> q}}{{/each}}', '[1|][2|]', {'q': '[{{n}}|{{k}}{{@key}}]'}),
         ('v11', '{{#with l.[0] as |n|}}{{> q}}{{/with}}|{{#each l as |n|}}{{> q this}}{{/each}}', '[7|]|[7|][8|]', {'q': '[{{n}}|{{@index}}]'}),
         ('v12', '{{#each (id l) as |row|}}{{#with row}}{{../row.n}}{{/with}}{{/each}}', '78', {}),
         ('v13', '{{#each l as |v i|}}{{#with v}}{{../i}}{{/with}}{{/each}}|{{#each (id l) as |v|}}{{#each ../l}}{{../v.n}}{{/each}}{{/each}}', '01|7788', {}),
         ('v14', '{{> q3 o}}', 'a1b2', {'q3': '{{#each this as |v k|}}{{#with v}}{{../k}}{{../v.n}}{{/with}}{{/each}}'}),
         ('v8', '{{#each o as |v k|}}{{k}}={{v.n}};{{/each}}{{#each l as |v k|}}{{k}}={{v.n}};{{/each}}', 'a=1;b=2;0=7;1=8;', {})]
    for cid, t, exp, parts in V:
        cases.append(rcase(cid, t, D, pre=['probes'], partials=parts, entry=4, kind='witness', exp=exp, tags=['derived-collection']))
    return cases

def expected(c):
    ref = Ref(c['data'], strict=False)
    return ref.render(c['ast'])

def oracle(c, io, mo):
    r = res_of(io)
    if c['kind'] == 'struct':
        try:
            exp = expected(c)
        except ValueError:
            return None
        if r['kind'] != 'ok':
            return f"expected output {exp!r}, got {r.get('reason', r['kind'])} {r.get('payload', '')}"
        if r['out'] != exp:
            return f'expected {exp!r}, got {r["out"]!r}'
        return None
    if c['kind'] == 'witness':
        return None if r.get('out') == c['exp'] else f'expected {c["exp"]!r}, got {r.get("out", r.get("reason"))!r}'
    if c['kind'] == 'evaluate':
        if r['kind'] != 'ok':
            return None
        left, _, right = r['out'].partition('|')
        # evalp prints ev(m) | ev(<kind><canon>) ; compare missing-ness and rendered text where simple
        ref = Ref(c['data'])
        v = ref.designate(c['path'])
        miss = right == 'ev(m)'
        if (v is MISSING) != miss:
            return f'evaluate() missing={miss} but the path designates {"nothing" if v is MISSING else "a value"}'
        from refsem import render_value
        try:
            if left != render_value(v):
                return f'inline path rendered {left!r}, designated value renders {render_value(v)!r}'
        except ValueError:
            pass
    return None

def nontrivial(c, mo, io):
    r = res_of(io)
    return r['kind'] == 'ok' and ('#each' in c['tpl'] or '#with' in c['tpl'] or c['kind'] == 'evaluate')

def relevant_difference(c, mo, io):
    return res_of(mo).get('out') != res_of(io).get('out') or res_of(mo)['kind'] != res_of(io)['kind']

# known finding classes
def _impl_err(io, reason):
    r = res_of(io)
    return r['kind'] == 'err' and r['reason'] == reason

def known_F9_array_key(c, mo, io):
    return _impl_err(io, 'InvalidJsonIndex')

def known_F16_up_param(c, mo, io):
    return c['line'].startswith('w16 ')

def known_F17_bracket_param(c, mo, io):
    if c['line'].startswith('w17'):
        return True
    import re
    # an explicit [name] / this.name / ./name / ../name spelling whose head is a block-parameter name in scope
    params = set(re.findall(r'as \|([^|]*)\|', c['tpl']))
    names = {n for p in params for n in p.split()}
    for n in names:
        if re.search(r'(\{\{|\s|\()\[%s\]' % re.escape(n), c['tpl']):
            return True
    return False

def known_F18_this_key(c, mo, io):
    if c['line'].startswith('w18 '):
        return True
    return '[this]' in c['tpl']
