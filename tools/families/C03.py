"""C03 — text outside tags verbatim: random strings (quoted by replacing '{{' with '\\{{') as whole
templates, between/around tags, as raw-block bodies, comments."""
from hblib import x, jtok
from gen import gen_object, TplGen
from families.common import rcase, res_of

RULE = ('random strings over letters, braces, backslashes, quotes, spaces, tabs, CR, LF and non-ASCII '
        '(excluding a backslash immediately before "{{"), quoted with \\{{, as whole templates, as text '
        'between/around value tags, as raw-block bodies, and around comments; oracle render(quote(s)) == s. '
        'Non-trivial = the string contains a brace, a backslash or whitespace')
ALPHA = ['a', 'b', 'Z', '{', '{', '}', '}', '\\', '"', "'", ' ', ' ', '\t', '\r', '\n', '\n', 'é', '日', '{{', '}}', '{{{', '\\\\', '~', '#', '/', '!', '>', '*', '&', '^', 'else']

def rstr(rng, n=None, ws=True):
    al = ALPHA if ws else [c for c in ALPHA if c.strip() != '' or c == '']
    return ''.join(rng.choice(al) for _ in range(n if n is not None else rng.randint(0, 12)))

def ok_string(s):
    return '\\{{' not in s and not s.endswith('\\') or False

def fix(s, a, b):
    while a in s:
        s = s.replace(a, b)
    return s

def quote(s):
    return s.replace('{{', '\\{{')

def gen_cases(rng, tier, scale):
    cases = []
    n = (700 if tier == 'quick' else 15000) * scale
    k = 0
    while k < n:
        s = rstr(rng)
        if '\\{{' in s:
            continue
        kind = rng.choice(['whole', 'whole', 'between', 'rawblock', 'comment', 'tagfree'])
        if kind == 'tagfree':
            s = fix(s, '{{', '{ {')
            cases.append(rcase(f't{k}', s, {'v': 'V'}, entry=4, kind='whole', s=s, exp=s, tags=['tagfree']))
        elif kind == 'whole':
            if s.endswith('\\'):       # a trailing backslash would join the next quoted brace; fine at the end
                pass
            cases.append(rcase(f'w{k}', quote(s), {'v': 'V'}, entry=4, kind='whole', s=s, exp=s, tags=['quoted']))
        elif kind == 'between':
            # text with non-whitespace ends between value expressions (value tags never trim)
            core = 'x' + s + 'y'
            if '\\{{' in core:
                continue
            t = '{{v}}' + quote(core) + '{{{v}}}' + quote(core) + '{{v}}'
            cases.append(rcase(f'b{k}', t, {'v': 'V'}, entry=4, kind='whole', s=s, exp='V' + core + 'V' + core + 'V', tags=['between']))
        elif kind == 'rawblock':
            body = fix(s, '{{{{', '{ {{{')
            if '{{{{' in body or body.endswith('{') or body.endswith('\\'):
                k += 1
                continue
            body = body.replace('\\{{', 'x{{')
            t = 'A{{{{raw}}}}' + body + '{{{{/raw}}}}B'
            cases.append(rcase(f'r{k}', t, {}, entry=4, kind='raw', s=body, exp='A' + body + 'B', tags=['rawblock']))
        else:
            c = fix(fix(rstr(rng, 5), '}}', '} }'), '--', '- -')
            if c.endswith('}') or c.endswith('-'):
                c += ' '
            t = 'x' + quote(s) + 'y{{!' + c + '}}x' + quote(s) + 'y{{!--' + c + '--}}z'
            if '\\{{' in ('x' + s + 'y'):
                continue
            cases.append(rcase(f'c{k}', t, {}, entry=4, kind='whole', s=s, exp='x' + s + 'y' + 'x' + s + 'y' + 'z', tags=['comment']))
        k += 1
    # text next to a comment that follows (or precedes) a tag with `~`: a comment writes nothing and is a tag
    # boundary, so the `~` of the neighbouring tag reaches the comment and no further
    from wsspec import tag as _t, text as _x, expected as _exp, source as _src
    j = 0
    for pre_ in (_t('v', False, False, True, 'V'), _t('v', False, False, False, 'V'), _t('v', False, True, True, 'V')):
        for com in ('!c', '!-- c --', '! -- c --'):
            for mid in ('', ' '):
                for after in (' x', '  ', ' \n y', 'x', '\t{{v}}', ''):
                    for post in (None, _t('v', False, True, False, 'V')):
                        items = [_x('a '), pre_] + ([_x(mid)] if mid else []) + [_t(com, True)]
                        if after.endswith('{{v}}'):
                            items += [_x(after[:-5]), _t('v', False, False, False, 'V')]
                        else:
                            items += [_x(after)]
                        if post:
                            items += [post, _x(' z')]
                        cases.append(rcase(f'tc{j}', _src(items), {'v': 'V'}, entry=4, kind='whole', s=' ', exp=_exp(items), tags=['tilde-comment']))
                        j += 1
    # raw blocks whose tags stand alone on their lines (or carry ~), bodies starting with blanks / blank lines
    j = 0
    for body in ['  {{x}} y', '\n  z', ' \t{{x}}', 'k\n  m', '', ' ', '{{x}}', '\n\n a']:
        for tr in (False, True):
            for pre_, post_ in (('', ''), ('A\n', 'Z'), ('  ', '\n')):
                items = [_x(pre_), _t('raw', True, False, tr, quad=True), _x('\n' + body + '\n'), _t('/raw', True, quad=True), _x('\n' + post_)]
                cases.append(rcase(f'rb{j}', _src(items), {'x': 'X'}, entry=4, kind='whole', s=' ' + body, exp=_exp(items), tags=['rawblock-standalone']))
                j += 1
    # a dashed comment ends at `--}}` only: braces, closing braces and whole tags inside it are comment text
    for j3, body in enumerate([' }} ', ' {{x}} ', '{{#if a}}never{{/if}}', ' }}}} ', ' a }} b {{ c ', '}}', ' {{!inner}} ', ' {{{{raw}}}} ', '\n}}\n']):
        for pre_, post_ in (('x', 'y'), ('{{v}}', '{{v}}'), ('a ', ' b')):
            t = pre_ + '{{!--' + body + '--}}' + post_
            e = (pre_ + post_).replace('{{v}}', 'V')
            cases.append(rcase(f'dc{j3}_{len(pre_)}', t, {'v': 'V', 'a': True, 'x': 'X'}, entry=4, kind='whole', s='}}', exp=e, tags=['dashed-comment-braces']))
    # whitespace characters other than space and tab (NBSP, EM SPACE, IDEOGRAPHIC SPACE, LINE SEPARATOR, NEL, VT, FF) are
    # ordinary text: a tag sharing its line with one of them is not alone on the line, and they are never trimmed by the
    # standalone rule
    for j4, wch in enumerate(['\u00a0', '\u2003', '\u3000', '\u2028', '\u0085', '\x0b', '\x0c', '\u1680']):
        for shape in (0, 1, 2, 3):
            if shape == 0:
                items = [_x(wch), _t('#if t', True), _x('\nx\n'), _t('/if', True), _x('\n')]
            elif shape == 1:
                items = [_x('a\n'), _t('!c', True), _x(wch + '\nb')]
            elif shape == 2:
                items = [_x('a\n' + wch), _t('> p', True, False, False, 'P', partial=True), _x('\nb')]
            else:
                items = [_t('raw', True, quad=True), _x('\n' + wch + 'r' + wch + '\n'), _t('/raw', True, quad=True), _x(wch)]
            cases.append(rcase(f'uw{j4}_{shape}', _src(items), {'t': True}, partials={'p': 'P'}, entry=0, kind='whole', s=wch, exp=_exp(items), tags=['unicode-whitespace']))
    # an indented tag alone on its line written with a LEADING ~ after non-blank text: the ~ eats the line break and the
    # indentation, and nothing of the text before
    j5 = 0
    for pre_txt in ('abcdef\n', 'é日本\n\n', 'x y\n'):
        for ind in ('  ', '\t', ' \t '):
            for body, cap, out_, extra in (('#if t', True, '', [_x('\nx\n'), _t('/if', True), _x('\n')]), ('> p', True, 'P', [_x('\nz')]),
                                          ('v', False, 'V', [_x('\nz')]), ('raw', True, '', [_x('\nr\n'), _t('/raw', True, quad=True), _x('\n')])):
                quad = body == 'raw'
                items = [_x(pre_txt + ind), _t(body, cap, True, False, out_, quad=quad, partial=body.startswith('>'))] + extra
                cases.append(rcase(f'lt{j5}', _src(items), {'t': True, 'v': 'V'}, partials={'p': 'P'}, entry=0, kind='whole', s=' ' + pre_txt, exp=_exp(items), tags=['leading-tilde-indented']))
                j5 += 1
    # closing tag variant: {{#if t}}\n  hello\n    {{~/if}}\nend
    for ind in ('    ', '\t'):
        items = [_t('#if t', True), _x('\n  hello\n' + ind), _t('/if', True, True, False), _x('\nend')]
        cases.append(rcase(f'lt{j5}', _src(items), {'t': True}, entry=0, kind='whole', s=' hello', exp=_exp(items), tags=['leading-tilde-indented']))
        j5 += 1
    # text at the start of the RENDERED branch of an else / else-chain: only a `~` at the END of the else tag (or the
    # standalone rule) may remove it; a `~` at the start of the tag reaches backwards only
    j6 = 0
    for link in ('else', 'else if t', 'else unless f', 'else with o', 'else each l'):
        for tl in (False, True):
            for tr in (False, True):
                for L, R in ((' ', ' B'), ('A ', ' \tB '), ('A\n', '\n B\n'), ('', '  '), ('A\n  ', '\n  B\n')):
                    items = [_t('#if f', True), _x('x' + L, live=False), _t(link, True, tl, tr), _x(R + 'E'), _t('/if', True), _x('|')]
                    cases.append(rcase(f'lb{j6}', _src(items), {'t': True, 'f': False, 'o': {'k': 1}, 'l': [1]}, entry=0, kind='whole', s=R, exp=_exp(items), tags=['live-else-branch']))
                    j6 += 1
    # a block opened INLINE after text ending in blanks, with else / else-chain tags alone on their lines: the text in front of
    # the opening tag keeps its blanks (the standalone rule of the else tag concerns the else tag's own line only)
    j7 = 0
    for head in ('Status: ', 'k:\t', 'x  '):
        for open_, live in (('#if t', True), ('#if f', False), ('#each l', True)):
            for link in ('else if t', 'else', 'else unless f', '^if t'):
                if link.startswith('^') and open_.startswith('#each'):
                    continue
                items = [_x(head), _t(open_, True), _x('A\n', live=live), _t(link, True), _x('\nB\n', live=not live), _t('/' + open_[1:].split(' ')[0], True), _x('\ndone')]
                cases.append(rcase(f'ie{j7}', _src(items), {'t': True, 'f': False, 'l': [1]}, entry=0, kind='whole', s=head, exp=_exp(items), tags=['inline-open-standalone-else']))
                j7 += 1
    # an escape inside a raw block body is resolved like outside (the backslash goes, the braces stay literal)
    for j8, (tpl, exp) in enumerate([('{{{{raw}}}}\\{{x}}{{{{/raw}}}}', '{{x}}'), ('{{{{raw}}}} a \\{{x}} b {{y}} {{{{/raw}}}}|\\{{z}}', ' a {{x}} b {{y}} |{{z}}'),
                                     ('A{{{{raw}}}}\n\\{{#if}} é\n{{{{/raw}}}}B', None), ('{{{{raw}}}}\\\\{{x}}{{{{/raw}}}}', None)]):
        if exp is None:
            cases.append(rcase(f're{j8}', tpl, {'x': 'X', 'y': 'Y', 'z': 'Z'}, entry=4, kind='corr', s='\\', exp=None, tags=['escape-in-raw-block']))
        else:
            cases.append(rcase(f're{j8}', tpl, {'x': 'X', 'y': 'Y', 'z': 'Z'}, entry=4, kind='whole', s='\\', exp=exp, tags=['escape-in-raw-block']))
    # a lone CR (not followed by LF) is ordinary text: it is never removed, also not directly after a tag that
    # stands at the start of a line
    for j2, (tpl, exp) in enumerate([('{{! note }}\rbody', '\rbody'), ('{{#if t}}\rx{{/if}}', '\rx'), ('{{{{raw}}}}\rz{{{{/raw}}}}', '\rz'),
                                    ('a{{#if f}}n{{else}}\r\r\nb{{/if}}', 'a\r\r\nb'), ('{{#if t}}x{{/if}}\ry', 'x\ry'), ('{{> p}}\rq', 'P\rq'),
                                    ('x\r{{!c}}\ry', 'x\r\ry'), ('{{#if t}}\r\rx{{/if}}', '\r\rx')]):
        cases.append(rcase(f'cr{j2}', tpl, {'t': True, 'f': False}, partials={'p': 'P'}, entry=0, kind='whole', s='\r', exp=exp, tags=['lone-cr']))
    return cases

def oracle(c, io, mo):
    r = res_of(io)
    if c['kind'] == 'corr':
        return None          # decided by the correspondence alone
    if r['kind'] != 'ok':
        return f'expected the text {c["exp"]!r}, got {r.get("reason", r["kind"])} {r.get("payload","")}'
    if r['out'] != c['exp']:
        return f'expected {c["exp"]!r}, got {r["out"]!r}'
    return None

def nontrivial(c, mo, io):
    s = c['s']
    return any(ch in s for ch in '{}\\ \t\r\n')

def relevant_difference(c, mo, io):
    return res_of(mo).get('out') != res_of(io).get('out') or res_of(mo)['kind'] != res_of(io)['kind']

