"""C08 — compositionality: render(A+'|'+B) vs render(A+'|') ++ render('|'+B); a construct repeated
2..4 times; probe `state` between siblings."""
from hblib import x, jtok
from gen import gen_object, TplGen
from families.common import rcase, res_of

RULE = ('pairs/triples of generated templates (all construct kinds incl. partials, partial blocks, inline '
        'partials in B only, triple braces, ~ tags, nesting <= 4) joined by "|", and single constructs repeated '
        '2..4 times; oracle: out(A|B) = out(A|) minus the bar ++ out(|B), out((A|)^n) = out(A|)^n, and failure '
        'of a part implies failure of the whole. Non-trivial = both parts produce non-empty output')

def gen_cases(rng, tier, scale):
    cases = []
    n = (350 if tier == 'quick' else 6000) * scale
    for k in range(n):
        data = gen_object(rng, 3, odd=0.05)
        parts = {'p1': '<{{this.a}}{{> @partial-block}}>' if k % 2 else '({{name}})', 'p2': 'P2{{#if x1}}y{{/if}}'}
        o = dict(partials=['p1', 'p2'], partial_blocks=True, tilde=(k % 3 == 0), ws=(k % 3 == 0), missing=0.05,
                 inline=False, decorators=False)
        if k % 2:
            o['partials'] = ['p2']        # p1 needs a block
        ga = TplGen(rng, data, **o)
        A = ga.template(rng.randint(1, 2))
        if k % 2 and rng.random() < 0.6:
            A += '{{#> p1}}' + ga.text() + '{{/p1}}'
        gb = TplGen(rng, data, **dict(o, inline=True))
        B = gb.template(rng.randint(1, 2))
        pre = ['pi 1'] if k % 7 == 0 else []
        grp = f'g{k}'
        rep = rng.randint(2, 4)
        # every repeated copy sits between two bars (start/end of the template are line boundaries for the
        # standalone rule, so a copy must not touch them)
        for name, tpl in (('AB', A + '|' + B), ('A', A + '|'), ('B', '|' + B), ('S', '|' + A + '|'), ('R', '|' + (A + '|') * rep)):
            cases.append(rcase(f'{grp}{name}', tpl, data, pre=pre, partials=parts, entry=0, kind=name, grp=grp, rep=rep,
                               tags=[name]))
    # composition INSIDE a partial that received a block, and inside a block body that a partial renders: there the
    # @partial-block binding is observable, so a construct that leaks it changes what a later sibling renders
    ATOMS = ['t', '{{> @partial-block}}', '{{> leaf}}', '{{#> p1}}u{{/p1}}', '{{#> p1}}{{> @partial-block}}{{/p1}}',
             '{{#if yes}}{{> @partial-block}}{{/if}}', '{{#each two}}{{> @partial-block}}{{/each}}', '{{{v}}}', '{{v}}',
             '{{#> nolayout}}{{> @partial-block}}{{/nolayout}}', '{{#> p1}}{{#> p1}}{{> @partial-block}}{{/p1}}{{/p1}}', '{{> leaf v=1}}',
             '{{#with o}}{{> @partial-block}}{{/with}}', '{{{e}}}', '{{{nul}}}', '{{&e}}', '{{{zz}}}']
    WRAPS = [('{{#> lay}}[{{v}}]{{/lay}}', 'lay', None),
             ('{{#> outer}}C{{v}}{{/outer}}', 'body', '[{{#> inner}}%s{{/inner}}]')]
    mpb = (150 if tier == 'quick' else 3000) * scale
    for k in range(mpb):
        data = {'v': '<&>', 'yes': True, 'two': [1, 2], 'o': {'v': 'in'}, 'e': '', 'nul': None}
        A = ''.join(rng.choice(ATOMS) for _ in range(rng.randint(1, 3)))
        B = ''.join(rng.choice(ATOMS) for _ in range(rng.randint(1, 3)))
        main, slot, frame = WRAPS[k % 2]
        rep = rng.randint(2, 4)
        grp = f'pc{k}'
        for name, tpl in (('AB', A + '|' + B), ('A', A + '|'), ('B', '|' + B), ('S', '|' + A + '|'), ('R', '|' + (A + '|') * rep)):
            parts = {'p1': '<{{> @partial-block}}>', 'leaf': 'L{{v}}', 'inner': '({{> @partial-block}})'}
            if slot == 'lay':
                parts['lay'] = tpl
            else:
                parts['outer'] = frame % tpl
            cases.append(rcase(f'{grp}{name}', main, data, partials=parts, entry=0, kind=name, grp=grp, rep=rep, wrap=slot,
                               tags=['in-partial:' + slot]))
    # compile-time whitespace flags: a `~` or a standalone tag in A must not reach past the bar into B (and vice versa);
    # atoms are tags with tildes, both comment spellings, text and blank runs
    WSA = ['{{v~}}', '{{~v}}', '{{v}}', ' k', 'x', ' ', '  ', '\n', '{{!-- c --}}', '{{! c }}', '{{#if yes~}} y {{~/if}}', '{{#if yes}}\n y\n{{/if}}',
           '{{~#each two~}} {{this}} {{/each}}', '{{> leaf~}}', '{{{{raw}}}} r {{{{/raw}}}}', '{{~!-- d --}}'.replace('~!', '!')]
    mws = (150 if tier == 'quick' else 3000) * scale
    for k in range(mws):
        data = {'v': 'V', 'yes': True, 'two': [1, 2]}
        A = ''.join(rng.choice(WSA) for _ in range(rng.randint(2, 5)))
        B = ''.join(rng.choice(WSA) for _ in range(rng.randint(2, 5)))
        rep = rng.randint(2, 4)
        grp = f'ws{k}'
        for name, tpl in (('AB', A + '|' + B), ('A', A + '|'), ('B', '|' + B), ('S', '|' + A + '|'), ('R', '|' + (A + '|') * rep)):
            cases.append(rcase(f'{grp}{name}', tpl, data, partials={'leaf': 'L'}, entry=0, kind=name, grp=grp, rep=rep, tags=['whitespace-flags']))
    # ... fixed shapes (whatever the seed): a standalone-position tag ending in `~}}` followed by an unescaped expression and a
    # line break — the standalone marker the tag set must not survive the expression and eat the text after it
    WSF = ['{{#if yes~}}\n{{{v}}}\n y{{/if}}', '{{#if yes~}}\n{{&v}}  \n y{{/if}}', '{{#if yes}}a{{/if~}}\n{{{v}}}\n b', '{{> leaf~}}\n {{{v}}}\n c',
           '{{#if no}}n{{else~}}\n{{{v}}}\n\n d{{/if}}', '{{#if yes~}}\n{{v}}\n y{{/if}}', '{{#each two~}}\n{{{this}}}\n e{{/each}}', '{{! c ~}}\n{{{v}}}\n f']
    for k, A in enumerate(WSF):
        data = {'v': 'V', 'yes': True, 'no': False, 'two': [1, 2]}
        B = '{{v}} z'
        rep = 3
        grp = f'wsf{k}'
        for name, tpl in (('AB', A + '|' + B), ('A', A + '|'), ('B', '|' + B), ('S', '|' + A + '|'), ('R', '|' + (A + '|') * rep)):
            cases.append(rcase(f'{grp}{name}', tpl, data, partials={'leaf': 'L'}, entry=0, kind=name, grp=grp, rep=rep, tags=['whitespace-flags-fixed']))
    # a construct that writes nothing leaves no trace: T' = T with an empty construct inserted directly in front of a
    # non-blank text character (so it is never alone on its line) renders like T — inside indented partials, partials
    # entered in the middle of a line, after `~` tags, inside blocks
    EMPTIES = ['{{> empty}}', '{{#> empty}}d{{/empty}}', '{{#if no}}x{{/if}}', '{{#each none}}x{{/each}}', '{{e}}', '{{{e}}}',
               '{{#with o}}{{#if no}}x{{/if}}{{/with}}', '{{> empty}}{{> empty}}', '{{#if yes}}{{e}}{{/if}}', '{{#*inline "zz"}}q{{/inline}}']
    LINES = ['text\n', 'next {{v}}\n', '{{v}} w\n', 'k:{{#if yes}}y{{/if}};\n', '{{#if yes}}b{{/if}}|c\n', 'a{{#with o}}i\nj{{/with}}o\n', '{{#each two}}\n i{{this}}\n{{/each}}\n',
             'x{{> leaf}}y\n', '  {{> leaf}}\n', 'p\n\nq\n', '{{#if yes~}}\n  t\n{{/if}}\n', 'last']
    mne = (150 if tier == 'quick' else 3000) * scale
    for k in range(mne):
        data = {'v': 'V', 'yes': True, 'no': False, 'two': [1, 2], 'none': [], 'e': '', 'o': {'v': 'in'}}
        body = lambda: ''.join(rng.choice(LINES) for _ in range(rng.randint(1, 3)))
        parts = {'empty': '', 'leaf': 'L\nl2\n', 'mid': body(), 'outer': 'head\n{{> mid}}| tail\n' + body()}
        main = rng.choice(['a\n    {{> outer}}\nz', 'abc\n{{~#if yes}}\n  {{> mid}}\n{{/if}}', '{{> outer}}', '\t{{> mid}}\n', 'a {{> outer}} z'])
        which = rng.choice(['mid', 'outer', 'mid'])
        src = parts[which]
        spots = [i for i, ch in enumerate(src) if ch not in ' \t\r\n{}' and (i == 0 or src[i - 1] not in '{#/>~') and src.count('{{', 0, i) == src.count('}}', 0, i)]
        # ... and directly in front of a closing tag that follows non-blank text (the construct is then the LAST child
        # of the enclosing block)
        spots += [i for i in range(1, len(src) - 2) if src[i:i + 3] == '{{/' and src[i - 1] not in ' \t\r\n}']
        if not spots:
            continue
        i = rng.choice(spots)
        E = rng.choice(EMPTIES)
        parts2 = dict(parts)
        parts2[which] = src[:i] + E + src[i:]
        grp = f'ne{k}'
        cases.append(rcase(f'{grp}T', main, data, partials=parts, entry=0, kind='noopT', grp=grp, tags=['noop-insert']))
        cases.append(rcase(f'{grp}U', main, data, partials=parts2, entry=0, kind='noopU', grp=grp, E=E, tags=['noop-insert']))
    # the same relation on fixed pairs (whatever the seed): the shapes in which the three 'last written' flags decide an
    # indentation — a block that wrote text and ends with a construct writing nothing, a partial entered in mid-line or
    # after `~` whose body starts with one, an each whose iterations end with one
    NOOP = [('{{#if yes}}b{{/if}}|c', '{{#if yes}}b{{#if no}}x{{/if}}{{/if}}|c'),
            ('{{#if yes}}b\n{{/if}}c\n', '{{#if yes}}b\n{{#if no}}x{{/if}}{{/if}}c\n'),
            ('{{#each two}}{{this}}{{/each}}.\n', '{{#each two}}{{this}}{{#if no}}, {{/if}}{{/each}}.\n'),
            ('a{{> leaf}}o\n', 'a{{> leaf}}{{> empty}}o\n'), ('text\nnext\n', '{{> empty}}text\nnext\n'),
            ('text\nnext\n', '{{#if no}}x{{/if}}text\nnext\n'), ('{{#with o}}w{{/with}};\nq\n', '{{#with o}}w{{e}}{{/with}};\nq\n'),
            ('items:{{#each two}}\n{{this}}\n{{/each}}end\n', 'items:{{#each two}}\n{{this}}\n{{#if no}}x{{/if}}{{/each}}end\n'),
            # constructs whose only write is an EMPTY string (they do call the writer)
            ('bar\n', '{{#if yes}}{{e}}{{/if}}bar\n'), ('bar\n', '{{lookup this "e"}}bar\n'), ('bar\n', '{{> qe}}bar\n'), ('bar\n', '{{{e}}}bar\n'),
            ('x{{#with o}}{{/with}}bar\n', 'x{{#with o}}{{@root.e}}{{/with}}bar\n')]
    MAINS = ['<\n  {{> mid}}\n>', 'a\n    {{> outer}}\nz', 'abc\n{{~#if yes}}\n  {{> mid}}\n{{/if}}', '\t{{> mid}}', '{{> outer}}',
             '{{> nonl}}\n  {{> mid}}\n', 'k{{> nonl}}\n\t{{> outer}}\n']
    kn = 0
    for tb, ub in NOOP:
        for main in MAINS:
            data = {'v': 'V', 'yes': True, 'no': False, 'two': [1, 2], 'none': [], 'e': '', 'o': {'v': 'in'}}
            for nm, body in (('T', tb), ('U', ub)):
                parts = {'empty': '', 'leaf': 'L\nl2\n', 'mid': body, 'outer': 'head\n{{> mid}}| tail\n', 'nonl': 'foo', 'qe': '{{e}}'}
                cases.append(rcase(f'nf{kn}{nm}', main, data, partials=parts, entry=0, kind='noop' + nm, grp=f'nf{kn}', E=ub, tags=['noop-fixed']))
            kn += 1
    # state probes between siblings
    m = (100 if tier == 'quick' else 1500) * scale
    for k in range(m):
        data = gen_object(rng, 3, odd=0.05)
        parts = {'p1': '({{name}}{{> @partial-block}})', 'p2': 'P2'}
        g = TplGen(rng, data, partials=['p2'], tilde=False, missing=0.05)
        A = g.template(rng.randint(1, 2))
        if rng.random() < 0.5:
            A += '{{#> p1}}x{{/p1}}'
        tpl = '{{state}}|' + A + '|{{state}}'
        cases.append(rcase(f's{k}', tpl, data, pre=['probes'], partials=parts, entry=0, kind='state', grp=f's{k}', tags=['state']))
    # the same around each built-in in its body-less and empty-bodied forms, whatever the seed
    data = {'a': {'x': 1}, 'l': [1, 2], 'none': [], 'yes': True, 'no': False, 'name': 'N'}
    parts = {'p1': '({{name}}{{> @partial-block}})', 'p2': 'P2'}
    FORMS = ['{{with a}}', '{{with no}}', '{{#if (with 1)}}x{{/if}}', '{{#unless (with a)}}x{{/unless}}', '{{each l}}', '{{each none}}',
             '{{if yes}}', '{{unless no}}', '{{#with a}}{{/with}}', '{{#with no}}{{else}}{{/with}}', '{{#each l}}{{/each}}',
             '{{#each none}}{{else}}e{{/each}}', '{{#each a}}{{/each}}', '{{lookup a "x"}}', '{{#> nop}}{{/nop}}', '{{> p2}}',
             '{{#> p1}}{{/p1}}', '{{#> p1}}{{with a}}{{/p1}}', '{{#*inline "i"}}{{with a}}{{/inline}}{{> i}}', '{{#with a as |w|}}{{with w}}{{/with}}',
             '{{#each l as |v k|}}{{each ../l}}{{/each}}', '{{(with a)}}', '{{#if yes}}{{else}}{{/if}}', '{{#if no}}{{else with a}}{{/if}}']
    for k, A in enumerate(FORMS):
        cases.append(rcase(f'sf{k}', '{{state}}|' + A + '|{{state}}', data, pre=['probes'], partials=parts, entry=0, kind='state', grp=f'sf{k}', tags=['state-fixed']))
    return cases

def oracle_all(byid):
    out = []
    groups = {}
    for cid, (c, mo, io) in byid.items():
        groups.setdefault(c['grp'], {})[c['kind']] = (c, res_of(io))
    for g, d in groups.items():
        if 'state' in d:
            c, r = d['state']
            if r['kind'] == 'ok':
                import re
                sts = re.findall(r'state\([^)]*\)', r['out'])
                if len(sts) == 2:
                    def strip(s):   # the three "last written" flags are not part of the claim
                        return re.sub(r';(tn|cp|ibw)=[01]', '', s)
                    if strip(sts[0]) != strip(sts[1]):
                        out.append((c, f'render state differs after a finished construct: {sts[0]} vs {sts[1]}'))
            continue
        if 'noopT' in d and 'noopU' in d:
            (ct, t), (cu, u) = d['noopT'], d['noopU']
            if t['kind'] == 'ok' and (u['kind'] != 'ok' or u['out'] != t['out']):
                out.append((cu, f'inserting {cu["E"]} (which writes nothing) changes the rendering: {t["out"]!r} becomes {u.get("out", u.get("reason"))!r}'))
            continue
        if not all(k in d for k in ('AB', 'A', 'B', 'R', 'S')):
            continue
        (cab, ab), (ca, a), (cb, b), (cr, rr), (cs, ss) = d['AB'], d['A'], d['B'], d['R'], d['S']
        if cab.get('wrap'):
            # the composed text sits inside the fixed frame the wrapper partials write: strip it
            pre_, suf_ = ('', '') if cab['wrap'] == 'lay' else ('[(', ')]')
            def inner(r):
                if r['kind'] == 'ok' and r['out'].startswith(pre_) and r['out'].endswith(suf_):
                    return dict(r, out=r['out'][len(pre_):len(r['out']) - len(suf_)])
                return r
            ab, a, b, rr, ss = inner(ab), inner(a), inner(b), inner(rr), inner(ss)
        if a['kind'] == 'ok' and b['kind'] == 'ok':
            exp = a['out'][:-1] + b['out'] if a['out'].endswith('|') else None
            if exp is not None:
                if ab['kind'] != 'ok':
                    out.append((cab, f'A and B render alone but A|B fails: {ab.get("reason")} {ab.get("payload")}'))
                elif ab['out'] != exp:
                    out.append((cab, f'out(A|B) = {ab["out"]!r} but out(A|)+out(|B) = {exp!r}'))
        elif a['kind'] == 'err' and ab['kind'] == 'ok':
            out.append((cab, 'A fails alone but A|B succeeds'))
        elif a['kind'] == 'ok' and b['kind'] == 'err' and ab['kind'] == 'ok':
            out.append((cab, 'B fails alone but A|B succeeds'))
        if ss['kind'] == 'ok' and ss['out'].startswith('|'):
            exp = '|' + ss['out'][1:] * ca['rep']
            if rr['kind'] != 'ok':
                out.append((cr, f'a construct rendered {ca["rep"]} times fails: {rr.get("reason")} {rr.get("payload")}'))
            elif rr['out'] != exp:
                out.append((cr, f'{ca["rep"]} copies render {rr["out"]!r}, expected {exp!r}'))
    return out

def nontrivial(c, mo, io):
    r = res_of(io)
    return r['kind'] == 'ok' and len(r['out']) > 1

def relevant_difference(c, mo, io):
    return res_of(mo).get('out') != res_of(io).get('out') or res_of(mo)['kind'] != res_of(io)['kind']

