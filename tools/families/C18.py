"""C18 — a render error points at the tag that failed: multi-line template sets (multi-byte characters,
CRLF) with exactly one failing tag planted at a random nesting position in a random template, every
failure kind; compile errors: name and a position inside the source."""
from hblib import x, jtok
from families.common import rcase, res_of

RULE = ('template sets {main, part} built from lines (text with multi-byte characters, LF/CRLF) in which '
        'exactly one failing tag is planted: strict missing variable, unknown helper, unknown partial, unknown '
        'decorator, helper argument error (probe fail / lookup without arguments); at top level, inside '
        'if/else/each/with, in an else-chain link, inside an inline partial, inside a partial-block body, inside '
        'a registered partial called from main; oracle: (template name, line, column) of the planted tag. '
        'Non-trivial = the tag is on line > 1 or nested')
FAIL = {
    'missing': ('{{zz}}', 'MissingVariable'),
    'helper': ('{{nohelper 1}}', 'HelperNotFound'),
    'partial': ('{{> nopartial}}', 'PartialNotFound'),
    'decorator': ('{{*nodeco}}', 'DecoratorNotFound'),
    'probe': ('{{fail}}', 'Other'),
    'argerr': ('{{lookup}}', 'ParamNotFoundForIndex'),
    'blockhelper': ('{{#nohelper}}x{{/nohelper}}', 'HelperNotFound'),
}
TEXTS = ['abc', 'é日本', 'x y', '😀', '', 'T:']
# constructs that may precede the failing tag in the SAME element list (each renders without error): every
# element kind, with and without `~`, after blank-only and after non-blank text (the position vector is
# parallel to the element list, so an element dropped or added on one side only shifts every later position)
SIBS = ['{{@root.v}}', '{{{@root.v}}}', '{{~@root.v}}', '{{@root.v~}}', '{{~@root.v~}}', ' ', '  ', '\t', 'w', 'é', '{{!c}}', '{{!-- c --}}',
        '{{#if @root.t}}y{{/if}}', '{{~#if @root.t~}} y {{~/if~}}', '{{#if @root.f}}n{{else}} e{{/if}}', '{{#if @root.f}}n{{~else~}} e{{/if}}',
        '{{> ok}}', '{{~> ok}}', '{{> ok~}}', '{{#*inline "z"}}i{{/inline}}', '{{~#*inline "z"}}i{{/inline}}',
        '{{{{raw}}}} r {{{{/raw}}}}', '\\{{esc}}', '{{#> ok}}d{{/ok}}', '{{~#each @root.l~}} {{this}} {{~/each}}']

def siblings(rng, nl):
    if rng.random() < 0.4:
        return ''
    out = []
    for _ in range(rng.randint(1, 5)):
        r = rng.random()
        out.append(nl + rng.choice(['', ' ', '  ']) if r < 0.15 else rng.choice(SIBS))
    return ''.join(out)

def linecol(src, idx):
    """pest line/col of character offset idx (CRLF counts as one break, lone CR as a column)"""
    line, col, i = 1, 1, 0
    while i < idx:
        ch = src[i]
        if ch == '\r' and i + 1 < len(src) and src[i + 1] == '\n' and i + 1 < idx + 1:
            if i + 1 < idx:
                i += 2; line += 1; col = 1; continue
            i += 1; col += 1; continue
        if ch == '\n':
            line += 1; col = 1
        else:
            col += 1
        i += 1
    return line, col

def gen_cases(rng, tier, scale):
    cases = []
    n = (400 if tier == 'quick' else 8000) * scale
    for k in range(n):
        kind = rng.choice(list(FAIL))
        tag, reason = FAIL[kind]
        nl = rng.choice(['\n', '\n', '\r\n'])
        where = rng.choice(['top', 'if', 'else', 'each', 'with', 'chain', 'inline', 'pblock', 'part', 'nested', 'capture'])
        MARK = '\x00'
        pre_lines = ''.join(rng.choice(TEXTS) + ('{{v}}' if rng.random() < 0.3 else '') + nl for _ in range(rng.randint(0, 3)))
        ind = rng.choice(['', ' ', '  é'])
        body = siblings(rng, nl) + ind + MARK
        parts = {'ok': 'O'}
        errtpl = 'main'
        if where == 'top':
            main = pre_lines + 'a ' + body + ' b'
        elif where == 'if':
            main = pre_lines + '{{#if t}}' + nl + 'x' + body + nl + '{{/if}}'
        elif where == 'else':
            main = pre_lines + '{{#if f}}no{{else}}' + nl + 'x' + body + '{{/if}}'
        elif where == 'each':
            main = pre_lines + '{{#each l}}' + nl + 'x' + body + nl + '{{/each}}'
        elif where == 'with':
            main = pre_lines + '{{#with o}}x' + body + '{{/with}}'
        elif where == 'nested':
            main = pre_lines + '{{#if t}}' + nl + '{{#each l}}' + nl + '{{#with @root.o}}x' + body + '{{/with}}{{/each}}{{/if}}'
        elif where == 'chain':
            # the failing tag IS the chain link's condition: position of the chain's opening tag
            cond = {'helper': '(nohelper 1)', 'probe': '(fail)', 'argerr': '(lookup)'}.get(kind)
            if cond is None:
                continue
            main = pre_lines + 'q' + MARK + '{{#if f}}A{{else if ' + cond + '}}B{{/if}}'
            tag = ''
        elif where == 'capture':
            # the body of a user block helper that captures it with Renderable::renders (probe local helper, tag c:)
            main = pre_lines + '{{*sethelper "cap" "c:"}}{{#cap}}' + nl + 'x' + body + nl + '{{/cap}}'
        elif where == 'inline':
            main = pre_lines + '{{#*inline "il"}}' + nl + 'x' + body + nl + '{{/inline}}' + nl + '{{> il}}'
        elif where == 'pblock':
            parts['wrap'] = '[{{> @partial-block}}]'
            main = pre_lines + '{{#> wrap}}' + nl + 'x' + body + nl + '{{/wrap}}'
        else:
            parts['part'] = pre_lines + 'p' + body + nl + 'tail'
            main = 'm' + nl + '{{> part}}'
            errtpl = 'part'
        if k % 5 == 2:
            if where == 'part':
                parts['part'] = '\ufeff' + parts['part']
            else:
                main = '\ufeff' + main
        src = parts['part'] if where == 'part' else main
        idx = src.index(MARK)
        src = src.replace(MARK, tag)
        if where == 'part':
            parts['part'] = src
        else:
            main = src
        line, col = linecol(src, idx)
        data = {'t': True, 'f': False, 'l': [1], 'o': {'k': 1}, 'v': 'V'}
        pre = ['probes'] + (['strict 1'] if kind == 'missing' else [])
        if k % 6 == 5 and where != 'part':
            # the same template registered from a FILE with dev mode on (it is recompiled from the file at render time)
            ops = pre + ['dev 1'] + [f'regs {x(n_)} {x(s_)}' for n_, s_ in parts.items()] + [f'fw {x("f1")} {x(main)}', f'regf {x("main")} {x("f1")}',
                                                                                           f'r 0 {x("main")} {jtok(data)} -1']
            cases.append({'line': f'e{k} ' + ' ; '.join(ops), 'tpl': main, 'data': data, 'kind': 'render', 'where': where, 'fkind': kind,
                          'exp': (errtpl, line, col, reason), 'tags': [where, kind, 'dev-file']})
            continue
        cases.append(rcase(f'e{k}', main, data, pre=pre, partials=parts, entry=rng.choice([0, 2]), kind='render', where=where, fkind=kind,
                           exp=(errtpl, line, col, reason), tags=[where, kind]))
    # compile errors: name given at registration and a position inside the source
    bad = ['{{#if a}}x', 'a\n{{/if}}', '{{#if a}}\n x{{/each}}', 'é\r\n{{> }}', '{{#each a}}{{else}}{{else}}{{/each}}\n{{', '{{foo "unterminated}}', 'x{{#*inline}}',
           'héllo\r\n{{#> layout}}\r\n  body\r\n  {{/layuot}}\r\n', '{{#if a}}\n  {{#*inline "row"}}\n    x\n  {{/row}}\n{{/if}}\n', '{{#> p}}{{#if a}}{{/p}}{{/if}}',
           '{{#*inline "a"}}{{/inline}}{{#*inline "b"}}x{{/b}}', '{{#each a}}{{#> q}}{{/each}}{{/q}}', '{{h (a (b)}}', '{{h k=}}', "{{h 'x}}"]
    for k, b in enumerate(bad):
        nm, nm2 = ('pages/home', 'wid gets') if k % 2 else ('nm', 'nm2')
        cases.append({'line': f'c{k} regs {x(nm)} {x(b)} ; regt {x(nm2)} 1 {x(b)} ; regp {x(nm2)} {x(b)} ; rt 4 {x(b)} {{}} -1', 'kind': 'compile', 'src': b,
                      'names': [nm, nm2, nm2], 'tpl': b, 'tags': ['compile']})
    return cases

def oracle(c, io, mo):
    if c['kind'] == 'compile':
        toks = io.split(' ')
        lines = c['src'].count('\n') + 1
        import hblib
        got = hblib.TERR_NAMES.get(c['line'].split(' ', 1)[0])
        want = [x(n) for n in c['names']]
        if got != want:
            return f'a compile error carries the name the template was registered under: expected {c["names"]!r}, got {got!r}'
        for t in toks[:3]:
            p = t.split(':')
            if p[0] != 'terr':
                return f'expected a template error, got {t}'
            if p[1] in ('syntax', 'mismatch_helper', 'mismatch_decorator'):
                if p[2] == '-' or not (1 <= int(p[2]) <= lines) or int(p[3]) < 1:
                    return f'template error position {p[2]}:{p[3]} is not inside the source ({lines} lines)'
        return None
    r = res_of(io)
    name, line, col, reason = c['exp']
    if r['kind'] != 'err':
        return f'expected {reason} at {name}:{line}:{col}, got {r.get("out", r["kind"])!r}'
    if r['reason'] != reason:
        return f'expected {reason}, got {r["reason"]}'
    if (r['tpl'], r['line'], r['col']) != (name, line, col):
        return f'{c["where"]}/{c["fkind"]}: error reported at {r["tpl"]}:{r["line"]}:{r["col"]}, the tag is at {name}:{line}:{col}'
    return None

def nontrivial(c, mo, io):
    return c['kind'] == 'render' and (c['exp'][1] > 1 or c['where'] != 'top')

def relevant_difference(c, mo, io):
    a, b = res_of(mo), res_of(io)
    return (a.get('tpl'), a.get('line'), a.get('col'), a.get('reason')) != (b.get('tpl'), b.get('line'), b.get('col'), b.get('reason'))

def known_F7_partial_block_name(c, mo, io):
    r = res_of(io)
    return c.get('where') == 'pblock' and r['kind'] == 'err' and r['tpl'] == 'wrap' and (r['line'], r['col']) == (c['exp'][1], c['exp'][2])
