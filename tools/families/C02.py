"""C02 — escaping: exhaustive html_escape over all scalar values (checksum + per-range), random strings
through `leaf esc`, and a marking escape function (esc 2) at every expression kind and position."""
import re
from hblib import x, jtok, unx
from gen import gen_object, TplGen
from families.common import rcase, res_of

RULE = ('html_escape over ALL 1 112 064 scalar values (folded checksum compared with the model, every run), '
        'random strings over an alphabet of all special characters through leaf esc with an unescape oracle; '
        'marking escape fn at every expression kind ({{v}}, {{{v}}}, {{&v}}, {{ {v} }}, {{(helper ..)}}, helper results, helper '
        'arguments, subexpressions) and position (top level, each/with/if, partials, after a triple brace). '
        'Non-trivial = the value contains a special character or a marker was produced')
EXHAUSTIVE = {'quick': True, 'thorough': True}
SPECIAL = ['<', '>', '"', "'", '`', '=', '&', '&amp;', '&lt', 'a', 'b', ' ', 'é', ' ', '\U0001F600', '\n', '&#x27;', ';', '#']
ENT = {'&lt;': '<', '&gt;': '>', '&quot;': '"', '&amp;': '&', '&#x27;': "'", '&#x60;': '`', '&#x3D;': '='}

def rs(rng, n=None):
    return ''.join(rng.choice(SPECIAL) for _ in range(n if n is not None else rng.randint(0, 8)))

def gen_cases(rng, tier, scale):
    cases = [{'line': 'all eschtml 0 1114112 ; eschtml 0 128 ; eschtml 128 2048 ; eschtml 2048 65536 ; eschtml 65536 1114112',
              'kind': 'eschtml', 'tags': ['exhaustive']}]
    n = (300 if tier == 'quick' else 5000) * scale
    for k in range(n):
        s = rs(rng, rng.randint(0, 12))
        cases.append({'line': f'l{k} leaf esc {x(s)}', 'kind': 'leaf', 's': s, 'tags': ['leaf']})
    # fixed shape: every spelling
    for k in range((150 if tier == 'quick' else 2000) * scale):
        v = rs(rng)
        tpl = 'A{{v}}B{{{v}}}C{{&v}}D{{ {v} }}E{{v}}F{{lookup o "k"}}G{{{lookup o "k"}}}H{{#each l}}{{this}}{{{this}}}{{/each}}I{{> p}}J{{#with o}}{{k}}{{/with}}K{{(lookup o "k")}}L{{{(lookup o "k")}}}M{{(lookup l 0)}}N{{&(lookup o "k")}}'
        d = {'v': v, 'o': {'k': v}, 'l': [v, v]}
        cases.append(rcase(f's{k}', tpl, d, pre=['esc 2'], partials={'p': '{{v}}{{{v}}}'}, entry=0, kind='shape', v=v, tags=['shape']))
    # helper arguments and subexpressions are never escaped
    for k in range((100 if tier == 'quick' else 1500) * scale):
        v = rs(rng)
        tpl = ('{{dump v (id v) k=v}}|{{id v}}|{{{id v}}}|{{#if (id v)}}{{v}}{{/if}}|{{lookup (id o) "k"}}|{{#blk}}{{v}}{{/blk}}'
               '|{{{id (dump v)}}}|{{{lookup o (if t)}}}|{{{lookup o (cnt 1)}}}{{{id v}}}|{{#each l}}{{{lookup @root.o (with t)}}}{{/each}}')
        cases.append(rcase(f'h{k}', tpl, {'v': v, 'o': {'k': v, '': v}, 't': True, 'l': [1, 2]}, pre=['probes', 'esc 2'], entry=4, kind='args', v=v, tags=['args']))
    # random templates under the marking fn: structural oracle
    for k in range((300 if tier == 'quick' else 6000) * scale):
        data = gen_object(rng, 2, odd=0.05)
        data['sv'] = rs(rng)
        g = TplGen(rng, data, probes=(k % 2 == 0), partials=(['p1'] if k % 3 == 0 else []))
        t = g.template(rng.randint(1, 4))
        pre = (['probes'] if k % 2 == 0 else []) + ['esc 2']
        parts = {'p1': '{{sv}}<{{{sv}}}>'} if k % 3 == 0 else {}
        cases.append(rcase(f'r{k}', t, data, pre=pre, partials=parts, entry=0, kind='random', tags=['random']))
    # the result of a value-returning helperMissing hook (a name that is neither a field nor a helper) is escaped in
    # {{x}} and never in {{{x}}} / {{&x}} / {{ {x} }}, at every nesting position
    m_ = '\x01zero\x02'
    for k, (tpl, exp) in enumerate([('A{{zz}}B{{{zz}}}C{{&zz}}D{{ {zz} }}E{{zz}}', f'A{m_}BzeroCzeroDzeroE{m_}'),
                                    ('{{#each l}}{{{zz}}}{{zz}}{{/each}}', f'zero{m_}zero{m_}'),
                                    ('{{#with o}}{{&zz}}{{/with}}{{> p}}', f'zerozero{m_}'),
                                    ('{{{o.zz}}}|{{{zz}}}|{{#if t}}{{{zz}}}{{else}}{{/if}}', 'zero|zero|zero'),
                                    ('{{#*inline "i"}}{{{zz}}}{{/inline}}{{> i}}{{#> nop}}{{&zz}}{{/nop}}', 'zerozero')]):
        for hk in (4, 5, 6, 7):
            cases.append(rcase(f'hv{k}_{hk}', tpl, {'o': {'k': 1}, 'l': [1, 2], 't': True}, pre=['probes', f'hooks {hk}', 'esc 2'], partials={'p': '{{{zz}}}{{zz}}'}, entry=0,
                               kind='exact', exp=exp, tags=['value-returning-hook']))
    # a decorator-registered local helper that honours the escape toggle (tag "e:..."): as a subexpression its text reaches
    # the outer helper unescaped; written by {{ }} it is escaped once, by {{{ }}} never
    LT = 'local(e:t:-:v:-:u1)'
    ML = '\x01' + LT + '\x02'
    for k, (tpl, exp) in enumerate([('{{*sethelper "lh" "e:t"}}{{lh 1}}|{{{lh 1}}}|{{id (lh 1)}}|{{{id (lh 1)}}}', f'{ML}|{LT}|{ML}|{LT}'),
                                    ('{{*sethelper "lh" "e:t"}}{{#if (lh 1)}}{{v}}{{/if}}|{{lookup o (lh 1)}}|{{v}}', '\x01<\x02|\x01\x02|\x01<\x02'),
                                    ('{{*sethelper "lh" "e:t"}}{{#each l}}{{id (lh 1)}}{{/each}}', ML + ML)]):
        cases.append(rcase(f'lh{k}', tpl, {'v': '<', 'o': {'k': 1}, 'l': [1, 2]}, pre=['probes', 'esc 2'], entry=0, kind='exact', exp=exp, tags=['escape-honouring-local-helper']))
    # values inside a block body that a user helper captures with Renderable::renders are escaped like anywhere else
    for k, (tpl, exp) in enumerate([('{{*sethelper "cap" "c:"}}{{#cap}}{{v}}|{{{v}}}|{{lookup o "k"}}{{/cap}}|{{v}}', '<\x01<\x02|<|\x011\x02>|\x01<\x02'),
                                    ('{{*sethelper "cap" "c:"}}{{#each l}}{{#cap}}{{../v}}{{/cap}}{{/each}}', '<\x01<\x02><\x01<\x02>'),
                                    ('{{*sethelper "cap" "c:"}}{{{{raw}}}}{{v}}{{{{/raw}}}}{{#cap}}{{#if v}}{{v}}{{/if}}{{/cap}}', '{{v}}<\x01<\x02>')]):
        cases.append(rcase(f'cap{k}', tpl, {'v': '<', 'o': {'k': 1}, 'l': [1, 2]}, pre=['probes', 'esc 2'], entry=0, kind='exact', exp=exp, tags=['captured-block-body']))
    # default escape and no_escape at a few positions
    for k in range(60 * scale):
        v = rs(rng)
        cases.append(rcase(f'd{k}', '{{v}}|{{{v}}}|{{#each l}}{{this}}{{/each}}', {'v': v, 'l': [v]}, pre=[f'esc {k % 2}'], entry=4,
                           kind='default', v=v, esc=k % 2, tags=['default']))
    return cases

def py_escape(s):
    return (s.replace('&', '&amp;').replace('<', '&lt;').replace('>', '&gt;').replace('"', '&quot;')
            .replace("'", '&#x27;').replace('`', '&#x60;').replace('=', '&#x3D;'))

def unescape(s):
    return re.sub(r'&(lt|gt|quot|amp|#x27|#x60|#x3D);', lambda m: ENT[m.group(0)], s)

def alphabet_ok(e):
    if re.search(r'[<>"\'`=]', e):
        return False
    return all(any(e.startswith(k, i) for k in ENT) for i, ch in enumerate(e) if ch == '&')

def marks_ok(out, log):
    """markers well nested (depth <= 1) and the marked spans equal the logged escape arguments in order"""
    spans, cur, depth = [], None, 0
    for ch in out:
        if ch == '\x01':
            if depth:
                return 'nested escape markers (a value was escaped twice)'
            depth, cur = 1, []
        elif ch == '\x02':
            if not depth:
                return 'unbalanced escape marker'
            spans.append(''.join(cur)); depth = 0
        elif depth:
            cur.append(ch)
    if depth:
        return 'unterminated escape marker'
    logged = re.findall(r'^e\((.*)\)$', log, re.M | re.S) if False else None
    return spans

def esc_log_args(log):
    # entries are "e(<arg>)\n"; arguments may contain newlines, so split on the entry frame
    out, i = [], 0
    parts = log.split('\n')
    # reassemble: an entry starts with "e(" and ends with ")" at a line end; probe entries are other lines
    buf = None
    for ln in parts:
        if buf is None:
            if ln.startswith('e('):
                if ln.endswith(')'):
                    out.append(ln[2:-1])
                else:
                    buf = ln[2:]
        else:
            if ln.endswith(')'):
                out.append(buf + '\n' + ln[:-1]); buf = None
            else:
                buf += '\n' + ln
    return out

def oracle(c, io, mo):
    k = c['kind']
    if k == 'eschtml':
        return None          # decided by the correspondence (checksum equality with the model)
    if k == 'leaf':
        e = unx(io.split(' ')[-1]) if io and io.split(' ')[-1].startswith('x') else None
        if e is None:
            return 'no output'
        if e != py_escape(c['s']):
            return f'html_escape({c["s"]!r}) = {e!r}'
        if not alphabet_ok(e):
            return f'escaped text {e!r} contains a forbidden character'
        if unescape(e) != c['s']:
            return 'escape is not invertible on this input'
        return None
    r = res_of(io)
    if r['kind'] != 'ok':
        return None if k == 'random' else f'render failed: {r}'
    out, log = r['out'], r['log']
    if k == 'shape':
        v = c['v']
        m = '\x01' + v + '\x02'
        exp = f'A{m}B{v}C{v}D{v}E{m}F{m}G{v}H{m}{v}{m}{v}I{m}{v}J{m}K{m}L{v}M{m}N{v}'
        return None if out == exp else f'expected {exp!r}, got {out!r}'
    if k == 'args':
        v = c['v']
        m = '\x01' + v + '\x02'
        if '\x01' in out.split('|')[0]:
            return 'a value handed to a helper was escaped'
        parts = out.split('|')
        # id v -> escaped once; {{{id v}}} never; (id v) inside if: body escapes v once (if v non-empty)
        exp1, exp2 = m, v
        if len(parts) >= 3 and '|' not in v and (parts[1] != exp1 or parts[2] != exp2):
            return f'value-returning helper: expected {exp1!r}|{exp2!r}, got {parts[1]!r}|{parts[2]!r}'
        if '|' not in v and len(parts) >= 10 and any('\x01' in p_ for p_ in parts[6:10]):
            return f'a triple-brace helper expression with a subexpression argument was escaped: {parts[6:10]!r}'
        return None
    if k in ('random',):
        sp = marks_ok(out, log)
        if isinstance(sp, str):
            return sp
        args = esc_log_args(log)
        if sp != args:
            return f'marked spans {sp!r} differ from the arguments the escape fn received {args!r}'
        return None
    if k == 'exact':
        return None if out == c['exp'] else f'expected {c["exp"]!r}, got {out!r}'
    if k == 'default':
        v = c['v']
        e = py_escape(v) if c['esc'] == 0 else v
        exp = f'{e}|{v}|{e}'
        return None if out == exp else f'expected {exp!r}, got {out!r}'
    return None

def nontrivial(c, mo, io):
    if c['kind'] in ('eschtml',):
        return True
    if c['kind'] == 'leaf':
        return bool(re.search(r'[<>"\'`=&]', c['s']))
    r = res_of(io)
    return r['kind'] == 'ok' and ('\x01' in r['out'] or bool(re.search(r'&(lt|gt|quot|amp|#x27|#x60|#x3D);', r['out'])))

def relevant_difference(c, mo, io):
    return True
