"""C10 — strict mode only adds errors: every generated (template, data) rendered under both settings;
missing paths planted at every position kind; reference for the MissingVariable payload."""
from hblib import x, jtok
from gen import gen_object, TplGen
from refsem import StructGen, Ref, to_source, StrictMissing, path_src, arg_src
from families.common import rcase, res_of

RULE = ('pairs (strict, non-strict) of the same generated template/data/registry (all construct kinds, '
        'partials, helpers, subexpressions); structured templates with missing paths planted at random '
        'positions, compared with the reference (which path must be named). Non-trivial = the pair contains '
        'a strict success with non-empty output, or a strict MissingVariable error')
ASSUMPTIONS = ['reference semantics tools/refsem.py transcribes the property text']

def gen_cases(rng, tier, scale):
    cases = []
    n = (500 if tier == 'quick' else 8000) * scale
    for k in range(n):
        data = gen_object(rng, 3, odd=0.05)
        mode = k % 3
        o = dict(partials=(['p1'] if mode == 1 else []), probes=(mode == 2), missing=rng.choice([0.0, 0.0, 0.1]))
        g = TplGen(rng, data, **o)
        t = g.template(rng.randint(1, 4))
        parts = {}
        if mode == 1:
            parts['p1'] = TplGen(rng, data, maxdepth=2, missing=0.05).template(2)
        pre = ['probes'] if mode == 2 else []
        for st in (0, 1):
            cases.append(rcase(f'm{k}s{st}', t, data, pre=pre + [f'strict {st}'], entry=0, partials=parts,
                               kind='pair', pair=k, strict=st, tags=['pair']))
    m = (400 if tier == 'quick' else 6000) * scale
    for k in range(m):
        data = gen_object(rng, 3, odd=0.05)
        g = StructGen(rng, data, missing=0.12, thisprefix=0.0)
        ast = g.gen_nodes(3, rng.randint(1, 3))
        src = to_source(ast)
        if '[this]' in src:
            continue
        cases.append(rcase(f'q{k}', src, data, pre=['strict 1'], entry=4, ast=ast, kind='ref', tags=['ref']))
    # lookup of an absent key
    for k, (tpl, d) in enumerate([('{{lookup o "zz"}}', {'o': {'a': 1}}), ('{{lookup a 5}}', {'a': [1]}),
                                  ('{{lookup o "a"}}', {'o': {'a': None}}), ('{{#each zz}}x{{/each}}', {}),
                                  ('{{#with zz}}x{{/with}}', {}), ('{{#each zz}}x{{else}}E{{/each}}', {}),
                                  ('{{#with n}}x{{/with}}', {'n': None}), ('{{n}}{{f}}{{z}}{{e}}', {'n': None, 'f': False, 'z': 0, 'e': ''})]):
        cases.append(rcase(f'l{k}', tpl, d, pre=['strict 1'], entry=4, kind='fixed', idx=k, tags=['fixed']))
    # third clause: a template all of whose paths designate EXISTING values (null, false, 0, "", [], {} included)
    # renders identically in both modes — each falsy value routed through every position kind
    FALSY = [None, False, 0, '', [], {}]
    POS = ['{{v}}', '{{o.k}}', '{{arr.[0]}}', '{{@root.v}}', '{{#if v}}T{{else}}F{{/if}}', '{{lookup o "k"}}', '{{lookup arr 0}}',
           '{{> p k=v}}', '{{> p2 k=o.k j=arr.[0]}}', '{{> q o}}', '{{#with o}}[{{k}}]{{/with}}', '{{#each arr}}<{{this}}>{{/each}}',
           '{{#each arr as |x i|}}<{{x}}{{i}}>{{/each}}', '{{eq v null}}', '{{#with o as |w|}}{{w.k}}{{/with}}', '{{> p k=null}}',
           '{{#each o}}{{@key}}={{this}};{{/each}}', '{{> (lookup this "pn") k=v}}', '{{#> p k=v}}d{{/p}}', '{{id (lookup o "k")}}']
    UPV = ['{{#each arr as |x i|}}{{#with @root.o}}{{../i}}{{../x}}{{/with}}{{/each}}', '{{#each (lookup this "arr") as |row|}}{{#with @root.o}}<{{../row}}>{{/with}}{{/each}}',
           '{{#with (lookup this "o") as |w|}}{{#each @root.arr}}{{../w.k}}{{/each}}{{/with}}', '{{> pu}}',
           '{{#each o as |val key|}}{{#if true}}{{#with @root.arr}}{{../../key}}={{../../val}}{{/with}}{{/if}}{{/each}}']
    # an inner block parameter shadows an outer one of the same name: the inner element's (existing, falsy) field is read
    for ks, (tpl, d) in enumerate([('{{#each groups as |item|}}{{#each item.members as |item|}}<{{item.nick}}>{{/each}}{{/each}}', {'groups': [{'members': [{'nick': ''}, {'nick': None}]}]}),
                                   ('{{#with o as |v|}}{{#with v.c as |v|}}{{v.c}}{{/with}}{{/with}}', {'o': {'c': {'c': 0}}}),
                                   ('{{#each l as |x i|}}{{#each x as |i|}}{{i.z}}{{/each}}{{/each}}', {'l': [[{'z': False}]]})]):
        for st in (0, 1):
            cases.append(rcase(f'sh{ks}s{st}', tpl, d, pre=[f'strict {st}'], entry=0, kind='exist', pair=('sh', ks), strict=st, tags=['shadowed-block-param']))
    kk = 0
    for v in FALSY + ['s']:
        for pos in UPV:
            d = {'v': v, 'o': {'k': v}, 'arr': [v, 1], 'pn': 'p'}
            for st in (0, 1):
                cases.append(rcase(f'uv{kk}s{st}', 'a' + pos + 'z', d, pre=['probes', f'strict {st}'], entry=0,
                                   partials={'pu': '{{#each arr as |x i|}}{{#with @root.o}}{{../i}}{{/with}}{{/each}}'}, kind='exist', pair=('uv', kk), strict=st, tags=['up-to-value-bound']))
            kk += 1
    kk = 0
    for v in FALSY:
        for pos in POS:
            d = {'v': v, 'o': {'k': v}, 'arr': [v, 1], 'pn': 'p'}
            for st in (0, 1):
                cases.append(rcase(f'ex{kk}s{st}', 'a' + pos + 'z', d, pre=['probes', f'strict {st}'], entry=0,
                                   partials={'p': '[{{k}}]', 'p2': '[{{k}}{{j}}]', 'q': '({{k}})'}, kind='exist', pair=('ex', kk), strict=st, tags=['existing-falsy']))
            kk += 1
    # strict mode with the helperMissing / blockHelperMissing hooks registered: a missing name-only expression is still
    # MissingVariable naming the path (the hook is for calls)
    for k3, (tpl, d, path) in enumerate([('a{{zz}}b', {}, 'zz'), ('{{{zz}}}', {}, 'zz'), ('{{#with o}}{{k}}{{zz}}{{/with}}', {'o': {'k': 1}}, 'zz'),
                                         ('{{#each l}}{{../zz}}{{/each}}', {'l': [1]}, '../zz'), ('{{> p o}}', {'o': {'k': 2}}, 'z')]):
        for hk in (1, 2, 3):
            cases.append(rcase(f'hk{k3}_{hk}', tpl, d, pre=['probes', f'hooks {hk}', 'strict 1'], partials={'p': '[{{k}}{{z}}]'}, entry=0,
                               kind='hookstrict', path=path, tags=['strict-with-hooks']))
    # an else-chain whose LAST link is each/with on a missing value and that has no final else: still MissingVariable
    for k4, (tpl, d, path) in enumerate([('{{#if a}}A{{else with nope}}B{{/if}}', {}, 'nope'), ('{{#if z}}A{{else each nope}}B{{/if}}', {}, 'nope'),
                                         ('{{#if a}}A{{else if b}}B{{else with o.zz}}C{{/if}}', {'o': {}}, 'o.zz'),
                                         ('{{#each l}}{{#if this}}y{{else each ../nope}}n{{/if}}{{/each}}', {'l': [0]}, '../nope')]):
        cases.append(rcase(f'cl{k4}', tpl, d, pre=['strict 1'], entry=4, kind='hookstrict', path=path, tags=['chain-last-link-missing']))
    # a path that passes through an EXISTING null (or scalar) before its last segment designates nothing
    for k6, (tpl, d, path) in enumerate([('{{user.name}}', {'user': None}, 'user.name'), ('{{list.[0].a}}', {'list': [None]}, 'list.[0].a'),
                                         ('{{#each list}}{{a}}{{/each}}', {'list': [None]}, 'a'), ('{{#with outer}}{{inner.x}}{{/with}}', {'outer': {'inner': None}}, 'inner.x'),
                                         ('{{a.b.c}}', {'a': {'b': None}}, 'a.b.c'), ('{{s.len}}', {'s': 'str'}, 's.len'), ('{{n.x}}', {'n': 5}, 'n.x'),
                                         ('{{#each o}}{{this.k}}{{/each}}', {'o': {'p': None}}, 'this.k'), ('{{@root.user.name}}', {'user': None}, '@root.user.name')]):
        cases.append(rcase(f'nl{k6}', tpl, d, pre=['strict 1'], entry=4, kind='hookstrict', path=path, tags=['through-null']))
    # an @-variable reached through more `../` than there are enclosing blocks designates nothing: MissingVariable naming it
    for k5, (tpl, d, path) in enumerate([('{{#each a}}{{@../../index}}{{/each}}', {'a': [1, 2]}, '@../../index'),
                                         ('{{#each a}}{{@../index}}{{/each}}', {'a': [1]}, '@../index'),
                                         ('{{#each a}}{{#each this}}{{@../../../index}}{{/each}}{{/each}}', {'a': [[1]]}, '@../../../index'),
                                         ('{{#each o}}{{@../../key}}{{/each}}', {'o': {'k': 1}}, '@../../key'),
                                         ('{{#each a}}{{#with this}}{{@../../../first}}{{/with}}{{/each}}', {'a': [{'x': 1}]}, '@../../../first'),
                                         ('{{#each a}}{{> p}}{{/each}}', {'a': [1]}, '@../../../index'),
                                         ('{{@../index}}', {}, '@../index'), ('{{#with o}}{{@../../key}}{{/with}}', {'o': {'k': 1}}, '@../../key')]):
        cases.append(rcase(f'ov{k5}', tpl, d, pre=['strict 1'], partials={'p': '[{{@../../../index}}]'}, entry=0, kind='hookstrict', path=path, tags=['local-var-overshoot']))
    return cases

FIXED = {0: ('err', 'MissingVariable', '-'), 1: ('err', 'MissingVariable', '-'), 2: ('ok', ''),
         3: ('err', 'MissingVariable', x('zz')), 4: ('err', 'MissingVariable', x('zz')), 5: ('ok', 'E'),
         6: ('err', 'MissingVariable', x('n')), 7: ('ok', 'false0')}

def oracle(c, io, mo):
    r = res_of(io)
    if c['kind'] == 'fixed':
        e = FIXED[c['idx']]
        if e[0] == 'ok':
            return None if r.get('out') == e[1] else f'expected output {e[1]!r}, got {r}'
        return None if (r['kind'] == 'err' and r['reason'] == e[1] and r['payload'] == e[2]) else f'expected {e}, got {r}'
    if c['kind'] == 'hookstrict':
        ok = r['kind'] == 'err' and r['reason'] == 'MissingVariable' and r['payload'] == x(c['path'])
        return None if ok else f'strict mode with hooks registered: expected MissingVariable({c["path"]}), got {r.get("out", r.get("reason"))!r} {r.get("payload", "")}'
    if c['kind'] == 'ref':
        try:
            exp = ('ok', Ref(c['data'], strict=True).render(c['ast']))
        except StrictMissing as sm:
            p = sm.path
            if isinstance(p, tuple) and p[0] == 'lit':
                exp = ('missing', None)
            else:
                exp = ('missing', arg_src(p) if isinstance(p, tuple) else path_src(p))
        except ValueError:
            return None
        if r['kind'] == 'err' and r['reason'] == 'InvalidJsonIndex':
            return None
        if exp[0] == 'ok':
            return None if r.get('out') == exp[1] else f'strict render of a template whose paths all exist: expected {exp[1]!r}, got {r}'
        if r['kind'] == 'err' and r['reason'] == 'MissingVariable' and r['payload'] == ('-' if exp[1] is None else x(exp[1])):
            return None
        return f'expected MissingVariable({exp[1]!r}), got {r}'
    return None

def oracle_all(byid):
    out = []
    pairs = {}
    for cid, (c, mo, io) in byid.items():
        if c['kind'] in ('pair', 'exist'):
            pairs.setdefault(c['pair'], {})[c['strict']] = (c, io)
    for k, d in pairs.items():
        if 0 in d and 1 in d:
            rs, rn = res_of(d[1][1]), res_of(d[0][1])
            if rs['kind'] == 'ok' and (rn['kind'] != 'ok' or rn['out'] != rs['out']):
                out.append((d[1][0], f'strict render succeeded with {rs["out"]!r} but non-strict gives {rn}'))
            if d[1][0]['kind'] == 'exist' and rn['kind'] == 'ok' and (rs['kind'] != 'ok' or rs['out'] != rn['out']):
                out.append((d[1][0], f'every path designates an existing value, non-strict renders {rn["out"]!r}, strict gives {rs.get("out", rs.get("reason"))!r} {rs.get("payload", "")}'))
            if rs['kind'] == 'err' and rs['reason'] not in ('MissingVariable', 'ParamNotFoundForName') and rn['kind'] == 'ok':
                out.append((d[1][0], f'strict mode changed a success into a non-missing error {rs["reason"]}'))
    return out

def nontrivial(c, mo, io):
    r = res_of(io)
    return (r['kind'] == 'ok' and r['out'] != '') or (r['kind'] == 'err' and r['reason'] == 'MissingVariable')

def relevant_difference(c, mo, io):
    a, b = res_of(mo), res_of(io)
    return a['kind'] != b['kind'] or a.get('out') != b.get('out') or a.get('reason') != b.get('reason') or a.get('payload') != b.get('payload')
