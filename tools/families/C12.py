"""C12 — standalone partial indentation: indentation strings of spaces/tabs (0..8), partial bodies built
from lines of text, expressions (multi-line data), block helpers and nested standalone partials (<= 3
levels), at top level and inside each/if/with, prevent_indent on/off; oracle: output of the indented call
== indent_lines(render of p alone, W) modulo whitespace on blank lines."""
from hblib import x, jtok
from families.common import rcase, res_of

RULE = ('main = prefix lines + W{{> p}} on its own line + suffix; p = 1..5 lines of text / {{value}} (values '
        'with 0..2 line breaks, empty strings) / standalone {{#if}}..{{/if}} / nested standalone partial with '
        'its own indentation; W over spaces/tabs of length 0..8; called at top level and inside each/if/with; '
        'prevent_indent on and off; oracle against the rendering of p alone. Non-trivial = p writes >= 2 lines')
DATA = {'one': 'ONE', 'ml': 'L1\nL2', 'ml3': 'a\nb\nc', 'e': '', 't': True, 'f': False, 'nl': 'x\n', 'o': {'one': 'oo', 'ml': 'p\nq', 'e': '', 't': True, 'f': False, 'nl': 'y\n', 'ml3': '1\n2\n3'}}

for _d in (DATA, DATA['o']):
    _d.update({'uni': 'Zoë', 'eur': '10 €', 'mlu': 'é\nü', 'jp': '日本\n', 'l3': ['a', 'b', 'c'], 'l0': []})
DATA['l'] = [DATA['o'], DATA['o']]

def gen_body(rng, depth, parts):
    lines = []
    for _ in range(rng.randint(1, 5)):
        k = rng.choice(['text', 'text', 'value', 'value', 'if', 'nested', 'mixed', 'blank', 'inl', 'indtag'])
        if k == 'indtag':
            # a line of the partial with blanks of its own in front of a tag that writes (also right after a tag line)
            lines.append(rng.choice(['', '{{#if t}}\n', '{{! c }}\n']) + rng.choice(['  ', '\t', ' ']) +
                         rng.choice(['{{one}}', '{{{ml}}}', '{{uni}} t', '{{#if t}}in{{/if}}', '{{lookup this "one"}}']) + '\n')
            if lines[-1].startswith('{{#if'):
                lines.append('{{/if}}\n')
        elif k == 'text':
            lines.append(rng.choice(['alpha', 'beta gamma', 'x', 'café', 'naïve é', '€']) + '\n')
        elif k == 'blank':
            lines.append('\n')
        elif k == 'value':
            lines.append('{{' + rng.choice(['one', 'ml', 'ml3', 'e', 'nl', 'uni', 'eur', 'mlu', 'jp', 'lookup this "one"', 'len l3', 'lookup this "ml"',
                                            'eq t true', 'lookup l3 1']) + '}}' + rng.choice(['', '', ' tail']) + '\n')
        elif k == 'mixed':
            lines.append(rng.choice(['<', 'é', '']) + '{{' + rng.choice(['one', 'ml', 'e', 'uni', 'mlu']) + '}}' + rng.choice(['>', 'ü', '€']) + '{{{ml}}}' + rng.choice(['!', 'ö']) + '\n')
        elif k == 'if':
            lines.append('{{#if ' + rng.choice(['t', 'f', 't']) + '}}\n' + rng.choice(['in\n', '{{ml}}\n', 'a\nb\n']) + '{{/if}}\n')
        elif k == 'inl':
            # blocks and calls that begin or end in the middle of a line, and constructs that write nothing
            if 'emp' not in parts:
                parts['emp'] = ''
            lines.append(rng.choice([
                '{{#each l3}}{{this}}{{#unless @last}}, {{/unless}}{{/each}}.\n',
                'k:{{#if t}}v{{#if f}}n{{/if}}{{/if}}!\n',
                'items:{{#each l3}}\n{{this}}\n{{/each}}end\n',
                '{{#if t}}{{e}}{{/if}}tail\n',
                '{{> emp}}text\n',
                '{{#if f}}x{{/if}}text\n',
                'a{{> emp}}b\n',
                '{{#each l0}}x{{/each}}{{e}}after\n',
                '{{#if t}}y\n{{#if f}}n{{/if}}{{/if}}rest\n',
                '{{#with o}}{{one}}{{#if f}}n{{/if}}{{/with}};\n',
            ]))
        elif k == 'nested' and depth > 0:
            nm = f'q{len(parts)}'
            parts[nm] = None
            parts[nm] = gen_body(rng, depth - 1, parts)
            lines.append(rng.choice(['  ', '\t', '']) + '{{> ' + nm + '}}\n')
        else:
            lines.append('z\n')
    return ''.join(lines)

def gen_cases(rng, tier, scale):
    cases = []
    n = (300 if tier == 'quick' else 6000) * scale
    for k in range(n):
        parts = {}
        body = gen_body(rng, 2, parts)
        if rng.random() < 0.25 and body.endswith('\n') and not body.rstrip('\n').endswith('}}'):
            body = body[:-1]          # p's last line without a line break (only when it is plain text)
        parts['p'] = body
        W = ''.join(rng.choice([' ', ' ', '\t']) for _ in range(rng.randint(0, 8)))
        where = rng.choice(['top', 'top', 'each', 'if', 'with', 'first'])
        pi = rng.random() < 0.25
        call = W + '{{> p}}\n'
        if where == 'top':
            main = 'A\n' + call + 'Z\n'
        elif where == 'first':
            main = call + 'Z\n'
        elif where == 'each':
            main = 'A\n{{#each l}}\n' + call + '{{/each}}\nZ\n'
        elif where == 'if':
            main = 'A\n{{#if t}}\n' + call + '{{/if}}\nZ\n'
        else:
            main = 'A\n{{#with o}}\n' + call + '{{/with}}\nZ\n'
        pre = ['pi 1'] if pi else []
        grp = f'g{k}'
        d = DATA['o'] if where in ('with', 'each') else DATA
        cases.append(rcase(f'{grp}m', main, DATA, pre=pre, partials=parts, entry=rng.choice([0, 0, 2, 4, 6, 7]), kind='main', grp=grp, W=W, where=where, pi=pi, tags=[where] + (['prevent_indent'] if pi else [])))
        # p alone on the context it is called with
        ops = list(pre) + [f'regs {x(n_)} {x(s_)}' for n_, s_ in parts.items()] + [f'r 0 {x("p")} {jtok(d)} -1']
        cases.append({'line': f'{grp}p ' + ' ; '.join(ops), 'kind': 'alone', 'grp': grp, 'tpl': body, 'tags': ['alone']})
    # the indented call as the first thing the template writes, p beginning with a construct that writes through another
    # frame (a nested partial, a block, an expression) — on every run, through every entry point
    FIRST = [{'p': 'items:{{> q1}}end\n', 'q1': '\n- one\n- two\n'}, {'p': '[{{> q1}}]\n', 'q1': '{{ml}}'}, {'p': 'a{{#each l}}<{{> q1}}>{{/each}}z\n', 'q1': 'u\nv'},
             {'p': 'x{{#if t}}{{> q1}}{{/if}}rest\n', 'q1': 'Q\n'},  {'p': 'x{{#with o}}{{> q1}}{{/with}}r\n', 'q1': 'Q\n'},
             {'p': 'x{{> w}}rest\n', 'w': '{{> q1}}', 'q1': 'Q\n'}, {'p': '{{one}}{{#with o}}{{> q1}}{{/with}}z\n', 'q1': 'a\nb\n'},
             {'p': '  {{one}}\nx\n'}, {'p': '{{#if t}}\n  {{one}}\n{{/if}}\nx\n'}, {'p': '{{#each l}}\n\t{{one}}!\n{{/each}}\n'}, {'p': '{{! c }}\n  {{{ml}}}\n'},
             {'p': '{{> q1}}\n', 'q1': '{{#if t}}\n   {{one}} {{e}}\n{{else}}\n{{/if}}\n'}, {'p': ' {{#if t}}a{{/if}}\n  {{#with o}}{{one}}{{/with}}\n'},
             {'p': '{{> q1}}\nx\n', 'q1': 'after\n'}, {'p': '{{> q1}}\nx\n', 'q1': '{{#each l0}}x{{/each}}{{e}}after\n'},
             {'p': '{{#if t}}\na\nb\n{{/if}}\nx\n'}, {'p': '{{one}} tail\nx\n'}, {'p': '{{> q1}}', 'q1': '{{> q2}}\ny\n', 'q2': 'deep\n'},
             {'p': '{{#each l}}\n{{> q1}}\n{{/each}}\n', 'q1': 'it\n'}, {'p': 'plain\n{{> q1}}\n', 'q1': '{{ml}}\n'}]
    # an indented standalone call written with a TRAILING tilde only: the tag is still standalone and indented
    for k, pbody in enumerate(['l1\nl2\n', '{{one}}\n{{ml}}\n', '{{#if t}}\na\n{{/if}}\nb\n']):
        for W in ('  ', '\t '):
            for call, grp0 in ((W + '{{> p ~}}\nZ\n', 'tt'), ('A\n' + W + '{{> p~}}\n\nZ\n', 'tu')):
                grp = f'{grp0}{k}w{len(W)}{ord(W[0])}'
                cases.append(rcase(f'{grp}m', call, DATA, partials={'p': pbody}, entry=0, kind='main', grp=grp, W=W, where='first' if grp0 == 'tt' else 'top', pi=False, tags=['trailing-tilde-call']))
                ops = [f'regs {x("p")} {x(pbody)}', f'r 0 {x("p")} {jtok(DATA)} -1']
                cases.append({'line': f'{grp}p ' + ' ; '.join(ops), 'kind': 'alone', 'grp': grp, 'tpl': pbody, 'tags': ['alone']})
    for k, parts in enumerate(FIRST):
        for W in ('  ', '\t'):
            for entry in (0, 2, 4, 6, 7):
                grp = f'ff{k}{len(W)}{ord(W[0])}e{entry}'
                cases.append(rcase(f'{grp}m', W + '{{> p}}\nZ\n', DATA, partials=parts, entry=entry, kind='main', grp=grp, W=W, where='first', pi=False, tags=['first-fixed']))
                ops = [f'regs {x(n_)} {x(s_)}' for n_, s_ in parts.items()] + [f'r 0 {x("p")} {jtok(DATA)} -1']
                cases.append({'line': f'{grp}p ' + ' ; '.join(ops), 'kind': 'alone', 'grp': grp, 'tpl': parts['p'], 'tags': ['alone']})
    # the block body of a block-form call rendered through an INDENTED standalone {{> @partial-block}} of the layout: the body's lines
    # get the indentation of that call (added to the indentation the layout itself was called with); judged against the model
    PBL = [('{{#> lay}}\nb1\n{{ml}}\n{{/lay}}\nZ\n', {'lay': 'head\n  {{> @partial-block}}\nfoot\n'}),
           ('A\n\t{{#> lay}}\nb1 {{one}}\n{{ml3}}\n{{/lay}}\nZ\n', {'lay': 'head\n  {{> @partial-block}}\nfoot\n'}),
           ('{{#each l}}\n    {{> row}}\n{{/each}}\n', {'row': '{{#> lay}}\nr {{one}}\n{{ml}}\n{{/lay}}\n', 'lay': '<\n\t{{> @partial-block}}\n>\n'}),
           ('{{#> lay}}x{{ml}}y{{/lay}}|\n', {'lay': ' {{> @partial-block}}\n\n  {{> @partial-block}}\n'}),
           ('{{#> lay}}\n{{#*inline "s"}}in\n{{ml}}\n{{/inline}}\n  {{> s}}\nb\n{{/lay}}\n', {'lay': 'h\n   {{> @partial-block}}\n'})]
    for k, (main, parts) in enumerate(PBL):
        for pi in (False, True):
            for entry in (0, 2, 4, 6, 7):
                grp = f'pb{k}{int(pi)}e{entry}'
                cases.append(rcase(f'{grp}m', main, DATA, pre=(['pi 1'] if pi else []), partials=parts, entry=entry, kind='main', grp=grp, W='  ', where='top', pi=pi,
                                   tags=['indented-partial-block'] + (['prevent_indent'] if pi else [])))
    return cases

def norm(s):
    return '\n'.join('' if ln.strip(' \t') == '' else ln for ln in s.split('\n'))

def indent_lines(s, W):
    if s == '':
        return ''
    parts = s.split('\n')
    out = []
    for i, ln in enumerate(parts):
        if i == len(parts) - 1 and ln == '':
            out.append('')
        else:
            out.append(W + ln)
    return '\n'.join(out)

def oracle_all(byid):
    out, g = [], {}
    for cid, (c, mo, io) in byid.items():
        g.setdefault(c['grp'], {})[c['kind']] = (c, res_of(io))
    for k, d in g.items():
        if len(d) != 2:
            continue
        (cm, m), (cp, p) = d['main'], d['alone']
        if p['kind'] != 'ok' or m['kind'] != 'ok':
            if p['kind'] == 'ok':
                out.append((cm, f'p renders alone but the indented call fails: {m.get("reason")}'))
            continue
        W, where = cm['W'], cm['where']
        body = p['out']
        reps = 2 if where == 'each' else 1
        if reps > 1 and not body.endswith('\n'):
            continue
        if cm['pi']:
            ind = (W + body) if body != '' else W     # prevent_indent: only the first line keeps W
            ind = W + body
        else:
            ind = indent_lines(body, W)
        # the text after the tag's line continues unindented; if p's output does not end in a line break
        # the rest of the line follows directly
        mid = ''
        for _ in range(reps):
            mid += ind
        exp = ('' if where == 'first' else 'A\n') + mid + 'Z\n'
        if norm(m['out']) != norm(exp):
            out.append((cm, f'expected (modulo blank-line whitespace) {exp!r}, got {m["out"]!r}'))
            continue
        strip = lambda s: ''.join(ch for ch in s if ch not in ' \t')
        if strip(m['out']) != strip(exp) or m['out'].count('\n') != exp.count('\n'):
            out.append((cm, 'indentation altered the non-whitespace content or the number of lines'))
    return out

def nontrivial(c, mo, io):
    r = res_of(io)
    return c['kind'] == 'main' and r['kind'] == 'ok' and r['out'].count('\n') >= 4

def relevant_difference(c, mo, io):
    return res_of(mo).get('out') != res_of(io).get('out') or res_of(mo)['kind'] != res_of(io)['kind']


