"""refsem.py — a small reference renderer written from the PROPERTY TEXT (C01, C06,
C07, C10), independent of the Coq model and of the crate: structured templates
over {text, path expression, if/unless with else-chains, each, with}, the scope
rules for paths, truthiness, the textual forms of JSON values. Used by the
implementation-side oracles: the generator builds a structured template, prints
it to handlebars source, and this module says what the property text requires.
"""
import re
from hblib import F

MISSING = object()


class StrictMissing(Exception):
    def __init__(self, path):
        self.path = path


def render_value(v):
    if v is MISSING or v is None:
        return ''
    if v is True:
        return 'true'
    if v is False:
        return 'false'
    if isinstance(v, F):
        raise ValueError('float display is not specified by the reference')
    if isinstance(v, int):
        return str(v)
    if isinstance(v, str):
        return v
    if isinstance(v, (list, tuple)):
        return '[' + ', '.join(render_value(e) for e in v) + ']'
    if isinstance(v, dict):
        return '[object]'
    raise TypeError(v)


def escape_html(s):
    return (s.replace('&', '&amp;').replace('<', '&lt;').replace('>', '&gt;').replace('"', '&quot;')
            .replace("'", '&#x27;').replace('`', '&#x60;').replace('=', '&#x3D;'))


def truthy(v, include_zero=False):
    if v is MISSING or v is None or v is False:
        return False
    if v is True:
        return True
    if isinstance(v, F):
        return (v.v != 0 or include_zero) and v.v == v.v
    if isinstance(v, int):
        return v != 0 or include_zero
    return len(v) > 0


def parse_index(seg):
    if re.fullmatch(r'\+?[0-9]+', seg):
        n = int(seg)
        if n < 2**64:
            return n
    return None


def step(v, seg):
    if isinstance(v, dict):
        return v.get(seg, MISSING)
    if isinstance(v, (list, tuple)):
        i = parse_index(seg)
        if i is None or i >= len(v):
            return MISSING
        return v[i]
    return MISSING


def walk(v, segs):
    for s in segs:
        if v is MISSING:
            return MISSING
        v = step(v, str(s))
    return v


class Scope:
    def __init__(self, value, params=None, locals_=None):
        self.value = value
        self.params = params or {}
        self.locals = locals_ or {}


def sorted_items(d):
    return sorted(d.items(), key=lambda kv: [ord(c) for c in kv[0]])


class Ref:
    def __init__(self, data, strict=False):
        self.data = data
        self.strict = strict
        self.scopes = [Scope(data)]     # outermost first
        self.trace = []                 # bodies entered (markers), for "no later body evaluated"

    def designate(self, p):
        sc = self.scopes
        if p.get('local'):
            lvl = p['ups']
            if lvl >= len(sc):
                return MISSING
            return sc[-1 - lvl].locals.get(p['local'], MISSING)
        if p.get('root'):
            return walk(self.data, p['segs'])
        segs = [str(s) for s in p['segs']]
        if p['ups'] == 0 and not p.get('prefix') and segs and not p.get('bracket0'):
            for s in reversed(sc):
                if segs[0] in s.params:
                    return walk(s.params[segs[0]], segs[1:])
        if p['ups'] >= len(sc):
            return MISSING      # outside the property's quantifier; generators do not produce it
        return walk(sc[-1 - p['ups']].value, segs)

    def value_of(self, a):
        """argument: ('path', p) | ('lit', v)"""
        if a[0] == 'lit':
            return a[1]
        return self.designate(a[1])

    def render(self, nodes):
        return ''.join(self.node(n) for n in nodes)

    def node(self, n):
        k = n[0]
        if k == 'text':
            return n[1]
        if k == 'expr':
            v = self.designate(n[1])
            if v is MISSING and self.strict:
                raise StrictMissing(n[1])
            s = render_value(v)
            return s if n[2] else escape_html(s)
        if k == 'if':
            _, neg, cond, body, chain, els = n
            links = [(neg, cond, body, 'if')] + [(c[0] == 'unless', c[1], c[2], c[0]) for c in chain]
            for (ng, cd, bd, kind) in links:
                if kind in ('if', 'unless'):
                    t = truthy(self.value_of(cd))
                    if t != ng:
                        return self.render(bd)
                elif kind == 'with':
                    r = self.with_link(cd, None, bd)
                    if r is not None:
                        return r
                elif kind == 'each':
                    r = self.each_link(cd, (), bd)
                    if r is not None:
                        return r
            return self.render(els) if els is not None else ''
        if k == 'with':
            _, arg, param, body, els = n
            r = self.with_link(arg, param, body)
            if r is not None:
                return r
            if els is not None:
                return self.render(els)
            if self.strict:
                raise StrictMissing(arg)
            return ''
        if k == 'each':
            _, arg, params, body, els = n
            r = self.each_link(arg, params, body)
            if r is not None:
                return r
            if els is not None:
                return self.render(els)
            v = self.value_of(arg)
            if self.strict and not isinstance(v, (list, tuple, dict)):
                raise StrictMissing(arg)
            return ''
        raise ValueError(k)

    def with_link(self, arg, param, body):
        v = self.value_of(arg)
        if not truthy(v):
            return None
        self.scopes.append(Scope(v, {param: v} if param else {}))
        try:
            return self.render(body)
        finally:
            self.scopes.pop()

    def each_link(self, arg, params, body):
        v = self.value_of(arg)
        if isinstance(v, (list, tuple)) and len(v) > 0:
            items = [(i, i, e) for i, e in enumerate(v)]
            is_obj = False
        elif isinstance(v, dict) and len(v) > 0:
            items = [(i, k, e) for i, (k, e) in enumerate(sorted_items(v))]
            is_obj = True
        else:
            return None
        out = []
        n = len(items)
        for (i, key, e) in items:
            ps = {}
            if len(params) >= 1:
                ps[params[0]] = e
            if len(params) >= 2:
                ps[params[1]] = key
            loc = {'index': i, 'first': i == 0, 'last': i == n - 1}
            if is_obj:
                loc['key'] = key
            self.scopes.append(Scope(e, ps, loc))
            try:
                out.append(self.render(body))
            finally:
                self.scopes.pop()
        return ''.join(out)


# ---------- printing structured templates as handlebars source ----------
IDENT = re.compile(r'[A-Za-z_][A-Za-z0-9_\-]*$')


def seg_src(s, force_bracket=False):
    s = str(s)
    if force_bracket or not IDENT.match(s) or s in ('this', 'else', 'as', 'true', 'false', 'null'):
        return '[' + s + ']'
    return s


def path_src(p):
    if p.get('local'):
        return '@' + '../' * p['ups'] + p['local']
    segs = [seg_src(s, i == 0 and p.get('bracket0')) for i, s in enumerate(p['segs'])]
    sep = p.get('sep', '.')
    if p.get('root'):
        return '@root' + ''.join('.' + s for s in segs) if segs else '@root'
    body = sep.join(segs)
    if p['ups']:
        return '../' * p['ups'] + (body if body else 'this')
    pre = p.get('prefix') or ''
    if not body:
        return 'this'
    return pre + body


def lit_src(v):
    import json
    if isinstance(v, str):
        return json.dumps(v)
    if v is None:
        return 'null'
    if v is True:
        return 'true'
    if v is False:
        return 'false'
    if isinstance(v, int):
        return str(v)
    return json.dumps(v, separators=(',', ':'))


def arg_src(a):
    """a path in ARGUMENT position: a leading [..] or digit would be read as a literal, so such
    paths get an explicit this. prefix"""
    if a[0] == 'lit':
        return lit_src(a[1])
    p = a[1]
    s = path_src(p)
    if not p.get('local') and not p.get('root') and not p['ups'] and not p.get('prefix') and p['segs']:
        if s[0] == '[' or s[0].isdigit() or s[0] in '-+':
            return 'this.' + s
    return s


def to_source(nodes):
    out = []
    for n in nodes:
        k = n[0]
        if k == 'text':
            out.append(n[1])
        elif k == 'expr':
            out.append(('{{{%s}}}' if n[2] else '{{%s}}') % path_src(n[1]))
        elif k == 'if':
            _, neg, cond, body, chain, els = n
            name = 'unless' if neg else 'if'
            s = '{{#%s %s}}%s' % (name, arg_src(cond), to_source(body))
            for (kind, cd, bd) in chain:
                s += '{{else %s %s}}%s' % (kind, arg_src(cd), to_source(bd))
            if els is not None:
                s += '{{else}}' + to_source(els)
            out.append(s + '{{/%s}}' % name)
        elif k == 'with':
            _, arg, param, body, els = n
            s = '{{#with %s%s}}%s' % (arg_src(arg), (' as |%s|' % param) if param else '', to_source(body))
            if els is not None:
                s += '{{else}}' + to_source(els)
            out.append(s + '{{/with}}')
        elif k == 'each':
            _, arg, params, body, els = n
            s = '{{#each %s%s}}%s' % (arg_src(arg), (' as |%s|' % ' '.join(params)) if params else '',
                                     to_source(body))
            if els is not None:
                s += '{{else}}' + to_source(els)
            out.append(s + '{{/each}}')
    return ''.join(out)


# ---------- generation of structured templates with scope tracking ----------
def paths_into(v, limit=3):
    out = [([], v)]
    if limit > 0:
        if isinstance(v, dict):
            for k, e in v.items():
                if ']' in k:
                    continue
                for p, x in paths_into(e, limit - 1):
                    out.append(([k] + p, x))
        elif isinstance(v, (list, tuple)):
            for i, e in enumerate(v):
                for p, x in paths_into(e, limit - 1):
                    out.append(([str(i)] + p, x))
    return out


class StructGen:
    def __init__(self, rng, data, missing=0.1, params=True, locals_=True, ups=True, root=True,
                 chains=True, floats=False, badindex=0.0, shadow=0.0, thisprefix=0.15):
        self.r = rng
        self.data = data
        self.o = dict(missing=missing, params=params, locals=locals_, ups=ups, root=root, chains=chains,
                      badindex=badindex, shadow=shadow, thisprefix=thisprefix)
        self.scopes = [Scope(data)]
        self.counter = 0

    def marker(self):
        self.counter += 1
        return '<%d>' % self.counter

    def gen_path(self, want=None):
        r = self.r
        sc = self.scopes
        roll = r.random()
        if roll < self.o['missing']:
            return {'ups': 0, 'segs': [r.choice(['zz', 'nope', 'q9'])] + ([r.choice(['a', '0'])] if r.random() < 0.4 else [])}
        if self.o['locals'] and roll < 0.25 and any(s.locals for s in sc):
            lv = [i for i, s in enumerate(reversed(sc)) if s.locals]
            ups = r.choice(lv) if r.random() < 0.6 else 0
            return {'ups': ups, 'segs': [], 'local': r.choice(['index', 'key', 'first', 'last'])}
        if self.o['params'] and roll < 0.4:
            names = [(n, s.params[n]) for s in sc for n in s.params]
            if names:
                n, v = r.choice(names)
                ps = paths_into(v, 2)
                segs, _ = r.choice(ps)
                return {'ups': 0, 'segs': [n] + segs}
        if self.o['root'] and roll < 0.5:
            cands = [p for p in paths_into(self.data, 3) if p[0]]
            if not cands:
                return {'ups': 0, 'segs': ['zz']}
            segs, _ = r.choice(cands)
            return {'ups': 0, 'segs': segs, 'root': True}
        ups = 0
        if self.o['ups'] and len(sc) > 1 and r.random() < 0.3:
            ups = r.randint(1, len(sc) - 1)
        base = sc[-1 - ups].value
        ps = paths_into(base, 3)
        if want == 'collection':
            c = [p for p in ps if isinstance(p[1], (list, dict))]
            ps = c or ps
        segs, _ = r.choice(ps)
        p = {'ups': ups, 'segs': list(segs), 'sep': r.choice(['.', '.', '/'])}
        if ups == 0 and segs and r.random() < self.o['thisprefix']:
            p['prefix'] = r.choice(['this.', './', 'this/'])
        if segs and r.random() < 0.1:
            p['bracket0'] = True
        # avoid accidental shadowing by a block parameter unless asked for
        allparams = {n for s in sc for n in s.params}
        if segs and segs[0] in allparams:
            p.pop('bracket0', None)       # `[name]` of a block-parameter name is finding F17's class (C01 has its witnesses)
        if segs and segs[0] in allparams and r.random() >= self.o['shadow']:
            if ups == 0 and not p.get('prefix'):
                pass        # the property says the parameter shadows: keep, the reference handles it
            else:
                p['segs'] = ['zz']      # `../name` / `this.name` with a parameter called name: findings F16/F17
        if self.o['badindex'] and r.random() < self.o['badindex']:
            p['segs'] = p['segs'] + ['x']
        return p

    def gen_arg(self, want=None):
        r = self.r
        if r.random() < 0.15 and want != 'collection':
            return ('lit', r.choice([0, 1, '', 'x', True, False, None]))
        if r.random() < 0.08 and want == 'collection':
            return ('lit', r.choice([[1, 2], [], {'a': 1}, [[3]], {}]))
        return ('path', self.gen_path(want))

    def value_of(self, a):
        ref = Ref(self.data)
        ref.scopes = self.scopes
        return ref.value_of(a)

    def gen_nodes(self, depth, n=None):
        r = self.r
        return [self.gen_node(depth) for _ in range(n if n is not None else r.randint(1, 3))]

    def gen_node(self, depth):
        r = self.r
        kinds = ['text', 'expr', 'expr', 'expr']
        if depth > 0:
            kinds += ['if', 'each', 'each', 'with', 'if']
        k = r.choice(kinds)
        if k == 'text':
            return ('text', r.choice(['|', ';', '-', 'a', ' ', 'T:']))
        if k == 'expr':
            return ('expr', self.gen_path(), r.random() < 0.2)
        if k == 'if':
            neg = r.random() < 0.3
            cond = self.gen_arg()
            body = [('text', self.marker())] + self.gen_nodes(depth - 1, r.randint(0, 2))
            chain = []
            if self.o['chains'] and r.random() < 0.4:
                for _ in range(r.randint(1, 3)):
                    chain.append((r.choice(['if', 'unless', 'if']), self.gen_arg(),
                                  [('text', self.marker())] + self.gen_nodes(depth - 1, r.randint(0, 1))))
            els = ([('text', self.marker())] + self.gen_nodes(depth - 1, r.randint(0, 1))) if r.random() < 0.5 else None
            return ('if', neg, cond, body, chain, els)
        if k == 'with':
            arg = self.gen_arg('collection')
            v = self.value_of(arg)
            param = r.choice(['w', 'name', 'a']) if self.o['params'] and r.random() < 0.35 else None
            self.scopes.append(Scope(v if v is not MISSING else None, {param: v} if param else {}))
            body = self.gen_nodes(depth - 1)
            self.scopes.pop()
            els = self.gen_nodes(depth - 1, 1) if r.random() < 0.4 else None
            return ('with', arg, param, body, els)
        if k == 'each':
            arg = self.gen_arg('collection')
            v = self.value_of(arg)
            params = ()
            if self.o['params'] and r.random() < 0.4:
                params = r.choice([('v',), ('v', 'k'), ('item', 'i'), ('name',)])
            if isinstance(v, (list, tuple)) and v:
                i = r.randrange(len(v)); e = v[i]; key = i
                loc = {'index': i, 'first': i == 0, 'last': i == len(v) - 1}
            elif isinstance(v, dict) and v:
                items = sorted_items(v)
                i = r.randrange(len(items)); key, e = items[i]
                loc = {'index': i, 'first': i == 0, 'last': i == len(items) - 1, 'key': key}
            else:
                e, key, loc = None, None, {'index': 0}
            ps = {}
            if len(params) >= 1:
                ps[params[0]] = e
            if len(params) >= 2:
                ps[params[1]] = key
            self.scopes.append(Scope(e, ps, loc))
            body = [('text', '(')] + self.gen_nodes(depth - 1) + [('text', ')')]
            self.scopes.pop()
            els = self.gen_nodes(depth - 1, 1) if r.random() < 0.4 else None
            return ('each', arg, params, body, els)
