#!/usr/bin/env python3
"""mkmanifest.py — regenerate MANIFEST.json from tools/claims.json and the Props files present."""
import glob, json, os, re
V = os.path.dirname(os.path.dirname(os.path.abspath(__file__)))
props = [json.loads(l) for l in open(os.path.join(V, 'properties.jsonl'))]
claims = json.load(open(os.path.join(V, 'tools', 'claims.json')))
proj = open(os.path.join(V, 'coq', '_CoqProject')).read()
checks, na = [], []
for p in props:
    pid = p['id']
    files = sorted(glob.glob(os.path.join(V, 'coq', 'Props', pid + '.v')) + glob.glob(os.path.join(V, 'coq', 'Props', pid + '_*.v')))
    files = [f for f in files if os.path.relpath(f, os.path.join(V, 'coq')) in proj]
    fam = os.path.exists(os.path.join(V, 'tools', 'families', pid + '.py'))
    c = claims.get(pid)
    if not files or not fam or not c:
        na.append({'property_id': pid, 'reason': 'the Coq theorems for this property are not integrated into the build yet (family and model exist; see DESIGN.md)'})
        continue
    thms = []
    for f in files:
        thms += re.findall(r'^\s*Theorem\s+(\w+)', open(f).read(), re.M)
    checks.append({
        'property_id': pid,
        'quick_cmd': f'python3 tools/check.py {pid} --tier quick',
        'thorough_cmd': f'python3 tools/check.py {pid} --tier thorough',
        'evidence_file': f'/verif/evidence/{pid}.json',
        'replay_cmd_template': f'python3 tools/check.py {pid} --replay {{path}}',
        'engine': 'coq-model',
        'level_claimed': {'category': 'proof', 'text': c['text'] + f' [{len(thms)} theorems in ' + ', '.join(os.path.basename(f) for f in files) + ']',
                          'design_ref': 'DESIGN.md §6 ' + pid},
        'level_note': c['note'],
        'technique': c.get('technique', 'Coq proof over an executable model of the crate + differential correspondence (extracted model vs the crate) + implementation-side oracle'),
    })
m = {
    'version': 1,
    'setup_cmd': 'tools/setup.sh',
    'hooks': {'guard': 'handlebars_verif', 'enable': "no source hooks are needed: the harness uses the public API only (RUSTFLAGS='--cfg handlebars_verif' is reserved)",
              'baseline_off_cmd': 'cd /repo && cargo test --workspace --no-fail-fast --offline', 'source_commits': [], 'add_only': True},
    'engines': [{'name': 'coq-model', 'path': 'coq/', 'serves_properties': [c['property_id'] for c in checks],
                 'kind_free_text': 'Coq 8.16 development: executable model of handlebars-rust (PEG grammar regenerated from grammar.pest on every run, compile2, render state machine, helpers, partials, registry) + theorems; extracted to OCaml and run against the crate through a Rust harness on generated cases'}],
    'checks': checks,
    'notes': 'Every check: regenerates coq/Peg/Grammar.v from /repo/src/grammar.pest, rebuilds the Coq development, the extracted model driver and the Rust harness against /repo\'s working tree, checks the property\'s theorems (Print Assumptions per theorem, forbidden-construct grep), runs the correspondence (model vs crate) and the implementation-side oracle on the property\'s generated family, prints KNOWN-FINDING lines for the defects listed in known_findings.json and VIOLATION lines otherwise.',
    'not_applicable': na,
}
json.dump(m, open(os.path.join(V, 'MANIFEST.json'), 'w'), indent=1)
print('claimed:', [c['property_id'] for c in checks], 'not yet:', [n['property_id'] for n in na])
