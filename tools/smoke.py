#!/usr/bin/env python3
"""smoke.py — development aid: mine template string literals from the repo's
tests, run cmp / rt on them in model and implementation, print disagreements."""
import re, sys, os, glob
sys.path.insert(0, os.path.dirname(__file__))
from hblib import *

def rust_unescape(s):
    out = []
    i = 0
    while i < len(s):
        c = s[i]
        if c == '\\' and i + 1 < len(s):
            n = s[i+1]
            if n == 'n': out.append('\n'); i += 2
            elif n == 'r': out.append('\r'); i += 2
            elif n == 't': out.append('\t'); i += 2
            elif n == '\\': out.append('\\'); i += 2
            elif n == '"': out.append('"'); i += 2
            elif n == "'": out.append("'"); i += 2
            elif n == '0': out.append('\0'); i += 2
            elif n == 'u':
                k = s.index('}', i)
                out.append(chr(int(s[i+3:k], 16))); i = k + 1
            elif n == '\n':
                i += 2
                while i < len(s) and s[i] in ' \t\n': i += 1
            else:
                out.append(c); i += 1
        else:
            out.append(c); i += 1
    return ''.join(out)

def mine():
    tpls = set()
    for path in glob.glob('/repo/src/**/*.rs', recursive=True) + glob.glob('/repo/tests/*.rs'):
        txt = open(path, encoding='utf-8').read()
        for m in re.finditer(r'"((?:[^"\\]|\\.)*)"', txt, re.S):
            s = m.group(1)
            if '{{' in s:
                tpls.add(rust_unescape(s))
        for m in re.finditer(r'r#"(.*?)"#', txt, re.S):
            if '{{' in m.group(1):
                tpls.add(m.group(1))
    return sorted(tpls)

DATA = {"a": [1, 2, 3], "b": {"c": "x<y", "d": [True, None]}, "name": "W<o>", "x": 1, "y": "", "z": None,
        "list": [{"k": "v1", "n": 1}, {"k": "v2", "n": 2}], "o": {"p": {"q": "deep"}}, "s": "line1\nline2",
        "t": True, "f": False, "e": [], "eo": {}, "this": "T", "people": [{"name": "n1"}, {"name": "n2"}]}

def main():
    tpls = mine()
    lines = []
    for k, t in enumerate(tpls):
        lines.append(f'c{k} cmp {x(t)}')
        lines.append(f'r{k} probes ; regs {x("p")} {x("P:{{this}}")} ; rt 4 {x(t)} {jtok(DATA)} -1')
        lines.append(f's{k} strict 1 ; rt 6 {x(t)} {jtok(DATA)} -1')
    res = compare(lines)
    bad = [r for r in res if not r[4]]
    print(f'{len(res)} cases, {len(bad)} disagreements')
    for cid, line, mo, io, _ in bad[: int(sys.argv[1]) if len(sys.argv) > 1 else 10]:
        print('---', describe_case(line)[:600])
        print('  model:', decode_obs(mo)[:1500])
        print('  impl :', decode_obs(io)[:1500])

if __name__ == '__main__':
    main()
