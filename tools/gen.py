"""gen.py — grammar-directed generators shared by the property families:
JSON values, paths, templates (with light scope tracking so that most generated
paths designate something), registries of partials. Every random choice comes
from the rng handed in (derived from VERIF_SEED)."""
import random
from hblib import F

IDENT_KEYS = ['a', 'b', 'c', 'name', 'items', 'k', 'v', 'x1', 'user', 'n', 'list', 'obj', 'flag', 'title']
ODD_KEYS = ['', 'a b', 'a.b', 'this', '0', '1', 'é', 'k-1', 'k_2', '$d', 'x:y', '日本', 'else', 'as', 'true', 'null', '@x', 'a/b', '[', 'q"q']
STRINGS = ['', 'x', 'hello', 'a<b', '&amp;', '"q"', "it's", '`=`', 'line1\nline2', ' lead', 'trail ', 'é', '日本', '\U0001F600', '0', 'true', '{{x}}', 'a\r\nb', '\t']


def gen_scalar(rng, floats=False):
    r = rng.random()
    if r < 0.08:
        return None
    if r < 0.2:
        return rng.choice([True, False])
    if r < 0.5:
        return rng.choice([0, 1, 2, 7, 10, 42, -1, -5, 100, 2**53 + 1, 2**63, 2**64 - 1, -(2**63)])
    if floats and r < 0.56:
        return F(rng.choice([0.0, -0.0, 1.0, 1.5, -2.25, 0.1, 1e21, 1e-7, 1e-320, 123456.789, 2.0**53]))
    return rng.choice(STRINGS)


def gen_key(rng, odd=0.15):
    return rng.choice(ODD_KEYS) if rng.random() < odd else rng.choice(IDENT_KEYS)


def gen_json(rng, depth=3, odd=0.15, floats=False, width=4):
    if depth <= 0 or rng.random() < 0.3:
        return gen_scalar(rng, floats)
    if rng.random() < 0.5:
        return [gen_json(rng, depth - 1, odd, floats, width) for _ in range(rng.randint(0, width))]
    d = {}
    for _ in range(rng.randint(0, width)):
        d[gen_key(rng, odd)] = gen_json(rng, depth - 1, odd, floats, width)
    return d


def gen_object(rng, depth=3, odd=0.15, floats=False, width=5):
    d = {}
    for _ in range(rng.randint(2, width + 1)):
        d[gen_key(rng, odd)] = gen_json(rng, depth - 1, odd, floats, width)
    return d


def is_ident(k):
    import re
    return bool(re.fullmatch(r'[A-Za-z0-9_$:\-\u0080-\U0010ffff]+', k)) and k not in ('this',) and '.' not in k


def seg_text(rng, k, force_bracket=False):
    """one path segment for key k"""
    k = str(k)
    if ']' in k:
        return None
    if force_bracket or not is_ident(k) or k in ('else', 'as', 'true', 'false', 'null') and rng.random() < 0.5:
        return '[' + k + ']'
    if rng.random() < 0.1:
        return '[' + k + ']'
    return k


def walk_paths(v, limit=3):
    """all (segments, value) reachable from v within `limit` steps"""
    out = [([], v)]
    if limit <= 0:
        return out
    if isinstance(v, dict):
        for k, e in v.items():
            for p, x in walk_paths(e, limit - 1):
                out.append(([k] + p, x))
    elif isinstance(v, (list, tuple)):
        for i, e in enumerate(v):
            for p, x in walk_paths(e, limit - 1):
                out.append(([i] + p, x))
    return out


class Scope:
    def __init__(self, value, kind='root', params=None, locals_=None):
        self.value = value
        self.kind = kind
        self.params = params or {}
        self.locals = locals_ or []


class TplGen:
    """random template source over a given data value"""

    def __init__(self, rng, data, **o):
        self.rng = rng
        self.data = data
        self.o = dict(ws=False, tilde=False, partials=[], probes=False, helpers=True, blocks=True,
                      comments=True, raw=True, decorators=False, inline=False, subexpr=True, literals=True,
                      html=True, locals=True, updirs=True, params=True, chains=True, missing=0.15,
                      maxdepth=4, text=None, crlf=False, partial_blocks=False, hash=True, dynamic_partial=False,
                      lookup=True, cmp_helpers=True, root=True)
        self.o.update(o)
        self.scopes = [Scope(data)]
        self.n_tags = 0

    # ----- text -----
    def text(self):
        r = self.rng
        if self.o['text'] is not None:
            return self.o['text'](r)
        words = ['a', 'b', 'xyz', 'T', '|', '-', ';', '.', '<b>', '&', 'q=1']
        if self.o['ws']:
            nl = '\r\n' if self.o['crlf'] and r.random() < 0.5 else '\n'
            words += [' ', '  ', '\t', nl, nl, nl + '  ', ' ' + nl, nl + nl]
        return ''.join(r.choice(words) for _ in range(r.randint(1, 3)))

    # ----- paths -----
    def cur(self):
        return self.scopes[-1]

    def path(self, want=None):
        """a path expression, mostly valid in the current scope; returns text"""
        r = self.rng
        sc = self.cur()
        if r.random() < self.o['missing']:
            return r.choice(['nope', 'nope.x', 'a.zz', 'zz.[0]', '../zz', 'this.zz', '@zz', 'a.[9]', 'zz/yy'])
        roll = r.random()
        # block params
        if self.o['params'] and roll < 0.15:
            names = [n for s in self.scopes for n in s.params]
            if names:
                n = r.choice(names)
                return n if r.random() < 0.6 else n + r.choice(['.a', '.name', '.[0]', '.k'])
        if self.o['locals'] and roll < 0.27:
            locs = ['@index', '@key', '@first', '@last']
            if any(s.kind == 'each' for s in self.scopes):
                p = r.choice(locs)
                if r.random() < 0.25 and self.o['updirs']:
                    p = '@../' + p[1:]
                return p
        if roll < 0.35 and self.o['root']:
            # @root path
            ps = walk_paths(self.data, 2)
            segs, _ = r.choice(ps)
            if segs:
                st = [seg_text(r, s) for s in segs]
                if all(s is not None for s in st):
                    return '@root.' + '.'.join(st)
        up = 0
        base = sc.value
        if self.o['updirs'] and len(self.scopes) > 1 and r.random() < 0.2:
            up = r.randint(1, len(self.scopes) - 1)
            base = self.scopes[-1 - up].value
            if r.random() < 0.1:
                up += 1          # beyond the stack
        ps = walk_paths(base, 3)
        if want == 'collection':
            cand = [p for p in ps if isinstance(p[1], (list, dict))]
            ps = cand or ps
        segs, _ = r.choice(ps)
        st = [seg_text(r, s) for s in segs]
        if any(s is None for s in st):
            st = []
        if not st:
            if up:
                return '../' * up + 'this'
            return 'this'
        sep = r.choice(['.', '.', '/'])
        body = sep.join(st)
        prefix = ''
        if up:
            prefix = '../' * up
        elif r.random() < 0.12 or body[:1].isdigit() or body[:1] in '-+':
            # (a leading digit would read as a number literal in argument position)
            prefix = r.choice(['this.', './', 'this/'])
        return prefix + body

    # ----- literals -----
    def literal(self, depth=2):
        r = self.rng
        k = r.random()
        if k < 0.3:
            return str(r.choice([0, 1, 7, -3, 42, 100, 2**53 + 1, 2**64 - 1, -(2**63)]))
        if k < 0.55:
            s = r.choice(['', 'a', 'x y', 'q', 'héllo', 'a=b', 'else', 'it', '<&>'])
            if r.random() < 0.5:
                return '"' + s.replace('\\', '\\\\').replace('"', '\\"') + '"'
            return "'" + s.replace('\\', '\\\\').replace("'", "\\'") + "'"
        if k < 0.7:
            return r.choice(['true', 'false', 'null'])
        if depth > 0 and k < 0.85:
            return '[' + ','.join(self._json_lit(depth - 1) for _ in range(r.randint(0, 3))) + ']'
        if depth > 0:
            return '{' + ','.join('"%s":%s' % (r.choice(['a', 'b', 'k']), self._json_lit(depth - 1))
                                  for _ in range(r.randint(0, 2))) + '}'
        return '1'

    def _json_lit(self, depth):
        r = self.rng
        k = r.random()
        if k < 0.4:
            return str(r.randint(-5, 50))
        if k < 0.7:
            return '"' + r.choice(['', 'a', 'bc', 'x y']) + '"'
        if k < 0.8:
            return r.choice(['true', 'false', 'null'])
        return self.literal(depth)

    def arg(self, depth=2):
        r = self.rng
        k = r.random()
        if self.o['literals'] and k < 0.3:
            return self.literal()
        if self.o['subexpr'] and depth > 0 and k < 0.45:
            return self.subexpr(depth - 1)
        return self.path()

    def subexpr(self, depth=1):
        r = self.rng
        hs = []
        if self.o['cmp_helpers']:
            hs += ['eq', 'ne', 'gt', 'lt', 'and', 'or', 'not', 'len']
        if self.o['lookup']:
            hs += ['lookup']
        if self.o['probes']:
            hs += ['id', 'id', 'dump', 'cnt']
        if self.o['blocks'] and r.random() < 0.15:
            hs += ['if', 'with']          # output-writing built-ins used inline
        if not hs:
            hs = ['not']
        h = r.choice(hs)
        n = {'not': 1, 'len': 1, 'id': 1, 'lookup': 2, 'cnt': 1, 'if': 1, 'with': 1}.get(h, 2)
        args = [self.arg(depth) for _ in range(n)]
        if h == 'lookup':
            args[1] = r.choice([self.literal(0), '0', '"a"', '"name"', self.path()])
        return '(' + h + ' ' + ' '.join(args) + ')'

    def tildes(self):
        if not self.o['tilde']:
            return '', ''
        r = self.rng
        return ('~' if r.random() < 0.2 else ''), ('~' if r.random() < 0.2 else '')

    def hash_args(self):
        r = self.rng
        if not self.o['hash'] or r.random() < 0.7:
            return ''
        return ''.join(' %s=%s' % (r.choice(['k', 'j', 'key2']), self.arg(1)) for _ in range(r.randint(1, 2)))

    # ----- elements -----
    def element(self, depth):
        r = self.rng
        self.n_tags += 1
        a, b = self.tildes()
        kinds = ['text', 'text', 'expr', 'expr', 'expr']
        if self.o['html']:
            kinds += ['html']
        if self.o['helpers']:
            kinds += ['helper']
        if self.o['comments']:
            kinds += ['comment']
        if self.o['blocks'] and depth > 0:
            kinds += ['if', 'each', 'with', 'unless', 'each', 'if']
            if self.o['raw']:
                kinds += ['rawblock']
            if self.o['probes']:
                kinds += ['blk']
        if self.o['partials']:
            kinds += ['partial', 'partial']
            if self.o['partial_blocks'] and depth > 0:
                kinds += ['partialblock']
        if self.o['inline'] and depth > 0:
            kinds += ['inline']
        if self.o['probes']:
            kinds += ['probe']
        if self.o['decorators']:
            kinds += ['deco']
        k = r.choice(kinds)
        if k == 'text':
            return self.text()
        if k == 'expr':
            return '{{%s%s%s}}' % (a, self.path(), b)
        if k == 'html' and self.o['helpers'] and r.random() < 0.4:
            # a value-returning helper inside a triple brace, with subexpression arguments (some of them
            # calling output-writing helpers when probes are on)
            h = r.choice(['lookup', 'eq', 'not', 'len'] + (['id', 'id'] if self.o['probes'] else []))
            n = {'not': 1, 'len': 1, 'id': 1}.get(h, 2)
            args = [self.subexpr(1) if r.random() < 0.6 else self.arg() for _ in range(n)]
            return '{{{%s%s %s%s}}}' % (a, h, ' '.join(args), b)
        if k == 'html':
            p = self.path()
            f = r.choice(['{{{%s%s%s}}}', '{{%s&%s%s}}', '{{%s{%s}%s}}'])
            return f % (a, p, b)
        if k == 'helper':
            hs = []
            if self.o['cmp_helpers']:
                hs += ['eq', 'ne', 'gt', 'gte', 'lt', 'lte', 'and', 'or', 'not', 'len']
            if self.o['lookup']:
                hs += ['lookup', 'lookup']
            if not hs:
                return '{{%s%s%s}}' % (a, self.path(), b)
            h = r.choice(hs)
            n = {'not': 1, 'len': 1, 'lookup': 2, 'and': r.randint(0, 3), 'or': r.randint(0, 3)}.get(h, 2)
            args = [self.arg() for _ in range(n)]
            if h == 'lookup' and n == 2:
                args[0] = self.path('collection')
                args[1] = r.choice(['0', '1', '"a"', '"name"', '"k"', self.path(), '@index', '@key'])
            return '{{%s%s %s%s}}' % (a, h, ' '.join(args), b)
        if k == 'comment':
            return r.choice(['{{!c}}', '{{!-- c }} --}}', '{{! multi\nline }}', '{{!}}'])
        if k == 'probe':
            pk = r.choice(['dump', 'cnt', 'state', 'evalp', 'id'])
            if pk == 'dump':
                return '{{%sdump %s%s%s}}' % (a, ' '.join(self.arg() for _ in range(r.randint(0, 3))), self.hash_args(), b)
            if pk == 'cnt':
                return '{{cnt %s}}' % self.arg(0)
            if pk == 'state':
                return '{{state}}'
            if pk == 'id':
                return '{{id %s}}' % self.arg()
            return '{{evalp "%s"}}' % self.path().replace('"', '')
        if k == 'deco':
            if r.random() < 0.5:
                return '{{*sethelper "%s"}}{{%s 1 %s}}' % (r.choice(['lh', 'a', 'if2']), r.choice(['lh', 'a', 'if2']), self.path())
            return '{{*setctx %s}}' % self.arg(0)
        if k == 'rawblock':
            return '{{{{raw}}}}' + r.choice(['x', '{{y}}', ' {{#if}} ', 'a\nb', '']) + '{{{{/raw}}}}'
        if k in ('if', 'unless'):
            body = self.body(depth - 1)
            s = '{{%s#%s %s%s}}%s' % (a, k, self.arg(1) if r.random() < 0.3 else self.path(), b, body)
            if self.o['chains'] and r.random() < 0.35:
                for _ in range(r.randint(1, 2)):
                    lk = r.choice(['if', 'unless', 'if'])
                    a2, b2 = self.tildes()
                    if a2:   # `{{~else if` panics the parser (finding F1); C04 covers it
                        a2 = ''
                    s += '{{%selse %s %s%s}}%s' % (a2, lk, self.path(), b2, self.body(depth - 1))
            if r.random() < 0.5:
                a2, b2 = self.tildes()
                s += '{{%s%s%s}}%s' % (a2, r.choice(['else', '^']), b2, self.body(depth - 1))
            a3, b3 = self.tildes()
            return s + '{{%s/%s%s}}' % (a3, k, b3)
        if k == 'blk':
            s = '{{#blk}}' + self.body(depth - 1)
            if r.random() < 0.5:
                s += '{{else}}' + self.body(depth - 1)
            return s + '{{/blk}}'
        if k in ('each', 'with'):
            p = self.path('collection') if r.random() < 0.85 else self.arg(1)
            bp = ''
            params = {}
            if self.o['params'] and r.random() < 0.35:
                if k == 'each' and r.random() < 0.5:
                    n1, n2 = r.choice([('v', 'i'), ('item', 'key'), ('name', 'k2')])
                    bp = ' as |%s %s|' % (n1, n2)
                    params = {n1: None, n2: None}
                else:
                    n1 = r.choice(['v', 'item', 'name', 'a'])
                    bp = ' as |%s|' % n1
                    params = {n1: None}
            val = self.resolve_simple(p)
            if k == 'each':
                inner = None
                if isinstance(val, list) and val:
                    inner = val[r.randrange(len(val))]
                elif isinstance(val, dict) and val:
                    inner = val[r.choice(list(val))]
                self.scopes.append(Scope(inner, 'each', params))
            else:
                self.scopes.append(Scope(val, 'with', params))
            body = self.body(depth - 1)
            self.scopes.pop()
            s = '{{%s#%s %s%s%s}}%s' % (a, k, p, bp, b, body)
            if r.random() < 0.35:
                s += '{{else}}' + self.body(depth - 1)
            a3, b3 = self.tildes()
            return s + '{{%s/%s%s}}' % (a3, k, b3)
        if k == 'partial':
            name = r.choice(self.o['partials'])
            if self.o['dynamic_partial'] and r.random() < 0.2:
                nm = '(id "%s")' % name if self.o['probes'] else '(lookup @root.pn "%s")' % name
            else:
                nm = name
            ctx = ''
            if r.random() < 0.4:
                ctx = ' ' + (self.path() if r.random() < 0.8 else self.literal())
            return '{{%s> %s%s%s%s}}' % (a, nm, ctx, self.hash_args(), b)
        if k == 'partialblock':
            name = r.choice(self.o['partials'] + ['nopartial'])
            saved = self.o['partials']
            self.o['partials'] = []          # no partial calls inside a partial block: keeps the include graph acyclic
            body = self.body(depth - 1)
            self.o['partials'] = saved
            return '{{#> %s}}%s{{/%s}}' % (name, body, name)
        if k == 'inline':
            nm = r.choice(['il1', 'il2'])
            self.scopes.append(Scope(self.cur().value, 'inline'))
            body = self.body(depth - 1)
            self.scopes.pop()
            return '{{#*inline "%s"}}%s{{/inline}}{{> %s}}' % (nm, body, nm)
        return self.text()

    def resolve_simple(self, p):
        """best-effort value of a plain relative path in the current scope (generator bookkeeping only)"""
        import re
        v = self.cur().value
        if p.startswith('@') or p.startswith('(') or p.startswith('..') or p[:1] in '"\'[{0123456789-tfn' and not re.match(r'[a-z]', p):
            return None
        for pre in ('this.', './', 'this/'):
            if p.startswith(pre):
                p = p[len(pre):]
        if p in ('this', '.', ''):
            return v
        for seg in re.split(r'[./]', p):
            seg = seg.strip('[]')
            if isinstance(v, dict):
                v = v.get(seg)
            elif isinstance(v, list):
                try:
                    v = v[int(seg)]
                except Exception:
                    return None
            else:
                return None
        return v

    def body(self, depth):
        r = self.rng
        return ''.join(self.element(depth) for _ in range(r.randint(0, 3)))

    def template(self, n=None):
        r = self.rng
        n = n or r.randint(1, 6)
        return ''.join(self.element(self.o['maxdepth']) for _ in range(n))
