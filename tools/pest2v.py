#!/usr/bin/env python3
"""pest2v.py — translate /repo/src/grammar.pest into coq/Peg/Grammar.v.

Usage: pest2v.py <grammar.pest> <Grammar.v>
The output file is rewritten only when its content changes (keeps make quiet).
The translation follows pest_generator 2.9: `a ~ b` has an implicit skip,
`a*` = optional(a ~ (skip ~ a)*), `a+` = a ~ (skip ~ a)*, `a{n}` is unrolled,
`a?` = optional(a); skip is a run-time no-op unless the atomicity is NonAtomic,
so the same translation is used for every rule kind.
"""
import re, sys, os


class Lexer:
    def __init__(self, text):
        self.t = text
        self.i = 0
        self.toks = []
        self.run()

    def run(self):
        t = self.t
        n = len(t)
        i = 0
        while i < n:
            c = t[i]
            if c.isspace():
                i += 1
            elif t.startswith('//', i):
                j = t.find('\n', i)
                i = n if j < 0 else j
            elif t.startswith('/*', i):
                j = t.find('*/', i)
                i = n if j < 0 else j + 2
            elif c == '"':
                j = i + 1
                buf = []
                while t[j] != '"':
                    if t[j] == '\\':
                        j, ch = self.escape(j)
                        buf.append(ch)
                    else:
                        buf.append(ord(t[j]))
                        j += 1
                self.toks.append(('str', buf))
                i = j + 1
            elif c == "'":
                j = i + 1
                if t[j] == '\\':
                    j, ch = self.escape(j)
                else:
                    ch = ord(t[j])
                    j += 1
                assert t[j] == "'", (t[i:i + 20])
                self.toks.append(('chr', ch))
                i = j + 1
            elif t.startswith('..', i):
                self.toks.append(('..', None))
                i += 2
            elif c in '={}()|~!&*+?@$^':
                self.toks.append((c, None))
                i += 1
            elif c.isalpha() or c == '_':
                j = i
                while j < n and (t[j].isalnum() or t[j] == '_'):
                    j += 1
                self.toks.append(('id', t[i:j]))
                i = j
            elif c.isdigit():
                j = i
                while j < n and t[j].isdigit():
                    j += 1
                self.toks.append(('num', int(t[i:j])))
                i = j
            elif c == ',':
                self.toks.append((',', None))
                i += 1
            else:
                raise SystemExit(f'pest2v: unexpected character {c!r} at {i}')

    def escape(self, j):
        t = self.t
        assert t[j] == '\\'
        c = t[j + 1]
        simple = {'n': 10, 'r': 13, 't': 9, '\\': 92, '"': 34, "'": 39, '0': 0}
        if c in simple:
            return j + 2, simple[c]
        if c == 'u':
            assert t[j + 2] == '{'
            k = t.index('}', j)
            return k + 1, int(t[j + 3:k], 16)
        if c == 'x':
            return j + 4, int(t[j + 2:j + 4], 16)
        raise SystemExit(f'pest2v: unknown escape \\{c}')


# the identifier lexer treats '_' as identifier start; pest's silent modifier is a lone '_'

class Parser:
    def __init__(self, toks):
        self.toks = toks
        self.i = 0

    def peek(self, k=0):
        return self.toks[self.i + k] if self.i + k < len(self.toks) else (None, None)

    def next(self):
        t = self.toks[self.i]
        self.i += 1
        return t

    def expect(self, kind):
        t = self.next()
        if t[0] != kind:
            raise SystemExit(f'pest2v: expected {kind}, got {t} at token {self.i}')
        return t

    def rules(self):
        out = []
        while self.peek()[0] is not None:
            name = self.expect('id')[1]
            self.expect('=')
            kind = 'KNormal'
            t = self.peek()
            if t[0] == 'id' and t[1] == '_':
                self.next(); kind = 'KSilent'
            elif t[0] == '@':
                self.next(); kind = 'KAtomic'
            elif t[0] == '$':
                self.next(); kind = 'KCompound'
            elif t[0] == '!':
                self.next(); kind = 'KNonAtomic'
            self.expect('{')
            e = self.choice()
            self.expect('}')
            out.append((name, kind, e))
        return out

    def choice(self):
        if self.peek()[0] == '|':      # leading bar allowed
            self.next()
        e = self.seq()
        alts = [e]
        while self.peek()[0] == '|':
            self.next()
            alts.append(self.seq())
        r = alts[-1]
        for a in reversed(alts[:-1]):
            r = ('alt', a, r)
        return r

    def seq(self):
        items = [self.prefix()]
        while self.peek()[0] == '~':
            self.next()
            items.append(self.prefix())
        r = items[-1]
        for a in reversed(items[:-1]):
            r = ('seq', a, r)
        return r

    def prefix(self):
        t = self.peek()
        if t[0] == '!':
            self.next()
            return ('not', self.prefix())
        if t[0] == '&':
            self.next()
            return ('and', self.prefix())
        return self.postfix()

    def postfix(self):
        e = self.term()
        while True:
            t = self.peek()
            if t[0] == '*':
                self.next(); e = ('star', e)
            elif t[0] == '+':
                self.next(); e = ('plus', e)
            elif t[0] == '?':
                self.next(); e = ('opt', e)
            elif t[0] == '{' and self.peek(1)[0] in ('num', ','):
                # e{n} | e{n,} | e{,m} | e{n,m}, unrolled exactly as pest_meta's optimizer does:
                # n copies of e, then either e* (open upper bound) or (m-n) optionals, as one sequence
                self.next()
                lo = hi = None
                if self.peek()[0] == 'num':
                    lo = self.next()[1]
                exact = True
                if self.peek()[0] == ',':
                    self.next(); exact = False
                    if self.peek()[0] == 'num':
                        hi = self.next()[1]
                self.expect('}')
                if exact:
                    items = [e] * lo
                elif hi is None:
                    items = [e] * (lo or 0) + [('star', e)]
                else:
                    items = [e] * (lo or 0) + [('opt', e)] * (hi - (lo or 0))
                if not items:
                    raise SystemExit('pest2v: empty repetition')
                r = items[-1]
                for a in reversed(items[:-1]):
                    r = ('seq', a, r)
                e = r
            else:
                return e

    def term(self):
        t = self.next()
        if t[0] == '(':
            e = self.choice()
            self.expect(')')
            return e
        if t[0] == 'str':
            return ('str', t[1])
        if t[0] == 'chr':
            self.expect('..')
            hi = self.expect('chr')[1]
            return ('range', t[1], hi)
        if t[0] == 'id':
            return ('ref', t[1])
        if t[0] == '^':
            raise SystemExit('pest2v: case-insensitive strings are not supported')
        raise SystemExit(f'pest2v: unexpected token {t}')


BUILTINS = {
    'ANY': 'EAny',
    'ASCII_DIGIT': '(ERange 48 57)',
    'ASCII_HEX_DIGIT': '(EAlt (ERange 48 57) (EAlt (ERange 97 102) (ERange 65 70)))',
    'ASCII_ALPHANUMERIC': '(EAlt (ERange 97 122) (EAlt (ERange 65 90) (ERange 48 57)))',
    'ASCII_ALPHA': '(EAlt (ERange 97 122) (ERange 65 90))',
    'NEWLINE': '(EAlt (EStr [10]) (EAlt (EStr [13; 10]) (EStr [13])))',
    'SOI': '(EStr [])',
}


def emit(e, names):
    k = e[0]
    if k == 'str':
        return '(EStr [' + '; '.join(str(c) for c in e[1]) + '])'
    if k == 'range':
        return f'(ERange {e[1]} {e[2]})'
    if k == 'ref':
        n = e[1]
        if n == 'EOI':
            return '(ERef R_EOI)'
        if n in names:
            return f'(ERef R_{n})'
        if n in BUILTINS:
            return BUILTINS[n]
        raise SystemExit(f'pest2v: unknown rule {n}')
    if k == 'seq':
        return f'(e_seq {emit(e[1], names)} {emit(e[2], names)})'
    if k == 'alt':
        return f'(EAlt {emit(e[1], names)} {emit(e[2], names)})'
    if k == 'star':
        return f'(e_star {emit(e[1], names)})'
    if k == 'plus':
        return f'(e_plus {emit(e[1], names)})'
    if k == 'opt':
        return f'(EOpt {emit(e[1], names)})'
    if k == 'not':
        return f'(ENot {emit(e[1], names)})'
    if k == 'and':
        return f'(EAnd {emit(e[1], names)})'
    raise AssertionError(k)


def coq_str(s):
    return '[' + '; '.join(str(ord(c)) for c in s) + ']'


def translate(text):
    # a lone '_' modifier: the lexer yields ('id','_')
    rules = Parser(Lexer(text).toks).rules()
    names = [r[0] for r in rules]
    if 'WHITESPACE' not in names:
        raise SystemExit('pest2v: grammar without WHITESPACE is not supported')
    if 'COMMENT' in names:
        raise SystemExit('pest2v: COMMENT rule is not supported')
    allnames = names + ['EOI']
    out = []
    out.append('(* GENERATED by tools/pest2v.py from /repo/src/grammar.pest — do not edit. *)')
    out.append('From HB Require Export Peg.Peg.')
    out.append('Open Scope N_scope.')
    out.append('')
    out.append('Inductive rule :=')
    for n in allnames:
        out.append(f'| R_{n}')
    out[-1] += '.'
    out.append('')
    out.append('Definition rule_index (r : rule) : N :=')
    out.append('  match r with')
    for i, n in enumerate(allnames):
        out.append(f'  | R_{n} => {i}')
    out.append('  end.')
    out.append('Definition rule_eqb (a b : rule) : bool := N.eqb (rule_index a) (rule_index b).')
    out.append('')
    out.append('Definition rule_name (r : rule) : str :=')
    out.append('  match r with')
    for n in allnames:
        out.append(f'  | R_{n} => {coq_str(n)}')
    out.append('  end.')
    out.append('')
    out.append('Definition all_rules : list rule :=')
    out.append('  [' + '; '.join('R_' + n for n in allnames) + '].')
    out.append('')
    out.append('Definition hb_defs (r : rule) : rkind * expr rule :=')
    out.append('  match r with')
    for (n, kind, e) in rules:
        out.append(f'  | R_{n} => ({kind}, {emit(e, set(names))})')
    out.append('  | R_EOI => (KNormal, EEoi)')
    out.append('  end.')
    out.append('')
    out.append('Definition hb_ws : expr rule := ERef R_WHITESPACE.')
    out.append('Definition hb_eval := eval rule hb_defs hb_ws.')
    out.append('Definition hb_parse := parse rule hb_defs hb_ws.')
    out.append('')
    return '\n'.join(out)


def main():
    src, dst = sys.argv[1], sys.argv[2]
    text = open(src, encoding='utf-8').read()
    new = translate(text)
    old = open(dst, encoding='utf-8').read() if os.path.exists(dst) else None
    if old != new:
        tmp = dst + '.tmp'
        open(tmp, 'w', encoding='utf-8').write(new)
        os.replace(tmp, dst)
        print('pest2v: wrote', dst)
    else:
        print('pest2v: unchanged', dst)


if __name__ == '__main__':
    main()
