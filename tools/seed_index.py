#!/usr/bin/env python3
"""seed_index.py — write seeded/INDEX.md from the meta.json files."""
import glob, json, os
V = os.path.dirname(os.path.dirname(os.path.abspath(__file__)))
rows = []
for d in sorted(glob.glob(os.path.join(V, 'seeded', '*', 'meta.json'))):
    m = json.load(open(d))
    res = m.get('check_results', {})
    caught = [f"{p} ({'concrete input' if r['violations'] > r['no_failing_input'] else 'no-failing-input-found'})" for p, r in res.items() if r['exit'] != 0]
    quiet = [p for p, r in res.items() if r['exit'] == 0]
    rows.append((m.get('id', os.path.basename(os.path.dirname(d))), m.get('breaks_property', '?'), m.get('change', ''), m.get('needs_to_manifest', ''),
                 ', '.join(caught) or '—', ', '.join(quiet) or '—', m.get('history', '')))
with open(os.path.join(V, 'seeded', 'INDEX.md'), 'w') as f:
    f.write('# Seeded changes and the checks that catch them\n\n'
            'Each change was written by an independent sub-agent (property text + scratch worktree only), compiles, passes the\n'
            'unedited suite, and has a demonstration test failing only with the change (`demo.rs`). "caught by" lists the quick\n'
            'checks that exit 1 with the patch applied to /repo (`tools/seed_run.py`).\n\n'
            '| id | breaks | change | needs to manifest | caught by | quiet (also run) | history |\n|---|---|---|---|---|---|---|\n')
    for r in rows:
        f.write('| ' + ' | '.join(str(c).replace('|', '\\|').replace('\n', ' ') for c in r) + ' |\n')
print(len(rows), 'seeded changes indexed')
