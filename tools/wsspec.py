"""wsspec.py — the whitespace rules of property C11 (and the text conservation of C03) as an
executable specification over a lexical sequence of text and tags, written from the property text:
  * `~` at the start (end) of a tag removes all whitespace between the tag and the nearest preceding
    (following) non-whitespace text, nothing beyond the neighbouring tag;
  * a line that, judged on the source as written, contains only spaces/tabs and a single
    standalone-capable tag contributes no whitespace of its own: its indentation and its line break
    (LF or CRLF; start and end of the template count as line boundaries) are removed;
  * nothing else is added or removed.
Items: ('text', s, live) | ('tag', src, capable, tl, tr, out, live, indent_partial)
`live` = the item lies in a branch that is rendered. `out` = what the tag itself writes.
"""

BLANK = ' \t'
# `~` removes ALL whitespace (Unicode White_Space, as Rust's trim does); the standalone rule knows only spaces and tabs
WS = (' \t\r\n\x0b\x0c\x85\xa0\u1680\u2000\u2001\u2002\u2003\u2004\u2005\u2006\u2007\u2008\u2009\u200a'
      '\u2028\u2029\u202f\u205f\u3000')


def source(items):
    return ''.join(it[1] for it in items)


def standalone_flags(items):
    src = source(items)
    flags = []
    pos = 0
    spans = []
    for it in items:
        spans.append((pos, pos + len(it[1])))
        pos += len(it[1])
    for i, it in enumerate(items):
        if it[0] != 'tag' or not it[2]:
            flags.append(False)
            continue
        s, e = spans[i]
        # before: back to the previous LF (or start); must be blanks only and must be raw text
        ok = True
        j = s
        k = i - 1
        while j > 0:
            ch = src[j - 1]
            # is position j-1 inside a text item?
            while k >= 0 and spans[k][0] > j - 1:
                k -= 1
            if k >= 0 and items[k][0] == 'tag' and spans[k][0] <= j - 1 < spans[k][1]:
                ok = False
                break
            if ch == '\n':
                break
            if ch not in BLANK:
                ok = False
                break
            j -= 1
        if ok:
            j = e
            k = i + 1
            while j < len(src):
                ch = src[j]
                while k < len(items) and spans[k][1] <= j:
                    k += 1
                if k < len(items) and items[k][0] == 'tag':
                    ok = False
                    break
                if ch == '\n':
                    break
                if ch == '\r' and j + 1 < len(src) and src[j + 1] == '\n':
                    j += 1
                    continue
                if ch not in BLANK:
                    ok = False
                    break
                j += 1
        flags.append(ok)
    return flags


def strip_leading_line(s):
    t = s.lstrip(BLANK)
    if t.startswith('\r\n'):
        return t[2:]
    if t.startswith('\n'):
        return t[1:]
    return t


def expected(items, prevent_indent=False):
    """the output the property text requires"""
    st = standalone_flags(items)
    out = []
    n = len(items)
    for i, it in enumerate(items):
        if it[0] == 'tag':
            if it[6]:
                o = it[5]
                if it[7] and st[i]:
                    # a standalone partial: its (single-line) output carries the line's indentation
                    ind = ''
                    if i > 0 and items[i - 1][0] == 'text':
                        t = items[i - 1][1]
                        ind = t[len(t.rstrip(BLANK)):]
                    o = ind + o if not it[3] else o
                out.append(o)
            continue
        s = it[1]
        if not it[2]:
            continue
        prev = items[i - 1] if i > 0 else None
        nxt = items[i + 1] if i + 1 < n else None
        # left side: trimmed by the previous tag
        if prev is not None and prev[0] == 'tag':
            if prev[4]:
                s = s.lstrip(WS)
            elif st[i - 1]:
                s = strip_leading_line(s)
        if nxt is not None and nxt[0] == 'tag':
            if nxt[3]:
                s = s.rstrip(WS)
            elif st[i + 1] and not (nxt[7] and prevent_indent):
                s = s.rstrip(BLANK)
        out.append(s)
    return ''.join(out)


def tag(src_body, capable, tl=False, tr=False, out='', live=True, quad=False, partial=False):
    o, c = ('{{{{', '}}}}') if quad else ('{{', '}}')
    return ('tag', o + ('~' if tl else '') + src_body + ('~' if tr else '') + c, capable, tl, tr, out, live, partial)


def text(s, live=True):
    return ('text', s, live)
