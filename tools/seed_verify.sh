#!/bin/bash
# seed_verify.sh <ID> <outdir>: confirm a sub-agent's change in a scratch worktree:
#   demo passes on the unchanged tree, full suite passes with the change, demo fails with the change.
set -u
ID=$1; OUT=$2
WT=/tmp/sv_$ID
export CARGO_TARGET_DIR=/tmp/sv_target CARGO_NET_OFFLINE=true
git -C /repo worktree remove --force $WT >/dev/null 2>&1
git -C /repo worktree add -q $WT HEAD || exit 2
cp $OUT/demo.rs $WT/tests/demo.rs
cd $WT
echo "== baseline demo"; cargo test --offline --test demo 2>&1 | grep -E "^test result|error\[" | head -3
rm tests/demo.rs
git apply $OUT/patch.diff || { echo "PATCH DOES NOT APPLY"; cd /; git -C /repo worktree remove --force $WT; exit 3; }
echo "== with change: full suite (without the demo)"; cargo test --offline --no-fail-fast 2>&1 | grep -E "^test result|error\[|FAILED" | awk '/test result/{p+=$4; f+=$6} /error|FAILED/{print} END{print "passed="p" failed="f}'
cp $OUT/demo.rs tests/demo.rs
echo "== with change: demo"; cargo test --offline --test demo 2>&1 | grep -E "^test result" | head -2
cd /; git -C /repo worktree remove --force $WT
