#!/usr/bin/env python3
"""fuzz.py — development aid: broad random model-vs-implementation comparison."""
import sys, os, random, collections
sys.path.insert(0, os.path.dirname(__file__))
from hblib import *
from gen import *

def main():
    seed = int(sys.argv[1]) if len(sys.argv) > 1 else 1
    n = int(sys.argv[2]) if len(sys.argv) > 2 else 500
    show = int(sys.argv[3]) if len(sys.argv) > 3 else 8
    rng = random.Random(seed)
    lines = []
    for k in range(n):
        data = gen_object(rng, depth=3, odd=0.1)
        mode = k % 6
        o = dict(ws=(mode in (1, 4)), tilde=(mode in (1,)), probes=(mode in (2, 5)), decorators=(mode == 5),
                 partials=(['p1', 'p2'] if mode in (3, 4) else []), partial_blocks=(mode in (3,)), inline=(mode == 3),
                 crlf=(mode == 4))
        g = TplGen(rng, data, **o)
        t = g.template()
        pre = []
        if o['probes']:
            pre.append('probes')
        if mode == 2 and rng.random() < 0.3:
            pre.append('hooks 3')
        if rng.random() < 0.2:
            pre.append('strict 1')
        if rng.random() < 0.15:
            pre.append('pi 1')
        if o['partials']:
            for pn in o['partials']:
                g2 = TplGen(rng, data, **dict(o, partials=[], maxdepth=2, partial_blocks=False, inline=False))
                body = g2.template(rng.randint(1, 3))
                if o['partial_blocks'] and rng.random() < 0.5:
                    body += '{{> @partial-block}}'
                pre.append(f'regs {x(pn)} {x(body)}')
        pre.append(f'regs {x("main")} {x(t)}')
        pre.append(f'r {rng.choice([0,1,2,3])} {x("main")} {jtok(data)} -1')
        lines.append(f'f{k} ' + ' ; '.join(pre))
    res = compare(lines)
    bad = [r for r in res if not r[4]]
    kinds = collections.Counter()
    for r in res:
        last = (r[3] or 'NONE').split(' ')[-1]
        kinds[':'.join(last.split(':')[:3]) if last.startswith('R:') else last[:12]] += 1
    print(f'{len(res)} cases, {len(bad)} disagreements; impl outcome kinds: {dict(kinds.most_common(12))}')
    for cid, line, mo, io, _ in bad[:show]:
        print('---', describe_case(line)[:1500])
        print('  model:', decode_obs(mo)[:1200])
        print('  impl :', decode_obs(io)[:1200])

if __name__ == '__main__':
    main()
