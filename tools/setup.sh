#!/bin/sh
# Build the whole framework from files on disk (offline): Coq development (full .vo build),
# extracted model + OCaml driver, Rust harness against /repo's working tree.
set -e
cd "$(dirname "$0")/.."
export CARGO_NET_OFFLINE=true
mkdir -p work evidence replays
python3 tools/pest2v.py /repo/src/grammar.pest coq/Peg/Grammar.v
( cd coq && coq_makefile -f _CoqProject -o Makefile >/dev/null && timeout 3000 make -j16 2>&1 | grep -v '^COQ\|^Closed under' | tail -20 )
test -f coq/Extract/Extract.vo
ocaml/build.sh
[ -f harness/Cargo.lock ] || cp /repo/Cargo.lock harness/Cargo.lock
( cd harness && timeout 3000 cargo build --offline 2>&1 | tail -3 )
test -x harness/target/debug/hbharness
echo setup-ok
