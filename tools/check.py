#!/usr/bin/env python3
"""check.py — orchestrator of one property check.

  check.py Cxx [--tier quick|thorough] [--replay FILE]

Steps (DESIGN.md §5): (1) regenerate Grammar.v from /repo, rebuild the Coq
development for the property, check its theorems, their assumptions, and the
no-axiom greps; (2) rebuild the model driver and the Rust harness from /repo's
working tree and run the correspondence on the corpus and on generated cases;
(3) run the property's implementation-side oracles. Writes evidence/Cxx.json,
prints KNOWN-FINDING / VIOLATION lines, exits 1 only with a VIOLATION line.
"""
import argparse, fcntl, glob, hashlib, importlib, json, os, random, re, shutil, subprocess, sys, time

HERE = os.path.dirname(os.path.abspath(__file__))
sys.path.insert(0, HERE)
import hblib
from hblib import VERIF, WORK

COQ = os.path.join(VERIF, 'coq')
REPO = '/repo'
ALLOWED_AXIOMS = set()   # expected: every property theorem is closed under the global context

FORBIDDEN = re.compile(r'\b(Admitted|admit|Axiom|Axioms|Parameter|Parameters|Conjecture|Conjectures|'
                       r'Unset\s+Guard|bypass_check|Admit\s+Obligations|type-in-type|impredicative-set|'
                       r'Unset\s+Positivity|Unset\s+Universe)\b')


def sh(cmd, timeout=3600, cwd=None, env=None):
    e = dict(os.environ)
    e.update({'CARGO_NET_OFFLINE': 'true'})
    if env:
        e.update(env)
    p = subprocess.run(cmd, shell=True, stdout=subprocess.PIPE, stderr=subprocess.STDOUT, cwd=cwd,
                       timeout=timeout, env=e)
    return p.returncode, p.stdout.decode('utf-8', errors='replace')


class BuildError(Exception):
    def __init__(self, stage, log):
        self.stage, self.log = stage, log


def build_all(prop, log):
    """everything a check needs, rebuilt from /repo's working tree; serialised by a lock"""
    os.makedirs(WORK, exist_ok=True)
    with open(os.path.join(WORK, 'build.lock'), 'w') as lk:
        fcntl.flock(lk, fcntl.LOCK_EX)
        t0 = time.time()
        rc, out = sh(f'python3 {HERE}/pest2v.py {REPO}/src/grammar.pest {COQ}/Peg/Grammar.v')
        log.append(out.strip())
        if rc != 0:
            raise BuildError('translator', out)
        if not os.path.exists(os.path.join(COQ, 'Makefile')):
            rc, out = sh('coq_makefile -f _CoqProject -o Makefile', cwd=COQ)
            if rc != 0:
                raise BuildError('coq_makefile', out)
        # model + extraction first (needed by the correspondence even if a proof breaks)
        rc, out = sh('timeout 1500 make -j16 Extract/Extract.vo 2>&1', cwd=COQ, timeout=1600)
        if rc != 0:
            raise BuildError('coq-model', out[-6000:])
        rc, out = sh('test ocaml/hbmodel -nt ocaml/gen/hb_model.ml -a ocaml/hbmodel -nt ocaml/driver.ml || ocaml/build.sh', cwd=VERIF)
        if rc != 0:
            raise BuildError('ocaml-driver', out[-6000:])
        if not os.path.exists(os.path.join(hblib.HARNESS_DIR, 'Cargo.lock')):
            shutil.copy(os.path.join(REPO, 'Cargo.lock'), os.path.join(hblib.HARNESS_DIR, 'Cargo.lock'))
        rc, out = sh('timeout 1500 cargo build --offline 2>&1', cwd=hblib.HARNESS_DIR, timeout=1600)
        if rc != 0:
            raise BuildError('harness', out[-6000:])
        log.append('build %.1fs' % (time.time() - t0))


def check_theorems(prop, log):
    """(obligations, discharged, details, broken) for Props/<prop>*.v (e.g. C02.v, C02_leaf.v)"""
    files = sorted(glob.glob(os.path.join(COQ, 'Props', prop + '.v')) +
                   glob.glob(os.path.join(COQ, 'Props', prop + '_*.v')))
    if not files:
        return 0, 0, [], ['no Props file']
    broken, details = [], []
    obligations = discharged = 0
    for pf in files:
        rel = os.path.relpath(pf, COQ)
        src = open(pf).read()
        names = re.findall(r'^\s*(?:Theorem|Lemma)\s+(\w+)', src, re.M)
        obligations += len(names)
        if rel not in open(os.path.join(COQ, '_CoqProject')).read():
            log.append(f'{rel} is not part of _CoqProject yet: ignored')
            obligations -= len(names)
            continue
        with open(os.path.join(WORK, 'build.lock'), 'w') as lk:
            fcntl.flock(lk, fcntl.LOCK_EX)
            vo = pf[:-2] + '.vo'
            if os.path.exists(vo):
                os.remove(vo)
            rc, out = sh(f'timeout 1700 make -j16 {rel}o 2>&1', cwd=COQ, timeout=1800)
        if rc != 0:
            broken.append('build of %s failed: %s' % (rel, out[-1500:].strip()))
            continue
        blocks = re.split(r'(?=Closed under the global context|Axioms:)', out)
        blocks = [b for b in blocks if b.startswith('Closed under') or b.startswith('Axioms:')]
        for k, n in enumerate(names):
            if k >= len(blocks):
                broken.append(f'{n}: no Print Assumptions output')
                continue
            b = blocks[k]
            if b.startswith('Closed under'):
                discharged += 1
                details.append({'theorem': n, 'file': rel, 'assumptions': []})
            else:
                ax = [a for a in re.findall(r'^(\S+)\s*:', b, re.M) if a != 'Axioms']
                bad = [a for a in ax if a not in ALLOWED_AXIOMS]
                details.append({'theorem': n, 'file': rel, 'assumptions': ax})
                if bad:
                    broken.append(f'{n}: depends on axioms {bad}')
                else:
                    discharged += 1
    # statement pins: the Props files must be the committed ones (a weakened statement is a broken obligation)
    pins_p = os.path.join(COQ, 'Props', 'pins.json')
    if os.path.exists(pins_p):
        pins = json.load(open(pins_p))
        for pf in files:
            rel = os.path.relpath(pf, COQ)
            h = hashlib.sha256(open(pf, 'rb').read()).hexdigest()
            if rel in pins and pins[rel] != h:
                broken.append(f'{rel} differs from its pinned statement hash (Props/pins.json)')
    for f in glob.glob(os.path.join(COQ, '**', '*.v'), recursive=True):
        txt = re.sub(r'\(\*.*?\*\)', '', open(f).read(), flags=re.S)
        txt = re.sub(r'"[^"]*"', '""', txt)
        m = FORBIDDEN.search(txt)
        if m:
            broken.append(f'forbidden construct {m.group(0)!r} in {os.path.relpath(f, COQ)}')
    if os.environ.get('HB_COQCHK') == '1' and not broken:
        mods = ' '.join('HB.Props.' + os.path.basename(f)[:-2] for f in files
                        if os.path.relpath(f, COQ) in open(os.path.join(COQ, '_CoqProject')).read())
        rc, out = sh(f'timeout 3000 coqchk -o -silent -Q . HB {mods} 2>&1', cwd=COQ, timeout=3100)
        log.append('coqchk: ' + out.strip()[-600:])
        if rc != 0:
            broken.append('coqchk failed: ' + out[-800:])
        else:
            m = re.search(r'Axioms:(.*?)(?:\n\s*\n|\Z)', out, re.S)
            ax = (m.group(1).strip() if m else '')
            if ax and '<none>' not in ax:
                broken.append('coqchk reports axioms: ' + ax[:400])
    return obligations, discharged, details, broken


def load_known():
    p = os.path.join(VERIF, 'known_findings.json')
    if os.path.exists(p):
        return json.load(open(p))
    return {'findings': [], 'fixed': []}


def case_meta(c):
    """the generated case without its protocol line, as far as JSON can hold it (the replay re-runs the oracle on it)"""
    try:
        return json.loads(json.dumps({k: v for k, v in c.items() if k != 'line'}, default=_meta_default))
    except Exception:
        return None


def _meta_default(o):
    if isinstance(o, hblib.F):
        return {'__F__': o.v}
    if isinstance(o, tuple):
        return list(o)
    return str(o)


def write_replay(prop, kind, payload):
    os.makedirs(os.path.join(VERIF, 'replays'), exist_ok=True)
    h = hashlib.sha256(json.dumps(payload, sort_keys=True).encode()).hexdigest()[:12]
    path = os.path.join(VERIF, 'replays', f'{prop}-{kind}-{h}.json')
    payload = dict(payload)
    payload['property'] = prop
    payload['replay_cmd'] = f'python3 tools/check.py {prop} --replay {path}'
    with open(path, 'w') as f:
        json.dump(payload, f, indent=1, ensure_ascii=False)
    return path


def main():
    ap = argparse.ArgumentParser()
    ap.add_argument('prop')
    ap.add_argument('--tier', default=os.environ.get('VERIF_TIER', 'quick'))
    ap.add_argument('--replay')
    ap.add_argument('--no-proof', action='store_true', help='development: skip the theorem stage')
    ap.add_argument('--show', type=int, default=0, help='development: print failures')
    args = ap.parse_args()
    prop = args.prop
    tier = args.tier if args.tier in ('quick', 'thorough') else 'quick'
    seed = int(os.environ.get('VERIF_SEED', '20260930'))
    t0 = time.time()
    log = []
    fam = importlib.import_module('families.' + prop)
    known = load_known()
    violations = []      # (replay_path, suffix)
    known_hits = {}
    notes = []

    try:
        build_all(prop, log)
    except BuildError as e:
        # the model itself no longer builds against the regenerated grammar (or the harness
        # against the crate): nothing can be shown; report as a broken tie
        path = write_replay(prop, 'build', {'kind': 'build-failure', 'stage': e.stage, 'log': e.log})
        print(f'VIOLATION property={prop} replay={path} no-failing-input-found')
        write_evidence(prop, tier, seed, t0, fam, 0, 0, [], [], {}, 1, log, [f'build failed at {e.stage}'], {})
        sys.exit(1)

    if args.replay:
        rp = json.load(open(args.replay))
        lines = rp.get('cases') or ([rp['case']] if 'case' in rp else [])
        res = hblib.compare(lines)
        again = False
        for cid, line, mo, io, eq in res:
            print('case :', hblib.describe_case(line)[:2000])
            print('model:', hblib.decode_obs(mo))
            print('impl :', hblib.decode_obs(io))
            def _unf(o):
                if isinstance(o, dict):
                    return hblib.F(o['__F__']) if set(o) == {'__F__'} else {k: _unf(v) for k, v in o.items()}
                return [_unf(v) for v in o] if isinstance(o, list) else o
            meta = _unf(dict(rp.get('meta') or {}))
            meta['line'] = line
            fails, same_obs = None, (rp.get('impl') is not None and io == rp.get('impl'))
            if hasattr(fam, 'oracle') and rp.get('meta') is not None:
                try:
                    fails = fam.oracle(meta, io, mo)
                except Exception as ex:
                    # the stored description lost a Python type: fall back to "the implementation still answers as recorded"
                    fails = ('recorded failure: %s' % rp.get('what')) if same_obs and rp.get('kind') == 'oracle-failure' else None
            elif rp.get('kind') == 'oracle-failure' and same_obs:
                fails = 'recorded failure: %s' % rp.get('what')
            if rp.get('kind') == 'oracle-failure' and not fails and same_obs and hasattr(fam, 'oracle_all'):
                fails = 'recorded failure (a relation between several cases; the implementation still answers as recorded): %s' % rp.get('what')
            print('oracle:', fails or 'ok', '| correspondence:', 'agree' if eq else 'DISAGREE')
            if fails or not eq:
                again = True
        if again:
            print(f'VIOLATION property={prop} replay={args.replay}')
            sys.exit(1)
        sys.exit(0)

    if tier == 'thorough':
        os.environ['HB_COQCHK'] = '1'
    if args.no_proof:
        global DEV_MODE
        DEV_MODE = True
        obligations, discharged, thm_details, thm_broken = 0, 0, [], []
    else:
        obligations, discharged, thm_details, thm_broken = check_theorems(prop, log)

    rng = random.Random(seed)
    # quick: twice the base counts of the family modules; thorough: ten times its (much larger) base counts
    budget_scale = int(os.environ.get('HB_SCALE', '2' if tier == 'quick' else '10'))
    if thm_broken:
        budget_scale = 10      # the search of DESIGN.md §5
    cases = fam.gen_cases(rng, tier, budget_scale)
    _ids = [c['line'].split(' ', 1)[0] for c in cases]
    if len(set(_ids)) != len(_ids):
        dup = sorted({i for i in _ids if _ids.count(i) > 1})[:5]
        raise SystemExit(f'internal error: duplicate case ids in family {prop}: {dup}')
    corpus = fam.corpus_cases() if hasattr(fam, 'corpus_cases') else []
    all_cases = corpus + cases
    lines = hblib.add_float_tables([c['line'] for c in all_cases])
    meta = {c['line'].split(' ', 1)[0]: c for c in all_cases}
    res = hblib.compare(lines, timeout=3000)

    disagreements = []
    oracle_failures = []
    nontrivial = set()
    dist = {}
    for cid, line, mo, io, eq in res:
        c = meta[cid]
        for k in c.get('tags', []):
            dist[k] = dist.get(k, 0) + 1
        try:
            nt = hasattr(fam, 'nontrivial') and fam.nontrivial(c, mo, io)
        except Exception:
            nt = False
        if nt:
            nontrivial.add(hashlib.sha1(line.split(' ', 1)[1].encode()).hexdigest())
        if not eq:
            disagreements.append((c, mo, io))
        try:
            f = fam.oracle(c, io, mo) if hasattr(fam, 'oracle') else None
        except Exception as ex:      # an observation the oracle cannot read is itself a failure of the case, never a crash
            f = f'the observation has an unexpected shape ({type(ex).__name__}: {ex})'
        if f:
            oracle_failures.append((c, mo, io, f))

    if hasattr(fam, 'oracle_all'):
        byid = {cid: (meta[cid], mo, io) for cid, line, mo, io, eq in res}
        try:
            extra_failures = list(fam.oracle_all(byid))
        except Exception as ex:
            first = res[0]
            extra_failures = [(meta[first[0]], f'the observations have an unexpected shape ({type(ex).__name__}: {ex})')]
        for c, f in extra_failures:
            mo, io = byid[c['line'].split(' ', 1)[0]][1:]
            oracle_failures.append((c, mo, io, f))
    if args.show:
        for c, mo, io, f in oracle_failures[:args.show]:
            print('ORACLE', f, '\n   ', hblib.describe_case(c['line'])[:700], '\n    impl:', hblib.decode_obs(io)[:400])
        for c, mo, io in disagreements[:args.show]:
            print('DISAGREE', hblib.describe_case(c['line'])[:900], '\n    model:', hblib.decode_obs(mo)[:500], '\n    impl :', hblib.decode_obs(io)[:500])
    # classify
    def known_class(c, mo, io, what):
        # a listed finding suppresses a failure only when the crate still shows the RECORDED behaviour, i.e. the
        # behaviour the (faithful) model reproduces: a case on which model and crate differ is never a known finding,
        # even if its input lies in a listed class — except for a class whose very content is nondeterminism (F12)
        agree = hblib.obs_equal(mo, io, c['line'])
        for kf in known.get('findings', []):
            if kf['property'] != prop:
                continue
            pred = getattr(fam, 'known_' + kf['class'], None)
            c['_what'] = what
            if not pred:
                continue
            if not getattr(pred, 'nondeterministic', False) and (what == 'disagreement' or not agree):
                continue
            if pred(c, mo, io):
                return kf
        return None

    seen_replays = 0
    for c, mo, io, f in oracle_failures:
        kf = known_class(c, mo, io, f)
        if kf:
            known_hits.setdefault(kf['id'], (kf, c, f))
            continue
        if seen_replays < 5:
            path = write_replay(prop, 'oracle', {'kind': 'oracle-failure', 'case': c['line'],
                                                 'decoded': hblib.describe_case(c['line']),
                                                 'what': f, 'impl': io, 'model': mo, 'meta': case_meta(c)})
            violations.append((path, ''))
            seen_replays += 1
    reported = {c['line'] for c, _, _, _ in oracle_failures}
    for c, mo, io in disagreements:
        if c['line'] in reported:
            continue
        kf = known_class(c, mo, io, 'disagreement')
        if kf:
            known_hits.setdefault(kf['id'], (kf, c, 'model/implementation disagreement in a listed class'))
            continue
        concrete = fam.relevant_difference(c, mo, io) if hasattr(fam, 'relevant_difference') else True
        if seen_replays < 5:
            path = write_replay(prop, 'corr', {'kind': 'correspondence-disagreement', 'case': c['line'],
                                               'decoded': hblib.describe_case(c['line']),
                                               'model': mo, 'impl': io,
                                               'model_decoded': hblib.decode_obs(mo),
                                               'impl_decoded': hblib.decode_obs(io),
                                               'note': 'the model provably satisfies the property '
                                                       '(Props/%s.v); the implementation differs from it on '
                                                       'this input' % prop if concrete else
                                                       'correspondence layer broken; the difference is not in '
                                                       'an observable the property constrains'})
            violations.append((path, '' if concrete else ' no-failing-input-found'))
            seen_replays += 1
    if thm_broken and not violations:
        path = write_replay(prop, 'proof', {'kind': 'proof-obligation-broken', 'broken': thm_broken,
                                            'searched_cases': len(lines)})
        violations.append((path, ' no-failing-input-found'))

    for kid, (kf, c, f) in known_hits.items():
        print(f"KNOWN-FINDING: property={prop} {kf['id']} {kf['what']}")
    for path, suffix in violations:
        print(f'VIOLATION property={prop} replay={path}{suffix}')

    samples = []
    for cid, line, mo, io, eq in res[:3] + res[-2:]:
        samples.append({'case': hblib.describe_case(line)[:600], 'model': (mo or '')[:300], 'impl': (io or '')[:300]})
    write_evidence(prop, tier, seed, t0, fam, obligations, discharged, thm_details, samples,
                   dist, len(violations), log, thm_broken,
                   {'evaluations': len(lines), 'distinct_nontrivial': len(nontrivial),
                    'disagreements': len(disagreements), 'oracle_failures': len(oracle_failures),
                    'known_findings_met': sorted(known_hits.keys())})
    sys.exit(1 if violations else 0)


DEV_MODE = False      # --no-proof: development runs must not overwrite the evidence of real runs


def write_evidence(prop, tier, seed, t0, fam, obligations, discharged, thm_details, samples, dist,
                   nviol, log, thm_broken, extra):
    os.makedirs(os.path.join(VERIF, 'evidence'), exist_ok=True)
    pfs = sorted(glob.glob(os.path.join(COQ, 'Props', prop + '.v')) + glob.glob(os.path.join(COQ, 'Props', prop + '_*.v')))
    gf = os.path.join(COQ, 'Peg', 'Grammar.v')
    def sha(p):
        return hashlib.sha256(open(p, 'rb').read()).hexdigest() if os.path.exists(p) else None
    cov = {
        'obligations': obligations,
        'discharged': discharged,
        'checker_cmd': f'make -C coq Props/{prop}*.vo  (coqc 8.16.1; Print Assumptions parsed per theorem)',
        'trusted_base': [
            'Coq 8.16.1 kernel (coqc; vm_compute for computational lemmas; no native_compute)',
            'axioms: none (every property theorem: Closed under the global context)',
            'tools/pest2v.py grammar translator and Peg/Peg.v reading of pest semantics (validated by the tok layer of the correspondence every run)',
            'extraction with ExtrOcamlBasic only, no Extract Constant; ocaml/driver.ml glue; OCaml 4.13.1',
            'harness/ (Rust, probes) and tools/ (Python generators, comparison)',
            'the hand-written model coq/{Base,Tpl,Rt,Reg} is tied to /repo only by the correspondence run',
        ],
        'theorems': thm_details,
        'theorems_broken': thm_broken,
        'evaluations': extra.get('evaluations', 0),
        'distinct_nontrivial': extra.get('distinct_nontrivial', 0),
        'rule': getattr(fam, 'RULE', ''),
        'samples': samples if samples else [{'note': 'no case was run'}],
        'traces_validated_against_impl': extra.get('evaluations', 0),
        'input_distribution': dist,
        'disagreements': extra.get('disagreements', 0),
        'oracle_failures': extra.get('oracle_failures', 0),
        'known_findings_met': extra.get('known_findings_met', []),
        'props_sha256': {os.path.basename(p): sha(p) for p in pfs},
        'grammar_v_sha256': sha(gf),
        'exhaustive': bool(getattr(fam, 'EXHAUSTIVE', {}).get(tier, False)),
    }
    ev = {
        'property_id': prop, 'tier': tier, 'seed': seed, 'level': 'proof', 'coverage': cov,
        'assumptions': getattr(fam, 'ASSUMPTIONS', []),
        'wall_s': round(time.time() - t0, 2), 'violations': nviol,
    }
    dest = os.path.join(VERIF, 'evidence', prop + '.json')
    if DEV_MODE or os.environ.get('HB_EVIDENCE_DEV') == '1':      # development / seeded-change runs: keep evidence/ for real runs
        os.makedirs(os.path.join(WORK, 'evidence-dev'), exist_ok=True)
        dest = os.path.join(WORK, 'evidence-dev', prop + '.json')
    with open(dest, 'w') as f:
        json.dump(ev, f, indent=1, ensure_ascii=False)


if __name__ == '__main__':
    main()
