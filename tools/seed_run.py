#!/usr/bin/env python3
"""seed_run.py <seed-id> <property> [more properties...]: apply seeded/<id>/patch.diff to /repo, run the
quick checks of the given properties, undo the patch, record which checks raise VIOLATION."""
import json, os, subprocess, sys, time
V = os.path.dirname(os.path.dirname(os.path.abspath(__file__)))
sid, props = sys.argv[1], sys.argv[2:]
d = os.path.join(V, 'seeded', sid)
patch = os.path.join(d, 'patch.diff')
assert subprocess.run(['git', '-C', '/repo', 'status', '--porcelain'], capture_output=True, text=True).stdout.strip() == '', '/repo is not clean'
subprocess.run(['git', '-C', '/repo', 'apply', patch], check=True)
res = {}
try:
    for p in props:
        t0 = time.time()
        r = subprocess.run(['python3', os.path.join(V, 'tools', 'check.py'), p, '--tier', 'quick'], capture_output=True, text=True, cwd=V, env=dict(os.environ, HB_EVIDENCE_DEV='1'))
        lines = [l for l in r.stdout.splitlines() if l.startswith('VIOLATION') or l.startswith('KNOWN-FINDING')]
        viol = [l for l in lines if l.startswith('VIOLATION')]
        what = []
        for l in viol[:2]:
            rp = l.split('replay=')[1].split(' ')[0]
            try:
                j = json.load(open(rp))
                what.append({'kind': j.get('kind'), 'what': (j.get('what') or j.get('note') or '')[:300], 'decoded': (j.get('decoded') or '')[:300]})
            except Exception:
                pass
        res[p] = {'exit': r.returncode, 'violations': len(viol), 'no_failing_input': sum('no-failing-input-found' in l for l in viol),
                  'examples': what, 'wall_s': round(time.time() - t0, 1)}
        print(p, 'exit', r.returncode, 'violations', len(viol), what[:1])
finally:
    subprocess.run(['git', '-C', '/repo', 'checkout', '--', '.'], check=True)
    subprocess.run(['python3', os.path.join(V, 'tools', 'pest2v.py'), '/repo/src/grammar.pest', os.path.join(V, 'coq', 'Peg', 'Grammar.v')])
meta_p = os.path.join(d, 'meta.json')
meta = json.load(open(meta_p)) if os.path.exists(meta_p) else {}
meta.setdefault('check_results', {}).update(res)
json.dump(meta, open(meta_p, 'w'), indent=1)
for f in os.listdir(os.path.join(V, 'replays')):
    os.remove(os.path.join(V, 'replays', f))
