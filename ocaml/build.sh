#!/bin/sh
# build the model-side driver from the extracted model
set -e
cd "$(dirname "$0")"
mkdir -p _build
cp gen/hb_model.ml gen/hb_model.mli driver.ml _build/
cd _build
ocamlfind ocamlopt -O3 -package zarith -linkpkg -w -a hb_model.mli hb_model.ml driver.ml -o ../hbmodel 2>&1 || \
ocamlfind ocamlopt -package zarith -linkpkg -w -a hb_model.mli hb_model.ml driver.ml -o ../hbmodel
