(* driver.ml — model-side runner: reads the case file of PROTOCOL.md, runs the
   extracted Coq model (Hb_model), prints one observation line per case.
   Trusted glue: UTF-8 / hex / decimal conversions, the case-line parser and
   the AST / observation printers. *)
module ZA = Z
module SL = Stdlib.List
module SS = Stdlib.String
open Hb_model
type string = SS.t

(* ---------- numbers ---------- *)
let rec pos_of_zt (z : ZA.t) : positive =
  if ZA.equal z ZA.one then XH
  else if ZA.is_even z then XO (pos_of_zt (ZA.shift_right z 1))
  else XI (pos_of_zt (ZA.shift_right z 1))

let n_of_zt (z : ZA.t) : n = if ZA.sign z = 0 then N0 else Npos (pos_of_zt z)
let n_of_int (i : int) : n = n_of_zt (ZA.of_int i)

let rec zt_of_pos (p : positive) : ZA.t =
  match p with
  | XH -> ZA.one
  | XO q -> ZA.shift_left (zt_of_pos q) 1
  | XI q -> ZA.succ (ZA.shift_left (zt_of_pos q) 1)

let zt_of_n (x : n) : ZA.t = match x with N0 -> ZA.zero | Npos p -> zt_of_pos p
let int_of_n (x : n) : int = ZA.to_int (zt_of_n x)
let coqz_of_zt (z : ZA.t) : z =
  if ZA.sign z = 0 then Z0 else if ZA.sign z > 0 then Zpos (pos_of_zt z) else Zneg (pos_of_zt (ZA.neg z))
let zt_of_coqz (z : z) : ZA.t =
  match z with Z0 -> ZA.zero | Zpos p -> zt_of_pos p | Zneg p -> ZA.neg (zt_of_pos p)

let rec nat_of_int (i : int) : nat = if i <= 0 then O else S (nat_of_int (i - 1))

(* ---------- strings ---------- *)
let str_of_utf8 (s : string) : n list =
  let n = SS.length s in
  let rec go i acc =
    if i >= n then SL.rev acc
    else
      let c = Char.code s.[i] in
      if c < 0x80 then go (i + 1) (n_of_int c :: acc)
      else if c < 0xE0 then
        go (i + 2) (n_of_int (((c land 0x1F) lsl 6) lor (Char.code s.[i + 1] land 0x3F)) :: acc)
      else if c < 0xF0 then
        go (i + 3)
          (n_of_int (((c land 0x0F) lsl 12) lor ((Char.code s.[i + 1] land 0x3F) lsl 6)
                     lor (Char.code s.[i + 2] land 0x3F)) :: acc)
      else
        go (i + 4)
          (n_of_int (((c land 0x07) lsl 18) lor ((Char.code s.[i + 1] land 0x3F) lsl 12)
                     lor ((Char.code s.[i + 2] land 0x3F) lsl 6) lor (Char.code s.[i + 3] land 0x3F)) :: acc)
  in
  go 0 []

let utf8_of_str (l : n list) : string =
  let b = Buffer.create 64 in
  SL.iter
    (fun x ->
      let c = int_of_n x in
      if c < 0x80 then Buffer.add_char b (Char.chr c)
      else if c < 0x800 then (
        Buffer.add_char b (Char.chr (0xC0 lor (c lsr 6)));
        Buffer.add_char b (Char.chr (0x80 lor (c land 0x3F))))
      else if c < 0x10000 then (
        Buffer.add_char b (Char.chr (0xE0 lor (c lsr 12)));
        Buffer.add_char b (Char.chr (0x80 lor ((c lsr 6) land 0x3F)));
        Buffer.add_char b (Char.chr (0x80 lor (c land 0x3F))))
      else (
        Buffer.add_char b (Char.chr (0xF0 lor (c lsr 18)));
        Buffer.add_char b (Char.chr (0x80 lor ((c lsr 12) land 0x3F)));
        Buffer.add_char b (Char.chr (0x80 lor ((c lsr 6) land 0x3F)));
        Buffer.add_char b (Char.chr (0x80 lor (c land 0x3F)))))
    l;
  Buffer.contents b

let hex_of_string (s : string) : string =
  let b = Buffer.create (2 * SS.length s) in
  SS.iter (fun c -> Buffer.add_string b (Printf.sprintf "%02x" (Char.code c))) s;
  Buffer.contents b

let string_of_hex (h : string) : string =
  let n = SS.length h / 2 in
  SS.init n (fun i -> Char.chr (int_of_string ("0x" ^ SS.sub h (2 * i) 2)))

exception Bad_case of string

(* token "x<hex>" -> model string *)
let str_tok (t : string) : n list =
  if SS.length t >= 1 && t.[0] = 'x' then
    str_of_utf8 (string_of_hex (SS.sub t 1 (SS.length t - 1)))
  else raise (Bad_case ("string token expected: " ^ t))

let opt_str_tok (t : string) : n list option = if t = "-" then None else Some (str_tok t)
let xs (l : n list) : string = "x" ^ hex_of_string (utf8_of_str l)
let plain (l : n list) : string = utf8_of_str l

(* ---------- JSON tokens ---------- *)
let parse_json_tok (t : string) : json =
  let n = SS.length t in
  let pos = ref 0 in
  let peek () = if !pos < n then t.[!pos] else '\000' in
  let adv () = incr pos in
  let take_while f =
    let st = !pos in
    while !pos < n && f t.[!pos] do incr pos done;
    SS.sub t st (!pos - st)
  in
  let is_hex c = (c >= '0' && c <= '9') || (c >= 'a' && c <= 'f') in
  let is_dig c = c >= '0' && c <= '9' in
  let rec value () : json =
    match peek () with
    | 'n' -> adv (); JNull
    | 't' -> adv (); JBool true
    | 'f' -> adv (); JBool false
    | 'u' -> adv (); JNum (PosInt (n_of_zt (ZA.of_string (take_while is_dig))))
    | 'i' -> adv ();
        let s = take_while (fun c -> is_dig c || c = '-') in
        JNum (NegInt (coqz_of_zt (ZA.of_string s)))
    | 'd' -> adv (); JNum (Float (n_of_zt (ZA.of_string (take_while is_dig))))
    | 'x' -> adv (); JStr (str_of_utf8 (string_of_hex (take_while is_hex)))
    | '[' ->
        adv ();
        if peek () = ']' then (adv (); JArr [])
        else
          let rec go acc =
            let v = value () in
            match peek () with
            | ',' -> adv (); go (v :: acc)
            | ']' -> adv (); JArr (SL.rev (v :: acc))
            | _ -> raise (Bad_case "json array")
          in
          go []
    | '{' ->
        adv ();
        if peek () = '}' then (adv (); JObj [])
        else
          let rec go acc =
            if peek () <> 'x' then raise (Bad_case "json key");
            adv ();
            let k = str_of_utf8 (string_of_hex (take_while is_hex)) in
            if peek () <> ':' then raise (Bad_case "json colon");
            adv ();
            let v = value () in
            let acc' = map_insert acc k v in
            match peek () with
            | ',' -> adv (); go acc'
            | '}' -> adv (); JObj acc'
            | _ -> raise (Bad_case "json object")
          in
          go []
    | _ -> raise (Bad_case ("json token: " ^ t))
  in
  let v = value () in
  if !pos <> n then raise (Bad_case ("json trailing: " ^ t));
  v

let rec canon_json (v : json) : string =
  match v with
  | JNull -> "n"
  | JBool true -> "t"
  | JBool false -> "f"
  | JNum (PosInt x) -> "u" ^ ZA.to_string (zt_of_n x)
  | JNum (NegInt z) -> "i" ^ ZA.to_string (zt_of_coqz z)
  | JNum (Float b) -> "d" ^ ZA.to_string (zt_of_n b)
  | JStr s -> xs s
  | JArr l -> "[" ^ SS.concat "," (SL.map canon_json l) ^ "]"
  | JObj m -> "{" ^ SS.concat "," (SL.map (fun (k, v) -> xs k ^ ":" ^ canon_json v) m) ^ "}"

(* ---------- AST text (PROTOCOL §7) ---------- *)
let rule_str (r : rule) : string = plain (rule_name r)
let b01 (b : bool) = if b then "1" else "0"

let rec ast_template (t : template) : string =
  let (MkT (name, els, mapping)) = t in
  Printf.sprintf "T(%s;[%s];[%s])"
    (match name with None -> "-" | Some s -> xs s)
    (SS.concat "," (SL.map ast_element els))
    (SS.concat "," (SL.map (fun (l, c) -> Printf.sprintf "%d:%d" (int_of_n l) (int_of_n c)) mapping))

and ast_element (e : element) : string =
  match e with
  | ElRaw s -> "R(" ^ xs s ^ ")"
  | ElComment s -> "C(" ^ xs s ^ ")"
  | ElExpr h -> "E(" ^ ast_helper h ^ ")"
  | ElHtml h -> "X(" ^ ast_helper h ^ ")"
  | ElBlock h -> "B(" ^ ast_helper h ^ ")"
  | ElDecoExpr d -> "DE(" ^ ast_deco d ^ ")"
  | ElDecoBlock d -> "DB(" ^ ast_deco d ^ ")"
  | ElPartExpr d -> "PE(" ^ ast_deco d ^ ")"
  | ElPartBlock d -> "PB(" ^ ast_deco d ^ ")"

and ast_opt_template (t : template option) : string =
  match t with None -> "-" | Some t -> ast_template t

and ast_hash (h : (n list * param) list) : string =
  SS.concat "," (SL.map (fun (k, p) -> xs k ^ "=" ^ ast_param p) h)

and ast_helper (h : helper_t) : string =
  let (MkH (name, params, hash, bp, tpl, inv, block, chain, ibw)) = h in
  Printf.sprintf "H(%s;[%s];[%s];%s;%s;%s;%s;%s;%s)" (ast_param name)
    (SS.concat "," (SL.map ast_param params))
    (ast_hash hash)
    (match bp with
     | None -> "-"
     | Some (BP1 a) -> "1(" ^ xs a ^ ")"
     | Some (BP2 (a, b)) -> "2(" ^ xs a ^ "," ^ xs b ^ ")")
    (ast_opt_template tpl) (ast_opt_template inv) (b01 block) (b01 chain) (b01 ibw)

and ast_deco (d : deco_t) : string =
  let (MkD (name, params, hash, tpl, indent, ibw)) = d in
  Printf.sprintf "D(%s;[%s];[%s];%s;%s;%s)" (ast_param name)
    (SS.concat "," (SL.map ast_param params))
    (ast_hash hash) (ast_opt_template tpl)
    (match indent with None -> "-" | Some s -> xs s)
    (b01 ibw)

and ast_param (p : param) : string =
  match p with
  | PName s -> "N(" ^ xs s ^ ")"
  | PPath p -> "P(" ^ ast_path p ^ ")"
  | PLit j -> "L(" ^ canon_json j ^ ")"
  | PSub e -> "S(" ^ ast_element e ^ ")"

and ast_path (p : path) : string =
  match p with
  | PathRelative (segs, raw) ->
      Printf.sprintf "PR([%s];%s)"
        (SS.concat ","
           (SL.map (function SegNamed s -> "n(" ^ xs s ^ ")" | SegRuled r -> "r(" ^ rule_str r ^ ")") segs))
        (xs raw)
  | PathLocal (lv, name, raw) -> Printf.sprintf "PL(%d;%s;%s)" (int_of_n lv) (xs name) (xs raw)

(* ---------- ops ---------- *)
let rule_of_name (s : string) : rule option =
  SL.find_opt (fun r -> rule_str r = s) all_rules

let bool_tok (t : string) : bool =
  match t with "0" -> false | "1" -> true | _ -> raise (Bad_case ("bool token: " ^ t))

let int_tok (t : string) : int =
  try int_of_string t with _ -> raise (Bad_case ("int token: " ^ t))

let failat_tok (t : string) : n option =
  let k = int_tok t in
  (* k >= 1_000_000 encodes a writer that fails ONLY at call k - 1_000_000; the model's run is the same:
     nothing is written after the first failure (theorem C19_io_error_needs_fault) *)
  (* k <= -2 encodes a writer that accepts at most -k-1 bytes per call and never fails: invisible to a caller
     that uses write_all, so the model's run is the fault-free one *)
  if k < 0 then None
  (* k >= 2_000_000 encodes the io::ErrorKind of the failure in k / 1_000_000 (failing from call k mod 1_000_000 on):
     the kind does not matter to the crate *)
  else if k >= 2_000_000 then Some (n_of_int (k mod 1_000_000))
  else if k >= 1_000_000 then Some (n_of_int (k - 1_000_000)) else Some (n_of_int k)

let parse_ft (t : string) : (n * n list) list =
  if t = "-" || t = "" then []
  else
    SL.map
      (fun kv ->
        match SS.split_on_char '=' kv with
        | [ b; x ] -> (n_of_zt (ZA.of_string b), str_tok x)
        | _ -> raise (Bad_case "ft entry"))
      (SS.split_on_char ',' t)

let parse_op (toks : string list) : op option =
  match toks with
  | [ "strict"; b ] -> Some (OStrict (bool_tok b))
  | [ "dev"; b ] -> Some (ODev (bool_tok b))
  | [ "pi"; b ] -> Some (OPi (bool_tok b))
  | [ "esc"; k ] -> Some (OEsc (n_of_int (int_tok k)))
  | [ "probes" ] -> Some OProbes
  | [ "hooks"; m ] -> Some (OHooks (n_of_int (int_tok m)))
  | [ "macros" ] -> Some OMacros
  | [ "ft"; t ] -> Some (OFt (parse_ft t))
  | [ "ft" ] -> Some (OFt [])
  | [ "fw"; p; c ] -> Some (OFw (str_tok p, str_tok c))
  | [ "fd"; p ] -> Some (OFd (str_tok p))
  | [ "clone" ] -> Some OClone
  | [ "sel"; b ] -> Some (OSel (bool_tok b))
  | [ "unreg"; x ] -> Some (OUnreg (str_tok x))
  | [ "clear" ] -> Some OClear
  | [ "regs"; x; y ] -> Some (ORegs (str_tok x, str_tok y))
  | [ "regp"; x; y ] -> Some (ORegp (str_tok x, str_tok y))
  | [ "regf"; x; y ] -> Some (ORegf (str_tok x, str_tok y))
  | [ "regt"; x; m; y ] -> Some (ORegt (str_tok x, n_of_int (int_tok m), str_tok y))
  | [ "has"; x ] -> Some (OHas (str_tok x))
  | [ "keys" ] -> Some OKeys
  | [ "r"; e; x; j; fa ] ->
      let e = int_tok e in
      if e < 0 || e > 3 then raise (Bad_case "entry");
      Some (ORender (n_of_int e, str_tok x, parse_json_tok j, failat_tok fa))
  | [ "rt"; e; x; j; fa ] ->
      let e = int_tok e in
      if e < 4 || e > 7 then raise (Bad_case "entry");
      Some (ORender (n_of_int e, str_tok x, parse_json_tok j, failat_tok fa))
  | [ "rthr"; _; _; x; j ] -> Some (ORender (n_of_int 0, str_tok x, parse_json_tok j, None))
  | [ "rbad"; e; x ] ->
      let e = int_tok e in
      if e < 0 || e > 7 then raise (Bad_case "entry");
      (* data that cannot be serialized has no JSON value: the render op only keeps the observations aligned *)
      Some (ORender (n_of_int e, str_tok x, JNull, None))
  | [ "cmp"; x ] -> Some (OCmp (str_tok x))
  | [ "tok"; r; x ] -> (
      match rule_of_name r with
      | Some ru -> Some (OTok (ru, str_tok x))
      | None -> raise (Bad_case "rule"))
  | [ "eschtml"; lo; hi ] -> Some (OEscHtml (n_of_int (int_tok lo), n_of_int (int_tok hi)))
  | [ "leaf"; "truthy"; iz; j ] -> Some (OLeafTruthy (bool_tok iz, parse_json_tok j))
  | [ "leaf"; "render"; j ] -> Some (OLeafRender (parse_json_tok j))
  | [ "leaf"; "esc"; x ] -> Some (OLeafEsc (str_tok x))
  | [ "leaf"; "cmpop"; o; a; b ] -> Some (OLeafCmp (str_of_utf8 o, parse_json_tok a, parse_json_tok b))
  | _ -> None

let opt_n (o : n option) : string = match o with Some x -> string_of_int (int_of_n x) | None -> "-"

let terr_payload (e : terror) : string =
  match e with
  | TESyntax -> "syntax.?.?"
  | TEMismatchHelper (_, _, l, c) -> Printf.sprintf "mismatch_helper.%d.%d" (int_of_n l) (int_of_n c)
  | TEMismatchDeco (_, _, l, c) -> Printf.sprintf "mismatch_decorator.%d.%d" (int_of_n l) (int_of_n c)
  | TEInvalidParam _ -> "invalid_param.-.-"
  | TEIo -> "io.-.-"

let terr_obs (e : terror) : string =
  "terr:" ^ SS.concat ":" (SS.split_on_char '.' (terr_payload e))

let reason_text (r : rreason) : string * string =
  match r with
  | RTemplateNotFound s -> ("TemplateNotFound", xs s)
  | RTemplateError e -> ("TemplateError", terr_payload e)
  | RTemplateIo -> ("TemplateError", "io.-.-")
  | RMissingVariable None -> ("MissingVariable", "-")
  | RMissingVariable (Some p) -> ("MissingVariable", xs p)
  | RPartialNotFound s -> ("PartialNotFound", xs s)
  | RHelperNotFound s -> ("HelperNotFound", xs s)
  | RParamNotFoundForIndex (h, i) -> ("ParamNotFoundForIndex", xs h ^ "." ^ string_of_int (int_of_n i))
  | RParamNotFoundForName (h, p) -> ("ParamNotFoundForName", xs h ^ "." ^ xs p)
  | RParamTypeMismatchForName (h, p, t) -> ("ParamTypeMismatchForName", xs h ^ "." ^ xs p ^ "." ^ xs t)
  | RHashTypeMismatchForName (h, p, t) -> ("HashTypeMismatchForName", xs h ^ "." ^ xs p ^ "." ^ xs t)
  | RDecoratorNotFound s -> ("DecoratorNotFound", xs s)
  | RCannotIncludeSelf -> ("CannotIncludeSelf", "-")
  | RInvalidLoggingLevel s -> ("InvalidLoggingLevel", xs s)
  | RInvalidParamType s -> ("InvalidParamType", xs s)
  | RBlockContentRequired -> ("BlockContentRequired", "-")
  | RInvalidJsonPath s -> ("InvalidJsonPath", xs s)
  | RInvalidJsonIndex s -> ("InvalidJsonIndex", xs s)
  | RIOError -> ("IOError", "-")
  | RUnimplemented -> ("Unimplemented", "-")
  | ROther s -> ("Other", xs s)

let render_obs_text (uses_writer : bool) (r : render_obs) : string =
  match r with
  | RoOk (out, log, nw) ->
      Printf.sprintf "R:ok:%s:%s:%s" (xs out) (xs log)
        (if uses_writer then string_of_int (int_of_n nw) else "-")
  | RoErr (e, acc, log) ->
      let reason, payload = reason_text e.e_reason in
      Printf.sprintf "R:err:%s:%s:%s:%s:%s:%s:%s" reason payload
        (match e.e_tpl with Some t -> xs t | None -> "-")
        (opt_n e.e_line) (opt_n e.e_col)
        (if uses_writer then xs acc else "-")
        (xs log)
  | RoPanic -> "PANIC"
  | RoFuel -> "FUEL"

let cres_unit_text (r : unit cres) : string =
  match r with COk _ -> "ok" | CErr e -> terr_obs e | CPanic _ -> "PANIC" | CFuel -> "FUEL"

let obs_text (o : op) (b : obs) : string =
  match b with
  | ObUnit r -> cres_unit_text r
  | ObBool b -> b01 b
  | ObKeys l -> "k[" ^ SS.concat "," (SL.map xs l) ^ "]"
  | ObRender r ->
      let uses_writer =
        match o with
        | ORender (e, _, _, _) -> (match int_of_n e with 2 | 3 | 6 | 7 -> true | _ -> false)
        | _ -> false
      in
      render_obs_text uses_writer r
  | ObAst r -> (
      match r with
      | COk t -> "ast:" ^ ast_template t
      | CErr e -> terr_obs e
      | CPanic _ -> "PANIC"
      | CFuel -> "FUEL")
  | ObTok r -> (
      match r with
      | Parsed ts ->
          "tok:"
          ^ SS.concat ","
              (SL.map
                 (fun ((r, s), e) -> Printf.sprintf "%s:%d:%d" (rule_str r) (int_of_n s) (int_of_n e))
                 ts)
      | SyntaxError -> "tokerr"
      | ParseOutOfFuel -> "FUEL")
  | ObEh h -> "eh:" ^ string_of_int (int_of_n h)
  | ObStr s -> xs s
  | ObLeafCmp r -> (
      match r with
      | RoOk (out, _, _) -> xs out
      | _ -> render_obs_text false r)

let is_observing (o : op) : bool =
  match o with
  | ORegs _ | ORegp _ | ORegf _ | ORegt _ | OHas _ | OKeys | ORender _ | OCmp _ | OTok _
  | OEscHtml _ | OLeafTruthy _ | OLeafRender _ | OLeafEsc _ | OLeafCmp _ -> true
  | _ -> false

let split_ops (toks : string list) : string list list =
  let rec go cur acc = function
    | [] -> SL.rev (SL.rev cur :: acc)
    | ";" :: r -> go [] (SL.rev cur :: acc) r
    | t :: r -> go (t :: cur) acc r
  in
  go [] [] toks

(* Unknown ops produce an UNKNOWN-OP observation in place; the model runs the
   known ops in order. *)
let run_case_line (line : string) : string =
  match SS.split_on_char ' ' line with
  | [] | [ "" ] -> " BAD-CASE"
  | id :: rest -> (
      try
        if rest = [] then id
        else begin
          let groups = split_ops rest in
          if SL.exists (fun g -> g = [] || SL.mem "" g) groups then raise (Bad_case "empty op");
          let parsed = SL.map (fun g -> (g, parse_op g)) groups in
          let ops = SL.filter_map snd parsed in
          (* sel 1 before clone is a bad case *)
          let _ =
            SL.fold_left
              (fun cloned o ->
                match o with
                | OClone -> true
                | OSel true -> if cloned then cloned else raise (Bad_case "sel before clone")
                | _ -> cloned)
              false ops
          in
          let observations = run_case ops in
          let rec zip parsed obs acc =
            match parsed with
            | [] -> SL.rev acc
            | (g, None) :: r -> zip r obs (("UNKNOWN-OP:" ^ SL.hd g) :: acc)
            | (g, Some o) :: r ->
                if is_observing o then (
                  match obs with
                  | b :: obs' ->
                      let t = obs_text o b in
                      (* threads cannot be exhibited by the model: one sequential render stands for all *)
                      let t = if SL.hd g = "rthr" then "T:1:" ^ t else t in
                      (* PROTOCOL.md §9: every entry point rejects unserializable data before rendering anything *)
                      let t =
                        if SL.hd g = "rbad" then
                          "R:err:SerdeError:-:-:-:-:"
                          ^ (match SL.nth g 1 with "2" | "3" | "6" | "7" -> "x" | _ -> "-")
                          ^ ":x"
                        else t
                      in
                      zip r obs' (t :: acc)
                  | [] -> raise (Bad_case "obs underflow"))
                else zip r obs acc
          in
          SS.concat " " (id :: zip parsed observations [])
        end
      with
      | Bad_case _ -> id ^ " BAD-CASE"
      | Stack_overflow -> id ^ " MODEL-STACK-OVERFLOW")

let () =
  let inp = open_in Sys.argv.(1) in
  let out = open_out Sys.argv.(2) in
  (try
     while true do
       let line = input_line inp in
       let line =
         if SS.length line > 0 && line.[SS.length line - 1] = '\r' then SS.sub line 0 (SS.length line - 1)
         else line
       in
       output_string out (run_case_line line);
       output_char out '\n';
       flush out
     done
   with End_of_file -> ());
  close_out out
