(* driver.ml — model-side runner: reads the case file of PROTOCOL.md, runs the
   extracted Coq model (Hb_model), prints one observation line per case.
   Trusted glue: UTF-8 / hex / decimal conversions, the case-line parser and
   the AST / observation printers. *)
module ZA = Z
module SL = Stdlib.List
module SS = Stdlib.String
open Hb_model
type string = SS.t

(* ---------- numbers ---------- *)
let rec pos_of_zt (z : ZA.t) : positive =
  if ZA.equal z ZA.one then XH
  else if ZA.is_even z then XO (pos_of_zt (ZA.shift_right z 1))
  else XI (pos_of_zt (ZA.shift_right z 1))

let n_of_zt (z : ZA.t) : n = if ZA.sign z = 0 then N0 else Npos (pos_of_zt z)
let n_of_int (i : int) : n = n_of_zt (ZA.of_int i)

let rec zt_of_pos (p : positive) : ZA.t =
  match p with
  | XH -> ZA.one
  | XO q -> ZA.shift_left (zt_of_pos q) 1
  | XI q -> ZA.succ (ZA.shift_left (zt_of_pos q) 1)

let zt_of_n (x : n) : ZA.t = match x with N0 -> ZA.zero | Npos p -> zt_of_pos p
let int_of_n (x : n) : int = ZA.to_int (zt_of_n x)
let coqz_of_zt (z : ZA.t) : z =
  if ZA.sign z = 0 then Z0 else if ZA.sign z > 0 then Zpos (pos_of_zt z) else Zneg (pos_of_zt (ZA.neg z))
let zt_of_coqz (z : z) : ZA.t =
  match z with Z0 -> ZA.zero | Zpos p -> zt_of_pos p | Zneg p -> ZA.neg (zt_of_pos p)

let rec nat_of_int (i : int) : nat = if i <= 0 then O else S (nat_of_int (i - 1))

(* ---------- strings ---------- *)
let str_of_utf8 (s : string) : n list =
  let n = SS.length s in
  let rec go i acc =
    if i >= n then SL.rev acc
    else
      let c = Char.code s.[i] in
      if c < 0x80 then go (i + 1) (n_of_int c :: acc)
      else if c < 0xE0 then
        go (i + 2) (n_of_int (((c land 0x1F) lsl 6) lor (Char.code s.[i + 1] land 0x3F)) :: acc)
      else if c < 0xF0 then
        go (i + 3)
          (n_of_int (((c land 0x0F) lsl 12) lor ((Char.code s.[i + 1] land 0x3F) lsl 6)
                     lor (Char.code s.[i + 2] land 0x3F)) :: acc)
      else
        go (i + 4)
          (n_of_int (((c land 0x07) lsl 18) lor ((Char.code s.[i + 1] land 0x3F) lsl 12)
                     lor ((Char.code s.[i + 2] land 0x3F) lsl 6) lor (Char.code s.[i + 3] land 0x3F)) :: acc)
  in
  go 0 []

let utf8_of_str (l : n list) : string =
  let b = Buffer.create 64 in
  SL.iter
    (fun x ->
      let c = int_of_n x in
      if c < 0x80 then Buffer.add_char b (Char.chr c)
      else if c < 0x800 then (
        Buffer.add_char b (Char.chr (0xC0 lor (c lsr 6)));
        Buffer.add_char b (Char.chr (0x80 lor (c land 0x3F))))
      else if c < 0x10000 then (
        Buffer.add_char b (Char.chr (0xE0 lor (c lsr 12)));
        Buffer.add_char b (Char.chr (0x80 lor ((c lsr 6) land 0x3F)));
        Buffer.add_char b (Char.chr (0x80 lor (c land 0x3F))))
      else (
        Buffer.add_char b (Char.chr (0xF0 lor (c lsr 18)));
        Buffer.add_char b (Char.chr (0x80 lor ((c lsr 12) land 0x3F)));
        Buffer.add_char b (Char.chr (0x80 lor ((c lsr 6) land 0x3F)));
        Buffer.add_char b (Char.chr (0x80 lor (c land 0x3F)))))
    l;
  Buffer.contents b

let hex_of_string (s : string) : string =
  let b = Buffer.create (2 * SS.length s) in
  SS.iter (fun c -> Buffer.add_string b (Printf.sprintf "%02x" (Char.code c))) s;
  Buffer.contents b

let string_of_hex (h : string) : string =
  let n = SS.length h / 2 in
  SS.init n (fun i -> Char.chr (int_of_string ("0x" ^ SS.sub h (2 * i) 2)))

exception Bad_case of string

(* token "x<hex>" -> model string *)
let str_tok (t : string) : n list =
  if SS.length t >= 1 && t.[0] = 'x' then
    str_of_utf8 (string_of_hex (SS.sub t 1 (SS.length t - 1)))
  else raise (Bad_case ("string token expected: " ^ t))

let opt_str_tok (t : string) : n list option = if t = "-" then None else Some (str_tok t)
let xs (l : n list) : string = "x" ^ hex_of_string (utf8_of_str l)
let plain (l : n list) : string = utf8_of_str l

(* ---------- JSON tokens ---------- *)
let parse_json_tok (t : string) : json =
  let n = SS.length t in
  let pos = ref 0 in
  let peek () = if !pos < n then t.[!pos] else '\000' in
  let adv () = incr pos in
  let take_while f =
    let st = !pos in
    while !pos < n && f t.[!pos] do incr pos done;
    SS.sub t st (!pos - st)
  in
  let is_hex c = (c >= '0' && c <= '9') || (c >= 'a' && c <= 'f') in
  let is_dig c = c >= '0' && c <= '9' in
  let rec value () : json =
    match peek () with
    | 'n' -> adv (); JNull
    | 't' -> adv (); JBool true
    | 'f' -> adv (); JBool false
    | 'u' -> adv (); JNum (PosInt (n_of_zt (ZA.of_string (take_while is_dig))))
    | 'i' -> adv ();
        let s = take_while (fun c -> is_dig c || c = '-') in
        JNum (NegInt (coqz_of_zt (ZA.of_string s)))
    | 'd' -> adv (); JNum (Float (n_of_zt (ZA.of_string (take_while is_dig))))
    | 'x' -> adv (); JStr (str_of_utf8 (string_of_hex (take_while is_hex)))
    | '[' ->
        adv ();
        if peek () = ']' then (adv (); JArr [])
        else
          let rec go acc =
            let v = value () in
            match peek () with
            | ',' -> adv (); go (v :: acc)
            | ']' -> adv (); JArr (SL.rev (v :: acc))
            | _ -> raise (Bad_case "json array")
          in
          go []
    | '{' ->
        adv ();
        if peek () = '}' then (adv (); JObj [])
        else
          let rec go acc =
            if peek () <> 'x' then raise (Bad_case "json key");
            adv ();
            let k = str_of_utf8 (string_of_hex (take_while is_hex)) in
            if peek () <> ':' then raise (Bad_case "json colon");
            adv ();
            let v = value () in
            let acc' = map_insert acc k v in
            match peek () with
            | ',' -> adv (); go acc'
            | '}' -> adv (); JObj acc'
            | _ -> raise (Bad_case "json object")
          in
          go []
    | _ -> raise (Bad_case ("json token: " ^ t))
  in
  let v = value () in
  if !pos <> n then raise (Bad_case ("json trailing: " ^ t));
  v

let rec canon_json (v : json) : string =
  match v with
  | JNull -> "n"
  | JBool true -> "t"
  | JBool false -> "f"
  | JNum (PosInt x) -> "u" ^ ZA.to_string (zt_of_n x)
  | JNum (NegInt z) -> "i" ^ ZA.to_string (zt_of_coqz z)
  | JNum (Float b) -> "d" ^ ZA.to_string (zt_of_n b)
  | JStr s -> xs s
  | JArr l -> "[" ^ SS.concat "," (SL.map canon_json l) ^ "]"
  | JObj m -> "{" ^ SS.concat "," (SL.map (fun (k, v) -> xs k ^ ":" ^ canon_json v) m) ^ "}"

(* ---------- AST text (PROTOCOL §7) ---------- *)
let rule_str (r : rule) : string = plain (rule_name r)
let b01 (b : bool) = if b then "1" else "0"

let rec ast_template (t : template) : string =
  let (MkT (name, els, mapping)) = t in
  Printf.sprintf "T(%s;[%s];[%s])"
    (match name with None -> "-" | Some s -> xs s)
    (SS.concat "," (SL.map ast_element els))
    (SS.concat "," (SL.map (fun (l, c) -> Printf.sprintf "%d:%d" (int_of_n l) (int_of_n c)) mapping))

and ast_element (e : element) : string =
  match e with
  | ElRaw s -> "R(" ^ xs s ^ ")"
  | ElComment s -> "C(" ^ xs s ^ ")"
  | ElExpr h -> "E(" ^ ast_helper h ^ ")"
  | ElHtml h -> "X(" ^ ast_helper h ^ ")"
  | ElBlock h -> "B(" ^ ast_helper h ^ ")"
  | ElDecoExpr d -> "DE(" ^ ast_deco d ^ ")"
  | ElDecoBlock d -> "DB(" ^ ast_deco d ^ ")"
  | ElPartExpr d -> "PE(" ^ ast_deco d ^ ")"
  | ElPartBlock d -> "PB(" ^ ast_deco d ^ ")"

and ast_opt_template (t : template option) : string =
  match t with None -> "-" | Some t -> ast_template t

and ast_hash (h : (n list * param) list) : string =
  SS.concat "," (SL.map (fun (k, p) -> xs k ^ "=" ^ ast_param p) h)

and ast_helper (h : helper_t) : string =
  let (MkH (name, params, hash, bp, tpl, inv, block, chain, ibw)) = h in
  Printf.sprintf "H(%s;[%s];[%s];%s;%s;%s;%s;%s;%s)" (ast_param name)
    (SS.concat "," (SL.map ast_param params))
    (ast_hash hash)
    (match bp with
     | None -> "-"
     | Some (BP1 a) -> "1(" ^ xs a ^ ")"
     | Some (BP2 (a, b)) -> "2(" ^ xs a ^ "," ^ xs b ^ ")")
    (ast_opt_template tpl) (ast_opt_template inv) (b01 block) (b01 chain) (b01 ibw)

and ast_deco (d : deco_t) : string =
  let (MkD (name, params, hash, tpl, indent, ibw)) = d in
  Printf.sprintf "D(%s;[%s];[%s];%s;%s;%s)" (ast_param name)
    (SS.concat "," (SL.map ast_param params))
    (ast_hash hash) (ast_opt_template tpl)
    (match indent with None -> "-" | Some s -> xs s)
    (b01 ibw)

and ast_param (p : param) : string =
  match p with
  | PName s -> "N(" ^ xs s ^ ")"
  | PPath p -> "P(" ^ ast_path p ^ ")"
  | PLit j -> "L(" ^ canon_json j ^ ")"
  | PSub e -> "S(" ^ ast_element e ^ ")"

and ast_path (p : path) : string =
  match p with
  | PathRelative (segs, raw) ->
      Printf.sprintf "PR([%s];%s)"
        (SS.concat ","
           (SL.map (function SegNamed s -> "n(" ^ xs s ^ ")" | SegRuled r -> "r(" ^ rule_str r ^ ")") segs))
        (xs raw)
  | PathLocal (lv, name, raw) -> Printf.sprintf "PL(%d;%s;%s)" (int_of_n lv) (xs name) (xs raw)

let terr_obs (e : terror) : string =
  match e with
  | TESyntax -> "terr:syntax:?:?"
  | TEMismatchHelper (_, _, l, c) -> Printf.sprintf "terr:mismatch_helper:%d:%d" (int_of_n l) (int_of_n c)
  | TEMismatchDeco (_, _, l, c) -> Printf.sprintf "terr:mismatch_decorator:%d:%d" (int_of_n l) (int_of_n c)
  | TEInvalidParam _ -> "terr:invalid_param:-:-"

(* ---------- ops ---------- *)
let rule_of_name (s : string) : rule option =
  SL.find_opt (fun r -> rule_str r = s) all_rules

let op_tok (rname : string) (src : n list) : string =
  match rule_of_name rname with
  | None -> "tokerr-unknown-rule"
  | Some r -> (
      match hb_parse (peg_fuel src) r src with
      | Parsed ts ->
          "tok:"
          ^ SS.concat ","
              (SL.map
                 (fun ((r, s), e) -> Printf.sprintf "%s:%d:%d" (rule_str r) (int_of_n s) (int_of_n e))
                 ts)
      | SyntaxError -> "tokerr"
      | ParseOutOfFuel -> "FUEL")

let op_cmp (src : n list) : string =
  match compile2 src default_opts with
  | COk t -> "ast:" ^ ast_template t
  | CErr e -> terr_obs e
  | CPanic _ -> "PANIC"
  | CFuel -> "FUEL"

let split_ops (toks : string list) : string list list =
  let rec go cur acc = function
    | [] -> SL.rev (SL.rev cur :: acc)
    | ";" :: r -> go [] (SL.rev cur :: acc) r
    | t :: r -> go (t :: cur) acc r
  in
  SL.filter (fun l -> l <> []) (go [] [] toks)

let run_case (line : string) : string =
  match SS.split_on_char ' ' line with
  | [] | [ "" ] -> ""
  | id :: rest -> (
      try
        let ops = split_ops rest in
        let obs =
          SL.filter_map
            (fun op ->
              match op with
              | [ "tok"; r; s ] -> Some (op_tok r (str_tok s))
              | [ "cmp"; s ] -> Some (op_cmp (str_tok s))
              | o :: _ -> Some ("UNKNOWN-OP:" ^ o)
              | [] -> None)
            ops
        in
        SS.concat " " (id :: obs)
      with
      | Bad_case _ -> id ^ " BAD-CASE"
      | Stack_overflow -> id ^ " MODEL-STACK-OVERFLOW")

let () =
  let inp = open_in Sys.argv.(1) in
  let out = open_out Sys.argv.(2) in
  (try
     while true do
       let line = input_line inp in
       if SS.trim line <> "" then (
         output_string out (run_case line);
         output_char out '\n')
     done
   with End_of_file -> ());
  close_out out
