//! hbharness: implementation-side harness for the handlebars-rust crate.
//!
//! `hbharness <cases-file> <out-file>`; the case protocol is /verif/PROTOCOL.md.

mod ast;
mod codec;
mod probes;
mod tok;

use std::cell::RefCell;
use std::fs;
use std::io::{self, Write};
use std::panic::{catch_unwind, AssertUnwindSafe};
use std::path::{Component, Path, PathBuf};
use std::rc::Rc;

use handlebars::template::Template;
use handlebars::{
    html_escape, no_escape, Context, Handlebars, JsonRender, JsonTruthy, RenderError,
    RenderErrorReason, TemplateError, TemplateErrorReason,
};
use serde_json::{Number, Value};

use codec::{parse_json, tok_bytes, tok_str, xb, xs};
use probes::{log_clear, log_get};

// ---------------------------------------------------------------------------------------------
// ops
// ---------------------------------------------------------------------------------------------

enum Leaf {
    Truthy(bool, Value),
    Render(Value),
    Esc(String),
    CmpOp(String, Value, Value),
    Unknown(String),
}

enum Op {
    // configuration
    Strict(bool),
    Dev(bool),
    Pi(bool),
    Esc(u8),
    Probes,
    Hooks(u32),
    Macros,
    Ft(Vec<(u64, String)>),
    Fw(String, Vec<u8>),
    Fd(String),
    Clone,
    Sel(bool),
    Unreg(String),
    Clear,
    // observing
    Regs(String, String),
    Regp(String, String),
    Regf(String, String),
    Regt(String, u8, String),
    Has(String),
    Keys,
    R {
        entry: u8,
        target: String,
        data: Value,
        failat: i64,
    },
    Rthr {
        threads: usize,
        iters: usize,
        target: String,
        data: Value,
    },
    Rbad {
        entry: u8,
        target: String,
    },
    Cmp(String),
    Tok(tok::Rule, String),
    EscHtml(u32, u32),
    Leaf(Leaf),
    Unknown(String),
}

impl Op {
    fn is_observing(&self) -> bool {
        !matches!(
            self,
            Op::Strict(_)
                | Op::Dev(_)
                | Op::Pi(_)
                | Op::Esc(_)
                | Op::Probes
                | Op::Hooks(_)
                | Op::Macros
                | Op::Ft(_)
                | Op::Fw(..)
                | Op::Fd(_)
                | Op::Clone
                | Op::Sel(_)
                | Op::Unreg(_)
                | Op::Clear
        )
    }
}

/// Marker for a malformed case.
struct BadCase;

fn p_bool(t: &str) -> Result<bool, BadCase> {
    match t {
        "0" => Ok(false),
        "1" => Ok(true),
        _ => Err(BadCase),
    }
}

fn p_str(t: &str) -> Result<String, BadCase> {
    tok_str(t).ok_or(BadCase)
}

fn p_json(t: &str) -> Result<Value, BadCase> {
    parse_json(t).ok_or(BadCase)
}

fn p_num<T: std::str::FromStr>(t: &str) -> Result<T, BadCase> {
    // plain decimal only (no '+', no blanks)
    if t.is_empty() || !t.bytes().enumerate().all(|(i, c)| c.is_ascii_digit() || (i == 0 && c == b'-')) {
        return Err(BadCase);
    }
    t.parse::<T>().map_err(|_| BadCase)
}

/// A scratch-relative file name: non-empty, relative, only normal components.
fn p_relpath(t: &str) -> Result<String, BadCase> {
    let s = p_str(t)?;
    if s.is_empty() || s.contains('\0') {
        return Err(BadCase);
    }
    let p = Path::new(&s);
    if p.components().all(|c| matches!(c, Component::Normal(_))) && p.components().count() > 0 {
        Ok(s)
    } else {
        Err(BadCase)
    }
}

fn need(args: &[&str], n: usize) -> Result<(), BadCase> {
    if args.len() == n {
        Ok(())
    } else {
        Err(BadCase)
    }
}

fn parse_ft(args: &[&str]) -> Result<Vec<(u64, String)>, BadCase> {
    let mut v = Vec::new();
    match args {
        [] => {}
        [one] => {
            if *one != "-" {
                for ent in one.split(',') {
                    let (bits, text) = ent.split_once('=').ok_or(BadCase)?;
                    v.push((p_num::<u64>(bits)?, p_str(text)?));
                }
            }
        }
        _ => return Err(BadCase),
    }
    Ok(v)
}

fn parse_op(toks: &[&str]) -> Result<Op, BadCase> {
    let (name, args) = match toks.split_first() {
        Some((n, a)) if !n.is_empty() => (*n, a),
        _ => return Err(BadCase),
    };
    let op = match name {
        "strict" => {
            need(args, 1)?;
            Op::Strict(p_bool(args[0])?)
        }
        "dev" => {
            need(args, 1)?;
            Op::Dev(p_bool(args[0])?)
        }
        "pi" => {
            need(args, 1)?;
            Op::Pi(p_bool(args[0])?)
        }
        "esc" => {
            need(args, 1)?;
            let k: u8 = p_num(args[0])?;
            if k > 2 {
                return Err(BadCase);
            }
            Op::Esc(k)
        }
        "probes" => {
            need(args, 0)?;
            Op::Probes
        }
        "hooks" => {
            need(args, 1)?;
            Op::Hooks(p_num(args[0])?)
        }
        "macros" => {
            need(args, 0)?;
            Op::Macros
        }
        "ft" => Op::Ft(parse_ft(args)?),
        "fw" => {
            need(args, 2)?;
            Op::Fw(p_relpath(args[0])?, tok_bytes(args[1]).ok_or(BadCase)?)
        }
        "fd" => {
            need(args, 1)?;
            Op::Fd(p_relpath(args[0])?)
        }
        "clone" => {
            need(args, 0)?;
            Op::Clone
        }
        "sel" => {
            need(args, 1)?;
            Op::Sel(p_bool(args[0])?)
        }
        "unreg" => {
            need(args, 1)?;
            Op::Unreg(p_str(args[0])?)
        }
        "clear" => {
            need(args, 0)?;
            Op::Clear
        }
        "regs" => {
            need(args, 2)?;
            Op::Regs(p_str(args[0])?, p_str(args[1])?)
        }
        "regp" => {
            need(args, 2)?;
            Op::Regp(p_str(args[0])?, p_str(args[1])?)
        }
        "regf" => {
            need(args, 2)?;
            Op::Regf(p_str(args[0])?, p_relpath(args[1])?)
        }
        "regt" => {
            need(args, 3)?;
            let mode: u8 = p_num(args[1])?;
            if mode > 1 {
                return Err(BadCase);
            }
            Op::Regt(p_str(args[0])?, mode, p_str(args[2])?)
        }
        "has" => {
            need(args, 1)?;
            Op::Has(p_str(args[0])?)
        }
        "rthr" => {
            need(args, 4)?;
            let threads: usize = p_num(args[0])?;
            let iters: usize = p_num(args[1])?;
            if threads == 0 || threads > 64 || iters == 0 || iters > 1000 {
                return Err(BadCase);
            }
            Op::Rthr {
                threads,
                iters,
                target: p_str(args[2])?,
                data: codec::parse_json(args[3]).ok_or(BadCase)?,
            }
        }
        "keys" => {
            need(args, 0)?;
            Op::Keys
        }
        "r" | "rt" => {
            need(args, 4)?;
            let entry: u8 = p_num(args[0])?;
            let ok = if name == "r" {
                entry <= 3
            } else {
                (4..=7).contains(&entry)
            };
            if !ok {
                return Err(BadCase);
            }
            let failat: i64 = p_num(args[3])?;
            Op::R {
                entry,
                target: p_str(args[1])?,
                data: p_json(args[2])?,
                failat,
            }
        }
        "rbad" => {
            need(args, 2)?;
            let entry: u8 = p_num(args[0])?;
            if entry > 7 {
                return Err(BadCase);
            }
            Op::Rbad {
                entry,
                target: p_str(args[1])?,
            }
        }
        "cmp" => {
            need(args, 1)?;
            Op::Cmp(p_str(args[0])?)
        }
        "tok" => {
            need(args, 2)?;
            Op::Tok(tok::rule_by_name(args[0]).ok_or(BadCase)?, p_str(args[1])?)
        }
        "eschtml" => {
            need(args, 2)?;
            Op::EscHtml(p_num(args[0])?, p_num(args[1])?)
        }
        "leaf" => {
            let (f, rest) = args.split_first().ok_or(BadCase)?;
            Op::Leaf(match *f {
                "truthy" => {
                    need(rest, 2)?;
                    Leaf::Truthy(p_bool(rest[0])?, p_json(rest[1])?)
                }
                "render" => {
                    need(rest, 1)?;
                    Leaf::Render(p_json(rest[0])?)
                }
                "esc" => {
                    need(rest, 1)?;
                    Leaf::Esc(p_str(rest[0])?)
                }
                "cmpop" => {
                    need(rest, 3)?;
                    if !matches!(rest[0], "eq" | "ne" | "gt" | "gte" | "lt" | "lte") {
                        return Err(BadCase);
                    }
                    Leaf::CmpOp(rest[0].to_string(), p_json(rest[1])?, p_json(rest[2])?)
                }
                other => Leaf::Unknown(other.to_string()),
            })
        }
        other => Op::Unknown(other.to_string()),
    };
    Ok(op)
}

/// Split a case line into its id and ops. The id is the text before the first space.
fn parse_case(line: &str) -> (String, Result<Vec<Op>, BadCase>) {
    let mut it = line.split(' ');
    let id = it.next().unwrap_or("").to_string();
    let toks: Vec<&str> = it.collect();
    if id.is_empty() {
        return (id, Err(BadCase));
    }
    if toks.is_empty() {
        return (id, Ok(Vec::new()));
    }
    let mut ops = Vec::new();
    for seg in toks.split(|t| *t == ";") {
        match parse_op(seg) {
            Ok(op) => ops.push(op),
            Err(e) => return (id, Err(e)),
        }
    }
    (id, Ok(ops))
}

// ---------------------------------------------------------------------------------------------
// observations
// ---------------------------------------------------------------------------------------------

fn terr_kind(e: &TemplateError) -> &'static str {
    match e.reason() {
        TemplateErrorReason::InvalidSyntax(_) => "syntax",
        TemplateErrorReason::MismatchingClosedHelper(..) => "mismatch_helper",
        TemplateErrorReason::MismatchingClosedDecorator(..) => "mismatch_decorator",
        TemplateErrorReason::InvalidParam(_) => "invalid_param",
        TemplateErrorReason::NestedSubexpression => "nested",
        TemplateErrorReason::IoError(..) => "io",
        #[allow(unreachable_patterns)]
        _ => "unknown",
    }
}

fn terr_fields(e: &TemplateError, sep: char) -> String {
    let (l, c) = match e.pos() {
        Some((l, c)) => (l.to_string(), c.to_string()),
        None => ("-".to_string(), "-".to_string()),
    };
    format!("{}{}{}{}{}", terr_kind(e), sep, l, sep, c)
}

fn terr_obs(e: &TemplateError) -> String {
    format!("terr:{}", terr_fields(e, ':'))
}

fn reg_obs(r: Result<(), TemplateError>) -> String {
    match r {
        Ok(()) => "ok".to_string(),
        // the name the error carries is appended for the implementation-side oracle of C18 (the model's
        // template errors carry no name; tools/hblib.py strips the suffix before the comparison)
        Err(e) => format!(
            "{}@{}",
            terr_obs(&e),
            e.name().map(|n| xs(n)).unwrap_or_else(|| "-".to_string())
        ),
    }
}

fn reason_fields(r: &RenderErrorReason) -> (&'static str, String) {
    use RenderErrorReason as R;
    let dash = || "-".to_string();
    match r {
        R::TemplateNotFound(s) => ("TemplateNotFound", xs(s)),
        R::TemplateError(e) => ("TemplateError", terr_fields(e, '.')),
        R::MissingVariable(p) => (
            "MissingVariable",
            match p {
                Some(p) => xs(p),
                None => dash(),
            },
        ),
        R::PartialNotFound(s) => ("PartialNotFound", xs(s)),
        R::HelperNotFound(s) => ("HelperNotFound", xs(s)),
        R::ParamNotFoundForIndex(h, i) => ("ParamNotFoundForIndex", format!("{}.{}", xs(h), i)),
        R::ParamNotFoundForName(h, p) => ("ParamNotFoundForName", format!("{}.{}", xs(h), xs(p))),
        R::ParamTypeMismatchForName(h, p, t) => (
            "ParamTypeMismatchForName",
            format!("{}.{}.{}", xs(h), xs(p), xs(t)),
        ),
        R::HashTypeMismatchForName(h, p, t) => (
            "HashTypeMismatchForName",
            format!("{}.{}.{}", xs(h), xs(p), xs(t)),
        ),
        R::DecoratorNotFound(s) => ("DecoratorNotFound", xs(s)),
        R::CannotIncludeSelf => ("CannotIncludeSelf", dash()),
        R::InvalidLoggingLevel(s) => ("InvalidLoggingLevel", xs(s)),
        R::InvalidParamType(s) => ("InvalidParamType", xs(s)),
        R::BlockContentRequired => ("BlockContentRequired", dash()),
        R::InvalidJsonPath(s) => ("InvalidJsonPath", xs(s)),
        R::InvalidJsonIndex(s) => ("InvalidJsonIndex", xs(s)),
        R::SerdeError(_) => ("SerdeError", dash()),
        R::IOError(_) => ("IOError", dash()),
        R::Utf8Error(_) => ("Utf8Error", dash()),
        R::NestedError(_) => ("NestedError", dash()),
        R::Unimplemented => ("Unimplemented", dash()),
        R::Other(s) => ("Other", xs(s)),
        #[allow(unreachable_patterns)]
        _ => ("Unknown", dash()),
    }
}

/// `R:err:<reason>:<payload>:<tpl>:<line>:<col>:x<accepted-out|->:x<log>`
fn render_err_obs(e: &RenderError, accepted: Option<&[u8]>, log: &str) -> String {
    let (reason, payload) = reason_fields(e.reason());
    let tpl = match &e.template_name {
        Some(n) => xs(n),
        None => "-".to_string(),
    };
    let num = |o: Option<usize>| match o {
        Some(n) => n.to_string(),
        None => "-".to_string(),
    };
    format!(
        "R:err:{}:{}:{}:{}:{}:{}:{}",
        reason,
        payload,
        tpl,
        num(e.line_no),
        num(e.column_no),
        match accepted {
            Some(b) => xb(b),
            None => "-".to_string(),
        },
        xs(log)
    )
}

#[derive(Default)]
struct WState {
    calls: usize,
    accepted: Vec<u8>,
    nwrites: usize,
}

/// Writer that fails on its k-th `write` call (0-based) and on every later one.
struct FailWriter {
    st: Rc<RefCell<WState>>,
    failat: i64,
}

impl Write for FailWriter {
    fn write(&mut self, buf: &[u8]) -> io::Result<usize> {
        let mut s = self.st.borrow_mut();
        let k = s.calls;
        s.calls += 1;
        // failat >= 1_000_000 encodes "fail ONLY at call failat - 1_000_000" (later calls are accepted again)
        // failat >= 2_000_000 encodes "fail from call failat % 1_000_000 on, with io::ErrorKind number failat / 1_000_000 - 2"
        let fails = if self.failat >= 2_000_000 {
            (k as u64) >= ((self.failat % 1_000_000) as u64)
        } else if self.failat >= 1_000_000 {
            (k as u64) == ((self.failat - 1_000_000) as u64)
        } else {
            self.failat >= 0 && (k as u64) >= (self.failat as u64)
        };
        if fails {
            if self.failat >= 2_000_000 {
                let kind = match self.failat / 1_000_000 - 2 {
                    0 => io::ErrorKind::BrokenPipe,
                    1 => io::ErrorKind::WriteZero,
                    2 => io::ErrorKind::UnexpectedEof,
                    3 => io::ErrorKind::ConnectionReset,
                    4 => io::ErrorKind::TimedOut,
                    5 => io::ErrorKind::PermissionDenied,
                    6 => io::ErrorKind::WouldBlock,
                    _ => io::ErrorKind::Other,
                };
                return Err(io::Error::new(kind, "boom"));
            }
            return Err(io::Error::other("boom"));
        }
        // failat <= -2 encodes a writer that never fails but accepts at most (-failat - 1) bytes per call
        // (a pipe, a socket): the caller has to loop
        let take = if self.failat <= -2 {
            buf.len().min((-self.failat - 1) as usize)
        } else {
            buf.len()
        };
        s.accepted.extend_from_slice(&buf[..take]);
        if !buf.is_empty() {
            s.nwrites += 1;
        }
        Ok(take)
    }

    fn flush(&mut self) -> io::Result<()> {
        Ok(())
    }
}

/// compile-time: the registry can be shared between threads and cloned
#[allow(dead_code)]
fn assert_send_sync_clone<T: Send + Sync + Clone>() {}
#[allow(dead_code)]
fn registry_is_shareable() {
    assert_send_sync_clone::<Handlebars<'static>>();
}

/// `rthr`: N threads share one registry (by reference) and each renders `iters` times through
/// entry 0; observation `T:<number of distinct results>:<result of the first render>`.
fn rthr_obs(reg: &Handlebars<'static>, threads: usize, iters: usize, target: &str, data: &Value) -> String {
    let results: Vec<Vec<String>> = std::thread::scope(|sc| {
        let hs: Vec<_> = (0..threads)
            .map(|_| {
                sc.spawn(move || {
                    let mut v = Vec::with_capacity(iters);
                    for _ in 0..iters {
                        probes::log_clear();
                        v.push(render_obs(reg, 0, target, data, -1));
                    }
                    v
                })
            })
            .collect();
        hs.into_iter().map(|h| h.join().unwrap_or_else(|_| vec!["PANIC".to_string()])).collect()
    });
    let mut distinct: Vec<&String> = results.iter().flatten().collect();
    let first = distinct.first().map(|s| (*s).clone()).unwrap_or_default();
    distinct.sort();
    distinct.dedup();
    format!("T:{}:{}", distinct.len(), first)
}

/// data whose `Serialize` implementation fails (op `rbad`)
struct BadSer;

impl serde::Serialize for BadSer {
    fn serialize<S: serde::Serializer>(&self, _s: S) -> Result<S::Ok, S::Error> {
        Err(serde::ser::Error::custom("unserializable"))
    }
}

fn render_obs<T: serde::Serialize>(reg: &Handlebars<'static>, entry: u8, target: &str, data: &T, failat: i64) -> String {
    let st = Rc::new(RefCell::new(WState::default()));
    let w = FailWriter {
        st: st.clone(),
        failat,
    };
    let to_write = matches!(entry, 2 | 3 | 6 | 7);
    let res: Result<Option<String>, RenderError> = match entry {
        0 => reg.render(target, data).map(Some),
        1 => Context::wraps(data)
            .and_then(|c| reg.render_with_context(target, &c))
            .map(Some),
        2 => reg.render_to_write(target, data, w).map(|_| None),
        3 => Context::wraps(data)
            .and_then(|c| reg.render_with_context_to_write(target, &c, w))
            .map(|_| None),
        4 => reg.render_template(target, data).map(Some),
        5 => Context::wraps(data)
            .and_then(|c| reg.render_template_with_context(target, &c))
            .map(Some),
        6 => Context::wraps(data)
            .and_then(|c| reg.render_template_with_context_to_write(target, &c, w))
            .map(|_| None),
        _ => reg.render_template_to_write(target, data, w).map(|_| None),
    };
    let log = log_get();
    let st = st.borrow();
    match res {
        Ok(Some(s)) => format!("R:ok:{}:{}:-", xs(&s), xs(&log)),
        Ok(None) => format!("R:ok:{}:{}:{}", xb(&st.accepted), xs(&log), st.nwrites),
        Err(e) => render_err_obs(
            &e,
            if to_write { Some(&st.accepted) } else { None },
            &log,
        ),
    }
}

fn eschtml_obs(lo: u32, hi: u32) -> String {
    let mut h: u64 = 7;
    let mut buf = [0u8; 4];
    for cp in lo..hi {
        let Some(c) = char::from_u32(cp) else { continue };
        let esc = html_escape(c.encode_utf8(&mut buf));
        let sum: u64 = esc.chars().map(|o| o as u64 + 1).sum();
        h = (h * 31 + sum) % 1_000_000_007;
    }
    format!("eh:{}", h)
}

fn leaf_obs(l: &Leaf) -> String {
    match l {
        Leaf::Truthy(iz, v) => (if v.is_truthy(*iz) { "1" } else { "0" }).to_string(),
        Leaf::Render(v) => xs(&v.render()),
        Leaf::Esc(s) => xs(&html_escape(s)),
        Leaf::CmpOp(op, a, b) => {
            let mut reg = Handlebars::new();
            reg.register_escape_fn(no_escape);
            let mut m = serde_json::Map::new();
            m.insert("a".to_string(), a.clone());
            m.insert("b".to_string(), b.clone());
            let data = Value::Object(m);
            match reg.render_template(&format!("{{{{{} a b}}}}", op), &data) {
                Ok(s) => xs(&s),
                Err(e) => render_err_obs(&e, None, &log_get()),
            }
        }
        Leaf::Unknown(f) => format!("UNKNOWN-OP:leaf-{}", f),
    }
}

// ---------------------------------------------------------------------------------------------
// case state
// ---------------------------------------------------------------------------------------------

static SCRATCH_COUNTER: std::sync::atomic::AtomicU64 = std::sync::atomic::AtomicU64::new(0);

struct CaseState {
    a: Handlebars<'static>,
    b: Option<Handlebars<'static>>,
    sel_b: bool,
    ft_mismatch: bool,
    scratch: Option<PathBuf>,
}

impl Drop for CaseState {
    fn drop(&mut self) {
        if let Some(d) = self.scratch.take() {
            let _ = fs::remove_dir_all(d);
        }
    }
}

impl CaseState {
    fn new() -> CaseState {
        CaseState {
            a: Handlebars::new(),
            b: None,
            sel_b: false,
            ft_mismatch: false,
            scratch: None,
        }
    }

    fn reg(&self) -> Result<&Handlebars<'static>, BadCase> {
        if self.sel_b {
            self.b.as_ref().ok_or(BadCase)
        } else {
            Ok(&self.a)
        }
    }

    fn reg_mut(&mut self) -> Result<&mut Handlebars<'static>, BadCase> {
        if self.sel_b {
            self.b.as_mut().ok_or(BadCase)
        } else {
            Ok(&mut self.a)
        }
    }

    /// The scratch directory, created on first use.
    fn scratch_dir(&mut self) -> io::Result<PathBuf> {
        if let Some(d) = &self.scratch {
            return Ok(d.clone());
        }
        let n = SCRATCH_COUNTER.fetch_add(1, std::sync::atomic::Ordering::Relaxed);
        let d = std::env::temp_dir().join(format!("hbharness-{}-{}", std::process::id(), n));
        let _ = fs::remove_dir_all(&d);
        fs::create_dir_all(&d)?;
        self.scratch = Some(d.clone());
        Ok(d)
    }

    /// Configuration ops. `Err` = the case is malformed (e.g. `sel 1` before `clone`).
    fn config(&mut self, op: &Op) -> Result<(), BadCase> {
        match op {
            Op::Strict(b) => self.reg_mut()?.set_strict_mode(*b),
            Op::Dev(b) => self.reg_mut()?.set_dev_mode(*b),
            Op::Pi(b) => self.reg_mut()?.set_prevent_indent(*b),
            Op::Esc(k) => {
                let r = self.reg_mut()?;
                match k {
                    0 => r.unregister_escape_fn(),
                    1 => r.register_escape_fn(no_escape),
                    _ => r.register_escape_fn(probes::marking_escape),
                }
            }
            Op::Probes => probes::register_probes(self.reg_mut()?),
            Op::Hooks(m) => probes::register_hooks(self.reg_mut()?, *m),
            Op::Macros => probes::register_macros(self.reg_mut()?),
            Op::Ft(table) => {
                for (bits, text) in table {
                    let ok = Number::from_f64(f64::from_bits(*bits))
                        .map(|n| n.to_string() == *text)
                        .unwrap_or(false);
                    if !ok {
                        self.ft_mismatch = true;
                    }
                }
            }
            Op::Fw(path, content) => {
                let p = self.scratch_dir().map_err(|_| BadCase)?.join(path);
                if let Some(parent) = p.parent() {
                    fs::create_dir_all(parent).map_err(|_| BadCase)?;
                }
                // an overwrite keeps the file's modification time (a time-preserving copy, two writes within one
                // timestamp tick): what a dev-mode render shows must not depend on the timestamp moving
                let keep = fs::metadata(&p).and_then(|m| m.modified()).ok();
                fs::write(&p, content).map_err(|_| BadCase)?;
                if let Some(t) = keep {
                    if let Ok(f) = fs::OpenOptions::new().write(true).open(&p) {
                        let _ = f.set_modified(t);
                    }
                }
            }
            Op::Fd(path) => {
                let p = self.scratch_dir().map_err(|_| BadCase)?.join(path);
                let _ = fs::remove_file(p);
            }
            Op::Clone => {
                let c = self.reg()?.clone();
                self.b = Some(c);
            }
            Op::Sel(b) => {
                if *b && self.b.is_none() {
                    return Err(BadCase);
                }
                self.sel_b = *b;
            }
            Op::Unreg(name) => self.reg_mut()?.unregister_template(name),
            Op::Clear => self.reg_mut()?.clear_templates(),
            _ => {}
        }
        Ok(())
    }

    /// Observing ops (run inside `catch_unwind`; LOG already cleared).
    fn observe(&mut self, op: &Op) -> Result<String, BadCase> {
        Ok(match op {
            Op::Regs(name, src) => reg_obs(self.reg_mut()?.register_template_string(name, src)),
            Op::Regp(name, src) => reg_obs(self.reg_mut()?.register_partial(name, src)),
            Op::Regf(name, path) => {
                let p = self.scratch_dir().map_err(|_| BadCase)?.join(path);
                reg_obs(self.reg_mut()?.register_template_file(name, &p))
            }
            Op::Regt(name, mode, src) => {
                let reg = self.reg_mut()?;
                let t = if *mode == 0 {
                    Template::compile(src)
                } else {
                    Template::compile_with_name(src, name.clone())
                };
                match t {
                    Ok(t) => {
                        reg.register_template(name, t);
                        "ok".to_string()
                    }
                    Err(e) => reg_obs(Err(e)),
                }
            }
            Op::Has(name) => (if self.reg()?.has_template(name) { "1" } else { "0" }).to_string(),
            Op::Keys => {
                let mut ks: Vec<&String> = self.reg()?.get_templates().keys().collect();
                ks.sort();
                format!(
                    "k[{}]",
                    ks.iter().map(|k| xs(k)).collect::<Vec<_>>().join(",")
                )
            }
            Op::R {
                entry,
                target,
                data,
                failat,
            } => render_obs(self.reg()?, *entry, target, data, *failat),
            Op::Rbad { entry, target } => render_obs(self.reg()?, *entry, target, &BadSer, -1),
            Op::Rthr {
                threads,
                iters,
                target,
                data,
            } => rthr_obs(self.reg()?, *threads, *iters, target, data),
            Op::Cmp(src) => match Template::compile(src) {
                Ok(t) => format!("ast:{}", ast::template_text(&t)),
                Err(e) => terr_obs(&e),
            },
            Op::Tok(rule, src) => tok::tok_obs(*rule, src),
            Op::EscHtml(lo, hi) => eschtml_obs(*lo, *hi),
            Op::Leaf(l) => leaf_obs(l),
            Op::Unknown(name) => format!("UNKNOWN-OP:{}", name),
            _ => String::new(),
        })
    }

    fn run(&mut self, ops: &[Op]) -> Result<Vec<String>, BadCase> {
        let mut obs = Vec::new();
        for op in ops {
            if !op.is_observing() {
                self.config(op)?;
                continue;
            }
            log_clear();
            let r = catch_unwind(AssertUnwindSafe(|| self.observe(op)));
            let mut o = match r {
                Ok(Ok(s)) => s,
                Ok(Err(BadCase)) => return Err(BadCase),
                Err(_) => "PANIC".to_string(),
            };
            if self.ft_mismatch {
                self.ft_mismatch = false;
                o = "FT-MISMATCH".to_string();
            }
            obs.push(o);
        }
        Ok(obs)
    }
}

fn run_line(line: &str) -> String {
    let (id, ops) = parse_case(line);
    let ops = match ops {
        Ok(o) => o,
        Err(BadCase) => return format!("{} BAD-CASE", id),
    };
    let res = catch_unwind(AssertUnwindSafe(|| {
        let mut st = CaseState::new();
        st.run(&ops)
    }));
    match res {
        Ok(Ok(obs)) => {
            let mut s = id;
            for o in obs {
                s.push(' ');
                s.push_str(&o);
            }
            s
        }
        Ok(Err(BadCase)) => format!("{} BAD-CASE", id),
        Err(_) => format!("{} HARNESS-PANIC", id),
    }
}

fn run_all(cases: &str, out: &str) -> io::Result<()> {
    let raw = fs::read(cases)?;
    let mut outf = fs::File::create(out)?;
    let mut lines: Vec<&[u8]> = raw.split(|b| *b == b'\n').collect();
    // a trailing newline does not start another case
    if lines.last().is_some_and(|l| l.is_empty()) {
        lines.pop();
    }
    for l in lines {
        let l = l.strip_suffix(b"\r").unwrap_or(l);
        let mut res = match std::str::from_utf8(l) {
            Ok(s) => run_line(s),
            Err(_) => {
                let lossy = String::from_utf8_lossy(l);
                format!("{} BAD-CASE", lossy.split(' ').next().unwrap_or(""))
            }
        };
        res.push('\n');
        outf.write_all(res.as_bytes())?;
        outf.flush()?;
    }
    Ok(())
}

fn main() {
    let args: Vec<String> = std::env::args().collect();
    if args.len() != 3 {
        eprintln!("usage: hbharness <cases-file> <out-file>");
        std::process::exit(2);
    }
    // panics are observations, not noise
    std::panic::set_hook(Box::new(|_| {}));

    let cases = args[1].clone();
    let out = args[2].clone();
    // Generous stack so that legitimately deep (but finite) recursion in a debug build does not
    // abort the process; unbounded recursion still ends in a stack overflow abort.
    let child = std::thread::Builder::new()
        .name("hbharness".to_string())
        .stack_size(256 << 20)
        .spawn(move || run_all(&cases, &out));
    let code = match child.map(|h| h.join()) {
        Ok(Ok(Ok(()))) => 0,
        Ok(Ok(Err(e))) => {
            eprintln!("hbharness: {}", e);
            1
        }
        Ok(Err(_)) => {
            eprintln!("hbharness: worker thread panicked");
            3
        }
        Err(e) => {
            eprintln!("hbharness: cannot spawn worker: {}", e);
            1
        }
    };
    std::process::exit(code);
}
