//! Lexical conventions of PROTOCOL.md §1: hex string tokens, JSON tokens, canon().

use serde_json::{Map, Number, Value};

const HEXD: &[u8; 16] = b"0123456789abcdef";

/// Lowercase hex of raw bytes.
pub fn hex(bytes: &[u8]) -> String {
    let mut s = String::with_capacity(bytes.len() * 2);
    for b in bytes {
        s.push(HEXD[(b >> 4) as usize] as char);
        s.push(HEXD[(b & 15) as usize] as char);
    }
    s
}

/// `x<hex of the UTF-8 bytes>`.
pub fn xs(s: &str) -> String {
    let mut r = String::with_capacity(1 + s.len() * 2);
    r.push('x');
    r.push_str(&hex(s.as_bytes()));
    r
}

/// `x<hex>` of raw bytes.
pub fn xb(b: &[u8]) -> String {
    let mut r = String::with_capacity(1 + b.len() * 2);
    r.push('x');
    r.push_str(&hex(b));
    r
}

fn hexval(c: u8) -> Option<u8> {
    match c {
        b'0'..=b'9' => Some(c - b'0'),
        b'a'..=b'f' => Some(c - b'a' + 10),
        b'A'..=b'F' => Some(c - b'A' + 10),
        _ => None,
    }
}

fn unhex(h: &[u8]) -> Option<Vec<u8>> {
    if h.len() % 2 != 0 {
        return None;
    }
    let mut out = Vec::with_capacity(h.len() / 2);
    for p in h.chunks(2) {
        out.push(hexval(p[0])? * 16 + hexval(p[1])?);
    }
    Some(out)
}

/// Decode a string token `x<hex>` into raw bytes.
pub fn tok_bytes(tok: &str) -> Option<Vec<u8>> {
    let b = tok.as_bytes();
    if b.first() != Some(&b'x') {
        return None;
    }
    unhex(&b[1..])
}

/// Decode a string token `x<hex>` into a (valid UTF-8) string.
pub fn tok_str(tok: &str) -> Option<String> {
    String::from_utf8(tok_bytes(tok)?).ok()
}

/// Parse a JSON token (§1). `None` on any malformation.
pub fn parse_json(tok: &str) -> Option<Value> {
    let b = tok.as_bytes();
    let mut p = 0usize;
    let v = pval(b, &mut p)?;
    if p == b.len() {
        Some(v)
    } else {
        None
    }
}

fn take_while(b: &[u8], p: &mut usize, f: impl Fn(u8) -> bool) -> std::ops::Range<usize> {
    let s = *p;
    while *p < b.len() && f(b[*p]) {
        *p += 1;
    }
    s..*p
}

fn pstring(b: &[u8], p: &mut usize) -> Option<String> {
    if b.get(*p) != Some(&b'x') {
        return None;
    }
    *p += 1;
    let r = take_while(b, p, |c| hexval(c).is_some());
    String::from_utf8(unhex(&b[r])?).ok()
}

fn pval(b: &[u8], p: &mut usize) -> Option<Value> {
    let c = *b.get(*p)?;
    match c {
        b'n' => {
            *p += 1;
            Some(Value::Null)
        }
        b't' => {
            *p += 1;
            Some(Value::Bool(true))
        }
        b'f' => {
            *p += 1;
            Some(Value::Bool(false))
        }
        b'u' => {
            *p += 1;
            let r = take_while(b, p, |c| c.is_ascii_digit());
            let n: u64 = std::str::from_utf8(&b[r]).ok()?.parse().ok()?;
            Some(Value::Number(Number::from(n)))
        }
        b'i' => {
            *p += 1;
            let s = *p;
            if b.get(*p) == Some(&b'-') {
                *p += 1;
            }
            take_while(b, p, |c| c.is_ascii_digit());
            let n: i64 = std::str::from_utf8(&b[s..*p]).ok()?.parse().ok()?;
            Some(Value::Number(Number::from(n)))
        }
        b'd' => {
            *p += 1;
            let r = take_while(b, p, |c| c.is_ascii_digit());
            let bits: u64 = std::str::from_utf8(&b[r]).ok()?.parse().ok()?;
            Some(Value::Number(Number::from_f64(f64::from_bits(bits))?))
        }
        b'x' => Some(Value::String(pstring(b, p)?)),
        b'[' => {
            *p += 1;
            let mut items = Vec::new();
            if b.get(*p) == Some(&b']') {
                *p += 1;
                return Some(Value::Array(items));
            }
            loop {
                items.push(pval(b, p)?);
                match b.get(*p)? {
                    b',' => *p += 1,
                    b']' => {
                        *p += 1;
                        return Some(Value::Array(items));
                    }
                    _ => return None,
                }
            }
        }
        b'{' => {
            *p += 1;
            let mut m = Map::new();
            if b.get(*p) == Some(&b'}') {
                *p += 1;
                return Some(Value::Object(m));
            }
            loop {
                let k = pstring(b, p)?;
                if b.get(*p) != Some(&b':') {
                    return None;
                }
                *p += 1;
                let v = pval(b, p)?;
                m.insert(k, v);
                match b.get(*p)? {
                    b',' => *p += 1,
                    b'}' => {
                        *p += 1;
                        return Some(Value::Object(m));
                    }
                    _ => return None,
                }
            }
        }
        _ => None,
    }
}

/// canon(v): the JSON token syntax of §1, object keys sorted by code point.
pub fn canon(v: &Value) -> String {
    let mut s = String::new();
    canon_into(v, &mut s);
    s
}

fn canon_into(v: &Value, s: &mut String) {
    match v {
        Value::Null => s.push('n'),
        Value::Bool(true) => s.push('t'),
        Value::Bool(false) => s.push('f'),
        Value::Number(n) => {
            if let Some(u) = n.as_u64().filter(|_| n.is_u64()) {
                s.push('u');
                s.push_str(&u.to_string());
            } else if let Some(i) = n.as_i64().filter(|_| n.is_i64()) {
                s.push('i');
                s.push_str(&i.to_string());
            } else {
                s.push('d');
                s.push_str(&n.as_f64().unwrap_or(f64::NAN).to_bits().to_string());
            }
        }
        Value::String(t) => s.push_str(&xs(t)),
        Value::Array(a) => {
            s.push('[');
            for (i, e) in a.iter().enumerate() {
                if i > 0 {
                    s.push(',');
                }
                canon_into(e, s);
            }
            s.push(']');
        }
        Value::Object(m) => {
            // serde_json's default map is a BTreeMap<String, _>: iteration is already in
            // byte order == code-point order; sort anyway so `preserve_order` could not bite.
            let mut ks: Vec<&String> = m.keys().collect();
            ks.sort();
            s.push('{');
            for (i, k) in ks.iter().enumerate() {
                if i > 0 {
                    s.push(',');
                }
                s.push_str(&xs(k));
                s.push(':');
                canon_into(&m[k.as_str()], s);
            }
            s.push('}');
        }
    }
}
