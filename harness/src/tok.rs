//! `tok` op: a pest parser derived from the repository's own grammar file (the crate's
//! `grammar` module is private), flattened token stream with code-point offsets.

use pest::Parser;

#[derive(pest_derive::Parser)]
#[grammar = "../../../repo/src/grammar.pest"]
pub struct HbParser;

/// Look a rule up by its grammar name (`EOI` included).
pub fn rule_by_name(name: &str) -> Option<Rule> {
    if name == "EOI" {
        return Some(Rule::EOI);
    }
    Rule::all_rules()
        .iter()
        .copied()
        .find(|r| format!("{:?}", r) == name)
}

/// `tok:r:s:e,r:s:e,...` or `tokerr`.
pub fn tok_obs(rule: Rule, src: &str) -> String {
    // byte offset -> code-point offset (defined at every char boundary and at src.len())
    let mut cp = vec![0usize; src.len() + 1];
    let mut n = 0usize;
    for (i, c) in src.char_indices() {
        for k in 0..c.len_utf8() {
            cp[i + k] = n;
        }
        n += 1;
    }
    cp[src.len()] = n;

    match HbParser::parse(rule, src) {
        Err(_) => "tokerr".to_string(),
        Ok(pairs) => {
            let mut out = String::from("tok:");
            let mut first = true;
            for p in pairs.flatten() {
                if !first {
                    out.push(',');
                }
                first = false;
                let sp = p.as_span();
                out.push_str(&format!(
                    "{:?}:{}:{}",
                    p.as_rule(),
                    cp[sp.start()],
                    cp[sp.end()]
                ));
            }
            out
        }
    }
}
