//! AST text of PROTOCOL.md §7.

use std::collections::HashMap;

use handlebars::template::{
    BlockParam, DecoratorTemplate, HelperTemplate, Parameter, Template, TemplateElement,
};
use handlebars::{Path, PathSeg};

use crate::codec::{canon, xs};

fn b01(b: bool) -> &'static str {
    if b {
        "1"
    } else {
        "0"
    }
}

/// `indent_before_write` is crate-private: read it off the Debug text (last field).
fn ibw_of(debug: &str) -> &'static str {
    if debug.ends_with("indent_before_write: true }") {
        "1"
    } else if debug.ends_with("indent_before_write: false }") {
        "0"
    } else {
        "?"
    }
}

/// T(<name x|->;[el,el,...];[l:c,l:c,...])
pub fn template_text(t: &Template) -> String {
    let name = match &t.name {
        Some(n) => xs(n),
        None => "-".to_string(),
    };
    let els = t
        .elements
        .iter()
        .map(el_text)
        .collect::<Vec<_>>()
        .join(",");
    let map = t
        .mapping
        .iter()
        .map(|m| format!("{}:{}", m.0, m.1))
        .collect::<Vec<_>>()
        .join(",");
    format!("T({};[{}];[{}])", name, els, map)
}

fn opt_template(t: &Option<Template>) -> String {
    match t {
        Some(t) => template_text(t),
        None => "-".to_string(),
    }
}

fn el_text(e: &TemplateElement) -> String {
    match e {
        TemplateElement::RawString(s) => format!("R({})", xs(s)),
        TemplateElement::Comment(s) => format!("C({})", xs(s)),
        TemplateElement::Expression(h) => format!("E({})", h_text(h)),
        TemplateElement::HtmlExpression(h) => format!("X({})", h_text(h)),
        TemplateElement::HelperBlock(h) => format!("B({})", h_text(h)),
        TemplateElement::DecoratorExpression(d) => format!("DE({})", d_text(d)),
        TemplateElement::DecoratorBlock(d) => format!("DB({})", d_text(d)),
        TemplateElement::PartialExpression(d) => format!("PE({})", d_text(d)),
        TemplateElement::PartialBlock(d) => format!("PB({})", d_text(d)),
        _ => "?".to_string(),
    }
}

fn params_text(ps: &[Parameter]) -> String {
    format!(
        "[{}]",
        ps.iter().map(param_text).collect::<Vec<_>>().join(",")
    )
}

fn hash_text(h: &HashMap<String, Parameter>) -> String {
    let mut ks: Vec<&String> = h.keys().collect();
    ks.sort();
    format!(
        "[{}]",
        ks.iter()
            .map(|k| format!("{}={}", xs(k), param_text(&h[k.as_str()])))
            .collect::<Vec<_>>()
            .join(",")
    )
}

fn bp_name(p: &Parameter) -> String {
    match p {
        Parameter::Name(s) => xs(s),
        // never produced by the parser; make it visible if it ever is
        other => format!("?{}", param_text(other)),
    }
}

fn bp_text(bp: &Option<BlockParam>) -> String {
    match bp {
        None => "-".to_string(),
        Some(BlockParam::Single(p)) => format!("1({})", bp_name(p)),
        Some(BlockParam::Pair((p1, p2))) => format!("2({},{})", bp_name(p1), bp_name(p2)),
        #[allow(unreachable_patterns)]
        Some(_) => "?".to_string(),
    }
}

/// H(param;[param,...];[x<key>=param,...];bp;T|-;T|-;<block>;<chain>;<ibw>)
fn h_text(h: &HelperTemplate) -> String {
    let dbg = format!("{:?}", h);
    format!(
        "H({};{};{};{};{};{};{};{};{})",
        param_text(&h.name),
        params_text(&h.params),
        hash_text(&h.hash),
        bp_text(&h.block_param),
        opt_template(&h.template),
        opt_template(&h.inverse),
        b01(h.block),
        b01(h.chain),
        ibw_of(&dbg)
    )
}

/// D(param;[param,...];[x<key>=param,...];T|-;<indent x|->;<ibw>)
fn d_text(d: &DecoratorTemplate) -> String {
    let dbg = format!("{:?}", d);
    format!(
        "D({};{};{};{};{};{})",
        param_text(&d.name),
        params_text(&d.params),
        hash_text(&d.hash),
        opt_template(&d.template),
        match &d.indent {
            Some(s) => xs(s),
            None => "-".to_string(),
        },
        ibw_of(&dbg)
    )
}

fn param_text(p: &Parameter) -> String {
    match p {
        Parameter::Name(s) => format!("N({})", xs(s)),
        Parameter::Path(p) => format!("P({})", path_text(p)),
        Parameter::Literal(j) => format!("L({})", canon(j)),
        Parameter::Subexpression(s) => format!("S({})", el_text(s.as_element())),
        #[allow(unreachable_patterns)]
        _ => "?".to_string(),
    }
}

fn path_text(p: &Path) -> String {
    match p {
        Path::Relative((segs, raw)) => format!(
            "PR([{}];{})",
            segs.iter().map(seg_text).collect::<Vec<_>>().join(","),
            xs(raw)
        ),
        Path::Local((level, name, raw)) => format!("PL({};{};{})", level, xs(name), xs(raw)),
    }
}

fn seg_text(s: &PathSeg) -> String {
    match s {
        PathSeg::Named(n) => format!("n({})", xs(n)),
        // Ruled(rule): the Rule enum is crate-private; Debug prints e.g. `Ruled(path_up)`
        other => {
            let d = format!("{:?}", other);
            let inner = d
                .strip_prefix("Ruled(")
                .and_then(|r| r.strip_suffix(')'))
                .unwrap_or(&d);
            format!("r({})", inner)
        }
    }
}
