//! Probe helpers / decorators / hooks / marking escape fn (PROTOCOL.md §5) and the
//! macro-defined helper family (§6).

use std::cell::RefCell;
use std::collections::VecDeque;

use handlebars::{
    handlebars_helper, Context, Decorator, DecoratorDef, Handlebars, Helper, HelperDef,
    HelperResult, Output, PathAndJson, RenderContext, RenderError, RenderErrorReason, Renderable,
    ScopedJson,
};

use crate::codec::{canon, xs};

// ---------------------------------------------------------------------------------------------
// LOG
// ---------------------------------------------------------------------------------------------

thread_local! {
    static LOG: RefCell<String> = const { RefCell::new(String::new()) };
}

pub fn log_clear() {
    LOG.with(|l| l.borrow_mut().clear());
}

pub fn log_get() -> String {
    LOG.with(|l| l.borrow().clone())
}

/// `L(s)`: LOG += s + "\n"
fn log_line(s: &str) {
    LOG.with(|l| {
        let mut l = l.borrow_mut();
        l.push_str(s);
        l.push('\n');
    });
}

// ---------------------------------------------------------------------------------------------
// formatting helpers
// ---------------------------------------------------------------------------------------------

fn b01(b: bool) -> &'static str {
    if b {
        "1"
    } else {
        "0"
    }
}

fn segs(v: &[String]) -> String {
    v.iter().map(|s| xs(s)).collect::<Vec<_>>().join(",")
}

/// pj(p) := (relative_path -> x<hex> | -) : (m|v) : (context_path -> [x<seg>,...] | -) : canon(value)
fn pj(p: &PathAndJson<'_>) -> String {
    let rel = match p.relative_path() {
        Some(s) => xs(s),
        None => "-".to_string(),
    };
    let mv = if p.is_value_missing() { "m" } else { "v" };
    let cp = match p.context_path() {
        Some(v) => format!("[{}]", segs(v)),
        None => "-".to_string(),
    };
    format!("{}:{}:{}:{}", rel, mv, cp, canon(p.value()))
}

fn pj_list(ps: &[PathAndJson<'_>]) -> String {
    ps.iter().map(pj).collect::<Vec<_>>().join(",")
}

fn other(msg: &str) -> RenderError {
    RenderErrorReason::Other(msg.to_string()).into()
}

// ---------------------------------------------------------------------------------------------
// probe helpers
// ---------------------------------------------------------------------------------------------

/// `dump` / `dump2`
struct Dump;

impl HelperDef for Dump {
    fn call<'reg: 'rc, 'rc>(
        &self,
        h: &Helper<'rc>,
        _r: &'reg Handlebars<'reg>,
        _ctx: &'rc Context,
        _rc: &mut RenderContext<'reg, 'rc>,
        out: &mut dyn Output,
    ) -> HelperResult {
        let hash = h
            .hash()
            .iter()
            .map(|(k, v)| format!("{}={}", k, pj(v)))
            .collect::<Vec<_>>()
            .join(",");
        let bp = if let Some(p) = h.block_param() {
            format!("1{}", xs(p))
        } else if let Some((p1, p2)) = h.block_param_pair() {
            format!("2{},{}", xs(p1), xs(p2))
        } else {
            "-".to_string()
        };
        let s = format!(
            "{}({};{};{}{}{};{})",
            h.name(),
            pj_list(h.params()),
            hash,
            if h.is_block() { "B" } else { "b" },
            if h.template().is_some() { "T" } else { "t" },
            if h.inverse().is_some() { "I" } else { "i" },
            bp
        );
        log_line(&s);
        out.write(&s)?;
        Ok(())
    }
}

/// `id` (call_inner only)
struct Id;

impl HelperDef for Id {
    fn call_inner<'reg: 'rc, 'rc>(
        &self,
        h: &Helper<'rc>,
        _r: &'reg Handlebars<'reg>,
        _ctx: &'rc Context,
        _rc: &mut RenderContext<'reg, 'rc>,
    ) -> Result<ScopedJson<'rc>, RenderError> {
        let p = h
            .param(0)
            .ok_or(RenderErrorReason::ParamNotFoundForIndex("id", 0))?;
        let v = p.value();
        log_line(&format!("id({})", canon(v)));
        Ok(ScopedJson::Derived(v.clone()))
    }
}

/// `blk`
struct Blk;

impl HelperDef for Blk {
    fn call<'reg: 'rc, 'rc>(
        &self,
        h: &Helper<'rc>,
        r: &'reg Handlebars<'reg>,
        ctx: &'rc Context,
        rc: &mut RenderContext<'reg, 'rc>,
        out: &mut dyn Output,
    ) -> HelperResult {
        log_line("blk");
        out.write("[")?;
        if let Some(t) = h.template() {
            t.render(r, ctx, rc, out)?;
        }
        out.write("|")?;
        if let Some(t) = h.inverse() {
            t.render(r, ctx, rc, out)?;
        }
        out.write("]")?;
        Ok(())
    }
}

/// `cnt`
struct Cnt;

impl HelperDef for Cnt {
    fn call<'reg: 'rc, 'rc>(
        &self,
        h: &Helper<'rc>,
        _r: &'reg Handlebars<'reg>,
        _ctx: &'rc Context,
        _rc: &mut RenderContext<'reg, 'rc>,
        _out: &mut dyn Output,
    ) -> HelperResult {
        let s = match h.param(0) {
            Some(p) => handlebars::JsonRender::render(p.value()),
            None => String::new(),
        };
        log_line(&format!("cnt({})", s));
        Ok(())
    }
}

/// `state`
struct State;

impl HelperDef for State {
    fn call<'reg: 'rc, 'rc>(
        &self,
        _h: &Helper<'rc>,
        _r: &'reg Handlebars<'reg>,
        _ctx: &'rc Context,
        rc: &mut RenderContext<'reg, 'rc>,
        out: &mut dyn Output,
    ) -> HelperResult {
        let (bp, bv) = match rc.block() {
            Some(b) => (
                format!("[{}]", segs(b.base_path())),
                match b.base_value() {
                    Some(v) => canon(v),
                    None => "-".to_string(),
                },
            ),
            None => ("-".to_string(), "-".to_string()),
        };
        // number of block contexts on the stack (private field; counted by swapping the
        // deque out and back in)
        let blocks = rc.replace_blocks(VecDeque::new());
        let nb = blocks.len();
        rc.replace_blocks(blocks);

        let opt = |o: Option<&String>| match o {
            Some(s) => xs(s),
            None => "-".to_string(),
        };
        let s = format!(
            "state(bp={};bv={};esc={};pb={};cur={};root={};tn={};cp={};ibw={};ctx={};nb={})",
            bp,
            bv,
            b01(rc.is_disable_escape()),
            b01(rc.get_partial("@partial-block").is_some()),
            opt(rc.get_current_template_name()),
            opt(rc.get_root_template_name()),
            b01(rc.get_trailine_newline()),
            b01(rc.get_content_produced()),
            b01(rc.get_indent_before_write()),
            b01(rc.context().is_some()),
            nb
        );
        log_line(&s);
        out.write(&s)?;
        Ok(())
    }
}

/// `evalp`
struct Evalp;

impl HelperDef for Evalp {
    fn call<'reg: 'rc, 'rc>(
        &self,
        h: &Helper<'rc>,
        _r: &'reg Handlebars<'reg>,
        ctx: &'rc Context,
        rc: &mut RenderContext<'reg, 'rc>,
        out: &mut dyn Output,
    ) -> HelperResult {
        let p = h
            .param(0)
            .and_then(|p| p.value().as_str())
            .ok_or_else(|| other("evalp"))?;
        let r = rc.evaluate(ctx, p)?;
        let inner = match &r {
            ScopedJson::Missing => "m".to_string(),
            ScopedJson::Constant(v) => format!("c{}", canon(v)),
            ScopedJson::Derived(v) => format!("d{}", canon(v)),
            ScopedJson::Context(v, path) => format!("x[{}]{}", segs(path), canon(v)),
        };
        let s = format!("ev({})", inner);
        log_line(&s);
        out.write(&s)?;
        Ok(())
    }
}

/// `fail`
struct Fail;

impl HelperDef for Fail {
    fn call<'reg: 'rc, 'rc>(
        &self,
        _h: &Helper<'rc>,
        _r: &'reg Handlebars<'reg>,
        _ctx: &'rc Context,
        _rc: &mut RenderContext<'reg, 'rc>,
        _out: &mut dyn Output,
    ) -> HelperResult {
        Err(other("fail"))
    }
}

/// hook `helperMissing`
struct HelperMissing;

impl HelperDef for HelperMissing {
    fn call<'reg: 'rc, 'rc>(
        &self,
        h: &Helper<'rc>,
        _r: &'reg Handlebars<'reg>,
        _ctx: &'rc Context,
        _rc: &mut RenderContext<'reg, 'rc>,
        out: &mut dyn Output,
    ) -> HelperResult {
        let s = format!("hm({}:{})", h.name(), pj_list(h.params()));
        log_line(&s);
        out.write(&s)?;
        Ok(())
    }
}

/// hook `blockHelperMissing`
struct BlockHelperMissing;

impl HelperDef for BlockHelperMissing {
    fn call<'reg: 'rc, 'rc>(
        &self,
        h: &Helper<'rc>,
        r: &'reg Handlebars<'reg>,
        ctx: &'rc Context,
        rc: &mut RenderContext<'reg, 'rc>,
        out: &mut dyn Output,
    ) -> HelperResult {
        let s = format!("bhm({})", h.name());
        log_line(&s);
        out.write(&s)?;
        if let Some(t) = h.template() {
            t.render(r, ctx, rc, out)?;
        }
        Ok(())
    }
}

/// local helper created by the `sethelper` decorator
struct LocalHelper {
    registered_name: String,
}

impl HelperDef for LocalHelper {
    fn call<'reg: 'rc, 'rc>(
        &self,
        h: &Helper<'rc>,
        r: &'reg Handlebars<'reg>,
        ctx: &'rc Context,
        rc: &mut RenderContext<'reg, 'rc>,
        out: &mut dyn Output,
    ) -> HelperResult {
        let s = format!("local({}:{})", self.registered_name, pj_list(h.params()));
        log_line(&s);
        if self.registered_name.starts_with("c:") {
            // a tag beginning with "c:" makes the local helper capture its block body with
            // `Renderable::renders` and write the captured text between angle brackets
            if let Some(t) = h.template() {
                let body = handlebars::Renderable::renders(t, r, ctx, rc)?;
                out.write("<")?;
                out.write(&body)?;
                out.write(">")?;
            }
        } else if self.registered_name.starts_with("f:") {
            // a tag beginning with "f:" makes the local helper write a fixed literal through `write!`
            // without format arguments (`Output::write_fmt`)
            write!(out, "literal-0123456789")?;
        } else if self.registered_name.starts_with("w:") {
            // a tag beginning with "w:" makes the local helper write the rendered text of its first
            // parameter (nothing if there is none) instead of its own description
            let t = h
                .param(0)
                .map(|p| handlebars::JsonRender::render(p.value()))
                .unwrap_or_default();
            out.write(&t)?;
        } else if self.registered_name.starts_with("e:") && !rc.is_disable_escape() {
            // a tag beginning with "e:" makes the local helper honour the escape toggle, like a helper
            // written with the default `HelperDef::call` does for its returned value
            out.write(&r.get_escape_fn()(&s))?;
        } else {
            out.write(&s)?;
        }
        Ok(())
    }
}

// ---------------------------------------------------------------------------------------------
// probe decorators
// ---------------------------------------------------------------------------------------------

struct SetHelper;

impl DecoratorDef for SetHelper {
    fn call<'reg: 'rc, 'rc>(
        &'reg self,
        d: &Decorator<'rc>,
        _r: &'reg Handlebars<'reg>,
        _ctx: &'rc Context,
        rc: &mut RenderContext<'reg, 'rc>,
    ) -> Result<(), RenderError> {
        let name = d
            .param(0)
            .and_then(|p| p.value().as_str())
            .ok_or_else(|| other("sethelper"))?
            .to_string();
        // optional second parameter: the tag the local helper prints (default: its name)
        let tag = d
            .param(1)
            .and_then(|p| p.value().as_str())
            .map(|s| s.to_string())
            .unwrap_or_else(|| name.clone());
        rc.register_local_helper(&name, Box::new(LocalHelper { registered_name: tag }));
        Ok(())
    }
}

struct SetCtx;

impl DecoratorDef for SetCtx {
    fn call<'reg: 'rc, 'rc>(
        &'reg self,
        d: &Decorator<'rc>,
        _r: &'reg Handlebars<'reg>,
        _ctx: &'rc Context,
        rc: &mut RenderContext<'reg, 'rc>,
    ) -> Result<(), RenderError> {
        let p = d
            .param(0)
            .ok_or(RenderErrorReason::ParamNotFoundForIndex("setctx", 0))?;
        rc.set_context(Context::wraps(p.value())?);
        Ok(())
    }
}

// ---------------------------------------------------------------------------------------------
// registration entry points
// ---------------------------------------------------------------------------------------------

pub fn register_probes(reg: &mut Handlebars<'static>) {
    reg.register_helper("dump", Box::new(Dump));
    reg.register_helper("dump2", Box::new(Dump));
    reg.register_helper("id", Box::new(Id));
    reg.register_helper("blk", Box::new(Blk));
    reg.register_helper("cnt", Box::new(Cnt));
    reg.register_helper("state", Box::new(State));
    reg.register_helper("evalp", Box::new(Evalp));
    reg.register_helper("fail", Box::new(Fail));
    // helper names that are paths, not identifiers
    reg.register_helper("ns.id", Box::new(Id));
    reg.register_helper("math/pi", Box::new(Dump));
    reg.register_decorator("sethelper", Box::new(SetHelper));
    reg.register_decorator("setctx", Box::new(SetCtx));
}

pub fn register_hooks(reg: &mut Handlebars<'static>, mask: u32) {
    if mask & 1 != 0 {
        reg.register_helper("helperMissing", Box::new(HelperMissing));
    }
    if mask & 2 != 0 {
        reg.register_helper("blockHelperMissing", Box::new(BlockHelperMissing));
    }
    if mask & 4 != 0 {
        // a value-returning hook (defined with `handlebars_helper!`, so `call` is the trait's default)
        reg.register_helper("helperMissing", Box::new(m0));
    }
}

/// Marking escape fn (`esc 2`).
pub fn marking_escape(s: &str) -> String {
    log_line(&format!("e({})", s));
    format!("\u{1}{}\u{2}", s)
}

// ---------------------------------------------------------------------------------------------
// §6 macro-defined helper family
// ---------------------------------------------------------------------------------------------

fn join_u64(x: &[u64]) -> String {
    x.iter().map(|n| n.to_string()).collect::<Vec<_>>().join(",")
}

handlebars_helper!(m_str: |x: str| format!("str:{}", x));
handlebars_helper!(m_i64: |x: i64| format!("i64:{}", x));
handlebars_helper!(m_u64: |x: u64| format!("u64:{}", x));
handlebars_helper!(m_f64: |x: f64| format!("f64:{}", x.to_bits()));
handlebars_helper!(m_bool: |x: bool| format!("bool:{}", x));
handlebars_helper!(m_arr: |x: array| format!("array:{}", x.len()));
handlebars_helper!(m_obj: |x: object| format!("object:{}", x.len()));
handlebars_helper!(m_null: |x: null| format!("null:{:?}", x));
handlebars_helper!(m_json: |x: Json| format!("json:{}", canon(x)));
handlebars_helper!(m_vec: |x: Vec<u64>| format!("vec:{}", join_u64(&x)));
handlebars_helper!(m0: | | "zero".to_string());
handlebars_helper!(m2: |a: i64, b: str| format!("m2:{}:{}", a, b));
handlebars_helper!(m3: |a: bool, b: Json, c: u64| format!("m3:{}:{}:{}", a, canon(b), c));
handlebars_helper!(mo0: |{k: u64 = 3}| format!("mo0:{}", k));
handlebars_helper!(mo1: |a: i64, {k: i64 = 7}| format!("mo1:{}:{}", a, k));
handlebars_helper!(mo2: |a: str, {k: str = "dflt", flag: bool = false}| format!("mo2:{}:{}:{}", a, k, flag));
handlebars_helper!(margs: |*args| format!(
    "args:{}",
    args.iter().map(|v| canon(v)).collect::<Vec<_>>().join(",")
));
handlebars_helper!(mkw: |**kwargs| format!(
    "kw:{}",
    kwargs
        .iter()
        .map(|(k, v)| format!("{}={}", xs(k), canon(v)))
        .collect::<Vec<_>>()
        .join(",")
));
handlebars_helper!(mall: |a: i64, {k: i64 = 1}, *args, **kwargs| format!(
    "mall:{}:{}:{}:{}",
    a,
    k,
    args.len(),
    kwargs.len()
));
handlebars_helper!(m_ret_i: |x: i64| x);
handlebars_helper!(m_ret_b: |x: Json| x.is_string());
handlebars_helper!(m_ret_j: |x: Json| x.clone());

pub fn register_macros(reg: &mut Handlebars<'static>) {
    reg.register_helper("m_str", Box::new(m_str));
    reg.register_helper("m_i64", Box::new(m_i64));
    reg.register_helper("m_u64", Box::new(m_u64));
    reg.register_helper("m_f64", Box::new(m_f64));
    reg.register_helper("m_bool", Box::new(m_bool));
    reg.register_helper("m_arr", Box::new(m_arr));
    reg.register_helper("m_obj", Box::new(m_obj));
    reg.register_helper("m_null", Box::new(m_null));
    reg.register_helper("m_json", Box::new(m_json));
    reg.register_helper("m_vec", Box::new(m_vec));
    reg.register_helper("m0", Box::new(m0));
    reg.register_helper("m2", Box::new(m2));
    reg.register_helper("m3", Box::new(m3));
    reg.register_helper("mo0", Box::new(mo0));
    reg.register_helper("mo1", Box::new(mo1));
    reg.register_helper("mo2", Box::new(mo2));
    reg.register_helper("margs", Box::new(margs));
    reg.register_helper("mkw", Box::new(mkw));
    reg.register_helper("mall", Box::new(mall));
    reg.register_helper("m_ret_i", Box::new(m_ret_i));
    reg.register_helper("m_ret_b", Box::new(m_ret_b));
    reg.register_helper("m_ret_j", Box::new(m_ret_j));
}
